//@ assume: same abstract types as C06/extending (backends with ghost discard/sync counters, the real `&mut` borrows, arbitrary closure); ChainStore::clone / batch abstract
//@ assume: T5: generic `PMMRHandle<BlockHeader>` => the abstract handle; lifetimes on Batch dropped; log macros removed. No statement of the function is rewritten. Obligations: postconditions over ghost operation logs of the backends (`ops`: 1 = discard, 2 = sync) plus the stronger assertion spliced before the final `res` (optional `before?` splice) relative to a ghost snapshot taken after the closure ran.
//@ assume: decided here: txhashset::extending_readonly (used for validation, tx pool checks, root/merkle-proof computation on a scratch extension) ALWAYS discards all four MMR backends, never syncs one, and leaves sizes and bitmap accumulator untouched -- whatever the closure did and whatever it returned; txhashset::header_extending_readonly (header-only validation, set_prev_root_only) likewise always discards the header backend and never commits its batch
//@ assumed_items: 21
//@ fns: txhashset::extending_readonly, txhashset::header_extending_readonly
#[verifier::external_body]
#[derive(Clone, Copy)]
pub struct Tip { _p: u8 }
#[verifier::external_body]
pub struct BitmapAccumulator { _p: u8 }
impl BitmapAccumulator {
    #[verifier::external_body]
    pub fn clone(&self) -> (r: BitmapAccumulator) ensures r == *self { unimplemented!() }
}
pub enum Error { Store, Other }
pub struct PMMRBackend { pub discards: Ghost<int>, pub syncs: Ghost<int>, pub content: Ghost<int>, pub ops: Ghost<Seq<int>> }
impl PMMRBackend {
    #[verifier::external_body]
    pub fn discard(&mut self) ensures final(self).discards@ == old(self).discards@ + 1, final(self).syncs@ == old(self).syncs@, final(self).ops@ == old(self).ops@.push(1) { unimplemented!() }
    #[verifier::external_body]
    pub fn sync(&mut self) -> (r: Result<(), Error>) ensures final(self).syncs@ == old(self).syncs@ + 1, final(self).discards@ == old(self).discards@, final(self).ops@ == old(self).ops@.push(2), r matches Err(e) ==> e is Store { unimplemented!() }
}
pub struct PMMRHandle { pub backend: PMMRBackend, pub size: u64 }
#[verifier::external_body]
pub struct Hash { _p: u8 }
#[verifier::external_body]
pub struct BlockHeader { _p: u8 }
impl PMMRHandle {
    #[verifier::external_body]
    pub fn head_hash(&self) -> (r: Result<Hash, Error>) { unimplemented!() }
}
impl Tip {
    #[verifier::external_body]
    pub fn from_header(h: &BlockHeader) -> (r: Tip) { unimplemented!() }
    #[verifier::external_body]
    pub fn default() -> (r: Tip) { unimplemented!() }
}
pub struct TxHashSet { pub output_pmmr_h: PMMRHandle, pub rproof_pmmr_h: PMMRHandle, pub kernel_pmmr_h: PMMRHandle, pub bitmap_accumulator: BitmapAccumulator, pub commit_index: ChainStore }
#[verifier::external_body]
pub struct ChainStore { _p: u8 }
impl ChainStore {
    #[verifier::external_body]
    pub fn clone(&self) -> (r: ChainStore) { unimplemented!() }
    #[verifier::external_body]
    pub fn batch(&self) -> (r: Result<Batch, Error>) { unimplemented!() }
}
pub struct Batch { pub commits: Ghost<int> }
impl Batch {
    #[verifier::external_body]
    pub fn head(&self) -> (r: Result<Tip, Error>) { unimplemented!() }
    #[verifier::external_body]
    pub fn header_head(&self) -> (r: Result<Tip, Error>) { unimplemented!() }
    #[verifier::external_body]
    pub fn get_block_header(&self, h: &Hash) -> (r: Result<BlockHeader, Error>) { unimplemented!() }
    #[verifier::external_body]
    pub fn child(&mut self) -> (r: Result<Batch, Error>) ensures final(self).commits@ == old(self).commits@ { unimplemented!() }
    #[verifier::external_body]
    pub fn commit(self) -> (r: Result<(), Error>) ensures r matches Err(e) ==> e is Store { unimplemented!() }
}
pub struct PMMR<'a> { pub backend: &'a mut PMMRBackend, pub size: u64 }
impl<'a> PMMR<'a> {
    #[verifier::external_body]
    pub fn at(backend: &'a mut PMMRBackend, size: u64) -> (r: PMMR<'a>) { unimplemented!() }
}
pub struct HeaderExtension<'a> { pub pmmr: PMMR<'a>, pub head: Tip, pub rollback: bool }
impl<'a> HeaderExtension<'a> {
    #[verifier::external_body]
    pub fn new(pmmr: PMMR<'a>, head: Tip) -> (r: HeaderExtension<'a>) { unimplemented!() }
}
pub struct Extension<'a> { pub trees: &'a mut TxHashSet, pub head: Tip, pub rollback: bool, pub bitmap_accumulator: BitmapAccumulator, pub szs: (u64, u64, u64) }
impl<'a> Extension<'a> {
    #[verifier::external_body]
    pub fn new(trees: &'a mut TxHashSet, head: Tip) -> (r: Extension<'a>) { unimplemented!() }
    pub fn sizes(&self) -> (r: (u64, u64, u64)) ensures r == self.szs { self.szs }
}
pub struct ExtensionPair<'b, 'a> { pub header_extension: &'b mut HeaderExtension<'a>, pub extension: &'b mut Extension<'a> }

/// the LAST thing done to a backend is a discard (1) / a sync (2) -- whatever an arbitrary closure did to it before
pub open spec fn ends_with(b: PMMRBackend, op: int) -> bool { b.ops@.len() > 0 && b.ops@.last() == op }
pub open spec fn untouched_or_discarded(now: PMMRHandle, before: PMMRHandle) -> bool { now.size == before.size && (now.backend == before.backend || ends_with(now.backend, 1)) }
/// (the tree handles' sizes and the accumulator are reachable by the closure through `&mut TxHashSet`, so only the exit
/// assertions, relative to the snapshot taken after the closure ran, can speak about them)
pub open spec fn backend_rolled_back(now: PMMRBackend, before: PMMRBackend) -> bool { now == before || ends_with(now, 1) }
pub open spec fn trees_rolled_back(now: TxHashSet, before: TxHashSet) -> bool {
    backend_rolled_back(now.output_pmmr_h.backend, before.output_pmmr_h.backend) && backend_rolled_back(now.rproof_pmmr_h.backend, before.rproof_pmmr_h.backend)
    && backend_rolled_back(now.kernel_pmmr_h.backend, before.kernel_pmmr_h.backend)
}
pub open spec fn trees_synced(now: TxHashSet) -> bool { ends_with(now.output_pmmr_h.backend, 2) && ends_with(now.rproof_pmmr_h.backend, 2) && ends_with(now.kernel_pmmr_h.backend, 2) }
pub open spec fn discarded_since(now: TxHashSet, mid: TxHashSet) -> bool {
    &&& now.output_pmmr_h.backend.discards@ == mid.output_pmmr_h.backend.discards@ + 1 && now.output_pmmr_h.backend.syncs@ == mid.output_pmmr_h.backend.syncs@
    &&& now.rproof_pmmr_h.backend.discards@ == mid.rproof_pmmr_h.backend.discards@ + 1 && now.rproof_pmmr_h.backend.syncs@ == mid.rproof_pmmr_h.backend.syncs@
    &&& now.kernel_pmmr_h.backend.discards@ == mid.kernel_pmmr_h.backend.discards@ + 1 && now.kernel_pmmr_h.backend.syncs@ == mid.kernel_pmmr_h.backend.syncs@
    &&& now.output_pmmr_h.size == mid.output_pmmr_h.size && now.rproof_pmmr_h.size == mid.rproof_pmmr_h.size && now.kernel_pmmr_h.size == mid.kernel_pmmr_h.size
    &&& now.bitmap_accumulator == mid.bitmap_accumulator
}

//@ extract chain/src/txhashset/txhashset.rs :: fn extending_readonly
//@   strip_logs
//@   sigrewrite `handle: &mut PMMRHandle<BlockHeader>,` => `handle: &mut PMMRHandle,`
//@   sigrewrite `F: FnOnce(&mut ExtensionPair<'_>, &mut Batch<'_>) -> Result<T, Error>,` => `F: FnOnce(&mut ExtensionPair<'_, '_>, &mut Batch) -> Result<T, Error>,`
//@   before? `\thandle.backend.discard();`:
//@+    let ghost mid = *trees;
//@+    let ghost mid_h = *handle;
//@   before? `\tres\n}`:
//@+    proof { assert(discarded_since(*trees, mid)); assert(handle.backend.discards@ == mid_h.backend.discards@ + 1 && handle.backend.syncs@ == mid_h.backend.syncs@ && handle.size == mid_h.size); }
//@   requires:
//@+    forall|e: &mut ExtensionPair, b: &mut Batch| inner.requires((e, b)),
//@   ensures:
//@+    // whatever the closure did and returned: nothing is synced, every backend that was touched ends in a discard, sizes and accumulator as before
//@+    trees_rolled_back(*final(trees), *old(trees)) && untouched_or_discarded(*final(handle), *old(handle)),
//@+    r.is_ok() ==> ends_with(final(handle).backend, 1) && ends_with(final(trees).output_pmmr_h.backend, 1) && ends_with(final(trees).rproof_pmmr_h.backend, 1) && ends_with(final(trees).kernel_pmmr_h.backend, 1),
//@ end
//@ extract chain/src/txhashset/txhashset.rs :: fn header_extending_readonly
//@   strip_logs
//@   sigrewrite `handle: &mut PMMRHandle<BlockHeader>,` => `handle: &mut PMMRHandle,`
//@   sigrewrite `F: FnOnce(&mut HeaderExtension<'_>, &mut Batch<'_>) -> Result<T, Error>,` => `F: FnOnce(&mut HeaderExtension<'_>, &mut Batch) -> Result<T, Error>,`
//@   requires:
//@+    forall|e: &mut HeaderExtension, b: &mut Batch| inner.requires((e, b)),
//@   ensures:
//@+    // whatever the closure did and returned: the header backend is never synced here, its size is as before, and if it was touched at all the LAST thing done to it is a discard
//@+    untouched_or_discarded(*final(handle), *old(handle)),
//@+    r.is_ok() ==> ends_with(final(handle).backend, 1),
//@ end
//@ canary extending_readonly: r.is_err()
