//@ assume: DataFile and LeafSet are abstract here; their discard contracts are the ones PROVED on the real code in C06/append_only_file (AppendOnlyFile::discard, which DataFile::discard delegates to) and C02/leaf_set (LeafSet::discard): the pending view becomes the last flushed view
//@ assume: PruneList is abstract in the same way (pending / flushed reading of its bitmap of pruned roots; append_pruned_subtree -- the PIBD path -- extends the pending one): PruneList::discard is decided on the real code in C08/prune_list
//@ assume: decided here (C08 'discarding uncommitted work never changes what the MMR reports', C06): PMMRBackend::discard makes the pending view of ALL FOUR stores -- hash file, data file, leaf set AND prune list -- the last flushed view, and leaves the flags untouched. (Until round 13 this contract said 'leaves the prune list untouched', a transcription of the code: finding F26)
//@ assumed_items: 6
//@ fns: PMMRBackend::discard

#[verifier::external_body]
pub struct DataFile { _p: u8 }
#[verifier::external_body]
pub struct LeafSet { _p: u8 }
#[verifier::external_body]
pub struct PruneList { _p: u8 }
pub struct PMMRBackend { pub prunable: bool, pub hash_file: DataFile, pub data_file: DataFile, pub leaf_set: LeafSet, pub prune_list: PruneList }

impl DataFile {
    pub uninterp spec fn pending(&self) -> Seq<int>;   // elements visible to reads (flushed + buffered, after rewinds)
    pub uninterp spec fn flushed(&self) -> Seq<int>;   // elements on disk after the last flush
    #[verifier::external_body]
    pub fn discard(&mut self)
        ensures final(self).pending() == old(self).flushed(), final(self).flushed() == old(self).flushed()
    { unimplemented!() }
}
impl LeafSet {
    pub uninterp spec fn pending(&self) -> Set<int>;
    pub uninterp spec fn flushed(&self) -> Set<int>;
    #[verifier::external_body]
    pub fn discard(&mut self)
        ensures final(self).pending() == old(self).flushed(), final(self).flushed() == old(self).flushed()
    { unimplemented!() }
}

impl PruneList {
    pub uninterp spec fn pending(&self) -> Set<int>;
    pub uninterp spec fn flushed(&self) -> Set<int>;
    #[verifier::external_body]
    pub fn discard(&mut self)
        ensures final(self).pending() == old(self).flushed(), final(self).flushed() == old(self).flushed()
    { unimplemented!() }
}

impl PMMRBackend {
//@ extract store/src/pmmr.rs :: impl PMMRBackend::discard
//@   ensures:
//@+    final(self).hash_file.pending() == old(self).hash_file.flushed(),
//@+    final(self).data_file.pending() == old(self).data_file.flushed(),
//@+    final(self).leaf_set.pending() == old(self).leaf_set.flushed(),
//@+    final(self).prune_list.pending() == old(self).prune_list.flushed(),
//@+    final(self).prunable == old(self).prunable,
//@ end
}
//@ canary discard: final(self).hash_file.pending() == old(self).hash_file.pending()
