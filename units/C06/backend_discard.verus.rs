//@ assume: DataFile and LeafSet are abstract here; their discard contracts are the ones PROVED on the real code in C06/append_only_file (AppendOnlyFile::discard, which DataFile::discard delegates to) and C02/leaf_set (LeafSet::discard): the pending view becomes the last flushed view
//@ assume: decided here: PMMRBackend::discard discards all three stores (hash file, data file, leaf set) and leaves the prune list and flags untouched
//@ assumed_items: 5
//@ fns: PMMRBackend::discard

#[verifier::external_body]
pub struct DataFile { _p: u8 }
#[verifier::external_body]
pub struct LeafSet { _p: u8 }
#[verifier::external_body]
pub struct PruneList { _p: u8 }
pub struct PMMRBackend { pub prunable: bool, pub hash_file: DataFile, pub data_file: DataFile, pub leaf_set: LeafSet, pub prune_list: PruneList }

impl DataFile {
    pub uninterp spec fn pending(&self) -> Seq<int>;   // elements visible to reads (flushed + buffered, after rewinds)
    pub uninterp spec fn flushed(&self) -> Seq<int>;   // elements on disk after the last flush
    #[verifier::external_body]
    pub fn discard(&mut self)
        ensures final(self).pending() == old(self).flushed(), final(self).flushed() == old(self).flushed()
    { unimplemented!() }
}
impl LeafSet {
    pub uninterp spec fn pending(&self) -> Set<int>;
    pub uninterp spec fn flushed(&self) -> Set<int>;
    #[verifier::external_body]
    pub fn discard(&mut self)
        ensures final(self).pending() == old(self).flushed(), final(self).flushed() == old(self).flushed()
    { unimplemented!() }
}

impl PMMRBackend {
//@ extract store/src/pmmr.rs :: impl PMMRBackend::discard
//@   ensures:
//@+    final(self).hash_file.pending() == old(self).hash_file.flushed(),
//@+    final(self).data_file.pending() == old(self).data_file.flushed(),
//@+    final(self).leaf_set.pending() == old(self).leaf_set.flushed(),
//@+    final(self).prune_list == old(self).prune_list,
//@+    final(self).prunable == old(self).prunable,
//@ end
}
//@ canary discard: final(self).hash_file.pending() == old(self).hash_file.pending()
