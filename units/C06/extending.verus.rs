//@ assume: PMMRHandle / PMMRBackend / TxHashSet / Batch / PMMR / HeaderExtension / Extension are abstract (same field structure and the same `&'a mut` borrows as the real types; backends carry ghost counters of discard() and sync() calls); HeaderExtension::new / Extension::new / PMMR::at are abstract constructors that take the real borrows; the closure `inner` is arbitrary (any FnOnce with the real signature): whatever it does to the extension, the batch and -- through the borrows -- the backends
//@ assume: T5: generic `PMMRHandle<BlockHeader>` => the abstract handle; lifetimes on Batch dropped; log macros removed (T3). No statement of the function is rewritten.
//@ assume: the obligations are (i) postconditions over ghost operation logs of the backends (`ops`: 1 = discard, 2 = sync; 'untouched, or the last operation is a discard'), which survive a restructuring of the exits, and (ii) the stronger assertions spliced at the two exits (T4, optional `before?` splices, dropped when an exit is textually gone) relative to a ghost snapshot `mid` taken right after the closure ran (the closure's own effects are arbitrary and cannot be stated against old())
//@ assume: decided here: the unit-of-work wrapper of every block/fork application -- txhashset::extending -- DISCARDS everything when the closure fails or forces a rollback (losing-fork / no-more-work blocks): all three MMR backends and the header backend get discard(), none is synced, the MMR sizes and the bitmap accumulator of the TxHashSet are NOT touched; and it commits (child batch commit, three syncs, sizes and bitmap accumulator taken from the extension) only on Ok without rollback; the closure's result is returned unchanged
//@ assumed_items: 12
//@ fns: txhashset::extending
#[verifier::external_body]
#[derive(Clone, Copy)]
pub struct Tip { _p: u8 }
#[verifier::external_body]
pub struct BitmapAccumulator { _p: u8 }
impl BitmapAccumulator {
    #[verifier::external_body]
    pub fn clone(&self) -> (r: BitmapAccumulator) ensures r == *self { unimplemented!() }
}
pub enum Error { Store, Other }
pub struct PMMRBackend { pub discards: Ghost<int>, pub syncs: Ghost<int>, pub content: Ghost<int>, pub ops: Ghost<Seq<int>> }
impl PMMRBackend {
    #[verifier::external_body]
    pub fn discard(&mut self) ensures final(self).discards@ == old(self).discards@ + 1, final(self).syncs@ == old(self).syncs@, final(self).ops@ == old(self).ops@.push(1) { unimplemented!() }
    #[verifier::external_body]
    pub fn sync(&mut self) -> (r: Result<(), Error>) ensures final(self).syncs@ == old(self).syncs@ + 1, final(self).discards@ == old(self).discards@, final(self).ops@ == old(self).ops@.push(2), r matches Err(e) ==> e is Store { unimplemented!() }
}
pub struct PMMRHandle { pub backend: PMMRBackend, pub size: u64 }
pub struct TxHashSet { pub output_pmmr_h: PMMRHandle, pub rproof_pmmr_h: PMMRHandle, pub kernel_pmmr_h: PMMRHandle, pub bitmap_accumulator: BitmapAccumulator }
pub struct Batch { pub commits: Ghost<int> }
impl Batch {
    #[verifier::external_body]
    pub fn head(&self) -> (r: Result<Tip, Error>) { unimplemented!() }
    #[verifier::external_body]
    pub fn header_head(&self) -> (r: Result<Tip, Error>) { unimplemented!() }
    #[verifier::external_body]
    pub fn child(&mut self) -> (r: Result<Batch, Error>) ensures final(self).commits@ == old(self).commits@ { unimplemented!() }
    #[verifier::external_body]
    pub fn commit(self) -> (r: Result<(), Error>) ensures r matches Err(e) ==> e is Store { unimplemented!() }
}
pub struct PMMR<'a> { pub backend: &'a mut PMMRBackend, pub size: u64 }
impl<'a> PMMR<'a> {
    #[verifier::external_body]
    pub fn at(backend: &'a mut PMMRBackend, size: u64) -> (r: PMMR<'a>) { unimplemented!() }
}
pub struct HeaderExtension<'a> { pub pmmr: PMMR<'a>, pub head: Tip, pub rollback: bool }
impl<'a> HeaderExtension<'a> {
    #[verifier::external_body]
    pub fn new(pmmr: PMMR<'a>, head: Tip) -> (r: HeaderExtension<'a>) { unimplemented!() }
}
pub struct Extension<'a> { pub trees: &'a mut TxHashSet, pub head: Tip, pub rollback: bool, pub bitmap_accumulator: BitmapAccumulator, pub szs: (u64, u64, u64) }
impl<'a> Extension<'a> {
    #[verifier::external_body]
    pub fn new(trees: &'a mut TxHashSet, head: Tip) -> (r: Extension<'a>) { unimplemented!() }
    pub fn sizes(&self) -> (r: (u64, u64, u64)) ensures r == self.szs { self.szs }
}
pub struct ExtensionPair<'b, 'a> { pub header_extension: &'b mut HeaderExtension<'a>, pub extension: &'b mut Extension<'a> }

/// the LAST thing done to a backend is a discard (1) / a sync (2) -- whatever an arbitrary closure did to it before
pub open spec fn ends_with(b: PMMRBackend, op: int) -> bool { b.ops@.len() > 0 && b.ops@.last() == op }
pub open spec fn untouched_or_discarded(now: PMMRHandle, before: PMMRHandle) -> bool { now.size == before.size && (now.backend == before.backend || ends_with(now.backend, 1)) }
/// (the tree handles' sizes and the accumulator are reachable by the closure through `&mut TxHashSet`, so only the exit
/// assertions, relative to the snapshot taken after the closure ran, can speak about them)
pub open spec fn backend_rolled_back(now: PMMRBackend, before: PMMRBackend) -> bool { now == before || ends_with(now, 1) }
pub open spec fn trees_rolled_back(now: TxHashSet, before: TxHashSet) -> bool {
    backend_rolled_back(now.output_pmmr_h.backend, before.output_pmmr_h.backend) && backend_rolled_back(now.rproof_pmmr_h.backend, before.rproof_pmmr_h.backend)
    && backend_rolled_back(now.kernel_pmmr_h.backend, before.kernel_pmmr_h.backend)
}
pub open spec fn trees_synced(now: TxHashSet) -> bool { ends_with(now.output_pmmr_h.backend, 2) && ends_with(now.rproof_pmmr_h.backend, 2) && ends_with(now.kernel_pmmr_h.backend, 2) }
pub open spec fn discarded_since(now: TxHashSet, mid: TxHashSet) -> bool {
    &&& now.output_pmmr_h.backend.discards@ == mid.output_pmmr_h.backend.discards@ + 1 && now.output_pmmr_h.backend.syncs@ == mid.output_pmmr_h.backend.syncs@
    &&& now.rproof_pmmr_h.backend.discards@ == mid.rproof_pmmr_h.backend.discards@ + 1 && now.rproof_pmmr_h.backend.syncs@ == mid.rproof_pmmr_h.backend.syncs@
    &&& now.kernel_pmmr_h.backend.discards@ == mid.kernel_pmmr_h.backend.discards@ + 1 && now.kernel_pmmr_h.backend.syncs@ == mid.kernel_pmmr_h.backend.syncs@
    &&& now.output_pmmr_h.size == mid.output_pmmr_h.size && now.rproof_pmmr_h.size == mid.rproof_pmmr_h.size && now.kernel_pmmr_h.size == mid.kernel_pmmr_h.size
    &&& now.bitmap_accumulator == mid.bitmap_accumulator
}
pub open spec fn committed_since(now: TxHashSet, mid: TxHashSet, sizes: (u64, u64, u64), acc: BitmapAccumulator) -> bool {
    &&& now.output_pmmr_h.backend.syncs@ == mid.output_pmmr_h.backend.syncs@ + 1 && now.output_pmmr_h.backend.discards@ == mid.output_pmmr_h.backend.discards@
    &&& now.rproof_pmmr_h.backend.syncs@ == mid.rproof_pmmr_h.backend.syncs@ + 1 && now.rproof_pmmr_h.backend.discards@ == mid.rproof_pmmr_h.backend.discards@
    &&& now.kernel_pmmr_h.backend.syncs@ == mid.kernel_pmmr_h.backend.syncs@ + 1 && now.kernel_pmmr_h.backend.discards@ == mid.kernel_pmmr_h.backend.discards@
    &&& now.output_pmmr_h.size == sizes.0 && now.rproof_pmmr_h.size == sizes.1 && now.kernel_pmmr_h.size == sizes.2
    &&& now.bitmap_accumulator == acc
}

//@ extract chain/src/txhashset/txhashset.rs :: fn extending
//@   strip_logs
//@   sigrewrite `header_pmmr: &'a mut PMMRHandle<BlockHeader>,` => `header_pmmr: &'a mut PMMRHandle,`
//@   sigrewrite `batch: &'a mut Batch<'_>,` => `batch: &'a mut Batch,`
//@   sigrewrite `F: FnOnce(&mut ExtensionPair<'_>, &mut Batch<'_>) -> Result<T, Error>,` => `F: FnOnce(&mut ExtensionPair<'_, '_>, &mut Batch) -> Result<T, Error>,`
//@   before? `header_pmmr.backend.discard();`:
//@+    let ghost mid = *trees;
//@+    let ghost mid_h = *header_pmmr;
//@   before? `\t\t\tErr(e)\n\t\t}`:
//@+    proof { assert(discarded_since(*trees, mid)); assert(header_pmmr.backend.discards@ == mid_h.backend.discards@ + 1 && header_pmmr.backend.syncs@ == mid_h.backend.syncs@ && header_pmmr.size == mid_h.size); }
//@   before? `\t\t\tOk(r)\n\t\t}`:
//@+    proof {
//@+        assert(rollback ==> discarded_since(*trees, mid));
//@+        assert(!rollback ==> committed_since(*trees, mid, sizes, bitmap_accumulator));
//@+        assert(header_pmmr.backend.discards@ == mid_h.backend.discards@ + 1 && header_pmmr.backend.syncs@ == mid_h.backend.syncs@ && header_pmmr.size == mid_h.size);
//@+    }
//@   requires:
//@+    forall|e: &mut ExtensionPair, b: &mut Batch| inner.requires((e, b)),
//@   ensures:
//@+    // postconditions over the ghost operation logs: they survive a restructuring of the exits
//@+    (r matches Err(e) && e is Other) ==> trees_rolled_back(*final(trees), *old(trees)) && untouched_or_discarded(*final(header_pmmr), *old(header_pmmr)),
//@+    r.is_ok() ==> untouched_or_discarded(*final(header_pmmr), *old(header_pmmr)) && ends_with(final(header_pmmr).backend, 1)
//@+        && (trees_synced(*final(trees)) || (trees_rolled_back(*final(trees), *old(trees)) && ends_with(final(trees).output_pmmr_h.backend, 1)
//@+            && ends_with(final(trees).rproof_pmmr_h.backend, 1) && ends_with(final(trees).kernel_pmmr_h.backend, 1))),
//@ end
//@ canary extending: r.is_err()
