//@ assume: the three PMMR handles of an Extension are abstract with a ghost log: rewind(pos, bitmap) records (pos, the bitmap's set) and push(kernel) appends the kernel and answers its 0-based position (PMMR::rewind / push are under contract in C07/pmmr_rewind, C07/pmmr_push); apply_kernel_rules (the NRD rule: C13/nrd_rule) is abstract with a ghost log of (kernel, position, height); croaring::Bitmap is a set; T6: `spent_pos.iter().map(|x| *x as u32).collect()` => helper bitmap_of over the lifted, verified closure (the narrowing cast is the closure's); `\n.map_err(&Error::TxHashSetErr)?` => `?` against callees that already return the final error; `for kernel in kernels {` => index loop
//@ assume: decided here (C06 / C15 / C02, what every rewind and every block application ASSUMES of these three helpers): Extension::rewind_mmrs_to_pos rewinds ALL THREE MMRs -- the output and the range-proof MMR to the SAME output position with the SAME bitmap of spent positions to restore, the kernel MMR to the kernel position with an EMPTY bitmap -- or fails; apply_kernels pushes EVERY kernel of the slice, in order, onto the kernel MMR and applies the kernel rules to each with its own 1-based position and the height given; apply_kernel answers the pushed position plus one
//@ assumed_items: 4
//@ fns: Extension::rewind_mmrs_to_pos (+ closure), Extension::apply_kernels, Extension::apply_kernel
global size_of usize == 8;
pub enum Error { TxHashSetErr, Other }
#[derive(Clone, Copy, PartialEq, Eq, Structural)]
pub struct TxKernel { pub id: u64 }
#[derive(Clone, Copy, PartialEq, Eq, Structural)]
pub struct CommitPos { pub pos: u64, pub height: u64 }
pub struct Bitmap { pub s: Ghost<Set<int>> }
impl Bitmap {
    pub fn new() -> (r: Bitmap) ensures r.s@ == Set::<int>::empty() { Bitmap { s: Ghost(Set::empty()) } }
}
pub open spec fn sp_u32s(v: Seq<u64>) -> Set<int> { v.map_values(|x: u64| (x as u32) as int).to_set() }
/// `.iter().map(f).collect()` into a Bitmap, f = the lifted closure
#[verifier::external_body]
pub fn bitmap_of(v: &[u64]) -> (r: Bitmap) ensures r.s@ == sp_u32s(v@) { unimplemented!() }
pub struct Pmmr { pub rewinds: Ghost<Seq<(u64, Set<int>)>>, pub pushed: Ghost<Seq<TxKernel>>, pub base: Ghost<u64> }
impl Pmmr {
    #[verifier::external_body]
    pub fn rewind(&mut self, pos: u64, b: &Bitmap) -> (r: Result<(), Error>)
        ensures r.is_ok() ==> final(self).rewinds@ == old(self).rewinds@.push((pos, b.s@)), r.is_err() ==> final(self).rewinds@ == old(self).rewinds@, final(self).pushed@ == old(self).pushed@ { unimplemented!() }
    /// the position answered is opaque here except that it leaves room for `1 + pos`
    #[verifier::external_body]
    pub fn push(&mut self, k: &TxKernel) -> (r: Result<u64, Error>)
        ensures r.is_ok() ==> final(self).pushed@ == old(self).pushed@.push(*k) && r->Ok_0 < u64::MAX && r->Ok_0 == sp_push_pos(old(self).pushed@.len()), r.is_err() ==> final(self).pushed@ == old(self).pushed@,
            final(self).rewinds@ == old(self).rewinds@ { unimplemented!() }
}
/// 0-based position the n-th push lands at (C07/pmmr_push decides it)
pub uninterp spec fn sp_push_pos(n: nat) -> u64;
pub struct Batch { pub rules: Ghost<Seq<(TxKernel, CommitPos)>> }
#[verifier::external_body]
pub fn apply_kernel_rules(kernel: &TxKernel, pos: CommitPos, batch: &mut Batch) -> (r: Result<(), Error>)
    ensures r.is_ok() ==> final(batch).rules@ == old(batch).rules@.push((*kernel, pos)), r.is_err() ==> final(batch).rules@ == old(batch).rules@ { unimplemented!() }
pub struct Extension { pub output_pmmr: Pmmr, pub rproof_pmmr: Pmmr, pub kernel_pmmr: Pmmr }
impl Extension {
//@ extract chain/src/txhashset/txhashset.rs :: impl Extension::rewind_mmrs_to_pos
//@   eclosure 1 lifted_as `fn as_u32(x: &u64) -> u32`
//@   ensures:
//@+    r == (*x as u32),
//@ end
//@ extract chain/src/txhashset/txhashset.rs :: impl Extension::rewind_mmrs_to_pos
//@   eclosure 1 replaced_by `AS_U32`
//@   rewrite `spent_pos.iter().map(AS_U32).collect()` => `bitmap_of(spent_pos)`
//@   rewrite `\n\t\t\t.map_err(&Error::TxHashSetErr)?;` => `?;` x3
//@   rewrite `self.output_pmmr\n\t\t\t.rewind(` => `self.output_pmmr.rewind(`
//@   rewrite `self.rproof_pmmr\n\t\t\t.rewind(` => `self.rproof_pmmr.rewind(`
//@   rewrite `self.kernel_pmmr\n\t\t\t.rewind(` => `self.kernel_pmmr.rewind(`
//@   ensures:
//@+    r.is_ok() ==> final(self).output_pmmr.rewinds@ == old(self).output_pmmr.rewinds@.push((output_pos, sp_u32s(spent_pos@)))
//@+        && final(self).rproof_pmmr.rewinds@ == old(self).rproof_pmmr.rewinds@.push((output_pos, sp_u32s(spent_pos@)))
//@+        && final(self).kernel_pmmr.rewinds@ == old(self).kernel_pmmr.rewinds@.push((kernel_pos, Set::<int>::empty())),
//@ end
//@ extract chain/src/txhashset/txhashset.rs :: impl Extension::apply_kernel
//@   rewrite `\n\t\t\t.map_err(&Error::TxHashSetErr)?;` => `?;`
//@   rewrite `let pos = self\n\t\t\t.kernel_pmmr\n\t\t\t.push(kernel)` => `let pos = self.kernel_pmmr.push(kernel)`
//@   ensures:
//@+    r matches Ok(p) ==> final(self).kernel_pmmr.pushed@ == old(self).kernel_pmmr.pushed@.push(*kernel) && p == 1 + sp_push_pos(old(self).kernel_pmmr.pushed@.len()),
//@+    r.is_err() ==> final(self).kernel_pmmr.pushed@ == old(self).kernel_pmmr.pushed@,
//@+    final(self).output_pmmr == old(self).output_pmmr, final(self).rproof_pmmr == old(self).rproof_pmmr, final(self).kernel_pmmr.rewinds@ == old(self).kernel_pmmr.rewinds@,
//@ end
//@ extract chain/src/txhashset/txhashset.rs :: impl Extension::apply_kernels
//@   sigrewrite `batch: &mut Batch<'_>` => `batch: &mut Batch`
//@   rewrite `for kernel in kernels {` => `let mut ki: usize = 0; while ki < kernels.len() { let kernel = &kernels[ki]; ki += 1;`
//@   ensures:
//@+    r.is_ok() ==> final(self).kernel_pmmr.pushed@ == old(self).kernel_pmmr.pushed@ + kernels@
//@+        && final(batch).rules@ == old(batch).rules@ + Seq::new(kernels@.len(), |i: int| (kernels@[i], CommitPos { pos: (1 + sp_push_pos((old(self).kernel_pmmr.pushed@.len() + i) as nat)) as u64, height: height })),
//@+    final(self).output_pmmr == old(self).output_pmmr, final(self).rproof_pmmr == old(self).rproof_pmmr,
//@   loop 1:
//@+    invariant
//@+        ki <= kernels@.len(), self.output_pmmr == old(self).output_pmmr, self.rproof_pmmr == old(self).rproof_pmmr,
//@+        self.kernel_pmmr.pushed@ =~= old(self).kernel_pmmr.pushed@ + kernels@.take(ki as int),
//@+        batch.rules@ =~= old(batch).rules@ + Seq::new(ki as nat, |i: int| (kernels@[i], CommitPos { pos: (1 + sp_push_pos((old(self).kernel_pmmr.pushed@.len() + i) as nat)) as u64, height: height })),
//@+    decreases kernels@.len() - ki,
//@   before `Ok(())`:
//@+    proof { assert(kernels@.take(kernels@.len() as int) =~= kernels@); }
//@ end
}
//@ canary apply_kernels: r.is_err()
