//@ assume: same abstract types as C06/extending (handle, backend with ghost discard/sync counters, PMMR / HeaderExtension holding the real `&mut` borrows); the closure is arbitrary; handle.head_hash / Batch::get_block_header / Tip::from_header / Tip::default abstract
//@ assume: T5: generic `PMMRHandle<BlockHeader>` => the abstract handle; lifetimes on Batch dropped. No statement of the function is rewritten. Obligations: (i) postconditions over a ghost log of backend operations (`ops`: 1 = discard, 2 = sync), which survive a restructuring of the exits, and (ii) the stronger assertions spliced at the two textual exits of `match res {..}` relative to a ghost snapshot taken after the closure ran -- optional splices (`before?`), dropped when those exits are no longer there.
//@ assume: decided here: txhashset::header_extending -- the unit of work around every header (batch) application -- discards the header MMR backend and leaves its size untouched when the closure fails or forces a rollback (no-more-work headers), and syncs it, commits the child batch and takes the extension's size only on Ok without rollback
//@ assumed_items: 19
//@ fns: txhashset::header_extending
#[verifier::external_body]
#[derive(Clone, Copy)]
pub struct Tip { _p: u8 }
#[verifier::external_body]
pub struct BitmapAccumulator { _p: u8 }
impl BitmapAccumulator {
    #[verifier::external_body]
    pub fn clone(&self) -> (r: BitmapAccumulator) ensures r == *self { unimplemented!() }
}
pub enum Error { Store, Other }
pub struct PMMRBackend { pub discards: Ghost<int>, pub syncs: Ghost<int>, pub content: Ghost<int>, pub ops: Ghost<Seq<int>> }
impl PMMRBackend {
    #[verifier::external_body]
    pub fn discard(&mut self) ensures final(self).discards@ == old(self).discards@ + 1, final(self).syncs@ == old(self).syncs@, final(self).ops@ == old(self).ops@.push(1) { unimplemented!() }
    #[verifier::external_body]
    pub fn sync(&mut self) -> (r: Result<(), Error>) ensures final(self).syncs@ == old(self).syncs@ + 1, final(self).discards@ == old(self).discards@, final(self).ops@ == old(self).ops@.push(2), r matches Err(e) ==> e is Store { unimplemented!() }
}
pub struct PMMRHandle { pub backend: PMMRBackend, pub size: u64 }
pub struct TxHashSet { pub output_pmmr_h: PMMRHandle, pub rproof_pmmr_h: PMMRHandle, pub kernel_pmmr_h: PMMRHandle, pub bitmap_accumulator: BitmapAccumulator }
pub struct Batch { pub commits: Ghost<int> }
impl Batch {
    #[verifier::external_body]
    pub fn head(&self) -> (r: Result<Tip, Error>) { unimplemented!() }
    #[verifier::external_body]
    pub fn header_head(&self) -> (r: Result<Tip, Error>) { unimplemented!() }
    #[verifier::external_body]
    pub fn child(&mut self) -> (r: Result<Batch, Error>) ensures final(self).commits@ == old(self).commits@ { unimplemented!() }
    #[verifier::external_body]
    pub fn commit(self) -> (r: Result<(), Error>) ensures r matches Err(e) ==> e is Store { unimplemented!() }
}
pub struct PMMR<'a> { pub backend: &'a mut PMMRBackend, pub size: u64 }
impl<'a> PMMR<'a> {
    #[verifier::external_body]
    pub fn at(backend: &'a mut PMMRBackend, size: u64) -> (r: PMMR<'a>) { unimplemented!() }
}
pub struct HeaderExtension<'a> { pub pmmr: PMMR<'a>, pub head: Tip, pub rollback: bool }
impl<'a> HeaderExtension<'a> {
    #[verifier::external_body]
    pub fn new(pmmr: PMMR<'a>, head: Tip) -> (r: HeaderExtension<'a>) { unimplemented!() }
}
pub struct Extension<'a> { pub trees: &'a mut TxHashSet, pub head: Tip, pub rollback: bool, pub bitmap_accumulator: BitmapAccumulator, pub szs: (u64, u64, u64) }
impl<'a> Extension<'a> {
    #[verifier::external_body]
    pub fn new(trees: &'a mut TxHashSet, head: Tip) -> (r: Extension<'a>) { unimplemented!() }
    pub fn sizes(&self) -> (r: (u64, u64, u64)) ensures r == self.szs { self.szs }
}
pub struct ExtensionPair<'b, 'a> { pub header_extension: &'b mut HeaderExtension<'a>, pub extension: &'b mut Extension<'a> }


impl PMMRHandle {
    #[verifier::external_body]
    pub fn head_hash(&self) -> (r: Result<Hash, Error>) { unimplemented!() }
}
#[verifier::external_body]
#[derive(Clone, Copy)]
pub struct Hash { _p: u8 }
#[verifier::external_body]
pub struct BlockHeader { _p: u8 }
impl Batch {
    #[verifier::external_body]
    pub fn get_block_header(&self, h: &Hash) -> (r: Result<BlockHeader, Error>) { unimplemented!() }
}
impl Tip {
    #[verifier::external_body]
    pub fn from_header(h: &BlockHeader) -> (r: Tip) { unimplemented!() }
    #[verifier::external_body]
    pub fn default() -> (r: Tip) { unimplemented!() }
}
impl<'a> HeaderExtension<'a> {
    #[verifier::external_body]
    pub fn size(&self) -> (r: u64) { unimplemented!() }
}

//@ extract chain/src/txhashset/txhashset.rs :: fn header_extending
//@   sigrewrite `handle: &'a mut PMMRHandle<BlockHeader>,` => `handle: &'a mut PMMRHandle,`
//@   sigrewrite `batch: &'a mut Batch<'_>,` => `batch: &'a mut Batch,`
//@   sigrewrite `F: FnOnce(&mut HeaderExtension<'_>, &mut Batch<'_>) -> Result<T, Error>,` => `F: FnOnce(&mut HeaderExtension<'_>, &mut Batch) -> Result<T, Error>,`
//@   before? `\tmatch res {`:
//@+    let ghost mid = *handle;
//@   before? `\t\t\tErr(e)\n\t\t}`:
//@+    proof { assert(handle.backend.discards@ == mid.backend.discards@ + 1 && handle.backend.syncs@ == mid.backend.syncs@ && handle.size == mid.size); }
//@   before? `\t\t\tOk(r)\n\t\t}`:
//@+    proof {
//@+        assert(rollback ==> handle.backend.discards@ == mid.backend.discards@ + 1 && handle.backend.syncs@ == mid.backend.syncs@ && handle.size == mid.size);
//@+        assert(!rollback ==> handle.backend.syncs@ == mid.backend.syncs@ + 1 && handle.backend.discards@ == mid.backend.discards@ && handle.size == size);
//@+    }
//@   requires:
//@+    forall|e: &mut HeaderExtension, b: &mut Batch| inner.requires((e, b)),
//@   ensures:
//@+    // whatever the closure did (its effects on the backend are arbitrary): an error that is not a store failure of
//@+    // commit / sync leaves the size alone and either nothing was touched at all or the LAST thing done to the backend is a discard
//@+    (r matches Err(e) && e is Other) ==> final(handle).size == old(handle).size
//@+        && (final(handle).backend == old(handle).backend || (final(handle).backend.ops@.len() > 0 && final(handle).backend.ops@.last() == 1)),
//@+    // success ends in a discard with the size untouched (forced rollback) or in a sync
//@+    r.is_ok() ==> final(handle).backend.ops@.len() > 0 && ((final(handle).backend.ops@.last() == 1 && final(handle).size == old(handle).size) || final(handle).backend.ops@.last() == 2),
//@ end
//@ canary header_extending: r.is_err()
