//@ assume: std::fs::File, memmap::Mmap, PathBuf are external (opaque) types; nothing about file contents is verified -- only the in-memory bookkeeping (buffer, buffer_start_pos, buffer_start_pos_bak) that decides what a later flush/read sees
//@ assume: the variable-size path (the nested size file) is abstracted: the three `if let SizeInfo::VariableSize(ref mut size_file)` blocks are replaced (T6) by calls to external_body helpers that change only `size_info` (to an uninterpreted function of its old value: 'the size file was rewound to pos' / 'was discarded'); its own rewind/discard are the same code instantiated at T = SizeEntry
//@ assume: 'flushed' (number of elements on disk) is the ghost reading: buffer_start_pos_bak if non-zero, else buffer_start_pos -- the value AppendOnlyFile::flush/init establish
//@ assume: chain-level rollback (txhashset::extending, Batch drop, process_block failure paths) is a history property through LMDB and closures and is NOT decided here (DESIGN 6 C06)
//@ assume: 64-bit target (usize is 8 bytes)
//@ assumed_items: 7
//@ fns: AppendOnlyFile::rewind, AppendOnlyFile::discard, AppendOnlyFile::append, AppendOnlyFile::size_unsync_in_elmts, AppendOnlyFile::read_from_buffer
//@ import: use std::marker;

global size_of usize == 8;

#[verifier::external_body]
pub struct ExtFile;
#[verifier::external_body]
pub struct ExtMmap;
#[verifier::external_body]
pub struct ExtPath;
#[verifier::external_body]
pub struct ExtSizeFile;
pub struct ProtocolVersion(pub u32);

pub enum SizeInfo {
    FixedSize(u16),
    VariableSize(ExtSizeFile),
}

//@ extract store/src/types.rs :: struct AppendOnlyFile
//@   rewrite `path: PathBuf,` => `path: ExtPath,`
//@   rewrite `file: Option<File>,` => `file: Option<ExtFile>,`
//@   rewrite `mmap: Option<memmap::Mmap>,` => `mmap: Option<ExtMmap>,`
//@   rewrite `_marker: marker::PhantomData<T>,` => `_marker: Ghost<Option<T>>,`
//@   pub_fields
//@ end

/// what rewinding / discarding the nested size file (a no-op for fixed-size data) does to size_info
pub uninterp spec fn sp_sf_rewound(s: SizeInfo, pos: u64) -> SizeInfo;
pub uninterp spec fn sp_sf_discarded(s: SizeInfo) -> SizeInfo;
impl<T> AppendOnlyFile<T> {
    /// elements on disk after the last flush (ghost reading of the two position fields)
    pub open spec fn flushed(&self) -> nat {
        if self.buffer_start_pos_bak != 0 { self.buffer_start_pos_bak as nat } else { self.buffer_start_pos as nat }
    }

    // abstraction of the nested size file (variable-size data): may only touch size_info
    #[verifier::external_body]
    fn size_file_rewind(&mut self, pos: u64)
        ensures final(self).buffer == old(self).buffer, final(self).buffer_start_pos == old(self).buffer_start_pos,
                final(self).buffer_start_pos_bak == old(self).buffer_start_pos_bak, final(self).size_info == sp_sf_rewound(old(self).size_info, pos),
    { unimplemented!() }
    #[verifier::external_body]
    fn size_file_discard(&mut self)
        ensures final(self).buffer == old(self).buffer, final(self).buffer_start_pos == old(self).buffer_start_pos,
                final(self).buffer_start_pos_bak == old(self).buffer_start_pos_bak, final(self).size_info == sp_sf_discarded(old(self).size_info),
    { unimplemented!() }

//@ extract store/src/types.rs :: impl AppendOnlyFile::rewind
//@   rewrite `\t\tif let SizeInfo::VariableSize(ref mut size_file) = &mut self.size_info {\n\t\t\tsize_file.rewind(pos);\n\t\t}` => `\t\tself.size_file_rewind(pos);`
//@   requires:
//@+    pos <= old(self).buffer_start_pos,
//@   ensures:
//@+    final(self).buffer_start_pos == pos,
//@+    final(self).buffer == old(self).buffer,
//@+    final(self).flushed() == old(self).flushed(),
//@+    final(self).size_info == sp_sf_rewound(old(self).size_info, pos),
//@ end

//@ extract store/src/types.rs :: impl AppendOnlyFile::discard
//@   rewrite `\t\tif let SizeInfo::VariableSize(ref mut size_file) = &mut self.size_info {\n\t\t\tsize_file.discard();\n\t\t}` => `\t\tself.size_file_discard();`
//@   rewrite `self.buffer = vec![];` => `self.buffer = Vec::new();`
//@   ensures:
//@+    final(self).buffer_start_pos as nat == old(self).flushed(),
//@+    final(self).buffer_start_pos_bak == 0,
//@+    final(self).buffer@.len() == 0,
//@+    final(self).flushed() == old(self).flushed(),
//@+    // the nested size file of variable-size data is discarded along with the data file, ALWAYS (it can hold
//@+    // appended entries although the data file itself was not rewound)
//@+    final(self).size_info == sp_sf_discarded(old(self).size_info),
//@ end

//@ extract store/src/types.rs :: impl AppendOnlyFile::read_from_buffer
//@   requires:
//@+    offset < 0x1_0000_0000_0000u64,
//@   ensures:
//@+    self.buffer@.len() >= offset + length ==> r@ == self.buffer@.subrange(offset as int, offset + length),
//@+    self.buffer@.len() < offset + length ==> r@.len() == 0,
//@   rewrite `<&[u8]>::default()` => `empty_slice()`
//@   rewrite `&self.buffer[(offset as usize)..(offset as usize + length as usize)]` => `vstd::slice::slice_subrange(self.buffer.as_slice(), offset as usize, offset as usize + length as usize)`
//@ end
}

#[verifier::external_body]
fn empty_slice<'a>() -> (r: &'a [u8])
    ensures r@.len() == 0
{ <&[u8]>::default() }

// every sequence of rewinds (to positions not beyond the file) and a final discard restores the
// flushed view: stated as a lemma over the contracts above (the invariant is `flushed()`).
proof fn lemma_discard_restores<T>(a: AppendOnlyFile<T>, b: AppendOnlyFile<T>)
    requires b.flushed() == a.flushed(), b.buffer_start_pos_bak == 0, b.buffer@.len() == 0,
             b.buffer_start_pos as nat == a.flushed(),
    ensures b.buffer_start_pos as nat == a.flushed() && b.flushed() == b.buffer_start_pos as nat
{ }
//@ canary discard: final(self).buffer_start_pos == 7
