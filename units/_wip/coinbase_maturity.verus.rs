//@ assume: UTXOView, Batch, Inputs are abstract; validate_input (under contract in C02/utxo_view) resolves an input commitment to (output identifier, position); get_header_by_height returns the header at that height on the chain being extended; global::coinbase_maturity is an uninterpreted constant
//@ assume: T6 rewrites: the two iterator chains (`inputs.iter().map(validate_input).collect()` and `.iter().filter_map(coinbase pos).max()`) => helpers resolve_all / max_coinbase_pos whose ASSUMED contracts are: every input resolved in order or the first error returned; the maximum position among resolved coinbase outputs, None iff there is none. `let inputs: Vec<_> = inputs.into()` => abstract conversion. The cutoff logic after them is the real text.
//@ assume: decided here: UTXOView::verify_coinbase_maturity returns Ok only if every input resolved and, when at least one resolved output is a coinbase, the block/tx height is at least the maturity AND the most recent (highest-position) coinbase being spent lies at or below the output MMR size of the header `maturity` blocks below -- i.e. every spent coinbase was created at or before that header
//@ assumed_items: 10
//@ fns: UTXOView::verify_coinbase_maturity
#[verifier::external_body]
#[derive(Clone, Copy)]
pub struct Commitment { _p: u8 }
#[derive(Clone, Copy)]
pub struct OutputIdentifier { pub is_cb: bool, pub commit: Commitment }
#[derive(Clone, Copy)]
pub struct CommitPos { pub pos: u64, pub height: u64 }
#[verifier::external_body]
pub struct Inputs { _p: u8 }
#[verifier::external_body]
pub struct InputList { _p: u8 }
#[verifier::external_body]
pub struct Batch { _p: u8 }
pub struct BlockHeader { pub output_mmr_size: u64, pub height: u64 }
pub enum Error { ImmatureCoinbase, AlreadySpent, Store }
pub uninterp spec fn sp_maturity() -> u64;
pub uninterp spec fn sp_resolved(v: UTXOView, batch: Batch, inputs: Inputs) -> Option<Seq<(OutputIdentifier, CommitPos)>>;
pub uninterp spec fn sp_header_at(v: UTXOView, batch: Batch, height: u64) -> Option<BlockHeader>;
pub mod global {
    use super::*;
    #[verifier::external_body]
    pub fn coinbase_maturity() -> (r: u64) ensures r == sp_maturity() { unimplemented!() }
}
#[verifier::external_body]
fn inputs_into(inputs: &Inputs) -> (r: InputList) ensures r.of() == *inputs { unimplemented!() }
impl InputList { pub uninterp spec fn of(&self) -> Inputs; }
#[verifier::external_body]
pub struct UTXOView { _p: u8 }

pub open spec fn is_cb_at(s: Seq<(OutputIdentifier, CommitPos)>, i: int) -> bool { 0 <= i < s.len() && s[i].0.is_cb }
#[verifier::external_body]
fn max_coinbase_pos(spent: &Vec<(OutputIdentifier, CommitPos)>) -> (r: Option<u64>)
    ensures r.is_none() <==> (forall|i: int| !is_cb_at(spent@, i)),
            r matches Some(m) ==> (exists|i: int| is_cb_at(spent@, i) && spent@[i].1.pos == m) && (forall|i: int| is_cb_at(spent@, i) ==> spent@[i].1.pos <= m)
{ unimplemented!() }
impl UTXOView {
    #[verifier::external_body]
    fn resolve_all(&self, inputs: &InputList, batch: &Batch) -> (r: Result<Vec<(OutputIdentifier, CommitPos)>, Error>)
        ensures r matches Ok(v) ==> sp_resolved(*self, *batch, inputs.of()) == Some(v@),
                r.is_err() ==> sp_resolved(*self, *batch, inputs.of()).is_none()
    { unimplemented!() }
    #[verifier::external_body]
    pub fn get_header_by_height(&self, height: u64, batch: &Batch) -> (r: Result<BlockHeader, Error>)
        ensures r matches Ok(h) ==> sp_header_at(*self, *batch, height) == Some(h), r.is_err() ==> sp_header_at(*self, *batch, height).is_none()
    { unimplemented!() }

//@ extract chain/src/txhashset/utxo_view.rs :: impl UTXOView::verify_coinbase_maturity
//@   sigrewrite `batch: &Batch<'_>,` => `batch: &Batch,`
//@   rewrite `let inputs: Vec<_> = inputs.into();` => `let inputs: InputList = inputs_into(inputs);`
//@   eclosure 1 replaced_by `ResolveEnv { view: self, batch }`
//@   closure 1 replaced_by `CbPos {}`
//@   ensures:
//@+    r.is_ok() ==> (sp_resolved(*self, *batch, *inputs) matches Some(s) && (
//@+        (forall|i: int| !is_cb_at(s, i)) || (
//@+            height >= sp_maturity()
//@+            && (sp_header_at(*self, *batch, (height - sp_maturity()) as u64) matches Some(h)
//@+                && forall|i: int| is_cb_at(s, i) ==> s[i].1.pos <= h.output_mmr_size)))),
//@+    (sp_resolved(*self, *batch, *inputs) matches Some(s) && (exists|i: int| is_cb_at(s, i)) && height < sp_maturity()) ==> r.is_err(),
//@ end
}
//@ canary verify_coinbase_maturity: r.is_err()
