//@ assume: Desegmenter is reduced to the handles this function uses; TxHashSet::roots().validate(header) (decided in C15/roots), the rewindable kernel view's rewind / validate_root, verify_kernel_pos_index (C13/kernel_pos_index), Extension::rewind (C02/ext_rewind) and Extension::validate (C01/txhashset_validate) are abstract with uninterpreted 'this step succeeded' meanings; txhashset::rewindable_kernel_view and txhashset::extending are abstract over an environment value (T7): Ok only if the closure returned Ok, outer batch heads untouched (extending itself: C06/extending); the batch has a ghost body head / tail and a commit outcome; StopState::is_stopped is an arbitrary boolean each time it is asked; SyncState callbacks are opaque
//@ assume: T7: closure 2 (the full validation inside a writeable extension) is lifted and verified; closure 1 (the kernel-history walk, which mutates captured locals) is replaced by an opaque environment and NOT verified: txhashset::rewindable_kernel_view is assumed to return Ok only if the walk validated the kernel root at every header from the archive header down, or the sync was stopped; T6: RwLock guards are structs with the guarded value as field `v`; `Arc<SyncState>` / `Arc<StopState>` => references to abstract values (`status.clone()` / `stop_state.clone()` copies, `&*status` => status); `|ext, mut batch|` => the lifted function's parameters; log macros removed (T3). Termination of the kernel-history walk (back along stored prev links to height 0) is not proved.
//@ assume: decided here (C16, 'Whatever it is sent, it never finalises a state whose roots differ from the archive header'): Desegmenter::validate_complete_state makes the archive header the body head (save_body_head + commit) ONLY IF (1) the assembled txhashset's roots -- output root with the bitmap accumulator, range-proof root, kernel root -- validated against the ARCHIVE HEADER, (2) the kernel MMR root validated against every header from the archive header back to genesis, (3) the kernel position index verified, (4) inside an extension rewound to the archive header the full validation (kernel sums, range proofs, kernel signatures) succeeded and the block sums were saved for the archive header, and the sync was not stopped in between; on a stop request or any failure nothing is finalised (the head is never written).
//@ assumed_items: 31
//@ fns: Desegmenter::validate_complete_state, Desegmenter::validate_complete_state (full validation closure)
#[derive(Clone, Copy)]
pub struct Hash { pub v: u64 }
#[derive(Clone, Copy)]
pub struct BlockHeader { pub height: u64, pub id: Hash, pub prev_hash: Hash }
impl BlockHeader {
    pub fn clone(&self) -> (r: BlockHeader) ensures r == *self { *self }
    pub fn hash(&self) -> (r: Hash) ensures r == self.id { self.id }
}
#[derive(Clone, Copy)]
pub struct Tip { pub height: u64, pub last_block_h: Hash }
impl Tip {
    pub open spec fn sp_from_header(h: BlockHeader) -> Tip { Tip { height: h.height, last_block_h: h.id } }
    #[verifier::external_body]
    pub fn from_header(h: &BlockHeader) -> (r: Tip) ensures r == Tip::sp_from_header(*h) { unimplemented!() }
}
pub enum Error { InvalidRoot, Store, Other }
#[verifier::external_body]
#[derive(Clone, Copy)]
pub struct Commitment { _p: u8 }
pub struct BlockSums { pub utxo_sum: Commitment, pub kernel_sum: Commitment }
#[verifier::external_body]
pub struct SyncState { _p: u8 }
impl SyncState {
    #[verifier::external_body] pub fn on_setup(&self, a: Option<u64>, b: Option<u64>, c: Option<u64>, d: Option<u64>) { unimplemented!() }
    #[verifier::external_body] pub fn on_save(&self) { unimplemented!() }
    #[verifier::external_body] pub fn on_done(&self) { unimplemented!() }
    #[verifier::external_body] pub fn clone(&self) -> (r: &SyncState) { unimplemented!() }
}
#[verifier::external_body]
pub struct StopState { _p: u8 }
impl StopState {
    pub uninterp spec fn sp_stopped(&self) -> bool;
    /// a stop request stays up once raised: within one call it is modelled as a fixed boolean
    #[verifier::external_body] pub fn is_stopped(&self) -> (r: bool) ensures r == self.sp_stopped() { unimplemented!() }
    #[verifier::external_body] pub fn clone(&self) -> (r: &StopState) ensures r.sp_stopped() == self.sp_stopped() { unimplemented!() }
}
pub uninterp spec fn sp_roots_match(t: TxHashSet, h: BlockHeader) -> bool;        // C15/roots: all three roots, bitmap accumulator included
pub uninterp spec fn sp_kernel_root_ok(h: BlockHeader) -> bool;                  // the kernel MMR rewound to h has h's kernel root
pub uninterp spec fn sp_prev(h: BlockHeader) -> BlockHeader;
pub uninterp spec fn sp_kernel_index_ok(t: TxHashSet) -> bool;
pub uninterp spec fn sp_fully_validated(h: BlockHeader) -> bool;                 // Extension::validate at h (kernel sums, range proofs, signatures)
pub uninterp spec fn sp_rewound_to(h: BlockHeader) -> bool;
/// the kernel root validated for h and every ancestor above height 0 (the walk of closure 1, which is NOT verified here)
pub uninterp spec fn sp_history_ok(h: BlockHeader) -> bool;
pub struct Roots { pub of: Ghost<TxHashSet> }
impl Roots {
    #[verifier::external_body]
    pub fn validate(&self, h: &BlockHeader) -> (r: Result<(), Error>) ensures r.is_ok() ==> sp_roots_match(self.of@, *h) { unimplemented!() }
}
#[derive(Clone, Copy)]
pub struct TxHashSet { pub id: u64 }
pub struct PMMRHandle { pub _p: u8 }
impl TxHashSet {
    #[verifier::external_body]
    pub fn roots(&self) -> (r: Result<Roots, Error>) ensures r matches Ok(x) ==> x.of@ == *self { unimplemented!() }
    #[verifier::external_body]
    pub fn verify_kernel_pos_index(&self, genesis: &BlockHeader, header_pmmr: &PMMRHandle, batch: &mut Batch, status: Option<&SyncState>, stop: Option<&StopState>) -> (r: Result<(), Error>)
        ensures r.is_ok() ==> sp_kernel_index_ok(*self), sp_same(*final(batch), *old(batch)) { unimplemented!() }
    #[verifier::external_body]
    pub fn init_output_pos_index(&self, header_pmmr: &PMMRHandle, batch: &mut Batch) -> (r: Result<(), Error>) ensures sp_same(*final(batch), *old(batch)) { unimplemented!() }
    #[verifier::external_body]
    pub fn init_recent_kernel_pos_index(&self, header_pmmr: &PMMRHandle, batch: &mut Batch) -> (r: Result<(), Error>) ensures sp_same(*final(batch), *old(batch)) { unimplemented!() }
}
pub struct Batch { pub body_head: Ghost<Option<Tip>>, pub sums_saved: Ghost<Option<Hash>> }
pub open spec fn sp_same(a: Batch, b: Batch) -> bool { a.body_head@ == b.body_head@ && a.sums_saved@ == b.sums_saved@ }
pub uninterp spec fn sp_committed(body_head: Option<Tip>) -> bool;
impl Batch {
    #[verifier::external_body]
    pub fn get_previous_header(&self, h: &BlockHeader) -> (r: Result<BlockHeader, Error>) ensures r matches Ok(p) ==> p == sp_prev(*h) { unimplemented!() }
    #[verifier::external_body]
    pub fn save_block_sums(&mut self, h: &Hash, s: BlockSums) -> (r: Result<(), Error>)
        ensures final(self).body_head == old(self).body_head, r.is_ok() ==> final(self).sums_saved@ == Some(*h), r.is_err() ==> final(self).sums_saved == old(self).sums_saved { unimplemented!() }
    #[verifier::external_body]
    pub fn save_body_head(&mut self, t: &Tip) -> (r: Result<(), Error>)
        ensures final(self).sums_saved == old(self).sums_saved, r.is_ok() ==> final(self).body_head@ == Some(*t), r.is_err() ==> final(self).body_head == old(self).body_head { unimplemented!() }
    #[verifier::external_body]
    pub fn save_body_tail(&mut self, t: &Tip) -> (r: Result<(), Error>) ensures sp_same(*final(self), *old(self)) { unimplemented!() }
    #[verifier::external_body]
    pub fn commit(self) -> (r: Result<(), Error>) ensures r.is_ok() ==> sp_committed(self.body_head@) { unimplemented!() }
}
pub struct KernelView { pub at: Ghost<Option<BlockHeader>> }
impl KernelView {
    #[verifier::external_body]
    pub fn rewind(&mut self, h: &BlockHeader) -> (r: Result<(), Error>) ensures r.is_ok() ==> final(self).at@ == Some(*h) { unimplemented!() }
    #[verifier::external_body]
    pub fn validate_root(&self) -> (r: Result<(), Error>) ensures r.is_ok() ==> (self.at@ matches Some(h) && sp_kernel_root_ok(h)) { unimplemented!() }
}
pub struct Extension { pub at: Ghost<Option<BlockHeader>> }
pub struct HeaderExtension { pub _p: u8 }
pub struct ExtensionPair { pub header_extension: HeaderExtension, pub extension: Extension }
impl Extension {
    #[verifier::external_body]
    pub fn rewind(&mut self, h: &BlockHeader, batch: &Batch) -> (r: Result<(), Error>) ensures r.is_ok() ==> final(self).at@ == Some(*h) { unimplemented!() }
    #[verifier::external_body]
    pub fn validate(&self, genesis: &BlockHeader, fast: bool, status: &SyncState, from: Option<u64>, to: Option<u64>, header: &BlockHeader, stop: Option<&StopState>) -> (r: Result<(Commitment, Commitment), Error>)
        ensures r.is_ok() && !fast && self.at@ == Some(*header) ==> sp_fully_validated(*header) { unimplemented!() }
}
pub struct Store { pub _p: u8 }
impl Store {
    #[verifier::external_body]
    pub fn batch(&self) -> (r: Result<Batch, Error>) ensures r matches Ok(b) ==> b.body_head@ is None && b.sums_saved@ is None { unimplemented!() }
}
pub struct Guard<T> { pub v: T }
pub struct RwLock<T> { pub v: T }
impl<T: Copy> RwLock<T> {
    #[verifier::external_body] pub fn read(&self) -> (r: Guard<T>) ensures r.v == self.v { unimplemented!() }
}
pub struct RwLockH { pub _p: u8 }
impl RwLockH {
    #[verifier::external_body] pub fn read(&self) -> (r: Guard<PMMRHandle>) { unimplemented!() }
    #[verifier::external_body] pub fn write(&self) -> (r: Guard<PMMRHandle>) { unimplemented!() }
}
impl RwLock<TxHashSet> {
    #[verifier::external_body] pub fn write(&self) -> (r: Guard<TxHashSet>) ensures r.v == self.v { unimplemented!() }
}
impl Guard<TxHashSet> {
    pub fn roots(&self) -> (r: Result<Roots, Error>) ensures r matches Ok(x) ==> x.of@ == self.v { self.v.roots() }
    pub fn verify_kernel_pos_index(&self, genesis: &BlockHeader, header_pmmr: &Guard<PMMRHandle>, batch: &mut Batch, status: Option<&SyncState>, stop: Option<&StopState>) -> (r: Result<(), Error>)
        ensures r.is_ok() ==> sp_kernel_index_ok(self.v), sp_same(*final(batch), *old(batch)) { self.v.verify_kernel_pos_index(genesis, &header_pmmr.v, batch, status, stop) }
    pub fn init_output_pos_index(&self, header_pmmr: &Guard<PMMRHandle>, batch: &mut Batch) -> (r: Result<(), Error>) ensures sp_same(*final(batch), *old(batch)) { self.v.init_output_pos_index(&header_pmmr.v, batch) }
    pub fn init_recent_kernel_pos_index(&self, header_pmmr: &Guard<PMMRHandle>, batch: &mut Batch) -> (r: Result<(), Error>) ensures sp_same(*final(batch), *old(batch)) { self.v.init_recent_kernel_pos_index(&header_pmmr.v, batch) }
}
pub struct Desegmenter { pub txhashset: RwLock<TxHashSet>, pub header_pmmr: RwLockH, pub archive_header: BlockHeader, pub genesis: BlockHeader, pub store: Store }

pub struct KernelEnv<'a> { pub archive_header: &'a BlockHeader, pub stop_state: &'a StopState }
pub struct FullEnv<'a> { pub archive_header: &'a BlockHeader, pub stop_state: &'a StopState }
/// what closure 2 establishes when it returns Ok
pub open spec fn sp_full_ok(h: BlockHeader, stopped: bool, sums: Option<Hash>) -> bool { stopped || (sp_fully_validated(h) && sums == Some(h.id)) }
pub mod txhashset {
    use super::*;
    #[verifier::external_body]
    pub fn rewindable_kernel_view(trees: &Guard<TxHashSet>, env: KernelEnv) -> (r: Result<(), Error>)
        ensures r.is_ok() ==> env.stop_state.sp_stopped() || sp_history_ok(*env.archive_header) { unimplemented!() }
    /// txhashset::extending (C06/extending): Ok only if the closure returned Ok; the closure's batch writes (block sums) are kept, the body head is not touched
    #[verifier::external_body]
    pub fn extending(header_pmmr: &mut Guard<PMMRHandle>, trees: &mut Guard<TxHashSet>, batch: &mut Batch, env: FullEnv) -> (r: Result<(), Error>)
        ensures r.is_ok() ==> sp_full_ok(*env.archive_header, env.stop_state.sp_stopped(), final(batch).sums_saved@), final(batch).body_head == old(batch).body_head,
            final(trees).v == old(trees).v { unimplemented!() }
}
impl Desegmenter {
//@ extract chain/src/txhashset/desegmenter.rs :: impl Desegmenter::validate_complete_state
//@   strip_logs
//@   closure 2 lifted_as `fn full_validation(&self, ext: &mut ExtensionPair, batch: &mut Batch, status: &SyncState, stop_state: &StopState, last_rangeproof_validation_pos: u64) -> Result<(), Error>`
//@   rewrite `extension.rewind(&self.archive_header, &mut batch)?;` => `extension.rewind(&self.archive_header, batch)?;` x?
//@   rewrite `&*status,` => `status,` x?
//@   rewrite `Some(stop_state.clone()),` => `Some(stop_state),` x?
//@   ensures:
//@+    r.is_ok() ==> sp_full_ok(self.archive_header, stop_state.sp_stopped(), final(batch).sums_saved@),
//@+    final(batch).body_head == old(batch).body_head,
//@ end
//@ extract chain/src/txhashset/desegmenter.rs :: impl Desegmenter::validate_complete_state
//@   strip_logs
//@   sigrewrite `status: Arc<SyncState>,` => `status: &SyncState,`
//@   sigrewrite `stop_state: Arc<StopState>,` => `stop_state: &StopState,`
//@   closure 1 replaced_by `KernelEnv { archive_header: &self.archive_header, stop_state }`
//@   closure 2 replaced_by `FullEnv { archive_header: &self.archive_header, stop_state }`
//@   rewrite `Some(status.clone()),` => `Some(status),` x?
//@   rewrite `Some(stop_state.clone()),` => `Some(stop_state),` x?
//@   rewrite `let mut count = 0;` => `` x?
//@   rewrite `let mut current = self.archive_header.clone();` => `` x?
//@   rewrite `let total = current.height;` => `` x?
//@   ensures:
//@+    // the archive header becomes the head ONLY after every validation succeeded and nobody asked to stop
//@+    r.is_ok() ==> (stop_state.sp_stopped()
//@+        || (sp_committed(Some(Tip::sp_from_header(self.archive_header)))
//@+            && sp_roots_match(self.txhashset.v, self.archive_header) && sp_history_ok(self.archive_header)
//@+            && sp_kernel_index_ok(self.txhashset.v) && sp_fully_validated(self.archive_header))),
//@ end
}
//@ canary validate_complete_state: r.is_err()
