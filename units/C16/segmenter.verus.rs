//@ assume: TxHashSet / BitmapAccumulator / the read-only MMR views are abstract: kernel_pmmr_at / output_pmmr_at / rangeproof_pmmr_at(header) and bitmap_snapshot.readonly_pmmr() hand out a view tagged with WHICH MMR it is and at WHICH header it was cut; Segment::from_pmmr (C16/segment_from_pmmr) and ReadablePMMR::root (C07/pmmr_root) are uninterpreted functions of (view, arguments); the RwLock read guard is a plain value (T6: `self.txhashset.read()` => self.txhashset_read()); T3: timing and debug! removed; `.map_err(&Error::TxHashSetErr)?` => `?` against abstract callees returning the final error type
//@ assume: decided here (C16, 'a segment of any state MMR produced by a node validates against the archive header's roots', the SERVING side): Segmenter::kernel_segment / rangeproof_segment / output_segment / bitmap_segment each cut the segment out of THEIR OWN MMR as it was AT THE ARCHIVE HEADER (the bitmap from the snapshot taken at that header), non-prunable for kernels and the bitmap, prunable for outputs and range proofs, with exactly the identifier asked for; the 'other half' of the output root they hand out is the OUTPUT MMR's root at that header for a bitmap segment and the BITMAP snapshot's root for an output segment
//@ assumed_items: 7
//@ fns: Segmenter::kernel_segment, Segmenter::rangeproof_segment, Segmenter::output_segment, Segmenter::bitmap_segment, Segmenter::output_root, Segmenter::bitmap_root
#[derive(Clone, Copy, PartialEq, Eq)]
pub struct Hash { pub v: u64 }
#[derive(Clone, Copy, PartialEq, Eq)]
pub struct BlockHeader { pub id: u64 }
#[derive(Clone, Copy, PartialEq, Eq)]
pub struct SegmentIdentifier { pub height: u8, pub idx: u64 }
pub enum Error { TxHashSetErr, Segment }
/// which MMR (0 output, 1 range proof, 2 kernel, 3 bitmap snapshot), cut at which header
#[derive(Clone, Copy, PartialEq, Eq)]
pub struct View { pub which: u8, pub at: u64 }
#[derive(Clone, Copy, PartialEq, Eq)]
pub struct Segment { pub v: u64 }
pub uninterp spec fn sp_segment(id: SegmentIdentifier, view: View, prunable: bool) -> Result<Segment, Error>;
pub uninterp spec fn sp_root(view: View) -> Result<Hash, Error>;
impl Segment {
    #[verifier::external_body]
    pub fn from_pmmr(id: SegmentIdentifier, pmmr: &View, prunable: bool) -> (r: Result<Segment, Error>) ensures r == sp_segment(id, *pmmr, prunable) { unimplemented!() }
}
impl View {
    #[verifier::external_body]
    pub fn root(&self) -> (r: Result<Hash, Error>) ensures r == sp_root(*self) { unimplemented!() }
}
pub struct TxHashSet { pub _p: u8 }
impl TxHashSet {
    #[verifier::external_body]
    pub fn kernel_pmmr_at(&self, h: &BlockHeader) -> (r: View) ensures r == (View { which: 2, at: h.id }) { unimplemented!() }
    #[verifier::external_body]
    pub fn output_pmmr_at(&self, h: &BlockHeader) -> (r: View) ensures r == (View { which: 0, at: h.id }) { unimplemented!() }
    #[verifier::external_body]
    pub fn rangeproof_pmmr_at(&self, h: &BlockHeader) -> (r: View) ensures r == (View { which: 1, at: h.id }) { unimplemented!() }
}
pub struct BitmapAccumulator { pub taken_at: u64 }
impl BitmapAccumulator {
    #[verifier::external_body]
    pub fn readonly_pmmr(&self) -> (r: View) ensures r == (View { which: 3, at: self.taken_at }) { unimplemented!() }
}
pub struct Segmenter { pub bitmap_snapshot: BitmapAccumulator, pub header: BlockHeader }
impl Segmenter {
    #[verifier::external_body]
    pub fn txhashset_read(&self) -> (r: TxHashSet) { unimplemented!() }
//@ extract chain/src/txhashset/segmenter.rs :: impl Segmenter::output_root
//@   rewrite `self.txhashset.read()` => `self.txhashset_read()`
//@   rewrite `.map_err(&Error::TxHashSetErr)?` => `?`
//@   ensures:
//@+    r == sp_root(View { which: 0, at: self.header.id }),
//@ end
//@ extract chain/src/txhashset/segmenter.rs :: impl Segmenter::bitmap_root
//@   rewrite `.map_err(&Error::TxHashSetErr)?` => `?`
//@   ensures:
//@+    r == sp_root(View { which: 3, at: self.bitmap_snapshot.taken_at }),
//@ end
//@ extract chain/src/txhashset/segmenter.rs :: impl Segmenter::kernel_segment
//@   strip_logs
//@   rewrite `\t\tlet now = Instant::now();\n` => ``
//@   rewrite `self.txhashset.read()` => `self.txhashset_read()`
//@   sigrewrite `Result<Segment<TxKernel>, Error>` => `Result<Segment, Error>`
//@   ensures:
//@+    r == sp_segment(id, View { which: 2, at: self.header.id }, false),
//@ end
//@ extract chain/src/txhashset/segmenter.rs :: impl Segmenter::rangeproof_segment
//@   strip_logs
//@   rewrite `\t\tlet now = Instant::now();\n` => ``
//@   rewrite `self.txhashset.read()` => `self.txhashset_read()`
//@   sigrewrite `Result<Segment<RangeProof>, Error>` => `Result<Segment, Error>`
//@   ensures:
//@+    r == sp_segment(id, View { which: 1, at: self.header.id }, true),
//@ end
//@ extract chain/src/txhashset/segmenter.rs :: impl Segmenter::output_segment
//@   strip_logs
//@   rewrite `\t\tlet now = Instant::now();\n` => ``
//@   rewrite `self.txhashset.read()` => `self.txhashset_read()`
//@   sigrewrite `Result<(Segment<OutputIdentifier>, Hash), Error>` => `Result<(Segment, Hash), Error>`
//@   ensures:
//@+    r matches Ok(p) ==> sp_segment(id, View { which: 0, at: self.header.id }, true) == Ok::<Segment, Error>(p.0) && sp_root(View { which: 3, at: self.bitmap_snapshot.taken_at }) == Ok::<Hash, Error>(p.1),
//@ end
//@ extract chain/src/txhashset/segmenter.rs :: impl Segmenter::bitmap_segment
//@   strip_logs
//@   rewrite `\t\tlet now = Instant::now();\n` => ``
//@   sigrewrite `Result<(Segment<BitmapChunk>, Hash), Error>` => `Result<(Segment, Hash), Error>`
//@   ensures:
//@+    r matches Ok(p) ==> sp_segment(id, View { which: 3, at: self.bitmap_snapshot.taken_at }, false) == Ok::<Segment, Error>(p.0) && sp_root(View { which: 0, at: self.header.id }) == Ok::<Hash, Error>(p.1),
//@ end
}
//@ canary output_segment: r is Err
//@ canary kernel_segment: r is Err
