//@ assume: only the FILTER PREDICATES of SegmentProof::generate (producer) and SegmentProof::reconstruct_root (consumer) are under contract here -- the iterator pipelines around them (family_branch().iter().filter(..).map(..).collect(), peaks().into_iter().filter(..).rev()) are std shells and NOT verified; Option::map / unwrap_or are std (T6: the inner `|s| ..` closure gets a typed parameter and a spliced contract saying what it must compute; a body that computes something else fails that contract)
//@ assume: T7: each predicate closure is lifted to a named function whose parameters are the closure's pattern variables and captured variables
//@ assume: decided here (C16, 'a segment ... produced by a node validates against the archive header's roots'): producer and consumer SELECT THE SAME HASHES -- generate keeps the sibling of a family-branch node p0 exactly when no start position is given or p0 >= start, reconstruct_root consumes one exactly when p0 >= segment_unpruned_pos, so with start = the unpruned position (what Segment::from_pmmr passes: 1 + the first parent found on disk) the two agree node by node; for the peaks to the left, generate (1-based first position) keeps x exactly when reconstruct_root (0-based) consumes it; the right-hand peak consumed is the first peak beyond the branch's peak
//@ assumed_items: 0
//@ fns: SegmentProof::generate (filter closures 1 and 5), SegmentProof::reconstruct_root (filter closures 1, 4 and 6)
//@ extract core/src/core/pmmr/segment.rs :: impl SegmentProof::generate
//@   eclosure 1 lifted_as `pub fn gen_keep_sibling(p0: u64, start_pos: Option<u64>) -> bool`
//@   rewrite `start_pos.map(|s| ` => `start_pos.map(|s: u64| -> (b: bool) ensures b == (p0 >= s) { ` x?
//@   rewrite `).unwrap_or(true)` => ` }).unwrap_or(true)` x?
//@   ensures:
//@+    r == (start_pos matches Some(s) ==> p0 >= s),
//@ end
//@ extract core/src/core/pmmr/segment.rs :: impl SegmentProof::generate
//@   eclosure 5 lifted_as `pub fn gen_keep_left_peak(x: u64, segment_first_pos: u64) -> bool`
//@   requires:
//@+    x < u64::MAX,
//@   ensures:
//@+    r == (1 + x < segment_first_pos),
//@ end
//@ extract core/src/core/pmmr/segment.rs :: impl SegmentProof::reconstruct_root
//@   eclosure 1 lifted_as `pub fn rec_keep_sibling(p0: u64, segment_unpruned_pos: u64) -> bool`
//@   ensures:
//@+    r == (p0 >= segment_unpruned_pos),
//@ end
//@ extract core/src/core/pmmr/segment.rs :: impl SegmentProof::reconstruct_root
//@   eclosure 4 lifted_as `pub fn rec_is_rhs_peak(x: u64, peak_pos0: u64) -> bool`
//@   ensures:
//@+    r == (x > peak_pos0),
//@ end
//@ extract core/src/core/pmmr/segment.rs :: impl SegmentProof::reconstruct_root
//@   eclosure 6 lifted_as `pub fn rec_keep_left_peak(x: u64, segment_first_pos0: u64) -> bool`
//@   ensures:
//@+    r == (x < segment_first_pos0),
//@ end
/// producer and consumer agree, node by node (checked against the contracts above, which are checked against the real closure bodies)
pub fn agreement(p0: u64, x: u64, unpruned: u64, first_pos0: u64)
    requires x < u64::MAX, first_pos0 < u64::MAX
{
    let g = gen_keep_sibling(p0, Some(unpruned));
    let c = rec_keep_sibling(p0, unpruned);
    assert(g == c);
    let gl = gen_keep_left_peak(x, 1 + first_pos0);
    let cl = rec_keep_left_peak(x, first_pos0);
    assert(gl == cl);
    // without a start position (nothing pruned below the segment root) every sibling is kept, as with unpruned == 0
    let g0 = gen_keep_sibling(p0, None);
    let c0 = rec_keep_sibling(p0, 0);
    assert(g0 == c0);
}
//@ canary gen_keep_sibling: !r
