//@ crate: grin_core
//@ target: core/src/core/pmmr/pmmr.rs
//@ assume: BOUNDED stand-in, labelled so: PMMR::push_pruned_subtree (the receiver side of PIBD from a compacted source) on the real generic function over a MOCK Backend defined in the harness (a table of stored hashes by position; append_pruned_subtree / append_hash record what is appended; everything else unused) and the ideal hash of C07 (node hash = fresh tag per distinct (position, left, right)); subtree roots at the concrete positions listed per harness (every shape of an MMR with at most 8 leaves in which a pruned subtree of height 1 or 2 is appended: as a left child, as a right child under a parent that is itself a left / right child, as a new peak), the stored sibling hashes symbolic
//@ assume: decided here (C16, 'assembles its state ... from segments ... ends with the same roots'): after push_pruned_subtree(hash, pos0) the hashes appended after the subtree root are exactly the parents the MMR definition asks for -- while the current node is a RIGHT child: H(stored hash of its left sibling, current, parent position), climbing -- and none when it is a left child or a peak; the size afterwards is the next leaf position after the last node written
//@ harness c16_push_pruned_right_child_h1 kind=bounded tier=quick fns=PMMR::push_pruned_subtree bound=subtree_root_5_(height_1,_right_child_of_6)_and_13_(right_child_of_14,_whose_parent_is_not_written)
//@ harness c16_push_pruned_left_child_2 kind=bounded tier=quick fns=PMMR::push_pruned_subtree bound=subtree_root_2_(height_1,_left_child,_first_in_the_MMR):_nothing_appended
//@ harness c16_push_pruned_left_child_9 kind=bounded tier=quick fns=PMMR::push_pruned_subtree bound=subtree_root_9_(height_1,_left_child_of_13):_nothing_appended
//@ harness c16_push_pruned_right_chain kind=bounded tier=quick fns=PMMR::push_pruned_subtree bound=subtree_root_12_(height_1,_right_child_of_13_which_is_the_right_child_of_14):_two_parents
//@ harness c16_push_pruned_h2_right kind=bounded tier=quick fns=PMMR::push_pruned_subtree bound=subtree_root_13_(height_2,_right_child_of_14)
//@ harness c16_push_pruned_h2_left kind=bounded tier=quick fns=PMMR::push_pruned_subtree bound=subtree_root_6_(height_2,_left_child)
use crate::core::hash::{DefaultHashable, HashWriter};
use crate::core::OutputIdentifier;
use crate::verif_kani_support::stub_format;

static mut P_REC: [u8; 80] = [0; 80];
static mut P_RECLEN: usize = 0;
static mut P_KEYS: [(u64, u16, u16); 8] = [(0, 0, 0); 8];
static mut P_TLEN: usize = 0;

fn p_stub_update(_s: &mut blake2::blake2b::Blake2b, data: &[u8]) {
	unsafe {
		let mut i = 0;
		while i < data.len() {
			if P_RECLEN < 80 {
				P_REC[P_RECLEN] = data[i];
				P_RECLEN += 1;
			}
			i += 1;
		}
	}
}
/// ideal hash of a (left, right) pair at an index: a fresh tag per distinct input, the same tag for the same input
fn p_stub_finalize(_w: HashWriter, output: &mut [u8]) {
	unsafe {
		let mut idxb = [0u8; 8];
		idxb.copy_from_slice(&P_REC[0..8]);
		let idx = u64::from_be_bytes(idxb);
		assert!(P_RECLEN == 72, "only (Hash, Hash) pairs are hashed here");
		let key = (idx, u16::from_be_bytes([P_REC[8], P_REC[9]]), u16::from_be_bytes([P_REC[40], P_REC[41]]));
		P_RECLEN = 0;
		let mut tag: u16 = 0;
		let mut found = false;
		let mut i = 0;
		while i < P_TLEN {
			if P_KEYS[i] == key {
				tag = 1000 + i as u16;
				found = true;
			}
			i += 1;
		}
		if !found {
			assert!(P_TLEN < 8);
			P_KEYS[P_TLEN] = key;
			tag = 1000 + P_TLEN as u16;
			P_TLEN += 1;
		}
		let mut out = [0u8; 32];
		out[0] = (tag >> 8) as u8;
		out[1] = tag as u8;
		output.copy_from_slice(&out);
	}
}
fn p_tag(t: u16) -> Hash {
	let mut out = [0u8; 32];
	out[0] = (t >> 8) as u8;
	out[1] = t as u8;
	Hash::from_vec(&out)
}
fn p_node(l: Hash, r: Hash, pos: u64) -> Hash {
	(l, r).hash_with_index(pos)
}

/// The mock backend: stored hashes by 0-based position, and a record of what push_pruned_subtree appends.
struct MockBackend {
	stored: [(u64, Hash); 4],
	n_stored: usize,
	subtree: Option<(Hash, u64)>,
	appended: [Hash; 4],
	n_appended: usize,
}
impl MockBackend {
	fn new() -> MockBackend {
		MockBackend {
			stored: [(0, p_tag(0)); 4],
			n_stored: 0,
			subtree: None,
			appended: [p_tag(0); 4],
			n_appended: 0,
		}
	}
	fn store(&mut self, pos0: u64, h: Hash) {
		self.stored[self.n_stored] = (pos0, h);
		self.n_stored += 1;
	}
}
impl Backend<OutputIdentifier> for MockBackend {
	fn append(&mut self, _data: &OutputIdentifier, _hashes: &[Hash]) -> Result<(), String> {
		unreachable!()
	}
	fn append_pruned_subtree(&mut self, hash: Hash, pos0: u64) -> Result<(), String> {
		assert!(self.subtree.is_none());
		self.subtree = Some((hash, pos0));
		Ok(())
	}
	fn append_hash(&mut self, hash: Hash) -> Result<(), String> {
		assert!(self.n_appended < 4);
		self.appended[self.n_appended] = hash;
		self.n_appended += 1;
		Ok(())
	}
	fn rewind(&mut self, _pos1: u64, _rewind_rm_pos: &Bitmap) -> Result<(), String> {
		unreachable!()
	}
	fn get_hash(&self, pos0: u64) -> Option<Hash> {
		let mut i = 0;
		while i < self.n_stored {
			if self.stored[i].0 == pos0 {
				return Some(self.stored[i].1);
			}
			i += 1;
		}
		None
	}
	fn get_data(&self, _pos0: u64) -> Option<OutputIdentifier> {
		None
	}
	fn get_from_file(&self, pos0: u64) -> Option<Hash> {
		self.get_hash(pos0)
	}
	fn get_peak_from_file(&self, pos0: u64) -> Option<Hash> {
		self.get_hash(pos0)
	}
	fn get_data_from_file(&self, _pos0: u64) -> Option<OutputIdentifier> {
		None
	}
	fn leaf_pos_iter(&self) -> Box<dyn Iterator<Item = u64> + '_> {
		unreachable!()
	}
	fn n_unpruned_leaves(&self) -> u64 {
		0
	}
	fn n_unpruned_leaves_to_index(&self, _to_index: u64) -> u64 {
		0
	}
	fn leaf_idx_iter(&self, _from_idx: u64) -> Box<dyn Iterator<Item = u64> + '_> {
		unreachable!()
	}
	fn remove(&mut self, _position: u64) -> Result<(), String> {
		unreachable!()
	}
	fn remove_from_leaf_set(&mut self, _pos0: u64) {}
	fn release_files(&mut self) {}
	fn reset_prune_list(&mut self) {}
	fn snapshot(&self, _header: &BlockHeader) -> Result<(), String> {
		Ok(())
	}
	fn dump_stats(&self) {}
}

macro_rules! pruned_harness {
	($name:ident, $body:block) => {
		#[kani::proof]
		#[kani::unwind(70)]
		#[kani::stub(alloc::fmt::format, stub_format)]
		#[kani::stub(blake2_rfc::blake2b::Blake2b::update, p_stub_update)]
		#[kani::stub(crate::core::hash::HashWriter::finalize, p_stub_finalize)]
		fn $name() {
			unsafe {
				P_RECLEN = 0;
				P_TLEN = 0;
			}
			$body
		}
	};
}

// positions (0-based) of the MMR with 8 leaves: leaves 0 1 3 4 7 8 10 11; parents 2 5 9 12 (height 1), 6 13 (height 2), 14 (height 3)

// subtree root 5 (leaves 3,4): right child of 6, whose left sibling is 2. Parent 6 = H(h2, sub, 6) is a LEFT child of 14: nothing further.
pruned_harness!(c16_push_pruned_right_child_h1, {
	let h2 = p_tag(kani::any::<u16>() % 500);
	let sub = p_tag(500 + kani::any::<u16>() % 400);
	let mut b = MockBackend::new();
	b.store(2, h2);
	let expect6 = p_node(h2, sub, 6);
	{
		let mut pmmr: PMMR<'_, OutputIdentifier, MockBackend> = PMMR::at(&mut b, 5);
		pmmr.push_pruned_subtree(sub, 5).unwrap();
		assert!(pmmr.size == 7, "C16: size after the merged parent is the next leaf position");
	}
	assert!(b.subtree == Some((sub, 5)));
	assert!(b.n_appended == 1 && b.appended[0] == expect6, "C16: a pruned right sibling is merged with its stored left sibling into the parent");
});

// subtree roots 2 (first in the MMR) and 9 (left child of 13): left children, nothing is merged (one harness per position: a symbolic position exhausts CBMC's memory in peak_map_height).
macro_rules! left_child {
	($name:ident, $pos0:expr, $size0:expr, $next:expr) => {
		pruned_harness!($name, {
			let sub = p_tag(kani::any::<u16>() % 900);
			let mut b = MockBackend::new();
			b.store(6, p_tag(901));
			{
				let mut pmmr: PMMR<'_, OutputIdentifier, MockBackend> = PMMR::at(&mut b, $size0);
				pmmr.push_pruned_subtree(sub, $pos0).unwrap();
				assert!(pmmr.size == $next, "C16: size after a pruned left child is the next leaf position");
			}
			assert!(b.subtree == Some((sub, $pos0)) && b.n_appended == 0, "C16: a pruned left child is not merged");
		});
	};
}
left_child!(c16_push_pruned_left_child_2, 2u64, 0u64, 3u64);
left_child!(c16_push_pruned_left_child_9, 9u64, 7u64, 10u64);

// subtree root 12 (leaves 10,11): right child of 13 (left sibling 9), and 13 is the right child of 14 (left sibling 6): two parents.
pruned_harness!(c16_push_pruned_right_chain, {
	let h9 = p_tag(kani::any::<u16>() % 300);
	let h6 = p_tag(300 + kani::any::<u16>() % 300);
	let sub = p_tag(600 + kani::any::<u16>() % 300);
	let mut b = MockBackend::new();
	b.store(9, h9);
	b.store(6, h6);
	let e13 = p_node(h9, sub, 13);
	let e14 = p_node(h6, e13, 14);
	{
		let mut pmmr: PMMR<'_, OutputIdentifier, MockBackend> = PMMR::at(&mut b, 12);
		pmmr.push_pruned_subtree(sub, 12).unwrap();
		assert!(pmmr.size == 15, "C16: size after the chain of parents");
	}
	assert!(b.n_appended == 2 && b.appended[0] == e13 && b.appended[1] == e14, "C16: a pruned right sibling climbs while the current node is a right child");
});

// height-2 subtree roots: 13 (right child of 14, left sibling 6) and 6 (left child: nothing merged).
pruned_harness!(c16_push_pruned_h2_right, {
	let sub = p_tag(kani::any::<u16>() % 400);
	let h6 = p_tag(400 + kani::any::<u16>() % 400);
	let mut b = MockBackend::new();
	b.store(6, h6);
	let e14 = p_node(h6, sub, 14);
	{
		let mut pmmr: PMMR<'_, OutputIdentifier, MockBackend> = PMMR::at(&mut b, 7);
		pmmr.push_pruned_subtree(sub, 13).unwrap();
		assert!(pmmr.size == 15);
	}
	assert!(b.n_appended == 1 && b.appended[0] == e14, "C16: a pruned height-2 right sibling is merged into its parent");
});
pruned_harness!(c16_push_pruned_h2_left, {
	let sub = p_tag(kani::any::<u16>() % 400);
	let mut b = MockBackend::new();
	{
		let mut pmmr: PMMR<'_, OutputIdentifier, MockBackend> = PMMR::at(&mut b, 0);
		pmmr.push_pruned_subtree(sub, 6).unwrap();
		assert!(pmmr.size == 7);
	}
	assert!(b.n_appended == 0, "C16: a pruned height-2 left child is not merged");
});
