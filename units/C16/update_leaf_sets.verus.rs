//@ assume: croaring Bitmap is abstract: has(i); maximum / minimum return the largest / smallest set index (None iff empty); flip(range) inverts exactly the indices in the range; the set bits are enumerated in increasing order; pmmr::insertion_to_pmmr_index is an uninterpreted function here (decided in C07/pmmr_arith); the two PMMRs are abstract with a ghost log of remove_from_leaf_set calls
//@ assume: T6: `for x in flipped.iter()` => iteration over set_bits(&flipped) (abstract: the set indices in increasing order); `spent_pmmr_index.into()` => `spent_pmmr_index as u64`
//@ assume: assumed precondition: the bitmap is not empty and its maximum is below u32::MAX (the real code unwraps `maximum()` and adds 1)
//@ assume: decided here (C16, 'ends with the same unspent set'): Extension::update_leaf_sets removes from BOTH the output and the range-proof leaf set the position of EVERY leaf index from 0 up to the bitmap's maximum that the bitmap marks spent (bit clear) -- including indices below the first unspent one, e.g. a spent genesis output -- each once, in increasing order, and removes nothing else
//@ assumed_items: 7
//@ fns: Extension::update_leaf_sets
pub enum Error { Other }
#[verifier::external_body]
pub struct Bitmap { _p: u8 }
impl Bitmap {
    pub uninterp spec fn has(&self, i: u32) -> bool;
    #[verifier::external_body]
    pub fn maximum(&self) -> (r: Option<u32>)
        ensures r matches Some(m) ==> self.has(m) && forall|i: u32| i > m ==> !self.has(i), r.is_none() ==> forall|i: u32| !self.has(i) { unimplemented!() }
    #[verifier::external_body]
    pub fn minimum(&self) -> (r: Option<u32>)
        ensures r matches Some(m) ==> self.has(m) && forall|i: u32| i < m ==> !self.has(i), r.is_none() ==> forall|i: u32| !self.has(i) { unimplemented!() }
    #[verifier::external_body]
    pub fn flip(&self, range: std::ops::Range<u32>) -> (r: Bitmap)
        ensures forall|i: u32| r.has(i) == (if range.start <= i < range.end { !self.has(i) } else { self.has(i) }) { unimplemented!() }
}
pub open spec fn increasing(v: Seq<u32>) -> bool { forall|a: int, b: int| 0 <= a < b < v.len() ==> v[a] < v[b] }
/// `bitmap.iter()`: the set indices in increasing order
#[verifier::external_body]
fn set_bits(b: &Bitmap) -> (r: Vec<u32>) ensures increasing(r@), forall|i: u32| r@.contains(i) <==> b.has(i) { unimplemented!() }
pub uninterp spec fn sp_leaf_pos(n: u64) -> u64;
pub mod pmmr { use super::*;
    #[verifier::external_body]
    pub fn insertion_to_pmmr_index(n: u64) -> (r: u64) ensures r == sp_leaf_pos(n) { unimplemented!() } }
pub struct LeafPmmr { pub removed: Ghost<Seq<u64>> }
impl LeafPmmr {
    #[verifier::external_body]
    pub fn remove_from_leaf_set(&mut self, pos0: u64) ensures final(self).removed@ == old(self).removed@.push(pos0) { unimplemented!() }
}
pub struct Extension { pub output_pmmr: LeafPmmr, pub rproof_pmmr: LeafPmmr }
/// v lists, in increasing order, exactly the leaf indices up to the bitmap's maximum that are spent (bit clear)
pub open spec fn spent_upto_max(b: Bitmap, v: Seq<u32>) -> bool {
    increasing(v) && forall|i: u32| v.contains(i) <==> (!b.has(i) && exists|m: u32| i <= m && #[trigger] b.has(m))
}
pub open spec fn positions(v: Seq<u32>) -> Seq<u64> { v.map_values(|i: u32| sp_leaf_pos(i as u64)) }
impl Extension {
//@ extract chain/src/txhashset/txhashset.rs :: impl Extension::update_leaf_sets
//@   rewrite `for spent_pmmr_index in flipped.iter() {` => `let bits = set_bits(&flipped); for sp in it: bits.iter() { let spent_pmmr_index = *sp;`
//@   rewrite `spent_pmmr_index.into()` => `spent_pmmr_index as u64`
//@   requires:
//@+    exists|m: u32| #[trigger] bitmap.has(m) && m < u32::MAX, forall|i: u32| bitmap.has(i) ==> i < u32::MAX,
//@   ensures:
//@+    r.is_ok() ==> exists|v: Seq<u32>| #[trigger] spent_upto_max(*bitmap, v)
//@+        && final(self).output_pmmr.removed@ == old(self).output_pmmr.removed@ + positions(v)
//@+        && final(self).rproof_pmmr.removed@ == old(self).rproof_pmmr.removed@ + positions(v),
//@   loop 1:
//@+    invariant
//@+        self.output_pmmr.removed@ == old(self).output_pmmr.removed@ + positions(bits@.take(it.index@ as int)),
//@+        self.rproof_pmmr.removed@ == old(self).rproof_pmmr.removed@ + positions(bits@.take(it.index@ as int)),
//@   after `let bits = set_bits(&flipped); for sp in it: bits.iter() { let spent_pmmr_index = *sp;`:
//@+    proof { let k = it.index@ as int; assert(bits@.take(k + 1) =~= bits@.take(k).push(bits@[k])); assert(positions(bits@.take(k + 1)) =~= positions(bits@.take(k)).push(sp_leaf_pos(bits@[k] as u64))); }
//@   before `\t\tOk(())`:
//@+    proof { assert(bits@.take(bits@.len() as int) =~= bits@); assert(spent_upto_max(*bitmap, bits@)); }
//@ end
}
//@ canary update_leaf_sets: r.is_err()
