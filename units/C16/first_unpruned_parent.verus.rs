//@ assume: Segment::root (abstract: returns sp_root; ASSUMED: it returns Ok(None) only for a prunable MMR, i.e. when a bitmap was passed -- proved as a postcondition of the real function in C16/segment_root, a separate unit with its own abstract types, so it enters here as an assumed contract), Segment::get_hash (abstract: sp_hash_at(pos)), segment_pos_range (contract proved in C16/segment_ident; here only `last < mmr_size` is used), croaring Bitmap::range_cardinality (abstract: card(lo, hi) = number of set bits in [lo, hi))
//@ assume: pmmr::n_leaves / bintree_leftmost / bintree_rightmost / family_branch are the REAL functions with their contracts from C07/pmmr_arith (included and re-verified here; re-exported under a `pmmr` module), so the leaf range handed to the bitmap is stated over the explicit tree: [lb(leftmost(p)+1)-1, min(lb(rightmost(p)+1), lb(mmr_size)))
//@ assume: T5: `Vec<(u64,u64)>::into_iter()` / `.next()` => FbIter, a VERIFIED cursor over the real vector (yields the elements in order). T6: `self.get_hash(pos0).map(|h| (h, 1 + pos0))` => the equivalent `match` (Result::map with an un-annotated closure is outside the verifier)
//@ assume: assumed precondition: 1 <= mmr_size < 2^62 (the range C07 proves family_branch for)
//@ assume: decided here (C16, segment validation on a pruned source): Segment::first_unpruned_parent returns either (segment root, last+1) when the segment has a root; or, climbing from the segment's last position along its family branch, the FIRST position whose hash the segment carries -- and it climbs from a position to its parent ONLY IF the bitmap has no set bit in EXACTLY the parent's leaf-index range [n_leaves(1+leftmost(parent))-1, min(n_leaves(1+rightmost(parent)), n_leaves(mmr_size))), i.e. the parent's whole subtree is pruned. A narrower or shifted range (which would let validation accept a segment that omits an unspent leaf) fails the postcondition. No overflow, no out-of-range access; the loop terminates.
//@ assumed_items: 5
//@ fns: Segment::first_unpruned_parent
//@ include: ../C07/pmmr_arith.verus.rs
/// std::cmp::min at u64
fn min(a: u64, b: u64) -> (r: u64) ensures r == (if a <= b { a } else { b }) { if a <= b { a } else { b } }
#[derive(Clone, Copy, PartialEq, Eq)]
pub struct Hash { pub h: u64 }
#[derive(Clone, Copy, PartialEq, Eq, Debug)]
pub enum SegmentError { MissingLeaf(u64), MissingHash(u64), NonExistent, Mismatch }
#[verifier::external_body]
pub struct Bitmap { _p: u8 }
impl Bitmap {
    pub uninterp spec fn card(&self, lo: u32, hi: u32) -> u64;
    #[verifier::external_body]
    pub fn range_cardinality(&self, range: std::ops::Range<u32>) -> (r: u64) ensures r == self.card(range.start, range.end) { unimplemented!() }
}
pub open spec fn sp_n_leaves(size: u64) -> u64 { lb(size as nat, 64) as u64 }
pub open spec fn sp_leftmost(p: u64) -> u64 { (p as nat + 2 - pow2(ht(p as nat, 64) + 1)) as u64 }
pub open spec fn sp_rightmost(p: u64) -> u64 { (p as nat - ht(p as nat, 64)) as u64 }
/// the family branch as the explicit-tree ancestors (C07 contract of pmmr::family_branch)
pub open spec fn is_branch(b: Seq<(u64, u64)>, pos0: u64, size: u64) -> bool {
    forall|i: int| 0 <= i < b.len() ==> (#[trigger] b[i]).0 as nat == anc(pos0 as nat, (i + 1) as nat) && b[i].0 < size
}
pub mod pmmr { pub use super::{n_leaves, bintree_leftmost, bintree_rightmost, family_branch}; }
pub struct FbIter { pub v: Vec<(u64, u64)>, pub i: usize }
fn fb_iter(v: Vec<(u64, u64)>) -> (r: FbIter) ensures r.v@ == v@, r.i == 0 { FbIter { v, i: 0 } }
impl FbIter {
    pub fn next(&mut self) -> (r: Option<(u64, u64)>)
        requires old(self).i <= old(self).v@.len()
        ensures final(self).v@ == old(self).v@,
            old(self).i < old(self).v@.len() ==> r == Some(old(self).v@[old(self).i as int]) && final(self).i == old(self).i + 1,
            old(self).i >= old(self).v@.len() ==> r.is_none() && final(self).i == old(self).i,
    { if self.i < self.v.len() { let x = self.v[self.i]; self.i = self.i + 1; Some(x) } else { None } }
}
proof fn lemma_lb_pos(pos: nat, h: nat)
    requires 1 <= pos < tsize(h)
    ensures lb(pos, h) >= 1
    decreases h
{
    lemma2_to64(); lemma_psize(h);
    if h > 0 {
        lemma_pow2_unfold(h); lemma_psize((h - 1) as nat); lemma_pow2_pos((h - 1) as nat); lemma_pow2_pos(h);
        if pos == tsize(h) - 1 {
        } else if pos < tsize((h - 1) as nat) {
            lemma_lb_pos(pos, (h - 1) as nat);
        } else {
        }
    }
}
pub struct Segment { pub id: u64 }
/// the i-th position on the way up: path(0) = last, path(i) = family_branch[i-1].0
pub open spec fn path(last: u64, mmr_size: u64, i: int) -> u64 { if i <= 0 { last } else { anc(last as nat, i as nat) as u64 } }
/// the leaf-index range of the subtree below p, clamped to the MMR -- what the bitmap must be asked about
pub open spec fn lo(p: u64) -> u32 { (sp_n_leaves((1 + sp_leftmost(p)) as u64) - 1) as u32 }
pub open spec fn hi(p: u64, mmr_size: u64) -> u32 {
    let a = sp_n_leaves((1 + sp_rightmost(p)) as u64); let b = sp_n_leaves(mmr_size);
    (if a <= b { a } else { b }) as u32
}
impl Segment {
    pub uninterp spec fn sp_root(&self, mmr_size: u64, bitmap: Option<&Bitmap>) -> Result<Option<Hash>, SegmentError>;
    pub uninterp spec fn sp_hash_at(&self, pos0: u64) -> Result<Hash, SegmentError>;
    pub uninterp spec fn sp_last(&self, mmr_size: u64) -> u64;
    #[verifier::external_body]
    pub fn root(&self, mmr_size: u64, bitmap: Option<&Bitmap>) -> (r: Result<Option<Hash>, SegmentError>)
        ensures r == self.sp_root(mmr_size, bitmap), r matches Ok(None) ==> bitmap.is_some() { unimplemented!() }
    #[verifier::external_body]
    pub fn segment_pos_range(&self, mmr_size: u64) -> (r: (u64, u64))
        requires mmr_size >= 1 ensures r.1 == self.sp_last(mmr_size), r.1 < mmr_size { unimplemented!() }
    #[verifier::external_body]
    fn get_hash(&self, pos0: u64) -> (r: Result<Hash, SegmentError>) ensures r == self.sp_hash_at(pos0) { unimplemented!() }
//@ extract core/src/core/pmmr/segment.rs :: impl Segment::first_unpruned_parent
//@   rewrite `hash = self.get_hash(pos0).map(|h| (h, 1 + pos0));` => `hash = match self.get_hash(pos0) { Ok(h) => Ok((h, 1 + pos0)), Err(e) => Err(e) };`
//@   rewrite `pmmr::family_branch(last, mmr_size).into_iter()` => `fb_iter(pmmr::family_branch(last, mmr_size))`
//@   rewrite `let mut cardinality = 0;` => `let mut cardinality: u64 = 0;`
//@   rewrite `let mut hash = Err(SegmentError::MissingHash(last));` => `let mut hash: Result<(Hash, u64), SegmentError> = Err(SegmentError::MissingHash(last));`
//@   requires:
//@+    1 <= mmr_size < 0x4000_0000_0000_0000u64,
//@   ensures:
//@+    self.sp_root(mmr_size, bitmap).is_err() ==> r.is_err(),
//@+    self.sp_root(mmr_size, bitmap) matches Ok(Some(rt)) ==> r == Ok::<(Hash, u64), SegmentError>((rt, (1 + self.sp_last(mmr_size)) as u64)),
//@+    (self.sp_root(mmr_size, bitmap) matches Ok(None)) && r.is_ok() ==> bitmap.is_some() && exists|k: int| 0 <= k && inside(self.sp_last(mmr_size), mmr_size, k)
//@+        && #[trigger] climbed(*self, *bitmap.unwrap(), mmr_size, k) && r.unwrap().1 == 1 + path(self.sp_last(mmr_size), mmr_size, k)
//@+        && self.sp_hash_at(path(self.sp_last(mmr_size), mmr_size, k)) == Ok::<Hash, SegmentError>(r.unwrap().0),
//@   after `pos0 = p0;`:
//@+    proof { lemma2_to64(); lemma_psize(64); lemma_pow2_unfold(64); lemma_pow2_unfold(63); lemma_ht_small(p0 as nat); lemma_subtree_fits(p0 as nat, 64);
//@+        lemma_pow2_pos(ht(p0 as nat, 64) + 1); lemma_pow2_unfold(ht(p0 as nat, 64) + 1); lemma_pow2_pos(ht(p0 as nat, 64));
//@+        lemma_lb_pos((p0 as nat + 3 - pow2(ht(p0 as nat, 64) + 1)) as nat, 64); lemma_lb_le((p0 as nat + 3 - pow2(ht(p0 as nat, 64) + 1)) as nat, 64); }
//@   attr: #[verifier::loop_isolation(false)]
//@   at_start:
//@+    let ghost bm0 = bitmap;
//@   loop 1:
//@+    invariant
//@+        self.sp_root(mmr_size, bm0) == Ok::<Option<Hash>, SegmentError>(None), bm0 == Some(bitmap),
//@+        1 <= mmr_size < 0x4000_0000_0000_0000u64, last == self.sp_last(mmr_size), last < mmr_size,
//@+        is_branch(family_branch.v@, last, mmr_size), family_branch.i <= family_branch.v@.len(),
//@+        inside(last, mmr_size, family_branch.i as int),
//@+        pos0 == path(last, mmr_size, family_branch.i as int), pos0 < mmr_size,
//@+        n_leaves as nat == lb(mmr_size as nat, 64),
//@+        hash.is_err(),
//@+        cardinality == 0 ==> climbed(*self, *bitmap, mmr_size, family_branch.i as int),
//@+    decreases family_branch.v@.len() - family_branch.i, (if cardinality == 0 { 1int } else { 0int }),
//@ end
}
/// the first k ancestors of `last` are positions of the MMR
pub open spec fn inside(last: u64, mmr_size: u64, k: int) -> bool { forall|j: nat| 1 <= j <= k ==> #[trigger] anc(last as nat, j) < mmr_size }
/// every position below path(k) on the way up had no hash in the segment, and every step up was licensed by an
/// all-pruned parent subtree
pub open spec fn climbed(s: Segment, b: Bitmap, mmr_size: u64, k: int) -> bool {
    let last = s.sp_last(mmr_size);
    (forall|j: int| 0 <= j < k ==> (#[trigger] s.sp_hash_at(path(last, mmr_size, j))).is_err())
    && (forall|j: int| 1 <= j <= k ==> #[trigger] b.card(lo(path(last, mmr_size, j)), hi(path(last, mmr_size, j), mmr_size)) == 0)
}
//@ canary first_unpruned_parent: r.is_err()
