//@ assume: Chain is reduced to the handles txhashset_write uses; the zip / sandbox / file-move steps (clean_txhashset_folder, zip_write, TxHashSet::open, release_backend_files, txhashset_replace) are opaque file-system operations; fork_point / check_txhashset_needed / get_block_header are uninterpreted; validate_kernel_history (the kernel-root walk over every header), verify_kernel_pos_index, Extension::rewind and Extension::validate (C01/txhashset_validate: roots, sizes, kernel sums, range proofs, signatures) are abstract 'this step succeeded' predicates; txhashset::extending is abstract over an environment (T7), Ok only if the closure returned Ok (C06/extending); the batch has a ghost body head and a commit outcome
//@ assume: T7: the validation closure is lifted and verified; T6: RwLock guards are structs with the guarded value as field `v`; `status: &dyn TxHashsetWriteStatus` => `&SyncState`; `Error::InvalidTxHashSet("not needed".to_owned())` => `Error::Other`; `sandbox_dir.to_str().expect(..).to_owned()` / `self.db_root.clone()` / `PathBuf::from(..)` are opaque path values; `*txhashset_ref = txhashset;` => `txhashset_ref.v = txhashset;`; log macros removed (T3)
//@ assume: decided here (C16, state archive path: 'or from the state archive ... never finalises a state whose roots differ from the archive header'): Chain::txhashset_write makes the archive header the body head (save_body_head + commit) and swaps the sandbox txhashset in ONLY IF the kernel history validated for that header, the kernel position index verified, and inside an extension rewound to THAT header the full validation (roots and sizes against the header, kernel sums, every range proof and kernel signature -- fast = false) succeeded with the block sums saved for it; if the header is unknown it reports a bannable peer (Ok(true)) and writes nothing; any failure leaves head and txhashset untouched.
//@ assumed_items: 45
//@ fns: Chain::txhashset_write, Chain::txhashset_write (validation closure)
#[derive(Clone, Copy)]
pub struct Hash { pub v: u64 }
#[derive(Clone, Copy)]
pub struct BlockHeader { pub height: u64, pub id: Hash, pub prev_hash: Hash }
impl BlockHeader {
    pub fn clone(&self) -> (r: BlockHeader) ensures r == *self { *self }
    pub fn hash(&self) -> (r: Hash) ensures r == self.id { self.id }
}
#[derive(Clone, Copy)]
pub struct Tip { pub height: u64, pub last_block_h: Hash }
impl Tip {
    pub open spec fn sp_from_header(h: BlockHeader) -> Tip { Tip { height: h.height, last_block_h: h.id } }
    #[verifier::external_body]
    pub fn from_header(h: &BlockHeader) -> (r: Tip) ensures r == Tip::sp_from_header(*h) { unimplemented!() }
}
pub enum Error { InvalidRoot, Store, Other }
#[verifier::external_body]
#[derive(Clone, Copy)]
pub struct Commitment { _p: u8 }
pub struct BlockSums { pub utxo_sum: Commitment, pub kernel_sum: Commitment }
#[verifier::external_body]
pub struct SyncState { _p: u8 }
impl SyncState {
    #[verifier::external_body] pub fn on_setup(&self, a: Option<u64>, b: Option<u64>, c: Option<u64>, d: Option<u64>) { unimplemented!() }
    #[verifier::external_body] pub fn on_save(&self) { unimplemented!() }
    #[verifier::external_body] pub fn on_done(&self) { unimplemented!() }
    #[verifier::external_body] pub fn clone(&self) -> (r: &SyncState) { unimplemented!() }
}
#[verifier::external_body]
pub struct StopState { _p: u8 }
impl StopState {
    pub uninterp spec fn sp_stopped(&self) -> bool;
    /// a stop request stays up once raised: within one call it is modelled as a fixed boolean
    #[verifier::external_body] pub fn is_stopped(&self) -> (r: bool) ensures r == self.sp_stopped() { unimplemented!() }
    #[verifier::external_body] pub fn clone(&self) -> (r: &StopState) ensures r.sp_stopped() == self.sp_stopped() { unimplemented!() }
}
pub uninterp spec fn sp_roots_match(t: TxHashSet, h: BlockHeader) -> bool;        // C15/roots: all three roots, bitmap accumulator included
pub uninterp spec fn sp_kernel_root_ok(h: BlockHeader) -> bool;                  // the kernel MMR rewound to h has h's kernel root
pub uninterp spec fn sp_prev(h: BlockHeader) -> BlockHeader;
pub uninterp spec fn sp_kernel_index_ok(t: TxHashSet) -> bool;
pub uninterp spec fn sp_fully_validated(h: BlockHeader) -> bool;                 // Extension::validate at h (kernel sums, range proofs, signatures)
pub uninterp spec fn sp_rewound_to(h: BlockHeader) -> bool;
/// the kernel root validated for h and every ancestor above height 0 (the walk of closure 1, which is NOT verified here)
pub uninterp spec fn sp_history_ok(h: BlockHeader) -> bool;
pub struct Roots { pub of: Ghost<TxHashSet> }
impl Roots {
    #[verifier::external_body]
    pub fn validate(&self, h: &BlockHeader) -> (r: Result<(), Error>) ensures r.is_ok() ==> sp_roots_match(self.of@, *h) { unimplemented!() }
}
#[derive(Clone, Copy)]
pub struct TxHashSet { pub id: u64 }
pub struct PMMRHandle { pub _p: u8 }
impl TxHashSet {
    #[verifier::external_body]
    pub fn roots(&self) -> (r: Result<Roots, Error>) ensures r matches Ok(x) ==> x.of@ == *self { unimplemented!() }
    #[verifier::external_body]
    pub fn verify_kernel_pos_index(&self, genesis: &BlockHeader, header_pmmr: &PMMRHandle, batch: &mut Batch, status: Option<&SyncState>, stop: Option<&StopState>) -> (r: Result<(), Error>)
        ensures r.is_ok() ==> sp_kernel_index_ok(*self), sp_same(*final(batch), *old(batch)) { unimplemented!() }
    #[verifier::external_body]
    pub fn init_output_pos_index(&self, header_pmmr: &PMMRHandle, batch: &mut Batch) -> (r: Result<(), Error>) ensures sp_same(*final(batch), *old(batch)) { unimplemented!() }
    #[verifier::external_body]
    pub fn init_recent_kernel_pos_index(&self, header_pmmr: &PMMRHandle, batch: &mut Batch) -> (r: Result<(), Error>) ensures sp_same(*final(batch), *old(batch)) { unimplemented!() }
}
pub struct Batch { pub body_head: Ghost<Option<Tip>>, pub sums_saved: Ghost<Option<Hash>> }
pub open spec fn sp_same(a: Batch, b: Batch) -> bool { a.body_head@ == b.body_head@ && a.sums_saved@ == b.sums_saved@ }
pub uninterp spec fn sp_committed(body_head: Option<Tip>) -> bool;
impl Batch {
    #[verifier::external_body]
    pub fn get_previous_header(&self, h: &BlockHeader) -> (r: Result<BlockHeader, Error>) ensures r matches Ok(p) ==> p == sp_prev(*h) { unimplemented!() }
    #[verifier::external_body]
    pub fn save_block_sums(&mut self, h: &Hash, s: BlockSums) -> (r: Result<(), Error>)
        ensures final(self).body_head == old(self).body_head, r.is_ok() ==> final(self).sums_saved@ == Some(*h), r.is_err() ==> final(self).sums_saved == old(self).sums_saved { unimplemented!() }
    #[verifier::external_body]
    pub fn save_body_head(&mut self, t: &Tip) -> (r: Result<(), Error>)
        ensures final(self).sums_saved == old(self).sums_saved, r.is_ok() ==> final(self).body_head@ == Some(*t), r.is_err() ==> final(self).body_head == old(self).body_head { unimplemented!() }
    #[verifier::external_body]
    pub fn save_body_tail(&mut self, t: &Tip) -> (r: Result<(), Error>) ensures sp_same(*final(self), *old(self)) { unimplemented!() }
    #[verifier::external_body]
    pub fn commit(self) -> (r: Result<(), Error>) ensures r.is_ok() ==> sp_committed(self.body_head@) { unimplemented!() }
}
pub struct KernelView { pub at: Ghost<Option<BlockHeader>> }
impl KernelView {
    #[verifier::external_body]
    pub fn rewind(&mut self, h: &BlockHeader) -> (r: Result<(), Error>) ensures r.is_ok() ==> final(self).at@ == Some(*h) { unimplemented!() }
    #[verifier::external_body]
    pub fn validate_root(&self) -> (r: Result<(), Error>) ensures r.is_ok() ==> (self.at@ matches Some(h) && sp_kernel_root_ok(h)) { unimplemented!() }
}
pub struct Extension { pub at: Ghost<Option<BlockHeader>> }
pub struct HeaderExtension { pub _p: u8 }
pub struct ExtensionPair { pub header_extension: HeaderExtension, pub extension: Extension }
impl Extension {
    #[verifier::external_body]
    pub fn rewind(&mut self, h: &BlockHeader, batch: &Batch) -> (r: Result<(), Error>) ensures r.is_ok() ==> final(self).at@ == Some(*h) { unimplemented!() }
    #[verifier::external_body]
    pub fn validate(&self, genesis: &BlockHeader, fast: bool, status: &SyncState, from: Option<u64>, to: Option<u64>, header: &BlockHeader, stop: Option<&StopState>) -> (r: Result<(Commitment, Commitment), Error>)
        ensures r.is_ok() && !fast && self.at@ == Some(*header) ==> sp_fully_validated(*header) { unimplemented!() }
}
pub struct Store { pub _p: u8 }
impl Store {
    #[verifier::external_body]
    pub fn batch(&self) -> (r: Result<Batch, Error>) ensures r matches Ok(b) ==> b.body_head@ is None && b.sums_saved@ is None { unimplemented!() }
}
pub struct Guard<T> { pub v: T }
pub struct RwLock<T> { pub v: T }
impl<T: Copy> RwLock<T> {
    #[verifier::external_body] pub fn read(&self) -> (r: Guard<T>) ensures r.v == self.v { unimplemented!() }
}
pub struct RwLockH { pub _p: u8 }
impl RwLockH {
    #[verifier::external_body] pub fn read(&self) -> (r: Guard<PMMRHandle>) { unimplemented!() }
    #[verifier::external_body] pub fn write(&self) -> (r: Guard<PMMRHandle>) { unimplemented!() }
}
impl RwLock<TxHashSet> {
    #[verifier::external_body] pub fn write(&self) -> (r: Guard<TxHashSet>) ensures r.v == self.v { unimplemented!() }
}
impl Guard<TxHashSet> {
    pub fn roots(&self) -> (r: Result<Roots, Error>) ensures r matches Ok(x) ==> x.of@ == self.v { self.v.roots() }
    pub fn verify_kernel_pos_index(&self, genesis: &BlockHeader, header_pmmr: &Guard<PMMRHandle>, batch: &mut Batch, status: Option<&SyncState>, stop: Option<&StopState>) -> (r: Result<(), Error>)
        ensures r.is_ok() ==> sp_kernel_index_ok(self.v), sp_same(*final(batch), *old(batch)) { self.v.verify_kernel_pos_index(genesis, &header_pmmr.v, batch, status, stop) }
    pub fn init_output_pos_index(&self, header_pmmr: &Guard<PMMRHandle>, batch: &mut Batch) -> (r: Result<(), Error>) ensures sp_same(*final(batch), *old(batch)) { self.v.init_output_pos_index(&header_pmmr.v, batch) }
    pub fn init_recent_kernel_pos_index(&self, header_pmmr: &Guard<PMMRHandle>, batch: &mut Batch) -> (r: Result<(), Error>) ensures sp_same(*final(batch), *old(batch)) { self.v.init_recent_kernel_pos_index(&header_pmmr.v, batch) }
}
pub struct Desegmenter { pub txhashset: RwLock<TxHashSet>, pub header_pmmr: RwLockH, pub archive_header: BlockHeader, pub genesis: BlockHeader, pub store: Store }

#[verifier::external_body]
pub struct File { _p: u8 }
impl File { #[verifier::external_body] pub fn try_clone(&self) -> (r: Result<File, Error>) { unimplemented!() } }
#[verifier::external_body]
#[derive(Clone, Copy)]
pub struct PathV { _p: u8 }
impl PathV { pub fn clone(&self) -> (r: PathV) { *self } }
#[verifier::external_body]
#[derive(Clone, Copy)]
pub struct StoreArc { _p: u8 }
impl StoreArc {
    pub fn clone(&self) -> (r: StoreArc) { *self }
    #[verifier::external_body]
    pub fn batch(&self) -> (r: Result<Batch, Error>) ensures r matches Ok(b) ==> b.body_head@ is None && b.sums_saved@ is None { unimplemented!() }
}
pub struct FullEnvW<'a> { pub header: &'a BlockHeader }
pub open spec fn sp_full_ok_w(h: BlockHeader, sums: Option<Hash>) -> bool { sp_fully_validated(h) && sums == Some(h.id) }
pub mod txhashset {
    use super::*;
    pub use super::TxHashSet;
    #[verifier::external_body] pub fn clean_txhashset_folder(p: &PathV) { unimplemented!() }
    #[verifier::external_body] pub fn zip_write(p: PathV, f: File, h: &BlockHeader) -> (r: Result<(), Error>) { unimplemented!() }
    #[verifier::external_body] pub fn txhashset_replace(from: PathV, to: PathV) -> (r: Result<(), Error>) { unimplemented!() }
    #[verifier::external_body]
    pub fn extending(header_pmmr: &mut Guard<PMMRHandle>, trees: &mut TxHashSet, batch: &mut Batch, env: FullEnvW) -> (r: Result<(), Error>)
        ensures r.is_ok() ==> sp_full_ok_w(*env.header, final(batch).sums_saved@), final(batch).body_head == old(batch).body_head { unimplemented!() }
}
impl TxHashSet {
    #[verifier::external_body] pub fn open(p: PathV, s: StoreArc, h: Option<&BlockHeader>) -> (r: Result<TxHashSet, Error>) { unimplemented!() }
    #[verifier::external_body] pub fn release_backend_files(&mut self) { unimplemented!() }
}
impl Guard<TxHashSet> { pub fn release_backend_files(&mut self) { self.v.release_backend_files() } }
pub uninterp spec fn sp_khist_ok(h: BlockHeader, t: TxHashSet) -> bool;
pub struct GenesisB { pub header: BlockHeader }
pub struct Chain { pub txhashset: RwLock<TxHashSet>, pub header_pmmr: RwLockH, pub genesis: GenesisB, pub store: StoreArc, pub db_root: PathV }
impl Chain {
    #[verifier::external_body] fn fork_point(&self) -> (r: Result<BlockHeader, Error>) { unimplemented!() }
    #[verifier::external_body] fn check_txhashset_needed(&self, fp: &BlockHeader) -> (r: Result<bool, Error>) { unimplemented!() }
    #[verifier::external_body] pub fn get_block_header(&self, h: &Hash) -> (r: Result<BlockHeader, Error>) ensures r matches Ok(x) ==> x.id == *h { unimplemented!() }
    #[verifier::external_body] pub fn get_tmp_dir(&self) -> (r: PathV) { unimplemented!() }
    #[verifier::external_body] fn validate_kernel_history(&self, h: &BlockHeader, t: &TxHashSet) -> (r: Result<(), Error>) ensures r.is_ok() ==> sp_khist_ok(*h, *t) { unimplemented!() }
//@ extract chain/src/chain.rs :: impl Chain::txhashset_write
//@   strip_logs
//@   closure 1 lifted_as `fn tw_validation(&self, ext: &mut ExtensionPair, batch: &mut Batch, header: &BlockHeader, status: &SyncState) -> Result<(), Error>`
//@   rewrite `extension.rewind(&header, batch)?;` => `extension.rewind(header, batch)?;` x?
//@   rewrite `\t\t\t\t\t&header,\n` => `\t\t\t\t\theader,\n` x?
//@   ensures:
//@+    r.is_ok() ==> sp_full_ok_w(*header, final(batch).sums_saved@),
//@+    final(batch).body_head == old(batch).body_head,
//@ end
//@ extract chain/src/chain.rs :: impl Chain::txhashset_write
//@   strip_logs
//@   sigrewrite `status: &dyn TxHashsetWriteStatus,` => `status: &SyncState,`
//@   closure 1 replaced_by `FullEnvW { header: &header }`
//@   rewrite `Error::InvalidTxHashSet("not needed".to_owned())` => `Error::Other` x?
//@   rewrite `sandbox_dir\n\t\t\t\t.to_str()\n\t\t\t\t.expect("invalid sandbox folder")\n\t\t\t\t.to_owned()` => `sandbox_dir.clone()` x?
//@   rewrite `txhashset::clean_txhashset_folder(&sandbox_dir);` => `txhashset::clean_txhashset_folder(&sandbox_dir);` x?
//@   rewrite `PathBuf::from(self.db_root.clone())` => `self.db_root.clone()` x?
//@   rewrite `*txhashset_ref = txhashset;` => `txhashset_ref.v = txhashset;` x?
//@   rewrite `\t\t\t\t&header_pmmr,\n` => `\t\t\t\t&header_pmmr.v,\n` x?
//@   rewrite `(&header_pmmr, &mut batch)` => `(&header_pmmr.v, &mut batch)` x?
//@   ensures:
//@+    // Ok(false) = the new state was accepted: only after all of this
//@+    r matches Ok(false) ==> exists|hdr: BlockHeader, t: TxHashSet| hdr.id == h && #[trigger] sp_khist_ok(hdr, t) && sp_kernel_index_ok(t) && sp_fully_validated(hdr)
//@+        && sp_committed(Some(Tip::sp_from_header(hdr))),
//@ end
}
//@ canary txhashset_write: r.is_err()
