//@ assume: the three MMRs of the extension are abstract: a public `size` and a ghost LOG of the operations applied (push of a leaf at the then-current size, push of a pruned subtree hash claimed for a position, rewind, removal from the leaf set); how push / push_pruned_subtree move the size is uninterpreted (PMMR::push: C07/pmmr_push; push_pruned_subtree: bounded unit); the segment is any value satisfying the Segment type invariant that Segment::read / from_parts establish (equally many positions and items: C11/bitmap_segment, C10/segment_positions) -- a PRECONDITION here; croaring Bitmap (bitmap_cache) is a set of u32; pmmr::pmmr_leaf_to_insertion_index is proved in C07/pmmr_arith and uninterpreted here
//@ assume: T5: `Segment<OutputIdentifier>` / `Segment<RangeProof>` / `Segment<TxKernel>` => one segment type; the private enum OrderedHashLeafNode is re-declared as plain data (its hand-written Ord compares positions: that is what sort_nodes, the stand-in for `ordered_inserts.sort()`, is ASSUMED to sort by, keeping the multiset); T6: `for (i, p) in v.iter().enumerate() { .. continue .. }` => index `while` loops; `for insert in self.sort_..(..)` => iteration over the returned vector's elements; `.map_err(&Error::TxHashSetErr)?` => `?` against abstract callees that already return the final error type; `vec![]` => Vec::new(); `&Bitmap::new()` => an abstract empty bitmap; `Error::InvalidSegment(..).into()` => Error::InvalidSegment
//@ assume: decided here (C16, the RECEIVER applying validated segments): Extension::sort_pmmr_hashes_and_leaves returns, sorted by position, exactly one Leaf(i, leaf_pos[i]) for every leaf position other than the skipped one and one Hash(i, hash_pos[i]) for every hash position; apply_output_segment / apply_rangeproof_segment / apply_kernel_segment process the nodes in that order and return Ok only having pushed EVERY node that was due when its turn came (a hash claimed at or beyond the size, a leaf claimed exactly at the size) and having applied to THEIR OWN MMR nothing but: a leaf pushed when the MMR's size IS the position the segment claims for it, with the data the segment carries AT THAT INDEX; a pruned-subtree hash pushed for the position the segment claims for it, with the hash carried at that index, only when that position is not below the size; the one-off rewind of a lone genesis leaf; and removals from the leaf set only for leaves of the segment whose leaf index the finalised bitmap does NOT contain -- and EVERY such leaf of the segment (other than position 0) has been removed by then; a kernel segment carrying a hash is refused
//@ assumed_items: 9
//@ fns: Extension::sort_pmmr_hashes_and_leaves, Extension::apply_output_segment, Extension::apply_rangeproof_segment, Extension::apply_kernel_segment
global size_of usize == 8;
#[derive(Clone, Copy, PartialEq, Eq)]
pub struct Hash { pub v: u64 }
#[derive(Clone, Copy, PartialEq, Eq)]
pub struct Elem { pub v: u64 }
pub enum Error { TxHashSetErr, InvalidSegment, Other }
#[derive(Clone, Copy)]
pub enum OrderedHashLeafNode { Hash(usize, u64), Leaf(usize, u64) }
pub open spec fn node_pos(n: OrderedHashLeafNode) -> u64 { match n { OrderedHashLeafNode::Hash(_, p) => p, OrderedHashLeafNode::Leaf(_, p) => p } }
pub open spec fn sorted_nodes(s: Seq<OrderedHashLeafNode>) -> bool { forall|i: int, j: int| 0 <= i < j < s.len() ==> node_pos(s[i]) <= node_pos(s[j]) }
#[verifier::external_body]
pub fn sort_nodes(v: &mut Vec<OrderedHashLeafNode>) ensures sorted_nodes(final(v)@), final(v)@.to_multiset() == old(v)@.to_multiset() { unimplemented!() }
pub enum Op { Leaf(Elem, u64), Pruned(Hash, u64, u64), Rewind(u64, u64), Unset(u64) }
#[verifier::external_body]
pub struct Bitmap { _p: u8 }
impl Bitmap {
    pub uninterp spec fn view(&self) -> Set<u32>;
    #[verifier::external_body]
    pub fn contains(&self, x: u32) -> (r: bool) ensures r == self@.contains(x) { unimplemented!() }
    #[verifier::external_body]
    pub fn new() -> (r: Bitmap) { unimplemented!() }
}
pub uninterp spec fn sp_leaf_idx(pos0: u64) -> Option<u64>;
pub mod pmmr { use super::*;
    #[verifier::external_body]
    pub fn pmmr_leaf_to_insertion_index(pos0: u64) -> (r: Option<u64>) ensures r == sp_leaf_idx(pos0) { unimplemented!() } }
pub struct PMMR { pub size: u64, pub log: Ghost<Seq<Op>> }
impl PMMR {
    #[verifier::external_body]
    pub fn rewind(&mut self, pos: u64, bm: &Bitmap) -> (r: Result<(), Error>) ensures r is Ok ==> final(self).log@ == old(self).log@.push(Op::Rewind(pos, old(self).size)) && (pos == 0 ==> final(self).size == 0) { unimplemented!() }
    #[verifier::external_body]
    pub fn push_pruned_subtree(&mut self, h: Hash, pos0: u64) -> (r: Result<(), Error>) ensures r is Ok ==> final(self).log@ == old(self).log@.push(Op::Pruned(h, pos0, old(self).size)) && pruned_in(final(self).log@, h, pos0, old(self).size) /* implied by the line before; stated to name the witness */ { unimplemented!() }
    #[verifier::external_body]
    pub fn push(&mut self, d: &Elem) -> (r: Result<u64, Error>) ensures r is Ok ==> final(self).log@ == old(self).log@.push(Op::Leaf(*d, old(self).size)) { unimplemented!() }
    #[verifier::external_body]
    pub fn remove_from_leaf_set(&mut self, pos0: u64) ensures final(self).size == old(self).size, final(self).log@ == old(self).log@.push(Op::Unset(pos0)) { unimplemented!() }
}
pub struct SegmentIdentifier { pub height: u8, pub idx: u64 }
pub struct SegmentProof { pub _p: u8 }
pub struct Segment { pub identifier: SegmentIdentifier, pub hash_pos: Vec<u64>, pub hashes: Vec<Hash>, pub leaf_pos: Vec<u64>, pub leaf_data: Vec<Elem>, pub proof: SegmentProof }
impl Segment {
    pub open spec fn wf(&self) -> bool { self.hash_pos@.len() == self.hashes@.len() && self.leaf_pos@.len() == self.leaf_data@.len() }
    pub fn parts(self) -> (r: (SegmentIdentifier, Vec<u64>, Vec<Hash>, Vec<u64>, Vec<Elem>, SegmentProof))
        ensures r.1 == self.hash_pos, r.2 == self.hashes, r.3 == self.leaf_pos, r.4 == self.leaf_data
    { (self.identifier, self.hash_pos, self.hashes, self.leaf_pos, self.leaf_data, self.proof) }
}
pub struct Extension { pub output_pmmr: PMMR, pub rproof_pmmr: PMMR, pub kernel_pmmr: PMMR, pub bitmap_cache: Bitmap }
/// Leaf(i, lp[i]) for i < k, skipping the skipped position
pub open spec fn leaf_nodes(lp: Seq<u64>, skip: Option<u64>, k: int) -> Seq<OrderedHashLeafNode> decreases k {
    if k <= 0 { Seq::empty() } else { let p = leaf_nodes(lp, skip, k - 1); if skip == Some(lp[k - 1]) { p } else { p.push(OrderedHashLeafNode::Leaf((k - 1) as usize, lp[k - 1])) } }
}
pub open spec fn hash_nodes(hp: Seq<u64>, k: int) -> Seq<OrderedHashLeafNode> decreases k {
    if k <= 0 { Seq::empty() } else { hash_nodes(hp, k - 1).push(OrderedHashLeafNode::Hash((k - 1) as usize, hp[k - 1])) }
}
pub open spec fn all_nodes(hp: Seq<u64>, lp: Seq<u64>, skip: Option<u64>) -> Seq<OrderedHashLeafNode> { leaf_nodes(lp, skip, lp.len() as int) + hash_nodes(hp, hp.len() as int) }
pub open spec fn node_ok(n: OrderedHashLeafNode, hp: Seq<u64>, lp: Seq<u64>) -> bool {
    match n { OrderedHashLeafNode::Hash(i, p) => i < hp.len() && hp[i as int] == p, OrderedHashLeafNode::Leaf(i, p) => i < lp.len() && lp[i as int] == p && p != 0 }
}
pub proof fn lemma_leaf_nodes_ok(hp: Seq<u64>, lp: Seq<u64>, k: int)
    requires 0 <= k <= lp.len(), lp.len() <= usize::MAX
    ensures forall|j: int| 0 <= j < leaf_nodes(lp, Some(0u64), k).len() ==> node_ok(#[trigger] leaf_nodes(lp, Some(0u64), k)[j], hp, lp),
        forall|i: int| 0 <= i < k && lp[i] != 0 ==> leaf_nodes(lp, Some(0u64), k).contains(OrderedHashLeafNode::Leaf(i as usize, lp[i]))
    decreases k
{
    if k > 0 {
        lemma_leaf_nodes_ok(hp, lp, k - 1);
        let p = leaf_nodes(lp, Some(0u64), k - 1);
        assert((Some(0u64) == Some(lp[k - 1])) == (lp[k - 1] == 0));
        if lp[k - 1] == 0 { assert(leaf_nodes(lp, Some(0u64), k) == p); }
        if lp[k - 1] != 0 {
            let q = p.push(OrderedHashLeafNode::Leaf((k - 1) as usize, lp[k - 1]));
            assert(leaf_nodes(lp, Some(0u64), k) == q);
            assert(q[p.len() as int] == OrderedHashLeafNode::Leaf((k - 1) as usize, lp[k - 1]));
            assert forall|j: int| 0 <= j < q.len() implies node_ok(#[trigger] q[j], hp, lp) by { if j < p.len() { assert(q[j] == p[j]); } }
            assert forall|i: int| 0 <= i < k && lp[i] != 0 implies q.contains(OrderedHashLeafNode::Leaf(i as usize, lp[i])) by {
                if i < k - 1 { let w = choose|w: int| 0 <= w < p.len() && p[w] == OrderedHashLeafNode::Leaf(i as usize, lp[i]); assert(q[w] == p[w]); }
            }
        }
    }
}
pub proof fn lemma_hash_nodes_ok(hp: Seq<u64>, lp: Seq<u64>, k: int)
    requires 0 <= k <= hp.len(), hp.len() <= usize::MAX
    ensures forall|j: int| 0 <= j < hash_nodes(hp, k).len() ==> node_ok(#[trigger] hash_nodes(hp, k)[j], hp, lp)
    decreases k
{ if k > 0 { lemma_hash_nodes_ok(hp, lp, k - 1); let p = hash_nodes(hp, k - 1); let q = hash_nodes(hp, k);
    assert forall|j: int| 0 <= j < q.len() implies node_ok(#[trigger] q[j], hp, lp) by { if j < p.len() { assert(q[j] == p[j]); } } } }
/// everything a sorted permutation of all_nodes holds is well indexed, and every non-genesis leaf is in it
pub proof fn lemma_perm_ok(s: Seq<OrderedHashLeafNode>, hp: Seq<u64>, lp: Seq<u64>)
    requires s.to_multiset() == all_nodes(hp, lp, Some(0u64)).to_multiset(), lp.len() <= usize::MAX, hp.len() <= usize::MAX
    ensures forall|j: int| 0 <= j < s.len() ==> node_ok(#[trigger] s[j], hp, lp),
        forall|i: int| 0 <= i < lp.len() && lp[i] != 0 ==> s.contains(OrderedHashLeafNode::Leaf(i as usize, lp[i]))
{
    let a = all_nodes(hp, lp, Some(0u64));
    let l = leaf_nodes(lp, Some(0u64), lp.len() as int); let h = hash_nodes(hp, hp.len() as int);
    lemma_leaf_nodes_ok(hp, lp, lp.len() as int); lemma_hash_nodes_ok(hp, lp, hp.len() as int);
    assert forall|x: OrderedHashLeafNode| a.contains(x) implies node_ok(x, hp, lp) by {
        let w = choose|w: int| 0 <= w < a.len() && a[w] == x;
        if w < l.len() { assert(a[w] == l[w]); } else { assert(a[w] == h[w - l.len()]); }
    }
    assert forall|j: int| 0 <= j < s.len() implies node_ok(#[trigger] s[j], hp, lp) by {
        s.to_multiset_ensures(); a.to_multiset_ensures();
        assert(s.contains(s[j]));
        assert(s.to_multiset().count(s[j]) > 0);
        assert(a.to_multiset().count(s[j]) > 0);
        assert(a.contains(s[j]));
    }
    assert forall|i: int| 0 <= i < lp.len() && lp[i] != 0 implies s.contains(OrderedHashLeafNode::Leaf(i as usize, lp[i])) by {
        let x = OrderedHashLeafNode::Leaf(i as usize, lp[i]);
        let w = choose|w: int| 0 <= w < l.len() && l[w] == x;
        assert(a[w] == x); assert(a.contains(x));
        s.to_multiset_ensures(); a.to_multiset_ensures();
        assert(a.to_multiset().count(x) > 0);
        assert(s.to_multiset().count(x) > 0);
    }
}
/// is this log entry justified by the segment and the bitmap?
pub open spec fn op_ok(o: Op, hp: Seq<u64>, hs: Seq<Hash>, lp: Seq<u64>, ld: Seq<Elem>, bm: Set<u32>) -> bool {
    match o {
        Op::Leaf(d, at) => exists|i: int| 0 <= i < lp.len() && i < ld.len() && #[trigger] lp[i] == at && ld[i] == d,
        Op::Pruned(h, p, at) => p >= at && exists|i: int| 0 <= i < hp.len() && i < hs.len() && #[trigger] hp[i] == p && hs[i] == h,
        Op::Rewind(pos, at) => pos == 0 && at == 1,
        Op::Unset(p) => (exists|i: int| 0 <= i < lp.len() && #[trigger] lp[i] == p) && sp_leaf_idx(p) is Some && !bm.contains(sp_leaf_idx(p)->0 as u32),
    }
}
pub open spec fn log_ok(old_log: Seq<Op>, new_log: Seq<Op>, hp: Seq<u64>, hs: Seq<Hash>, lp: Seq<u64>, ld: Seq<Elem>, bm: Set<u32>) -> bool {
    old_log.len() <= new_log.len() && (forall|k: int| 0 <= k < old_log.len() ==> #[trigger] new_log[k] == old_log[k])
    && forall|k: int| old_log.len() <= k < new_log.len() ==> op_ok(#[trigger] new_log[k], hp, hs, lp, ld, bm)
}
/// a processed non-genesis leaf whose index the bitmap lacks has been removed from the leaf set
pub open spec fn node_unset_ok(n: OrderedHashLeafNode, log: Seq<Op>, bm: Set<u32>) -> bool {
    match n {
        OrderedHashLeafNode::Leaf(_, p) => (sp_leaf_idx(p) is Some && !bm.contains(sp_leaf_idx(p)->0 as u32)) ==> log.contains(Op::Unset(p)),
        OrderedHashLeafNode::Hash(_, _) => true,
    }
}
pub open spec fn unset_done(ins: Seq<OrderedHashLeafNode>, upto: int, log: Seq<Op>, bm: Set<u32>) -> bool {
    forall|k: int| 0 <= k < upto && k < ins.len() ==> node_unset_ok(#[trigger] ins[k], log, bm)
}
pub broadcast proof fn lemma_unset_push(n: OrderedHashLeafNode, log: Seq<Op>, o: Op, bm: Set<u32>)
    requires node_unset_ok(n, log, bm) ensures #[trigger] node_unset_ok(n, log.push(o), bm)
{
    match n { OrderedHashLeafNode::Leaf(_, p) => { if sp_leaf_idx(p) is Some && !bm.contains(sp_leaf_idx(p)->0 as u32) {
        let x = Op::Unset(p); let w = choose|w: int| 0 <= w < log.len() && log[w] == x; assert(log.push(o)[w] == x); } } _ => {} }
}
pub open spec fn pruned_in(log: Seq<Op>, h: Hash, p: u64, at: u64) -> bool { log.contains(Op::Pruned(h, p, at)) }
/// a processed node that was due at the size the MMR had when its turn came HAS been pushed: a hash claimed at or beyond the size, a leaf claimed exactly at the size;
/// and a pruned subtree that arrived while THIS MMR held nothing but the locally created genesis leaf (size 1) was pushed onto the EMPTY MMR: the genesis leaf is rolled back first
pub open spec fn node_push_ok(n: OrderedHashLeafNode, sz: u64, log: Seq<Op>, hs: Seq<Hash>, ld: Seq<Elem>) -> bool {
    match n {
        OrderedHashLeafNode::Hash(i, p) => (p >= sz && i < hs.len()) ==> exists|at: u64| #[trigger] pruned_in(log, hs[i as int], p, at) && (sz == 1 ==> at == 0),
        OrderedHashLeafNode::Leaf(i, p) => (p == sz && i < ld.len()) ==> log.contains(Op::Leaf(ld[i as int], p)),
    }
}
pub open spec fn push_done(ins: Seq<OrderedHashLeafNode>, szs: Seq<u64>, upto: int, log: Seq<Op>, hs: Seq<Hash>, ld: Seq<Elem>) -> bool {
    szs.len() == upto && forall|k: int| 0 <= k < upto && k < ins.len() ==> node_push_ok(#[trigger] ins[k], szs[k], log, hs, ld)
}
pub broadcast proof fn lemma_push_push(n: OrderedHashLeafNode, sz: u64, log: Seq<Op>, o: Op, hs: Seq<Hash>, ld: Seq<Elem>)
    requires node_push_ok(n, sz, log, hs, ld) ensures #[trigger] node_push_ok(n, sz, log.push(o), hs, ld)
{
    match n {
        OrderedHashLeafNode::Hash(i, p) => { if p >= sz && i < hs.len() {
            let at = choose|at: u64| #[trigger] pruned_in(log, hs[i as int], p, at) && (sz == 1 ==> at == 0); let x = Op::Pruned(hs[i as int], p, at);
            let w = choose|w: int| 0 <= w < log.len() && log[w] == x; assert(log.push(o)[w] == x); assert(log.push(o).contains(x)); assert(pruned_in(log.push(o), hs[i as int], p, at)); } }
        OrderedHashLeafNode::Leaf(i, p) => { if p == sz && i < ld.len() {
            let x = Op::Leaf(ld[i as int], p); let w = choose|w: int| 0 <= w < log.len() && log[w] == x; assert(log.push(o)[w] == x); } }
    }
}
pub broadcast proof fn lemma_contains_last(log: Seq<Op>, o: Op)
    ensures #[trigger] log.push(o).contains(o)
{ assert(log.push(o)[log.len() as int] == o); }
impl Extension {
//@ extract chain/src/txhashset/txhashset.rs :: impl Extension::sort_pmmr_hashes_and_leaves
//@   rewrite `let mut ordered_inserts = vec![];` => `let mut ordered_inserts: Vec<OrderedHashLeafNode> = Vec::new();`
//@   rewrite `for (data_index, pos0) in leaf_pos.iter().enumerate() {` => `let mut li: usize = 0; while li < leaf_pos.len() { let data_index = li; let pos0 = &leaf_pos[li]; li += 1;`
//@   rewrite `for (data_index, pos0) in hash_pos.iter().enumerate() {` => `let mut hi: usize = 0; while hi < hash_pos.len() { let data_index = hi; let pos0 = &hash_pos[hi]; hi += 1;`
//@   rewrite `ordered_inserts.sort();` => `sort_nodes(&mut ordered_inserts);`
//@   ensures:
//@+    sorted_nodes(r@), r@.to_multiset() == all_nodes(hash_pos@, leaf_pos@, skip_leaf_position).to_multiset(),
//@+    *final(self) == *old(self),
//@   loop 1:
//@+    invariant li <= leaf_pos@.len(), ordered_inserts@ == leaf_nodes(leaf_pos@, skip_leaf_position, li as int),
//@+    decreases leaf_pos@.len() - li
//@   loop 2:
//@+    invariant hi <= hash_pos@.len(), ordered_inserts@ == leaf_nodes(leaf_pos@, skip_leaf_position, leaf_pos@.len() as int) + hash_nodes(hash_pos@, hi as int),
//@+    decreases hash_pos@.len() - hi
//@   before `ordered_inserts.push(OrderedHashLeafNode::Hash(`:
//@+    proof { assert((leaf_nodes(leaf_pos@, skip_leaf_position, leaf_pos@.len() as int) + hash_nodes(hash_pos@, hi - 1)).push(OrderedHashLeafNode::Hash(data_index, *pos0))
//@+        =~= leaf_nodes(leaf_pos@, skip_leaf_position, leaf_pos@.len() as int) + hash_nodes(hash_pos@, hi as int)); }
//@ end
//@ extract chain/src/txhashset/txhashset.rs :: impl Extension::apply_output_segment
//@   sigrewrite `segment: Segment<OutputIdentifier>,` => `segment: Segment,`
//@   rewrite `for insert in self.sort_pmmr_hashes_and_leaves(hash_pos, leaf_pos, Some(0)) {` => `let _hl = hash_pos.len(); let _ll = leaf_pos.len(); let ghost hp0 = hash_pos@; let ghost lp0 = leaf_pos@; let ghost log0 = self.output_pmmr.log@; let ghost mut szs: Seq<u64> = Seq::empty(); let ghost bm = self.bitmap_cache@; let inserts = self.sort_pmmr_hashes_and_leaves(hash_pos, leaf_pos, Some(0)); proof { lemma_perm_ok(inserts@, hp0, lp0); } for insert_r in it: inserts.iter() { broadcast use {lemma_unset_push, lemma_push_push, lemma_contains_last}; let insert = *insert_r; proof { szs = szs.push(self.output_pmmr.size); }`
//@   rewrite `.rewind(0, &Bitmap::new())` => `.rewind(0, &Bitmap::new())`
//@   rewrite `.map_err(&Error::TxHashSetErr)?;` => `?;`
//@   requires:
//@+    segment.wf(),
//@   ensures:
//@+    final(self).rproof_pmmr == old(self).rproof_pmmr, final(self).kernel_pmmr == old(self).kernel_pmmr,
//@+    r is Ok ==> log_ok(old(self).output_pmmr.log@, final(self).output_pmmr.log@, segment.hash_pos@, segment.hashes@, segment.leaf_pos@, segment.leaf_data@, old(self).bitmap_cache@),
//@+    r is Ok ==> forall|i: int| 0 <= i < segment.leaf_pos@.len() && segment.leaf_pos@[i] != 0 && sp_leaf_idx(segment.leaf_pos@[i]) is Some
//@+        && !old(self).bitmap_cache@.contains(sp_leaf_idx(segment.leaf_pos@[i])->0 as u32) ==> final(self).output_pmmr.log@.contains(Op::Unset(#[trigger] segment.leaf_pos@[i])),
//@+    r is Ok ==> exists|ins: Seq<OrderedHashLeafNode>, szs: Seq<u64>| sorted_nodes(ins) && ins.to_multiset() == all_nodes(segment.hash_pos@, segment.leaf_pos@, Some(0u64)).to_multiset()
//@+        && #[trigger] push_done(ins, szs, ins.len() as int, final(self).output_pmmr.log@, segment.hashes@, segment.leaf_data@),
//@   before `Ok(())`:
//@+    proof { assert(push_done(inserts@, szs, inserts@.len() as int, self.output_pmmr.log@, hashes@, leaf_data@)); }
//@   loop 1:
//@+    invariant
//@+        hashes@ == segment.hashes@, leaf_data@ == segment.leaf_data@, hp0 == segment.hash_pos@, lp0 == segment.leaf_pos@, segment.wf(),
//@+        bm == old(self).bitmap_cache@, self.bitmap_cache@ == bm, log0 == old(self).output_pmmr.log@,
//@+        self.rproof_pmmr == old(self).rproof_pmmr, self.kernel_pmmr == old(self).kernel_pmmr,
//@+        forall|j: int| 0 <= j < inserts@.len() ==> node_ok(#[trigger] inserts@[j], hp0, lp0),
//@+        forall|i: int| 0 <= i < lp0.len() && lp0[i] != 0 ==> inserts@.contains(OrderedHashLeafNode::Leaf(i as usize, lp0[i])),
//@+        log_ok(log0, self.output_pmmr.log@, hp0, hashes@, lp0, leaf_data@, bm),
//@+        unset_done(inserts@, it.index@, self.output_pmmr.log@, bm),
//@+        push_done(inserts@, szs, it.index@, self.output_pmmr.log@, hashes@, leaf_data@),
//@ end
//@ extract chain/src/txhashset/txhashset.rs :: impl Extension::apply_rangeproof_segment
//@   sigrewrite `segment: Segment<RangeProof>` => `segment: Segment`
//@   rewrite `for insert in self.sort_pmmr_hashes_and_leaves(hash_pos, leaf_pos, Some(0)) {` => `let _hl = hash_pos.len(); let _ll = leaf_pos.len(); let ghost hp0 = hash_pos@; let ghost lp0 = leaf_pos@; let ghost log0 = self.rproof_pmmr.log@; let ghost mut szs: Seq<u64> = Seq::empty(); let ghost bm = self.bitmap_cache@; let inserts = self.sort_pmmr_hashes_and_leaves(hash_pos, leaf_pos, Some(0)); proof { lemma_perm_ok(inserts@, hp0, lp0); } for insert_r in it: inserts.iter() { broadcast use {lemma_unset_push, lemma_push_push, lemma_contains_last}; let insert = *insert_r; proof { szs = szs.push(self.rproof_pmmr.size); }`
//@   rewrite `.rewind(0, &Bitmap::new())` => `.rewind(0, &Bitmap::new())`
//@   rewrite `.map_err(&Error::TxHashSetErr)?;` => `?;`
//@   requires:
//@+    segment.wf(),
//@   ensures:
//@+    final(self).output_pmmr == old(self).output_pmmr, final(self).kernel_pmmr == old(self).kernel_pmmr,
//@+    r is Ok ==> log_ok(old(self).rproof_pmmr.log@, final(self).rproof_pmmr.log@, segment.hash_pos@, segment.hashes@, segment.leaf_pos@, segment.leaf_data@, old(self).bitmap_cache@),
//@+    r is Ok ==> forall|i: int| 0 <= i < segment.leaf_pos@.len() && segment.leaf_pos@[i] != 0 && sp_leaf_idx(segment.leaf_pos@[i]) is Some
//@+        && !old(self).bitmap_cache@.contains(sp_leaf_idx(segment.leaf_pos@[i])->0 as u32) ==> final(self).rproof_pmmr.log@.contains(Op::Unset(#[trigger] segment.leaf_pos@[i])),
//@+    r is Ok ==> exists|ins: Seq<OrderedHashLeafNode>, szs: Seq<u64>| sorted_nodes(ins) && ins.to_multiset() == all_nodes(segment.hash_pos@, segment.leaf_pos@, Some(0u64)).to_multiset()
//@+        && #[trigger] push_done(ins, szs, ins.len() as int, final(self).rproof_pmmr.log@, segment.hashes@, segment.leaf_data@),
//@   before `Ok(())`:
//@+    proof { assert(push_done(inserts@, szs, inserts@.len() as int, self.rproof_pmmr.log@, hashes@, leaf_data@)); }
//@   loop 1:
//@+    invariant
//@+        hashes@ == segment.hashes@, leaf_data@ == segment.leaf_data@, hp0 == segment.hash_pos@, lp0 == segment.leaf_pos@, segment.wf(),
//@+        bm == old(self).bitmap_cache@, self.bitmap_cache@ == bm, log0 == old(self).rproof_pmmr.log@,
//@+        self.output_pmmr == old(self).output_pmmr, self.kernel_pmmr == old(self).kernel_pmmr,
//@+        forall|j: int| 0 <= j < inserts@.len() ==> node_ok(#[trigger] inserts@[j], hp0, lp0),
//@+        forall|i: int| 0 <= i < lp0.len() && lp0[i] != 0 ==> inserts@.contains(OrderedHashLeafNode::Leaf(i as usize, lp0[i])),
//@+        log_ok(log0, self.rproof_pmmr.log@, hp0, hashes@, lp0, leaf_data@, bm),
//@+        unset_done(inserts@, it.index@, self.rproof_pmmr.log@, bm),
//@+        push_done(inserts@, szs, it.index@, self.rproof_pmmr.log@, hashes@, leaf_data@),
//@ end
//@ extract chain/src/txhashset/txhashset.rs :: impl Extension::apply_kernel_segment
//@   sigrewrite `segment: Segment<TxKernel>` => `segment: Segment`
//@   rewrite `for insert in self.sort_pmmr_hashes_and_leaves(vec![], leaf_pos, Some(0)) {` => `let _ll = leaf_pos.len(); let ghost lp0 = leaf_pos@; let ghost log0 = self.kernel_pmmr.log@; let ghost mut szs: Seq<u64> = Seq::empty(); let empty_hp: Vec<u64> = Vec::new(); let ghost hp0 = empty_hp@; let inserts = self.sort_pmmr_hashes_and_leaves(empty_hp, leaf_pos, Some(0)); proof { lemma_perm_ok(inserts@, hp0, lp0); } for insert_r in it: inserts.iter() { broadcast use {lemma_push_push, lemma_contains_last}; let insert = *insert_r; proof { szs = szs.push(self.kernel_pmmr.size); }`
//@   rewrite `return Err(Error::InvalidSegment(\n\t\t\t\t\t\t"Kernel PMMR is non-prunable, should not have hash data".to_string(),\n\t\t\t\t\t)\n\t\t\t\t\t.into());` => `return Err(Error::InvalidSegment);`
//@   rewrite `.map_err(&Error::TxHashSetErr)?;` => `?;`
//@   requires:
//@+    segment.wf(),
//@   ensures:
//@+    final(self).output_pmmr == old(self).output_pmmr, final(self).rproof_pmmr == old(self).rproof_pmmr,
//@+    r is Ok ==> log_ok(old(self).kernel_pmmr.log@, final(self).kernel_pmmr.log@, Seq::<u64>::empty(), Seq::<Hash>::empty(), segment.leaf_pos@, segment.leaf_data@, Set::<u32>::empty()),
//@   loop 1:
//@+    invariant
//@+        leaf_data@ == segment.leaf_data@, hp0 == Seq::<u64>::empty(), lp0 == segment.leaf_pos@, segment.wf(), log0 == old(self).kernel_pmmr.log@,
//@+        self.output_pmmr == old(self).output_pmmr, self.rproof_pmmr == old(self).rproof_pmmr,
//@+        forall|j: int| 0 <= j < inserts@.len() ==> node_ok(#[trigger] inserts@[j], hp0, lp0),
//@+        log_ok(log0, self.kernel_pmmr.log@, hp0, Seq::<Hash>::empty(), lp0, leaf_data@, Set::<u32>::empty()),
//@+        push_done(inserts@, szs, it.index@, self.kernel_pmmr.log@, Seq::<Hash>::empty(), leaf_data@),
//@ end
}
//@ canary apply_output_segment: r is Err
//@ canary apply_rangeproof_segment: r is Err
//@ canary apply_kernel_segment: r is Err
//@ canary sort_pmmr_hashes_and_leaves: r@.len() == 0
