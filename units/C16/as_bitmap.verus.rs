//@ assume: the accumulator's VecBackend is abstract: leaf_pos_vec() gives the positions of its leaves in MMR order, get_data(pos) the chunk stored at a leaf position (Some for every leaf position); BitmapChunk::set_iter(offset) is the uninterpreted sequence sp_set_iter(chunk, offset) (its own arithmetic `idx as u32 + idx_offset as u32` is covered by the bounded C15/chunks Kani unit); croaring::Bitmap is abstract with a ghost log of add_many calls; 64-bit target
//@ assume: T6: `for (chunk_index, chunk_pos) in self.backend.leaf_pos_iter().enumerate() {` => `let leaf_pos = self.backend.leaf_pos_vec(); for chunk_index in it: 0..leaf_pos.len() { let chunk_pos = leaf_pos[chunk_index];` (enumerate = the index in leaf order); `.collect::<Vec<u32>>()` => `.collect()`; `chunk_pos as u64` kept
//@ assume: decided here (C16, 'ends with the same unspent set'): BitmapAccumulator::as_bitmap adds, for EVERY leaf chunk k in MMR order (none skipped), exactly that chunk's set bits offset by k * 1024 -- the k-th chunk's bits land at [k*1024, (k+1)*1024) whatever the other chunks contain; `chunk_index * 1024` does not overflow; get_data(..).unwrap() never panics on a leaf position
//@ assumed_items: 6
//@ fns: BitmapAccumulator::as_bitmap
global size_of usize == 8;
pub enum Error { Other }
#[derive(Clone, Copy, PartialEq, Eq)]
pub struct BitmapChunk { pub id: u64 }
pub uninterp spec fn sp_set_iter(c: BitmapChunk, offset: usize) -> Seq<u32>;
pub struct SetIter { pub items: Ghost<Seq<u32>> }
impl SetIter { #[verifier::external_body] pub fn collect(self) -> (r: Vec<u32>) ensures r@ == self.items@ { unimplemented!() } }
impl BitmapChunk {
    #[verifier::external_body]
    pub fn set_iter(&self, idx_offset: usize) -> (r: SetIter) ensures r.items@ == sp_set_iter(*self, idx_offset) { unimplemented!() }
}
pub struct VecBackend { pub leaves: Ghost<Seq<(u64, BitmapChunk)>> }
impl VecBackend {
    #[verifier::external_body]
    pub fn leaf_pos_vec(&self) -> (r: Vec<u64>) ensures r@.len() == self.leaves@.len(), r@.len() <= 0x0040_0000_0000_0000, forall|k: int| 0 <= k < r@.len() ==> r@[k] == (#[trigger] self.leaves@[k]).0 { unimplemented!() }
    #[verifier::external_body]
    pub fn get_data(&self, pos0: u64) -> (r: Option<BitmapChunk>)
        requires self.wf()
        ensures forall|k: int| 0 <= k < self.leaves@.len() && (#[trigger] self.leaves@[k]).0 == pos0 ==> r == Some(self.leaves@[k].1) { unimplemented!() }
    /// leaf positions are distinct (they are MMR positions)
    pub open spec fn wf(&self) -> bool { forall|a: int, b: int| 0 <= a < b < self.leaves@.len() ==> self.leaves@[a].0 != self.leaves@[b].0 }
}
pub struct Bitmap { pub adds: Ghost<Seq<Seq<u32>>> }
impl Bitmap {
    #[verifier::external_body]
    pub fn new() -> (r: Bitmap) ensures r.adds@.len() == 0 { unimplemented!() }
    #[verifier::external_body]
    pub fn add_many(&mut self, v: &Vec<u32>) ensures final(self).adds@ == old(self).adds@.push(v@) { unimplemented!() }
}
pub struct BitmapAccumulator { pub backend: VecBackend }
impl BitmapAccumulator {
//@ extract chain/src/txhashset/bitmap_accumulator.rs :: impl BitmapAccumulator::as_bitmap
//@   rewrite `for (chunk_index, chunk_pos) in self.backend.leaf_pos_iter().enumerate() {` => `let leaf_pos = self.backend.leaf_pos_vec(); for chunk_index in it: 0..leaf_pos.len() { let chunk_pos = leaf_pos[chunk_index];`
//@   rewrite `.collect::<Vec<u32>>()` => `.collect()`
//@   rewrite `let additive = ` => `let additive: Vec<u32> = `
//@   requires:
//@+    self.backend.wf(),
//@   ensures:
//@+    r matches Ok(b) && b.adds@.len() == self.backend.leaves@.len()
//@+        && forall|k: int| 0 <= k < b.adds@.len() ==> #[trigger] b.adds@[k] == sp_set_iter(self.backend.leaves@[k].1, (k * 1024) as usize),
//@   before `let chunk = self.backend.get_data(chunk_pos as u64).unwrap();`:
//@+    proof { assert(self.backend.leaves@[chunk_index as int].0 == chunk_pos); }
//@   loop 1:
//@+    invariant
//@+        self.backend.wf(), leaf_pos@.len() == self.backend.leaves@.len(), leaf_pos@.len() <= 0x0040_0000_0000_0000,
//@+        forall|k: int| 0 <= k < leaf_pos@.len() ==> leaf_pos@[k] == (#[trigger] self.backend.leaves@[k]).0,
//@+        bitmap.adds@.len() == chunk_index,
//@+        forall|k: int| 0 <= k < chunk_index ==> #[trigger] bitmap.adds@[k] == sp_set_iter(self.backend.leaves@[k].1, (k * 1024) as usize),
//@ end
}
//@ canary as_bitmap: r.is_err()
