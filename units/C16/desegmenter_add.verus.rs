//@ assume: Segment::validate / validate_with (C16/segment_root, C16/first_unpruned_parent and the bounded C11 unit cover their parts) are uninterpreted predicates of exactly their arguments; the segment caches are ghost logs written by cache_*_segment; BitmapAccumulator::root and the croaring bitmap are abstract; one error type
//@ assume: T5: `Segment<T>` for the four element types => four abstract segment types; T6: `.map_err(|e| { error!(..); e })?` on the kernel path => `?`; T3: trace!/debug!/error! removed
//@ assume: decided here (C16, 'whatever it is sent, it never caches a segment that does not validate against the archive header'): each of Desegmenter::add_bitmap_segment / add_output_segment / add_rangeproof_segment / add_kernel_segment puts the received segment into its cache ONLY IF it validated with EXACTLY these operands: bitmap -- validate_with(bitmap MMR size, no bitmap, header.output_root, header.output_mmr_size, the output root sent along, other_is_left = true); output -- validate_with(header.output_mmr_size, OUR finalised bitmap, header.output_root, header.output_mmr_size, OUR bitmap accumulator's root, false); range proof -- validate(header.output_mmr_size, OUR bitmap, header.range_proof_root); kernel -- validate(header.kernel_mmr_size, no bitmap, header.kernel_root); and caches nothing on failure
//@ assumed_items: 10
//@ fns: Desegmenter::add_bitmap_segment, Desegmenter::add_output_segment, Desegmenter::add_rangeproof_segment, Desegmenter::add_kernel_segment
#[derive(Clone, Copy, PartialEq, Eq)]
pub struct Hash { pub h: u64 }
pub enum Error { Segment, Other }
#[verifier::external_body]
pub struct Bitmap { _p: u8 }
pub struct BlockHeader { pub output_root: Hash, pub range_proof_root: Hash, pub kernel_root: Hash, pub output_mmr_size: u64, pub kernel_mmr_size: u64 }
#[derive(Clone, Copy)] pub struct SegmentIdentifier { pub height: u8, pub idx: u64 }
#[derive(Clone, Copy)] pub struct BitmapSeg { pub id: u64, pub ident: SegmentIdentifier }
#[derive(Clone, Copy)] pub struct OutputSeg { pub id: u64, pub ident: SegmentIdentifier }
#[derive(Clone, Copy)] pub struct RpSeg { pub id: u64, pub ident: SegmentIdentifier }
#[derive(Clone, Copy)] pub struct KernSeg { pub id: u64, pub ident: SegmentIdentifier }
pub open spec fn od(o: Option<&Bitmap>) -> Option<Bitmap> { match o { Some(b) => Some(*b), None => None } }
pub uninterp spec fn sp_bm_with(s: BitmapSeg, size: u64, bm: Option<Bitmap>, root: Hash, last: u64, other: Hash, left: bool) -> bool;
pub uninterp spec fn sp_out_with(s: OutputSeg, size: u64, bm: Option<Bitmap>, root: Hash, last: u64, other: Hash, left: bool) -> bool;
pub uninterp spec fn sp_rp_val(s: RpSeg, size: u64, bm: Option<Bitmap>, root: Hash) -> bool;
pub uninterp spec fn sp_kern_val(s: KernSeg, size: u64, bm: Option<Bitmap>, root: Hash) -> bool;
impl BitmapSeg { #[verifier::external_body] pub fn validate_with(&self, size: u64, bm: Option<&Bitmap>, root: Hash, last: u64, other: Hash, left: bool) -> (r: Result<(), Error>) ensures r.is_ok() == sp_bm_with(*self, size, od(bm), root, last, other, left) { unimplemented!() } }
impl OutputSeg { #[verifier::external_body] pub fn validate_with(&self, size: u64, bm: Option<&Bitmap>, root: Hash, last: u64, other: Hash, left: bool) -> (r: Result<(), Error>) ensures r.is_ok() == sp_out_with(*self, size, od(bm), root, last, other, left) { unimplemented!() } }
impl RpSeg { #[verifier::external_body] pub fn validate(&self, size: u64, bm: Option<&Bitmap>, root: Hash) -> (r: Result<(), Error>) ensures r.is_ok() == sp_rp_val(*self, size, od(bm), root) { unimplemented!() } }
impl KernSeg {
    #[verifier::external_body] pub fn validate(&self, size: u64, bm: Option<&Bitmap>, root: Hash) -> (r: Result<(), Error>) ensures r.is_ok() == sp_kern_val(*self, size, od(bm), root) { unimplemented!() }
    pub fn identifier(&self) -> (r: SegmentIdentifier) ensures r == self.ident { self.ident }
}
pub uninterp spec fn sp_acc_root(a: BitmapAccumulator) -> Hash;
pub struct BitmapAccumulator { pub id: u64 }
impl BitmapAccumulator { #[verifier::external_body] pub fn root(&self) -> (r: Hash) ensures r == sp_acc_root(*self) { unimplemented!() } }
pub struct Desegmenter {
    pub archive_header: BlockHeader, pub bitmap_mmr_size: u64, pub bitmap_cache: Option<Bitmap>, pub bitmap_accumulator: BitmapAccumulator,
    pub bm_cached: Ghost<Seq<BitmapSeg>>, pub out_cached: Ghost<Seq<OutputSeg>>, pub rp_cached: Ghost<Seq<RpSeg>>, pub kern_cached: Ghost<Seq<KernSeg>>,
    pub kernel_segment_cache: Vec<KernSeg>,
}
pub open spec fn frame(a: Desegmenter, b: Desegmenter) -> bool { a.archive_header == b.archive_header && a.bitmap_mmr_size == b.bitmap_mmr_size && a.bitmap_cache == b.bitmap_cache && a.bitmap_accumulator == b.bitmap_accumulator }
impl Desegmenter {
    #[verifier::external_body]
    fn cache_bitmap_segment(&mut self, s: BitmapSeg) ensures frame(*old(self), *final(self)), final(self).bm_cached@ == old(self).bm_cached@.push(s), final(self).out_cached@ == old(self).out_cached@, final(self).rp_cached@ == old(self).rp_cached@, final(self).kern_cached@ == old(self).kern_cached@ { unimplemented!() }
    #[verifier::external_body]
    fn cache_output_segment(&mut self, s: OutputSeg) ensures frame(*old(self), *final(self)), final(self).out_cached@ == old(self).out_cached@.push(s), final(self).bm_cached@ == old(self).bm_cached@, final(self).rp_cached@ == old(self).rp_cached@, final(self).kern_cached@ == old(self).kern_cached@ { unimplemented!() }
    #[verifier::external_body]
    fn cache_rangeproof_segment(&mut self, s: RpSeg) ensures frame(*old(self), *final(self)), final(self).rp_cached@ == old(self).rp_cached@.push(s), final(self).bm_cached@ == old(self).bm_cached@, final(self).out_cached@ == old(self).out_cached@, final(self).kern_cached@ == old(self).kern_cached@ { unimplemented!() }
    #[verifier::external_body]
    fn cache_kernel_segment(&mut self, s: KernSeg) ensures frame(*old(self), *final(self)), final(self).kern_cached@ == old(self).kern_cached@.push(s), final(self).bm_cached@ == old(self).bm_cached@, final(self).out_cached@ == old(self).out_cached@, final(self).rp_cached@ == old(self).rp_cached@ { unimplemented!() }
//@ extract chain/src/txhashset/desegmenter.rs :: impl Desegmenter::add_bitmap_segment
//@   strip_logs
//@   sigrewrite `segment: Segment<BitmapChunk>,` => `segment: BitmapSeg,`
//@   ensures:
//@+    r.is_ok() ==> sp_bm_with(segment, old(self).bitmap_mmr_size, None, old(self).archive_header.output_root, old(self).archive_header.output_mmr_size, output_root_hash, true)
//@+        && final(self).bm_cached@ == old(self).bm_cached@.push(segment),
//@+    r.is_err() ==> final(self).bm_cached@ == old(self).bm_cached@,
//@ end
//@ extract chain/src/txhashset/desegmenter.rs :: impl Desegmenter::add_output_segment
//@   strip_logs
//@   sigrewrite `segment: Segment<OutputIdentifier>,` => `segment: OutputSeg,`
//@   ensures:
//@+    r.is_ok() ==> sp_out_with(segment, old(self).archive_header.output_mmr_size, old(self).bitmap_cache, old(self).archive_header.output_root, old(self).archive_header.output_mmr_size, sp_acc_root(old(self).bitmap_accumulator), false)
//@+        && final(self).out_cached@ == old(self).out_cached@.push(segment),
//@+    r.is_err() ==> final(self).out_cached@ == old(self).out_cached@,
//@ end
//@ extract chain/src/txhashset/desegmenter.rs :: impl Desegmenter::add_rangeproof_segment
//@   strip_logs
//@   sigrewrite `segment: Segment<RangeProof>` => `segment: RpSeg`
//@   ensures:
//@+    r.is_ok() ==> sp_rp_val(segment, old(self).archive_header.output_mmr_size, old(self).bitmap_cache, old(self).archive_header.range_proof_root)
//@+        && final(self).rp_cached@ == old(self).rp_cached@.push(segment),
//@+    r.is_err() ==> final(self).rp_cached@ == old(self).rp_cached@,
//@ end
//@ extract chain/src/txhashset/desegmenter.rs :: impl Desegmenter::add_kernel_segment
//@   strip_logs
//@   sigrewrite `segment: Segment<TxKernel>` => `segment: KernSeg`
//@   rewrite `\t\t\t.map_err(|e| {\n\t\t\t\t/* T3: log macro removed */\n\t\t\t\te\n\t\t\t})?;` => `?;`
//@   ensures:
//@+    r.is_ok() ==> sp_kern_val(segment, old(self).archive_header.kernel_mmr_size, None, old(self).archive_header.kernel_root)
//@+        && final(self).kern_cached@ == old(self).kern_cached@.push(segment),
//@+    r.is_err() ==> final(self).kern_cached@ == old(self).kern_cached@,
//@ end
}
//@ canary add_kernel_segment: r.is_err()
