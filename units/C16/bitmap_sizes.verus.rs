//@ assume: the Desegmenter is reduced to the three fields calc_bitmap_mmr_sizes touches; pmmr::peaks is abstract: it returns the peak positions of an MMR of the given size, NON-EMPTY exactly when the size is a valid non-zero MMR size (peaks(0) is empty; for a valid size the last peak is the last node, size - 1)
//@ assume: decided here: Desegmenter::calc_bitmap_mmr_sizes (run by Desegmenter::new for every archive header) never panics and yields leaf count == ceil(output leaves / 1024) and bitmap MMR size == the size of an MMR with that many leaves
//@ assume: 64-bit target
//@ assumed_items: 1
//@ fns: Desegmenter::calc_bitmap_mmr_sizes
//@ include: ../C07/pmmr_arith.verus.rs

pub struct ArchiveHeader { pub output_mmr_size: u64 }
pub struct Desegmenter { pub archive_header: ArchiveHeader, pub bitmap_mmr_leaf_count: u64, pub bitmap_mmr_size: u64 }
pub mod pmmr {
    use super::*;
    #[verifier::external_body]
    pub fn peaks(size: u64) -> (r: Vec<u64>)
        ensures (r@.len() > 0) == (size > 0 && exists|n: nat| #![auto] size as nat == leaf_pos(n, 64)),
                r@.len() > 0 ==> r@.last() == size - 1
    { unimplemented!() }
    pub fn n_leaves(size: u64) -> (r: u64) ensures r as nat == lb(size as nat, 64) { super::n_leaves(size) }
    pub fn insertion_to_pmmr_index(nleaf0: u64) -> (r: u64) requires nleaf0 < 0x8000_0000_0000_0000u64 ensures r as nat == leaf_pos(nleaf0 as nat, 64) { super::insertion_to_pmmr_index(nleaf0) }
}

impl Desegmenter {
//@ extract chain/src/txhashset/desegmenter.rs :: impl Desegmenter::calc_bitmap_mmr_sizes
//@   strip_logs
//@   ensures:
//@+    final(self).bitmap_mmr_leaf_count as nat * 1024 >= lb(old(self).archive_header.output_mmr_size as nat, 64),
//@+    final(self).bitmap_mmr_leaf_count as nat * 1024 < lb(old(self).archive_header.output_mmr_size as nat, 64) + 1024,
//@+    final(self).bitmap_mmr_size as nat == leaf_pos(final(self).bitmap_mmr_leaf_count as nat, 64),
//@+    final(self).archive_header == old(self).archive_header,
//@   at_start:
//@+    proof {
//@+        let s = self.archive_header.output_mmr_size as nat;
//@+        lemma_psize(64); lemma_psize(63); lemma2_to64(); lemma_pow2_unfold(64);
//@+        if s < tsize(63) { lemma_lb_mono(s, 63, 64); lemma_lb_le(s, 63); }
//@+        else { lemma_lb_le(0, 63); assert(lb(s, 64) == pow2(63) + lb((s - tsize(63)) as nat, 63)); }
//@+        assert(lb(s, 64) <= 0x8000_0000_0000_0001);
//@+    }
//@ end
}
//@ canary calc_bitmap_mmr_sizes: final(self).bitmap_mmr_leaf_count == 0
