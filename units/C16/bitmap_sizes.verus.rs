//@ assume: the Desegmenter is reduced to the three fields calc_bitmap_mmr_sizes touches; the archive header to output_mmr_size
//@ assume: T6 rewrites: the `1 + pmmr::peaks(..).last().unwrap_or(..).clone()` expression computing bitmap_mmr_size => abstract helper `bitmap_size_for(leaf_count)` (pmmr::peaks is not under contract; the expression is NOT verified here); log macros removed
//@ assume: decided here: the number of bitmap-MMR leaves the syncing node expects is exactly ceil(number of output leaves / 1024) -- one 1024-bit chunk per started block of 1024 outputs, and no extra chunk at exact multiples -- which is what a serving node's accumulator holds (C15 chunk arithmetic)
//@ assume: 64-bit target
//@ assumed_items: 1
//@ fns: Desegmenter::calc_bitmap_mmr_sizes
//@ include: ../C07/pmmr_arith.verus.rs

pub struct ArchiveHeader { pub output_mmr_size: u64 }
pub struct Desegmenter { pub archive_header: ArchiveHeader, pub bitmap_mmr_leaf_count: u64, pub bitmap_mmr_size: u64 }
#[verifier::external_body]
fn bitmap_size_for(leaf_count: u64) -> (r: u64) { unimplemented!() }

impl Desegmenter {
//@ extract chain/src/txhashset/desegmenter.rs :: impl Desegmenter::calc_bitmap_mmr_sizes
//@   strip_logs
//@   rewrite `pmmr::n_leaves(self.archive_header.output_mmr_size)` => `n_leaves(self.archive_header.output_mmr_size)`
//@   rewrite `\t\t\t1 + pmmr::peaks(pmmr::insertion_to_pmmr_index(self.bitmap_mmr_leaf_count))\n\t\t\t\t.last()\n\t\t\t\t.unwrap_or(\n\t\t\t\t\t&(pmmr::peaks(pmmr::insertion_to_pmmr_index(\n\t\t\t\t\t\tself.bitmap_mmr_leaf_count - 1,\n\t\t\t\t\t))\n\t\t\t\t\t.last()\n\t\t\t\t\t.unwrap()),\n\t\t\t\t)\n\t\t\t\t.clone();` => `\t\t\tbitmap_size_for(self.bitmap_mmr_leaf_count);`
//@   ensures:
//@+    final(self).bitmap_mmr_leaf_count as nat * 1024 >= lb(old(self).archive_header.output_mmr_size as nat, 64),
//@+    final(self).bitmap_mmr_leaf_count as nat * 1024 < lb(old(self).archive_header.output_mmr_size as nat, 64) + 1024,
//@+    final(self).archive_header == old(self).archive_header,
//@   at_start:
//@+    proof {
//@+        let s = self.archive_header.output_mmr_size as nat;
//@+        lemma_psize(64); lemma_psize(63); lemma2_to64(); lemma_pow2_unfold(64);
//@+        if s < tsize(63) { lemma_lb_mono(s, 63, 64); lemma_lb_le(s, 63); }
//@+        else { lemma_lb_le(0, 63); assert(lb(s, 64) == pow2(63) + lb((s - tsize(63)) as nat, 63)); }
//@+        assert(lb(s, 64) <= 0x8000_0000_0000_0001);
//@+    }
//@ end
}
//@ canary calc_bitmap_mmr_sizes: final(self).bitmap_mmr_leaf_count == 0
