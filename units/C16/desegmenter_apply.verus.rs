//@ assume: the Desegmenter's collaborators are abstract: a Segment is (identifier index, payload id); the bitmap accumulator records the chunks appended (append_chunk: C15/accumulator_ops); next_required_{bitmap,output,rangeproof,kernel}_segment_index are uninterpreted reads of the local MMR sizes (their arithmetic over count_segments_required is C16/segment_ident); finalize_bitmap sets the bitmap cache (its content: C16/as_bitmap); apply_output_segments / apply_rangeproof_segments / apply_kernel_segments record the batch they were handed (what they do with it: C16/apply_segments); T3: log macros removed
//@ assume: T5: `take_segment_batch<T>` over `Vec<Segment<T>>` => one segment type; `Self::take_segment_batch(&mut self.X_cache, ..)` => the extracted associated function; T6: `cache.iter().position(|s| s.identifier().idx == next_idx)` => position_of(cache, next_idx) (ASSUMED: the index of the FIRST segment with that identifier index, None iff there is none); `self.bitmap_segment_cache.iter().enumerate().find(|s| s.1.identifier().idx == bmp_idx)` => find_enum (the same, paired with the element); `for chunk in leaf_data.into_iter()` => iteration over the vector's elements; `self.X_cache = vec![]` => a fresh empty vector; `self.bitmap_cache == None` => `.is_none()`
//@ assume: decided here (C16, 'a node that assembles its state from segments in ANY ARRIVAL ORDER ends with the same state'): Desegmenter::take_segment_batch removes from the cache and returns, in order, the segments with indices start, start + 1, .. for as long as they are cached, at most `max` of them, leaving every other cached segment in place; apply_bitmap_segment removes exactly the chosen segment from the cache and appends ALL its chunks, in order, to the accumulator; apply_next_segments -- whatever is in the caches -- applies a bitmap segment ONLY IF its index is the next required bitmap index (and then nothing else); touches outputs / range proofs / kernels only once no bitmap segment is required, after the bitmap has been finalised, and hands each of the three appliers EXACTLY the batch take_segment_batch yields from ITS OWN cache at ITS OWN next required index (never an empty batch); a cache is dropped only when nothing is required from it and it has reached the cache limit
//@ assumed_items: 13
//@ fns: Desegmenter::take_segment_batch, Desegmenter::apply_bitmap_segment, Desegmenter::apply_next_segments
global size_of usize == 8;
pub enum Error { Store, Other }
#[derive(Clone, Copy, PartialEq, Eq)]
pub struct SegmentIdentifier { pub height: u8, pub idx: u64 }
#[derive(Clone, Copy, PartialEq, Eq)]
pub struct Chunk { pub v: u64 }
pub struct Segment { pub id: SegmentIdentifier, pub chunks: Vec<Chunk> }
impl Segment {
    pub fn identifier(&self) -> (r: SegmentIdentifier) ensures r == self.id { self.id }
    #[verifier::external_body]
    pub fn parts(self) -> (r: (SegmentIdentifier, u8, u8, u8, Vec<Chunk>, u8)) ensures r.0 == self.id, r.4 == self.chunks { unimplemented!() }
}
pub open spec fn first_with(c: Seq<Segment>, idx: u64, p: int) -> bool { 0 <= p < c.len() && c[p].id.idx == idx && forall|j: int| 0 <= j < p ==> c[j].id.idx != idx }
pub open spec fn none_with(c: Seq<Segment>, idx: u64) -> bool { forall|j: int| 0 <= j < c.len() ==> c[j].id.idx != idx }
#[verifier::external_body]
pub fn position_of(c: &Vec<Segment>, idx: u64) -> (r: Option<usize>) ensures r matches Some(p) ==> first_with(c@, idx, p as int), r is None ==> none_with(c@, idx) { unimplemented!() }
#[verifier::external_body]
pub fn find_enum(c: &Vec<Segment>, idx: u64) -> (r: Option<(usize, ())>) ensures r matches Some(p) ==> first_with(c@, idx, p.0 as int), r is None ==> none_with(c@, idx) { unimplemented!() }
pub struct BitmapAccumulator { pub chunks: Ghost<Seq<Chunk>> }
impl BitmapAccumulator {
    #[verifier::external_body]
    pub fn append_chunk(&mut self, c: Chunk) -> (r: Result<u64, Error>) ensures r is Ok ==> final(self).chunks@ == old(self).chunks@.push(c) { unimplemented!() }
}
#[verifier::external_body]
pub struct Bitmap { _p: u8 }
/// what the three appliers were handed, in call order
pub struct Applied { pub outputs: Ghost<Seq<Seq<Segment>>>, pub rangeproofs: Ghost<Seq<Seq<Segment>>>, pub kernels: Ghost<Seq<Seq<Segment>>> }
pub struct Desegmenter {
    pub bitmap_accumulator: BitmapAccumulator, pub bitmap_segment_cache: Vec<Segment>, pub output_segment_cache: Vec<Segment>, pub rangeproof_segment_cache: Vec<Segment>, pub kernel_segment_cache: Vec<Segment>,
    pub segment_apply_batch_size: usize, pub max_cached_segments: usize, pub bitmap_cache: Option<Bitmap>, pub applied: Applied, pub finalized: Ghost<bool>,
}
/// the next required index of each MMR is a function of what has been applied to THAT MMR so far (the local MMR size) -- and of nothing else in the desegmenter
pub uninterp spec fn sp_next_bitmap_of(chunks: Seq<Chunk>) -> Option<u64>;
pub uninterp spec fn sp_next_of(kind: int, applied: Seq<Seq<Segment>>) -> Option<u64>;
pub open spec fn sp_next_bitmap(d: Desegmenter) -> Option<u64> { sp_next_bitmap_of(d.bitmap_accumulator.chunks@) }
pub open spec fn sp_next_output(d: Desegmenter) -> Option<u64> { sp_next_of(0, d.applied.outputs@) }
pub open spec fn sp_next_rangeproof(d: Desegmenter) -> Option<u64> { sp_next_of(1, d.applied.rangeproofs@) }
pub open spec fn sp_next_kernel(d: Desegmenter) -> Option<u64> { sp_next_of(2, d.applied.kernels@) }
/// what one of the three MMR steps of apply_next_segments must do
pub open spec fn step_ok(next: Option<u64>, batch: int, maxc: int, cache0: Seq<Segment>, cache1: Seq<Segment>, log0: Seq<Seq<Segment>>, log1: Seq<Seq<Segment>>) -> bool {
    match next {
        Some(i) => { let t = sp_take(cache0, i, batch);
            (t.0.len() > 0 ==> log1 == log0.push(t.0) && cache1 == t.1) && (t.0.len() == 0 ==> log1 == log0 && cache1 == cache0) },
        None => log1 == log0 && (cache0.len() < maxc ==> cache1 == cache0) && (cache0.len() >= maxc ==> cache1.len() == 0),
    }
}
/// the run start, start + 1, .. of cached segments, each the first with its index, at most max of them: (taken, what is left)
pub open spec fn sp_take(c: Seq<Segment>, start: u64, max: int) -> (Seq<Segment>, Seq<Segment>) decreases max {
    if max <= 0 { (Seq::empty(), c) } else if exists|p: int| first_with(c, start, p) {
        let p = choose|p: int| first_with(c, start, p);
        let rest = sp_take(c.remove(p), (start + 1) as u64, max - 1);
        (seq![c[p]] + rest.0, rest.1)
    } else { (Seq::empty(), c) }
}
impl Desegmenter {
    #[verifier::external_body]
    fn next_required_bitmap_segment_index(&self) -> (r: Option<u64>) ensures r == sp_next_bitmap(*self) { unimplemented!() }
    #[verifier::external_body]
    fn next_required_output_segment_index(&self) -> (r: Option<u64>) ensures r == sp_next_output(*self) { unimplemented!() }
    #[verifier::external_body]
    fn next_required_rangeproof_segment_index(&self) -> (r: Option<u64>) ensures r == sp_next_rangeproof(*self) { unimplemented!() }
    #[verifier::external_body]
    fn next_required_kernel_segment_index(&self) -> (r: Option<u64>) ensures r == sp_next_kernel(*self) { unimplemented!() }
    #[verifier::external_body]
    pub fn finalize_bitmap(&mut self) -> (r: Result<(), Error>)
        ensures r is Ok ==> final(self).bitmap_cache is Some && final(self).finalized@,
            final(self).bitmap_accumulator == old(self).bitmap_accumulator, final(self).bitmap_segment_cache == old(self).bitmap_segment_cache, final(self).output_segment_cache == old(self).output_segment_cache,
            final(self).rangeproof_segment_cache == old(self).rangeproof_segment_cache, final(self).kernel_segment_cache == old(self).kernel_segment_cache, final(self).applied == old(self).applied,
            final(self).segment_apply_batch_size == old(self).segment_apply_batch_size, final(self).max_cached_segments == old(self).max_cached_segments { unimplemented!() }
    #[verifier::external_body]
    pub fn apply_output_segments(&mut self, segments: Vec<Segment>) -> (r: Result<(), Error>)
        ensures final(self).applied.outputs@ == old(self).applied.outputs@.push(segments@), final(self).applied.rangeproofs == old(self).applied.rangeproofs, final(self).applied.kernels == old(self).applied.kernels,
            final(self).bitmap_accumulator == old(self).bitmap_accumulator, final(self).bitmap_segment_cache == old(self).bitmap_segment_cache, final(self).output_segment_cache == old(self).output_segment_cache,
            final(self).rangeproof_segment_cache == old(self).rangeproof_segment_cache, final(self).kernel_segment_cache == old(self).kernel_segment_cache, final(self).bitmap_cache == old(self).bitmap_cache, final(self).finalized == old(self).finalized,
            final(self).segment_apply_batch_size == old(self).segment_apply_batch_size, final(self).max_cached_segments == old(self).max_cached_segments { unimplemented!() }
    #[verifier::external_body]
    pub fn apply_rangeproof_segments(&mut self, segments: Vec<Segment>) -> (r: Result<(), Error>)
        ensures final(self).applied.rangeproofs@ == old(self).applied.rangeproofs@.push(segments@), final(self).applied.outputs == old(self).applied.outputs, final(self).applied.kernels == old(self).applied.kernels,
            final(self).bitmap_accumulator == old(self).bitmap_accumulator, final(self).bitmap_segment_cache == old(self).bitmap_segment_cache, final(self).output_segment_cache == old(self).output_segment_cache,
            final(self).rangeproof_segment_cache == old(self).rangeproof_segment_cache, final(self).kernel_segment_cache == old(self).kernel_segment_cache, final(self).bitmap_cache == old(self).bitmap_cache, final(self).finalized == old(self).finalized,
            final(self).segment_apply_batch_size == old(self).segment_apply_batch_size, final(self).max_cached_segments == old(self).max_cached_segments { unimplemented!() }
    #[verifier::external_body]
    pub fn apply_kernel_segments(&mut self, segments: Vec<Segment>) -> (r: Result<(), Error>)
        ensures final(self).applied.kernels@ == old(self).applied.kernels@.push(segments@), final(self).applied.outputs == old(self).applied.outputs, final(self).applied.rangeproofs == old(self).applied.rangeproofs,
            final(self).bitmap_accumulator == old(self).bitmap_accumulator, final(self).bitmap_segment_cache == old(self).bitmap_segment_cache, final(self).output_segment_cache == old(self).output_segment_cache,
            final(self).rangeproof_segment_cache == old(self).rangeproof_segment_cache, final(self).kernel_segment_cache == old(self).kernel_segment_cache, final(self).bitmap_cache == old(self).bitmap_cache, final(self).finalized == old(self).finalized,
            final(self).segment_apply_batch_size == old(self).segment_apply_batch_size, final(self).max_cached_segments == old(self).max_cached_segments { unimplemented!() }
//@ extract chain/src/txhashset/desegmenter.rs :: impl Desegmenter::take_segment_batch
//@   sigrewrite `fn take_segment_batch<T>(` => `fn take_segment_batch(`
//@   sigrewrite `cache: &mut Vec<Segment<T>>,` => `cache: &mut Vec<Segment>,`
//@   sigrewrite `) -> Vec<Segment<T>>` => `) -> Vec<Segment>`
//@   rewrite `cache.iter().position(|s| s.identifier().idx == next_idx)` => `position_of(cache, next_idx)`
//@   rewrite `let mut result = Vec::new();` => `let mut result: Vec<Segment> = Vec::new();`
//@   requires:
//@+    start_idx as int + max_segments as int <= u64::MAX,
//@   ensures:
//@+    r@ == sp_take(old(cache)@, start_idx, max_segments as int).0, final(cache)@ == sp_take(old(cache)@, start_idx, max_segments as int).1,
//@+    r@.len() <= max_segments, forall|i: int| 0 <= i < r@.len() ==> (#[trigger] r@[i]).id.idx == start_idx + i,
//@   loop 1:
//@+    invariant
//@+        result@.len() <= max_segments, next_idx == start_idx + result@.len(), start_idx as int + max_segments as int <= u64::MAX,
//@+        forall|i: int| 0 <= i < result@.len() ==> (#[trigger] result@[i]).id.idx == start_idx + i,
//@+        sp_take(old(cache)@, start_idx, max_segments as int).0 == result@ + sp_take(cache@, next_idx, max_segments as int - result@.len()).0,
//@+        sp_take(old(cache)@, start_idx, max_segments as int).1 == sp_take(cache@, next_idx, max_segments as int - result@.len()).1,
//@+    ensures
//@+        sp_take(cache@, next_idx, max_segments as int - result@.len()).0.len() == 0 && sp_take(cache@, next_idx, max_segments as int - result@.len()).1 == cache@,
//@+    decreases max_segments - result@.len()
//@   before `result.push(cache.remove(pos));`:
//@+    proof {
//@+        let c = cache@; let m = max_segments as int - result@.len();
//@+        assert(first_with(c, next_idx, pos as int));
//@+        let p = choose|p: int| first_with(c, next_idx, p);
//@+        assert(p == pos) by { if p < pos { assert(c[p].id.idx != next_idx); } if pos < p { assert(c[pos as int].id.idx != next_idx); } }
//@+        assert(sp_take(c, next_idx, m).0 == seq![c[pos as int]] + sp_take(c.remove(pos as int), (next_idx + 1) as u64, m - 1).0);
//@+        assert(result@.push(c[pos as int]) + sp_take(c.remove(pos as int), (next_idx + 1) as u64, m - 1).0 =~= result@ + (seq![c[pos as int]] + sp_take(c.remove(pos as int), (next_idx + 1) as u64, m - 1).0));
//@+    }
//@   before `break;`:
//@+    proof { assert(!exists|p: int| first_with(cache@, next_idx, p)) by { if exists|p: int| first_with(cache@, next_idx, p) { let p = choose|p: int| first_with(cache@, next_idx, p); assert(cache@[p].id.idx == next_idx); } } }
//@ end
//@ extract chain/src/txhashset/desegmenter.rs :: impl Desegmenter::apply_bitmap_segment
//@   strip_logs
//@   rewrite `for chunk in leaf_data.into_iter() {` => `for chunk_r in it: leaf_data.iter() { let chunk = *chunk_r;`
//@   requires:
//@+    idx < old(self).bitmap_segment_cache@.len(),
//@   ensures:
//@+    final(self).bitmap_segment_cache@ == old(self).bitmap_segment_cache@.remove(idx as int),
//@+    r is Ok ==> final(self).bitmap_accumulator.chunks@ =~= old(self).bitmap_accumulator.chunks@ + old(self).bitmap_segment_cache@[idx as int].chunks@,
//@+    final(self).output_segment_cache == old(self).output_segment_cache, final(self).rangeproof_segment_cache == old(self).rangeproof_segment_cache, final(self).kernel_segment_cache == old(self).kernel_segment_cache,
//@+    final(self).applied == old(self).applied, final(self).bitmap_cache == old(self).bitmap_cache, final(self).finalized == old(self).finalized,
//@   loop 1:
//@+    invariant
//@+        self.bitmap_segment_cache@ == old(self).bitmap_segment_cache@.remove(idx as int), leaf_data@ == old(self).bitmap_segment_cache@[idx as int].chunks@,
//@+        self.bitmap_accumulator.chunks@ =~= old(self).bitmap_accumulator.chunks@ + leaf_data@.take(it.index@),
//@+        self.output_segment_cache == old(self).output_segment_cache, self.rangeproof_segment_cache == old(self).rangeproof_segment_cache, self.kernel_segment_cache == old(self).kernel_segment_cache,
//@+        self.applied == old(self).applied, self.bitmap_cache == old(self).bitmap_cache, self.finalized == old(self).finalized,
//@ end
//@ extract chain/src/txhashset/desegmenter.rs :: impl Desegmenter::apply_next_segments
//@   strip_logs
//@   rewrite `self\n\t\t\t\t.bitmap_segment_cache\n\t\t\t\t.iter()\n\t\t\t\t.enumerate()\n\t\t\t\t.find(|s| s.1.identifier().idx == bmp_idx)` => `find_enum(&self.bitmap_segment_cache, bmp_idx)`
//@   rewrite `if self.bitmap_cache == None {` => `if self.bitmap_cache.is_none() {`
//@   rewrite `= vec![];` => `= Vec::new();`
//@   requires:
//@+    old(self).segment_apply_batch_size < 0x1_0000_0000,
//@+    forall|k: int, l: Seq<Seq<Segment>>| (#[trigger] sp_next_of(k, l)) matches Some(i) ==> i < 0xffff_ffff_0000_0000,
//@   ensures:
//@+    // a bitmap segment is required: at most THAT segment is applied, nothing else is touched
//@+    sp_next_bitmap(*old(self)) matches Some(b) ==> final(self).applied == old(self).applied && final(self).output_segment_cache == old(self).output_segment_cache
//@+        && final(self).rangeproof_segment_cache == old(self).rangeproof_segment_cache && final(self).kernel_segment_cache == old(self).kernel_segment_cache
//@+        && (none_with(old(self).bitmap_segment_cache@, b) ==> final(self).bitmap_accumulator == old(self).bitmap_accumulator && final(self).bitmap_segment_cache == old(self).bitmap_segment_cache)
//@+        && (r is Ok && !none_with(old(self).bitmap_segment_cache@, b) ==> exists|p: int| first_with(old(self).bitmap_segment_cache@, b, p)
//@+            && final(self).bitmap_accumulator.chunks@ == old(self).bitmap_accumulator.chunks@ + #[trigger] old(self).bitmap_segment_cache@[p].chunks@ && final(self).bitmap_segment_cache@ == old(self).bitmap_segment_cache@.remove(p)),
//@+    // no bitmap segment required: the bitmap is final before anything else is applied, and the accumulator is left alone
//@+    sp_next_bitmap(*old(self)) is None ==> final(self).bitmap_accumulator == old(self).bitmap_accumulator && final(self).bitmap_segment_cache == old(self).bitmap_segment_cache,
//@+    sp_next_bitmap(*old(self)) is None && r is Ok ==> final(self).bitmap_cache is Some,
//@+    // each MMR gets EXACTLY the run of cached segments starting at ITS next required index (or nothing)
//@+    sp_next_bitmap(*old(self)) is None && r is Ok ==> step_ok(sp_next_output(*old(self)), old(self).segment_apply_batch_size as int, old(self).max_cached_segments as int, old(self).output_segment_cache@, final(self).output_segment_cache@, old(self).applied.outputs@, final(self).applied.outputs@)
//@+        && step_ok(sp_next_rangeproof(*old(self)), old(self).segment_apply_batch_size as int, old(self).max_cached_segments as int, old(self).rangeproof_segment_cache@, final(self).rangeproof_segment_cache@, old(self).applied.rangeproofs@, final(self).applied.rangeproofs@)
//@+        && step_ok(sp_next_kernel(*old(self)), old(self).segment_apply_batch_size as int, old(self).max_cached_segments as int, old(self).kernel_segment_cache@, final(self).kernel_segment_cache@, old(self).applied.kernels@, final(self).applied.kernels@),
//@+    // every batch handed to an applier is non-empty
//@+    forall|k: int| old(self).applied.outputs@.len() <= k < final(self).applied.outputs@.len() ==> (#[trigger] final(self).applied.outputs@[k]).len() > 0,
//@+    final(self).applied.outputs@.len() <= old(self).applied.outputs@.len() + 1 && final(self).applied.rangeproofs@.len() <= old(self).applied.rangeproofs@.len() + 1 && final(self).applied.kernels@.len() <= old(self).applied.kernels@.len() + 1,
//@ end
}
//@ canary take_segment_batch: r@.len() == 0
//@ canary apply_next_segments: r is Err
