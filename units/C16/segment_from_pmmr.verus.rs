//@ assume: the serving node's MMR is an abstract read-only view: get_data_from_file / get_from_file are uninterpreted reads of the data / hash file; Segment::segment_unpruned_size / segment_pos_range are abstract with what C16/segment_ident PROVES about the real functions (ASSUMED in the form used: a segment with a non-zero unpruned size has first <= last < mmr_size); pmmr::is_leaf / family_branch are proved in C07/pmmr_arith and uninterpreted here; SegmentProof::generate (its filter predicates: C16/segment_proof_filters) is an uninterpreted function of its arguments
//@ assume: T5: the generics `<U, B>` / `ReadonlyPMMR<'_, U, B>` => one abstract view with one element type, `Segment<T>` => that element type; T6: `for pos0 in first..=last { .. continue .. }` => an index `while` (Verus for-loops support neither inclusive ranges nor `continue`; the increment is done right after the element is taken, so `continue` keeps its meaning); `for (pos0, _) in family_branch {` => iteration over the vector's elements with `pos0 = x.0`
//@ assume: range (precondition): mmr_size < 2^63 (positions + 1 do not overflow)
//@ assume: decided here (C16, 'a segment of any state MMR produced by a node ...', the PRODUCER): Segment::from_pmmr refuses an identifier beyond the MMR; otherwise the segment it returns lists, in ascending position order, EXACTLY the leaf positions of its range whose data is on file, each with THAT data; for a non-prunable MMR a missing leaf is an error and no hash is included; for a prunable MMR it also lists EXACTLY the other positions of the range whose hash is on file, each with THAT hash; only when nothing at all is on file it carries the single hash of the first ancestor (family branch of the range's last position) that IS on file and tells the proof generator to start above it; the proof is generated for exactly (mmr size, first + 1, last + 1, that start)
//@ assumed_items: 9
//@ fns: Segment::from_pmmr
#[derive(Clone, Copy, PartialEq, Eq)]
pub struct Hash { pub v: u64 }
#[derive(Clone, Copy, PartialEq, Eq)]
pub struct Elem { pub v: u64 }
#[derive(Clone, Copy)]
pub struct SegmentIdentifier { pub height: u8, pub idx: u64 }
pub enum SegmentError { NonExistent, MissingLeaf(u64), MissingHash(u64), Other }
#[derive(Clone, Copy, PartialEq, Eq)]
pub struct SegmentProof { pub v: u64 }
pub uninterp spec fn sp_is_leaf(pos0: u64) -> bool;
pub uninterp spec fn sp_branch(pos0: u64, size: u64) -> Seq<(u64, u64)>;
pub mod pmmr { use super::*;
    #[verifier::external_body]
    pub fn is_leaf(pos0: u64) -> (r: bool) ensures r == sp_is_leaf(pos0) { unimplemented!() }
    #[verifier::external_body]
    pub fn family_branch(pos0: u64, size: u64) -> (r: Vec<(u64, u64)>) ensures r@ == sp_branch(pos0, size), forall|i: int| 0 <= i < r@.len() ==> (#[trigger] r@[i]).0 < size { unimplemented!() }
}
pub struct ReadonlyPMMR { pub _p: u8 }
impl ReadonlyPMMR {
    pub uninterp spec fn size(&self) -> u64;
    pub uninterp spec fn data_at(&self, pos0: u64) -> Option<Elem>;
    pub uninterp spec fn hash_at(&self, pos0: u64) -> Option<Hash>;
    #[verifier::external_body]
    pub fn unpruned_size(&self) -> (r: u64) ensures r == self.size() { unimplemented!() }
    #[verifier::external_body]
    pub fn get_data_from_file(&self, pos0: u64) -> (r: Option<Elem>) ensures r == self.data_at(pos0) { unimplemented!() }
    #[verifier::external_body]
    pub fn get_from_file(&self, pos0: u64) -> (r: Option<Hash>) ensures r == self.hash_at(pos0) { unimplemented!() }
}
pub uninterp spec fn sp_gen(m: ReadonlyPMMR, mmr_size: u64, first1: u64, last1: u64, start: Option<u64>) -> Result<SegmentProof, SegmentError>;
impl SegmentProof {
    #[verifier::external_body]
    pub fn generate(pmmr: &ReadonlyPMMR, mmr_size: u64, first1: u64, last1: u64, start_pos: Option<u64>) -> (r: Result<SegmentProof, SegmentError>)
        ensures r == sp_gen(*pmmr, mmr_size, first1, last1, start_pos) { unimplemented!() }
}
pub struct Segment { pub identifier: SegmentIdentifier, pub hash_pos: Vec<u64>, pub hashes: Vec<Hash>, pub leaf_pos: Vec<u64>, pub leaf_data: Vec<Elem>, pub proof: SegmentProof }
pub uninterp spec fn sp_unpruned_size(id: SegmentIdentifier, mmr_size: u64) -> u64;
pub uninterp spec fn sp_range(id: SegmentIdentifier, mmr_size: u64) -> (u64, u64);
/// the leaf positions of [first, upto) whose data is on file, ascending
pub open spec fn leaves_upto(m: ReadonlyPMMR, first: u64, upto: int) -> Seq<u64> decreases upto - first {
    if upto <= first { Seq::empty() } else {
        let p = leaves_upto(m, first, upto - 1); let q = (upto - 1) as u64;
        if sp_is_leaf(q) && m.data_at(q) is Some { p.push(q) } else { p } }
}
/// the other positions of [first, upto) whose hash is on file, ascending
pub open spec fn hashes_upto(m: ReadonlyPMMR, first: u64, upto: int) -> Seq<u64> decreases upto - first {
    if upto <= first { Seq::empty() } else {
        let p = hashes_upto(m, first, upto - 1); let q = (upto - 1) as u64;
        if !(sp_is_leaf(q) && m.data_at(q) is Some) && m.hash_at(q) is Some { p.push(q) } else { p } }
}
pub open spec fn data_of(m: ReadonlyPMMR, ps: Seq<u64>) -> Seq<Elem> { ps.map_values(|p: u64| m.data_at(p)->0) }
pub open spec fn hashes_of(m: ReadonlyPMMR, ps: Seq<u64>) -> Seq<Hash> { ps.map_values(|p: u64| m.hash_at(p)->0) }
/// index of the first family-branch entry whose hash is on file (len if none)
pub open spec fn first_on_file(m: ReadonlyPMMR, b: Seq<(u64, u64)>, k: int) -> int decreases b.len() - k {
    if k >= b.len() { b.len() as int } else if k >= 0 && m.hash_at(b[k].0) is Some { k } else if k >= 0 { first_on_file(m, b, k + 1) } else { 0 }
}
pub open spec fn sp_lp(m: ReadonlyPMMR, id: SegmentIdentifier) -> Seq<u64> { leaves_upto(m, sp_range(id, m.size()).0, sp_range(id, m.size()).1 + 1) }
pub open spec fn sp_hp(m: ReadonlyPMMR, id: SegmentIdentifier) -> Seq<u64> { hashes_upto(m, sp_range(id, m.size()).0, sp_range(id, m.size()).1 + 1) }
pub open spec fn sp_b(m: ReadonlyPMMR, id: SegmentIdentifier) -> Seq<(u64, u64)> { sp_branch(sp_range(id, m.size()).1, m.size()) }
pub open spec fn sp_k(m: ReadonlyPMMR, id: SegmentIdentifier) -> int { first_on_file(m, sp_b(m, id), 0) }
impl Segment {
    #[verifier::external_body]
    pub fn empty(identifier: SegmentIdentifier) -> (r: Segment)
        ensures r.identifier == identifier, r.hash_pos@.len() == 0, r.hashes@.len() == 0, r.leaf_pos@.len() == 0, r.leaf_data@.len() == 0 { unimplemented!() }
    #[verifier::external_body]
    pub fn segment_unpruned_size(&self, mmr_size: u64) -> (r: u64) ensures r == sp_unpruned_size(self.identifier, mmr_size) { unimplemented!() }
    #[verifier::external_body]
    pub fn segment_pos_range(&self, mmr_size: u64) -> (r: (u64, u64))
        ensures r == sp_range(self.identifier, mmr_size), sp_unpruned_size(self.identifier, mmr_size) != 0 ==> r.0 <= r.1 && r.1 < mmr_size { unimplemented!() }
//@ extract core/src/core/pmmr/segment.rs :: impl Segment::from_pmmr
//@   sigrewrite `pub fn from_pmmr<U, B>(` => `pub fn from_pmmr(`
//@   sigrewrite `pmmr: &ReadonlyPMMR<'_, U, B>,` => `pmmr: &ReadonlyPMMR,`
//@   sigrewrite `\n\twhere\n\t\tU: PMMRable<E = T>,\n\t\tB: Backend<U>,` => ``
//@   rewrite `for pos0 in segment_first_pos..=segment_last_pos {` => `let mut pos_it: u64 = segment_first_pos; while pos_it <= segment_last_pos { let pos0 = pos_it; pos_it += 1;`
//@   rewrite `for (pos0, _) in family_branch {` => `let mut fbi: usize = 0; while fbi < family_branch.len() { let pos0 = family_branch[fbi].0; fbi += 1;`
//@   requires:
//@+    pmmr.size() < 0x8000_0000_0000_0000u64,
//@   ensures:
//@+    sp_unpruned_size(segment_id, pmmr.size()) == 0 ==> r is Err,
//@+    r matches Ok(s) ==> s.identifier == segment_id && s.leaf_pos@ == sp_lp(*pmmr, segment_id) && s.leaf_data@ == data_of(*pmmr, sp_lp(*pmmr, segment_id)),
//@+    r matches Ok(s) ==> !prunable ==> forall|q: u64| sp_range(segment_id, pmmr.size()).0 <= q <= sp_range(segment_id, pmmr.size()).1 && sp_is_leaf(q) ==> pmmr.data_at(q) is Some,
//@+    r matches Ok(s) ==> prunable && (sp_lp(*pmmr, segment_id).len() > 0 || sp_hp(*pmmr, segment_id).len() > 0) ==> s.hash_pos@ == sp_hp(*pmmr, segment_id) && s.hashes@ == hashes_of(*pmmr, sp_hp(*pmmr, segment_id))
//@+        && Ok::<SegmentProof, SegmentError>(s.proof) == sp_gen(*pmmr, pmmr.size(), (1 + sp_range(segment_id, pmmr.size()).0) as u64, (1 + sp_range(segment_id, pmmr.size()).1) as u64, None),
//@+    r matches Ok(s) ==> !prunable && sp_lp(*pmmr, segment_id).len() > 0 ==> s.hash_pos@.len() == 0 && s.hashes@.len() == 0
//@+        && Ok::<SegmentProof, SegmentError>(s.proof) == sp_gen(*pmmr, pmmr.size(), (1 + sp_range(segment_id, pmmr.size()).0) as u64, (1 + sp_range(segment_id, pmmr.size()).1) as u64, None),
//@+    r matches Ok(s) ==> sp_lp(*pmmr, segment_id).len() == 0 && (!prunable || sp_hp(*pmmr, segment_id).len() == 0) && sp_k(*pmmr, segment_id) < sp_b(*pmmr, segment_id).len() ==>
//@+        s.hash_pos@ == seq![sp_b(*pmmr, segment_id)[sp_k(*pmmr, segment_id)].0] && s.hashes@ == seq![pmmr.hash_at(sp_b(*pmmr, segment_id)[sp_k(*pmmr, segment_id)].0)->0]
//@+        && Ok::<SegmentProof, SegmentError>(s.proof) == sp_gen(*pmmr, pmmr.size(), (1 + sp_range(segment_id, pmmr.size()).0) as u64, (1 + sp_range(segment_id, pmmr.size()).1) as u64, Some((1 + sp_b(*pmmr, segment_id)[sp_k(*pmmr, segment_id)].0) as u64)),
//@+    r matches Ok(s) ==> sp_lp(*pmmr, segment_id).len() == 0 && (!prunable || sp_hp(*pmmr, segment_id).len() == 0) && sp_k(*pmmr, segment_id) >= sp_b(*pmmr, segment_id).len() ==>
//@+        s.hash_pos@.len() == 0 && Ok::<SegmentProof, SegmentError>(s.proof) == sp_gen(*pmmr, pmmr.size(), (1 + sp_range(segment_id, pmmr.size()).0) as u64, (1 + sp_range(segment_id, pmmr.size()).1) as u64, None),
//@   loop 1:
//@+    invariant
//@+        segment_first_pos <= pos_it <= segment_last_pos + 1, segment_last_pos < mmr_size, mmr_size < 0x8000_0000_0000_0000u64,
//@+        segment.identifier == segment_id,
//@+        segment.leaf_pos@ == leaves_upto(*pmmr, segment_first_pos, pos_it as int),
//@+        segment.leaf_data@ == data_of(*pmmr, segment.leaf_pos@),
//@+        prunable ==> segment.hash_pos@ == hashes_upto(*pmmr, segment_first_pos, pos_it as int) && segment.hashes@ == hashes_of(*pmmr, segment.hash_pos@),
//@+        !prunable ==> segment.hash_pos@.len() == 0 && segment.hashes@.len() == 0,
//@+        !prunable ==> forall|q: u64| segment_first_pos <= q < pos_it && sp_is_leaf(q) ==> pmmr.data_at(q) is Some,
//@+    decreases segment_last_pos + 1 - pos_it
//@   loop 2:
//@+    invariant_except_break
//@+        segment.hash_pos@.len() == 0 && segment.hashes@.len() == 0 && start_pos is None,
//@+        first_on_file(*pmmr, family_branch@, 0) == first_on_file(*pmmr, family_branch@, fbi as int),
//@+    invariant
//@+        fbi <= family_branch@.len(), family_branch@ == sp_branch(segment_last_pos, mmr_size), mmr_size < 0x8000_0000_0000_0000u64,
//@+        segment.identifier == segment_id, segment.leaf_pos@.len() == 0, segment.leaf_data@.len() == 0,
//@+        forall|i: int| 0 <= i < family_branch@.len() ==> (#[trigger] family_branch@[i]).0 < 0x8000_0000_0000_0000u64,
//@+    ensures
//@+        ({ let k = first_on_file(*pmmr, family_branch@, 0);
//@+           (k < family_branch@.len() ==> segment.hash_pos@ == seq![family_branch@[k].0] && segment.hashes@ == seq![pmmr.hash_at(family_branch@[k].0)->0] && start_pos == Some((1 + family_branch@[k].0) as u64))
//@+           && (k >= family_branch@.len() ==> segment.hash_pos@.len() == 0 && segment.hashes@.len() == 0 && start_pos is None) }),
//@+    decreases family_branch@.len() - fbi
//@   before `segment.leaf_data.push(data);`:
//@+    proof { assert(data_of(*pmmr, segment.leaf_pos@.push(pos0)) =~= data_of(*pmmr, segment.leaf_pos@).push(data)); }
//@   before `#1:segment.hashes.push(hash);`:
//@+    proof { assert(hashes_of(*pmmr, segment.hash_pos@.push(pos0)) =~= hashes_of(*pmmr, segment.hash_pos@).push(hash)); }
//@ end
}
//@ canary from_pmmr: r is Err
