//@ assume: the rewindable kernel view (a read-only view of the kernel MMR that can be rewound to a header: rewindable_kernel_view.rs) is abstract: rewind(h) records the header it stands on, validate_root() succeeds only if the kernel MMR rewound to that header has the header's kernel_root (an uninterpreted predicate of the header stood on); txhashset::rewindable_kernel_view(.., closure) runs the (lifted, verified) closure and returns what it returned; Batch::get_previous_header is an uninterpreted read (the stored parent, ASSUMED one lower: store invariant, used for termination only); T3: debug! removed
//@ assume: T7: the closure is lifted with its captured loop state (`current`, `count`) as locals initialised the way the enclosing function does (`header.clone()`, 0); `count` is a u64 here and its `+= 1` carries an overflow obligation discharged from the height
//@ assume: decided here (C16 'never finalises a state whose roots differ', the kernel-history check of state sync; also C01 full validation): Chain::validate_kernel_history(header) answers Ok ONLY IF for the given header AND EVERY ANCESTOR of it above genesis -- none skipped -- the kernel MMR rewound to that header validated against that header's own kernel root; it terminates
//@ assumed_items: 4
//@ fns: Chain::validate_kernel_history (+ its closure)
pub enum Error { Store, Root }
#[derive(Clone, Copy, PartialEq, Eq)]
pub struct BlockHeader { pub height: u64, pub id: u64 }
impl BlockHeader { pub fn clone(&self) -> (r: BlockHeader) ensures r == *self { *self } }
pub uninterp spec fn sp_prev(h: BlockHeader) -> BlockHeader;
pub uninterp spec fn sp_kernel_root_ok(at: BlockHeader) -> bool;
pub struct Batch { pub _p: u8 }
impl Batch {
    #[verifier::external_body]
    pub fn get_previous_header(&self, h: &BlockHeader) -> (r: Result<BlockHeader, Error>) ensures r matches Ok(p) ==> p == sp_prev(*h) && (h.height > 0 ==> p.height == h.height - 1) { unimplemented!() }
}
pub struct RewindableKernelView { pub on: Ghost<Option<BlockHeader>> }
impl RewindableKernelView {
    #[verifier::external_body]
    pub fn rewind(&mut self, h: &BlockHeader) -> (r: Result<(), Error>) ensures r is Ok ==> final(self).on@ == Some(*h) { unimplemented!() }
    #[verifier::external_body]
    pub fn validate_root(&self) -> (r: Result<(), Error>) ensures r is Ok ==> (self.on@ matches Some(h) && sp_kernel_root_ok(h)) { unimplemented!() }
}
pub struct TxHashSet { pub _p: u8 }
pub struct KhEnv { pub header: BlockHeader }
/// the k-th ancestor
pub open spec fn anc(h: BlockHeader, k: nat) -> BlockHeader decreases k { if k == 0 { h } else { sp_prev(anc(h, (k - 1) as nat)) } }
/// every one of the first n headers of the walk (h, its parent, ..) validated
pub open spec fn checked(h: BlockHeader, n: nat) -> bool { forall|k: nat| k < n ==> sp_kernel_root_ok(#[trigger] anc(h, k)) }
pub mod txhashset { use super::*;
    #[verifier::external_body]
    pub fn rewindable_kernel_view_kh(trees: &TxHashSet, env: KhEnv) -> (r: Result<(), Error>)
        ensures r is Ok ==> exists|n: nat| #[trigger] checked(env.header, n) && anc(env.header, n).height == 0 { unimplemented!() }
}
pub struct Chain { pub _p: u8 }
impl Chain {
//@ extract chain/src/chain.rs :: impl Chain::validate_kernel_history
//@   closure 1 lifted_as `fn kh_inner(view: &mut RewindableKernelView, batch: &Batch, header: BlockHeader) -> Result<(), Error>`
//@   at_start:
//@+    let mut current = header; let mut count: u64 = 0; let ghost mut n: nat = 0;
//@   ensures:
//@+    r is Ok ==> exists|n: nat| #[trigger] checked(header, n) && anc(header, n).height == 0,
//@   loop 1:
//@+    invariant current == anc(header, n), checked(header, n), count as nat == n, n + current.height <= u64::MAX,
//@+    decreases current.height
//@   after `count += 1;`:
//@+    proof { n = n + 1; }
//@   before `current = batch.get_previous_header(&current)?;`:
//@+    proof { assert(checked(header, n + 1)) by { assert forall|k: nat| k < n + 1 implies sp_kernel_root_ok(#[trigger] anc(header, k)) by { if k == n { } } } }
//@ end
//@ extract chain/src/chain.rs :: impl Chain::validate_kernel_history
//@   strip_logs
//@   closure 1 replaced_by `KhEnv { header: current }`
//@   rewrite `txhashset::rewindable_kernel_view(&txhashset, KhEnv { header: current })?;` => `txhashset::rewindable_kernel_view_kh(txhashset, KhEnv { header: current })?;`
//@   rewrite `let mut count = 0;` => `let count: u64 = 0;`
//@   rewrite `let mut current = header.clone();` => `let current = header.clone();`
//@   ensures:
//@+    r is Ok ==> exists|n: nat| #[trigger] checked(*header, n) && anc(*header, n).height == 0,
//@ end
}
//@ canary validate_kernel_history: r is Err
