//@ assume: ABSTRACT BYTE STREAM as in C10/header_ser (a Writer is the sequence of bytes written so far; write_u8 / write_u16 / write_fixed_bytes append exactly the encoding of their argument); the `bit-vec` crate's BitVec is abstract: a sequence of booleans with len(), get(i), to_bytes() (= sp_pack, uninterpreted) and -- T6 for `self.inner.iter().filter(|&v| v).count()` -- count_true; T6: the two index loops `for (i, _) in self.inner.iter().enumerate().filter(|&(_, v)| v / !v) {` => index loops over 0..len whose body runs under `if bit == v` (enumerate + filter yield exactly those indices, ascending); `Writeable::write(&BitmapBlockSerialization::X, writer)` => `BitmapBlockSerialization::X.write(writer)`; `assert!` / `assert_eq!` => runtime_assert(cond) with `cond` as an OBLIGATION (the asserts never fire for a well-formed block: length a multiple of 1024 and at most 65536 -- precondition)
//@ assume: decided here (C16 'a bitmap segment produced by a node validates', the WRITER's half of the canonical form whose READER's half is C10/bitmap_block): BitmapBlock::write emits EXACTLY sp_enc_block -- the same specification BitmapBlock::read is proved to accept and nothing else: chunk count, then the list of set indices if FEWER THAN 4096 bits are set, else the list of clear indices if fewer than 4096 are clear, else the raw bytes. So everything the writer produces the reader accepts (a tie at exactly 4096 must go to the next mode on both sides)
//@ assumed_items: 5
//@ fns: BitmapBlock::write
global size_of usize == 8;
pub mod ser { pub enum Error { CorruptedData, TooLargeReadErr, Io } }
pub uninterp spec fn enc_u16(v: u16) -> Seq<u8>;
pub trait Writer {
    spec fn out(&self) -> Seq<u8>;
    fn write_u8(&mut self, v: u8) -> (r: Result<(), ser::Error>) ensures r.is_ok() ==> final(self).out() == old(self).out() + seq![v];
    fn write_u16(&mut self, v: u16) -> (r: Result<(), ser::Error>) ensures r.is_ok() ==> final(self).out() == old(self).out() + enc_u16(v);
    fn write_fixed_bytes(&mut self, b: &Vec<u8>) -> (r: Result<(), ser::Error>) ensures r.is_ok() ==> final(self).out() == old(self).out() + b@;
}
pub uninterp spec fn sp_pack(bits: Seq<bool>) -> Seq<u8>;
pub struct BitVec { pub bits: Ghost<Seq<bool>> }
impl BitVec {
    #[verifier::external_body]
    pub fn len(&self) -> (r: usize) ensures r == self.bits@.len() { unimplemented!() }
    #[verifier::external_body]
    pub fn get_bit(&self, i: usize) -> (r: bool) requires i < self.bits@.len() ensures r == self.bits@[i as int] { unimplemented!() }
    #[verifier::external_body]
    pub fn to_bytes(&self) -> (r: Vec<u8>) ensures r@ == sp_pack(self.bits@), 8 * r@.len() >= self.bits@.len(), r@.len() <= (self.bits@.len() + 7) / 8 { unimplemented!() }
}
#[verifier::external_body]
pub fn count_true(b: &BitVec) -> (r: usize) ensures r == idx_of(b.bits@, true, b.bits@.len()).len() { unimplemented!() }
pub fn runtime_assert(b: bool) requires b { }
#[derive(Clone, Copy)]
pub enum BitmapBlockSerialization { Raw, Positive, Negative }
pub open spec fn tag_of(m: BitmapBlockSerialization) -> u8 { match m { BitmapBlockSerialization::Raw => 0, BitmapBlockSerialization::Positive => 1, BitmapBlockSerialization::Negative => 2 } }
impl BitmapBlockSerialization {
    #[verifier::external_body]
    pub fn write<W: Writer>(&self, writer: &mut W) -> (r: Result<(), ser::Error>) ensures r.is_ok() ==> final(writer).out() == old(writer).out() + seq![tag_of(*self)] { unimplemented!() }
}
pub struct BitmapChunk {}
impl BitmapChunk { pub const LEN_BITS: usize = 1024; }
pub struct BitmapBlock { pub inner: BitVec }
/// ascending list of the indices below k whose bit equals v
pub open spec fn idx_of(bits: Seq<bool>, v: bool, k: nat) -> Seq<int> decreases k {
    if k == 0 { Seq::empty() } else { let p = idx_of(bits, v, (k - 1) as nat); if k <= bits.len() && bits[k - 1] == v { p.push(k - 1) } else { p } }
}
pub open spec fn enc_list(l: Seq<int>) -> Seq<u8> decreases l.len() { if l.len() == 0 { Seq::empty() } else { enc_list(l.drop_last()) + enc_u16(l.last() as u16) } }
/// THE FORMAT: the same definition as in C10/bitmap_block (the reader's unit)
pub open spec fn sp_enc_block(bits: Seq<bool>) -> Seq<u8> {
    let pos = idx_of(bits, true, bits.len()); let neg = idx_of(bits, false, bits.len());
    seq![(bits.len() / 1024) as u8] + (
        if pos.len() < 4096 { seq![1u8] + enc_u16(pos.len() as u16) + enc_list(pos) }
        else if neg.len() < 4096 { seq![2u8] + enc_u16(neg.len() as u16) + enc_list(neg) }
        else { seq![0u8] + sp_pack(bits) })
}
pub proof fn lemma_len(bits: Seq<bool>, v: bool, k: nat)
    ensures idx_of(bits, v, k).len() <= k decreases k
{ if k > 0 { lemma_len(bits, v, (k - 1) as nat); } }
pub proof fn lemma_total(bits: Seq<bool>, k: nat)
    requires k <= bits.len()
    ensures idx_of(bits, true, k).len() + idx_of(bits, false, k).len() == k decreases k
{ if k > 0 { lemma_total(bits, (k - 1) as nat); } }
pub proof fn lemma_enc_push(l: Seq<int>, x: int)
    ensures enc_list(l.push(x)) == enc_list(l) + enc_u16(x as u16)
{ assert(l.push(x).drop_last() =~= l); }
impl BitmapBlock {
    pub const NBITS: u32 = 1 << 16;
    pub const NCHUNKS: usize = 64;
//@ extract chain/src/txhashset/bitmap_accumulator.rs :: impl Writeable for BitmapBlock::write
//@   rewrite `assert!(length <= Self::NBITS as usize);` => `runtime_assert(length <= Self::NBITS as usize);`
//@   rewrite `assert_eq!(length % BitmapChunk::LEN_BITS, 0);` => `runtime_assert(length % BitmapChunk::LEN_BITS == 0);`
//@   rewrite `assert!(bytes.len() <= Self::NBITS as usize / 8);` => `runtime_assert(bytes.len() <= Self::NBITS as usize / 8);`
//@   rewrite `self.inner.iter().filter(|&v| v).count() as u32` => `count_true(&self.inner) as u32`
//@   rewrite `Writeable::write(&BitmapBlockSerialization::Positive, writer)?;` => `BitmapBlockSerialization::Positive.write(writer)?;`
//@   rewrite `Writeable::write(&BitmapBlockSerialization::Negative, writer)?;` => `BitmapBlockSerialization::Negative.write(writer)?;`
//@   rewrite `Writeable::write(&BitmapBlockSerialization::Raw, writer)?;` => `BitmapBlockSerialization::Raw.write(writer)?;`
//@   rewrite `for (i, _) in self.inner.iter().enumerate().filter(|&(_, v)| v) {` => `let ghost o1 = writer.out(); let mut wi: usize = 0; while wi < self.inner.len() { let i = wi; wi += 1; if self.inner.get_bit(i) {`
//@   rewrite `for (i, _) in self.inner.iter().enumerate().filter(|&(_, v)| !v) {` => `let ghost o1 = writer.out(); let mut wi: usize = 0; while wi < self.inner.len() { let i = wi; wi += 1; if !self.inner.get_bit(i) {`
//@   rewrite `\t\t\t\twriter.write_u16(i as u16)?;\n\t\t\t}` => `\t\t\t\twriter.write_u16(i as u16)?;\n\t\t\t}}` x2
//@   at_start:
//@+    proof { assert(1u32 << 16 == 65536) by(bit_vector); lemma_total(self.inner.bits@, self.inner.bits@.len()); lemma_len(self.inner.bits@, true, self.inner.bits@.len()); lemma_len(self.inner.bits@, false, self.inner.bits@.len()); }
//@+    let ghost o0 = writer.out();
//@   requires:
//@+    self.inner.bits@.len() <= 65536, self.inner.bits@.len() % 1024 == 0,
//@   ensures:
//@+    r.is_ok() ==> final(writer).out() =~= old(writer).out() + sp_enc_block(self.inner.bits@),
//@   loop 1:
//@+    invariant
//@+        wi <= self.inner.bits@.len(), self.inner.bits@.len() <= 65536,
//@+        writer.out() =~= o1 + enc_list(idx_of(self.inner.bits@, true, wi as nat)),
//@+    decreases self.inner.bits@.len() - wi,
//@   loop 2:
//@+    invariant
//@+        wi <= self.inner.bits@.len(), self.inner.bits@.len() <= 65536,
//@+        writer.out() =~= o1 + enc_list(idx_of(self.inner.bits@, false, wi as nat)),
//@+    decreases self.inner.bits@.len() - wi,
//@   before `#1:writer.write_u16(i as u16)?;`:
//@+    proof { lemma_enc_push(idx_of(self.inner.bits@, true, i as nat), i as int); }
//@   before `#2:writer.write_u16(i as u16)?;`:
//@+    proof { lemma_enc_push(idx_of(self.inner.bits@, false, i as nat), i as int); }
//@ end
}
//@ canary write: r.is_err()
