//@ assume: pmmr::bintree_postorder_height / n_leaves / is_left_sibling are the REAL functions with their contracts from C07/pmmr_arith (included and re-verified here; `pmmr::f(` => `f(`); the arithmetic facts this function relies on -- a node of height h >= 1 sits at a position >= 2^h, a leaf that is a right sibling has at least two leaves up to and including itself -- are proved here as lemmas over the explicit tree (lemma_subtree_fits of C07, lemma_right_leaf_two, lemma_lb_pos). pmmr::peaks is abstract (peaks_in_range_rev)
//@ assume: segment_pos_range / full_segment are abstract (contracts proved in C16/segment_ident); used here: last < mmr_size only -- an identifier beyond the MMR gives an inverted (empty) range, first > last + 1, which the code must tolerate; Hash, the leaf element type and `hash_with_index` are abstract (uninterpreted hash functions); croaring Bitmap::contains is abstract (has(idx))
//@ assume: T5: generic `Segment<T>` => one abstract leaf type Leaf. The std iterator `self.leaf_pos.iter().zip(&self.leaf_data)` + `.find(|&(&p, _)| p == pos0).map(|(_, l)| l)` => LeafZip, a VERIFIED stand-in (cursor over the two vectors; find_pos advances to the first remaining entry with that position, exactly as Iterator::find does, consuming what it skips); `self.hash_pos.iter().zip(&self.hashes).find(..).map(..)` inside get_hash likewise
//@ assume: T6: `.ok_or_else(|| E)` => `.ok_or(E)` (E is a plain enum value: eager construction is unobservable); `bitmap.map(closure).unwrap_or(true)` => opt_map_bitmap(bitmap, env).unwrap_or(true) with the REAL closure body verified as the lifted function leaf_required (T7); `(l, r).hash_with_index(p)` => hash_pair(l, r, p); `pmmr::peaks(..).into_iter().filter(|&pos0| pos0 >= first && pos0 <= last).rev()` => peaks_in_range_rev (abstract: some list of positions <= last); `for pos0 in peaks` => slice iterator form; `for pos0 in first..=last` => `first..last + 1` (last < mmr_size < 2^63, so no overflow; this verifier leaves the loop variable of an inclusive range unconstrained); `hash.map(Some).ok_or(E)` => the equivalent match
//@ assume: assumed precondition: 1 <= mmr_size < 2^63
//@ assume: decided here (C16, 'omitting a leaf the bitmap marks unspent makes validation fail'), for ANY segment contents received from a peer: Segment::root never panics / overflows / indexes out of range, and it returns Ok ONLY IF, for every leaf position p in the segment's range that is REQUIRED -- the MMR is not prunable (no bitmap), or the bitmap has the leaf's index or its sibling's index set, or p is the last position of the MMR -- the segment carries an entry for p in leaf_pos (the closure computing 'required' is verified verbatim: idx = n_leaves(p+1)-1, sibling index = idx+1 for a left sibling and idx-1 for a right one). It returns Ok(None) only for a prunable MMR (this discharges, for this unit's text, the assumption C16/first_unpruned_parent makes about root). That the returned hash is the Merkle root of those leaves is NOT decided here (bounded Kani harness in C11/C16 covers small shapes).
//@ assumed_items: 9
//@ fns: Segment::root, closure in Segment::root, Segment::get_hash
//@ include: ../C07/pmmr_arith.verus.rs
#[derive(Clone, Copy, PartialEq, Eq)]
pub struct Hash { pub h: u64 }
#[derive(Clone, Copy, PartialEq, Eq)]
pub struct Leaf { pub d: u64 }
#[derive(Clone, Copy, PartialEq, Eq, Debug)]
pub enum SegmentError { MissingLeaf(u64), MissingHash(u64), NonExistent, Mismatch }
pub uninterp spec fn sp_leaf_hash(l: Leaf, pos0: u64) -> Hash;
pub uninterp spec fn sp_pair_hash(l: Hash, r: Hash, pos0: u64) -> Hash;
impl Leaf {
    #[verifier::external_body]
    pub fn hash_with_index(&self, pos0: u64) -> (r: Hash) ensures r == sp_leaf_hash(*self, pos0) { unimplemented!() }
}
#[verifier::external_body]
fn hash_pair(l: Hash, r: Hash, pos0: u64) -> (h: Hash) ensures h == sp_pair_hash(l, r, pos0) { unimplemented!() }
#[verifier::external_body]
pub struct Bitmap { _p: u8 }
impl Bitmap {
    pub uninterp spec fn has(&self, idx: u32) -> bool;
    #[verifier::external_body]
    pub fn contains(&self, idx: u32) -> (r: bool) ensures r == self.has(idx) { unimplemented!() }
    /// number of set bits in [range.start, range.end): positive iff some index in the range is set
    #[verifier::external_body]
    pub fn range_cardinality(&self, range: std::ops::Range<u32>) -> (r: u64)
        ensures (r > 0) == (exists|i: u32| range.start <= i < range.end && #[trigger] self.has(i)) { unimplemented!() }
}
pub open spec fn sp_height(pos0: u64) -> u64 { ht(pos0 as nat, 64) as u64 }
pub open spec fn sp_n_leaves(size: u64) -> u64 { lb(size as nat, 64) as u64 }
pub open spec fn sp_is_left(pos0: u64) -> bool { !is_right(pos0 as nat, 64) }
/// at least one leaf lies before any position >= 1
proof fn lemma_lb_pos(pos: nat, h: nat)
    requires 1 <= pos < tsize(h)
    ensures lb(pos, h) >= 1
    decreases h
{
    lemma2_to64(); lemma_psize(h);
    if h > 0 {
        lemma_pow2_unfold(h); lemma_psize((h - 1) as nat); lemma_pow2_pos((h - 1) as nat); lemma_pow2_pos(h);
        if pos == tsize(h) - 1 {
        } else if pos < tsize((h - 1) as nat) {
            lemma_lb_pos(pos, (h - 1) as nat);
        } else {
        }
    }
}
/// a leaf that is a right sibling has its left sibling before it: at least two leaves at positions <= pos
proof fn lemma_right_leaf_two(pos: nat, h: nat)
    requires pos + 1 < tsize(h), ht(pos, h) == 0, is_right(pos, h)
    ensures lb(pos + 1, h) >= 2
    decreases h
{
    lemma2_to64(); lemma_psize(h);
    if h > 0 {
        let t = tsize((h - 1) as nat);
        lemma_pow2_unfold(h); lemma_pow2_unfold(h + 1); lemma_psize((h - 1) as nat); lemma_pow2_pos((h - 1) as nat);
        assert(tsize(h) == 2 * t + 1);
        if pos < t {
            if pos + 1 == t {
                lemma_ht_root(pos, (h - 1) as nat);
                lemma_isright_root(pos, (h - 1) as nat);
            } else {
                lemma_right_leaf_two(pos, (h - 1) as nat);
            }
        } else {
            let q = (pos - t) as nat;
            if q == t - 1 {
                lemma_ht_root(q, (h - 1) as nat);
            } else if pos + 1 == tsize(h) - 1 {
            } else {
                lemma_right_leaf_two(q, (h - 1) as nat);
            }
        }
    }
}
/// `pmmr::peaks(mmr_size).into_iter().filter(in segment range).rev()`
#[verifier::external_body]
fn peaks_in_range_rev(mmr_size: u64, first: u64, last: u64) -> (r: Vec<u64>)
    ensures forall|i: int| 0 <= i < r@.len() ==> first <= #[trigger] r@[i] <= last { unimplemented!() }
/// the leaf index of p and of its sibling, and whether the leaf must be present
pub open spec fn idx1(p: u64) -> u64 { (sp_n_leaves((p + 1) as u64) - 1) as u64 }
pub open spec fn idx2(p: u64) -> u64 { if sp_is_left(p) { (idx1(p) + 1) as u64 } else { (idx1(p) - 1) as u64 } }
pub open spec fn required_by(b: Bitmap, p: u64, mmr_size: u64) -> bool { b.has(idx1(p) as u32) || b.has(idx2(p) as u32) || p == mmr_size - 1 }
pub open spec fn required(bitmap: Option<&Bitmap>, p: u64, mmr_size: u64) -> bool { match bitmap { Some(b) => required_by(*b, p, mmr_size), None => true } }
/// the closure value passed to `bitmap.map(..)` (captures pos0 and mmr_size)
pub struct ReqEnv { pub pos0: u64, pub mmr_size: u64 }
#[verifier::external_body]
fn opt_map_bitmap(bitmap: Option<&Bitmap>, env: ReqEnv) -> (r: Option<bool>)
    requires bitmap.is_some() ==> env.pos0 < env.mmr_size && env.mmr_size < 0x8000_0000_0000_0000u64 && sp_height(env.pos0) == 0
    ensures bitmap matches Some(b) ==> r == Some(required_by(*b, env.pos0, env.mmr_size)), bitmap.is_none() ==> r.is_none() { unimplemented!() }
//@ extract core/src/core/pmmr/segment.rs :: impl Segment::root
//@   closure 1 lifted_as `fn leaf_required(b: &Bitmap, pos0: u64, mmr_size: u64) -> bool`
//@   rewrite `pmmr::n_leaves(` => `n_leaves(`
//@   rewrite `pmmr::is_left_sibling(` => `is_left_sibling(`
//@   requires:
//@+    pos0 < mmr_size, mmr_size < 0x8000_0000_0000_0000u64, sp_height(pos0) == 0,
//@   ensures:
//@+    r == required_by(*b, pos0, mmr_size),
//@   at_start:
//@+    proof { lemma2_to64(); lemma_psize(64); lemma_pow2_unfold(64); lemma_ht_small(pos0 as nat); lemma_lb_pos((pos0 + 1) as nat, 64); lemma_lb_le((pos0 + 1) as nat, 64);
//@+        if is_right(pos0 as nat, 64) { lemma_right_leaf_two(pos0 as nat, 64); } }
//@ end
/// stand-in for `a.iter().zip(&b)` over the segment's (position, value) vectors; verified, not assumed
pub struct LeafZip<'a> { pub pos: &'a Vec<u64>, pub data: &'a Vec<Leaf>, pub cur: usize }
pub struct HashZip<'a> { pub pos: &'a Vec<u64>, pub data: &'a Vec<Hash>, pub cur: usize }
fn zip_leaves<'a>(pos: &'a Vec<u64>, data: &'a Vec<Leaf>) -> (r: LeafZip<'a>) ensures r.pos == pos, r.data == data, r.cur == 0 { LeafZip { pos, data, cur: 0 } }
fn zip_hashes<'a>(pos: &'a Vec<u64>, data: &'a Vec<Hash>) -> (r: HashZip<'a>) ensures r.pos == pos, r.data == data, r.cur == 0 { HashZip { pos, data, cur: 0 } }
impl<'a> LeafZip<'a> {
    /// `.find(|&(&p, _)| p == pos0).map(|(_, l)| l)`
    pub fn find_pos(&mut self, pos0: u64) -> (r: Option<&'a Leaf>)
        ensures final(self).pos == old(self).pos, final(self).data == old(self).data, final(self).cur >= old(self).cur,
            r.is_some() ==> old(self).pos@.contains(pos0),
    {
        while self.cur < self.pos.len() && self.cur < self.data.len()
            invariant self.pos == old(self).pos, self.data == old(self).data, self.cur >= old(self).cur
            decreases self.pos@.len() - self.cur
        {
            let i = self.cur;
            self.cur = self.cur + 1;
            if self.pos[i] == pos0 { return Some(&self.data[i]); }
        }
        None
    }
}
impl<'a> HashZip<'a> {
    /// `.find(|&(&p, _)| p == pos0).map(|(_, &h)| h)`
    pub fn find_pos(&mut self, pos0: u64) -> (r: Option<Hash>)
        ensures final(self).pos == old(self).pos, final(self).data == old(self).data,
    {
        while self.cur < self.pos.len() && self.cur < self.data.len()
            invariant self.pos == old(self).pos, self.data == old(self).data
            decreases self.pos@.len() - self.cur
        {
            let i = self.cur;
            self.cur = self.cur + 1;
            if self.pos[i] == pos0 { return Some(self.data[i]); }
        }
        None
    }
}
pub struct SegmentIdentifier { pub height: u8, pub idx: u64 }
pub struct Segment { pub identifier: SegmentIdentifier, pub hash_pos: Vec<u64>, pub hashes: Vec<Hash>, pub leaf_pos: Vec<u64>, pub leaf_data: Vec<Leaf> }
impl Segment {
    pub uninterp spec fn sp_range(&self, mmr_size: u64) -> (u64, u64);
    #[verifier::external_body]
    pub fn segment_pos_range(&self, mmr_size: u64) -> (r: (u64, u64))
        requires mmr_size >= 1 ensures r == self.sp_range(mmr_size), r.1 < mmr_size { unimplemented!() }
    #[verifier::external_body]
    fn full_segment(&self, mmr_size: u64) -> (r: bool) { unimplemented!() }
//@ extract core/src/core/pmmr/segment.rs :: impl Segment::get_hash
//@   rewrite `self.hash_pos\n\t\t\t.iter()\n\t\t\t.zip(&self.hashes)\n\t\t\t.find(|&(&p, _)| p == pos0)\n\t\t\t.map(|(_, &h)| h)\n\t\t\t.ok_or_else(|| SegmentError::MissingHash(pos0))` => `zip_hashes(&self.hash_pos, &self.hashes)\n\t\t\t.find_pos(pos0)\n\t\t\t.ok_or(SegmentError::MissingHash(pos0))`
//@ end
//@ extract core/src/core/pmmr/segment.rs :: impl Segment::root
//@   closure 1 replaced_by `ReqEnv { pos0, mmr_size }`
//@   rewrite `pmmr::bintree_postorder_height(` => `bintree_postorder_height(`
//@   after `let height = bintree_postorder_height(pos0);`:
//@+    proof { lemma2_to64(); lemma_psize(64); lemma_pow2_unfold(64); lemma_subtree_fits(pos0 as nat, 64); lemma_ht_small(pos0 as nat); lemma_shl2(height);
//@+        if height >= 1 { lemma_pow2_unfold(height as nat + 1); lemma_pow2_pos(height as nat); lemma_pow2_unfold(height as nat); } }
//@   rewrite `let mut leaves0 = self.leaf_pos.iter().zip(&self.leaf_data);` => `let mut leaves0 = zip_leaves(&self.leaf_pos, &self.leaf_data);`
//@   rewrite `if bitmap\n\t\t\t\t\t.map(` => `if opt_map_bitmap(bitmap, `
//@   rewrite `.find(|&(&p, _)| p == pos0)\n\t\t\t\t\t\t.map(|(_, l)| l)` => `.find_pos(pos0)`
//@   rewrite `.ok_or_else(|| SegmentError::MissingLeaf(pos0))?` => `.ok_or(SegmentError::MissingLeaf(pos0))?`
//@   rewrite `.ok_or_else(|| SegmentError::MissingHash(right_child_pos))?` => `.ok_or(SegmentError::MissingHash(right_child_pos))?` x2
//@   rewrite `.ok_or_else(|| SegmentError::MissingHash(left_child_pos))?` => `.ok_or(SegmentError::MissingHash(left_child_pos))?` x2
//@   rewrite `.ok_or_else(|| SegmentError::MissingHash(1 + pos0))?` => `.ok_or(SegmentError::MissingHash(1 + pos0))?` x2
//@   rewrite `Some((l, r).hash_with_index(pos0))` => `Some(hash_pair(l, r, pos0))` x3
//@   rewrite `Some(\n\t\t\t\t\t\t(\n\t\t\t\t\t\t\tleft_child.ok_or(SegmentError::MissingHash(left_child_pos))?,\n\t\t\t\t\t\t\tright_child\n\t\t\t\t\t\t\t\t.ok_or(SegmentError::MissingHash(right_child_pos))?,\n\t\t\t\t\t\t)\n\t\t\t\t\t\t\t.hash_with_index(pos0),\n\t\t\t\t\t)` => `Some(hash_pair(left_child.ok_or(SegmentError::MissingHash(left_child_pos))?, right_child.ok_or(SegmentError::MissingHash(right_child_pos))?, pos0))`
//@   rewrite `let peaks = pmmr::peaks(mmr_size)\n\t\t\t\t.into_iter()\n\t\t\t\t.filter(|&pos0| pos0 >= segment_first_pos && pos0 <= segment_last_pos)\n\t\t\t\t.rev();` => `let peaks = peaks_in_range_rev(mmr_size, segment_first_pos, segment_last_pos);`
//@   rewrite `for pos0 in segment_first_pos..=segment_last_pos {` => `for pos0 in it: segment_first_pos..segment_last_pos + 1 {`
//@   rewrite `let mut hash = None;` => `let mut hash: Option<Hash> = None;`
//@   rewrite `for pos0 in peaks {` => `for pp in it2: peaks.iter() { let pos0 = *pp;`
//@   rewrite `Some(rhash) => Some((lhash, rhash).hash_with_index(mmr_size)),` => `Some(rhash) => Some(hash_pair(lhash, rhash, mmr_size)),`
//@   rewrite `hash.map(Some).ok_or(SegmentError::NonExistent)` => `match hash { Some(h) => Ok(Some(h)), None => Err(SegmentError::NonExistent) }`
//@   requires:
//@+    1 <= mmr_size < 0x8000_0000_0000_0000u64,
//@   ensures:
//@+    r matches Ok(None) ==> bitmap.is_some(),
//@+    r.is_ok() ==> forall|p: u64| self.sp_range(mmr_size).0 <= p <= self.sp_range(mmr_size).1 && sp_height(p) == 0 && required(bitmap, p, mmr_size)
//@+        ==> #[trigger] self.leaf_pos@.contains(p),
//@   loop 1:
//@+    invariant
//@+        1 <= mmr_size < 0x8000_0000_0000_0000u64, segment_last_pos < mmr_size,
//@+        (segment_first_pos, segment_last_pos) == self.sp_range(mmr_size),
//@+        leaves0.pos == &self.leaf_pos, leaves0.data == &self.leaf_data,
//@+        bitmap.is_none() ==> forall|i: int| 0 <= i < hashes@.len() ==> (#[trigger] hashes@[i]).is_some(),
//@+        segment_first_pos <= segment_last_pos + 1 ==> (forall|p: u64| segment_first_pos <= p < pos0 && sp_height(p) == 0 && required(bitmap, p, mmr_size) ==> #[trigger] self.leaf_pos@.contains(p)),
//@   loop 2:
//@+    invariant
//@+        1 <= mmr_size < 0x8000_0000_0000_0000u64, segment_last_pos < mmr_size,
//@+        forall|i: int| 0 <= i < peaks@.len() ==> segment_first_pos <= #[trigger] peaks@[i] <= segment_last_pos,
//@ end
}
//@ canary root: r.is_err()
