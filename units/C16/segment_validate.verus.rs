//@ assume: position arithmetic is used through contracts decided on the real code in C07/pmmr_arith: pmmr::family_branch(pos0, size) (for pos0 < size < 2^62: the (parent, sibling) pairs up to the peak, every parent below size, every sibling below its parent), pmmr::peaks(size) (some list of positions below size... here: of u64 positions), pmmr::is_left_sibling; hashing is the uninterpreted node hash of two children with an index (blake2b outside); Segment::segment_pos_range / first_unpruned_parent are abstract here (C16/segment_ident, C16/first_unpruned_parent decide them)
//@ assume: T6: `self.hashes.iter()` + `iter.next()` => an index cursor over the same vector (next() = the element at the cursor, then advance); `for &(p0, s0) in family_branch.iter().filter(F) {` => index loop over family_branch whose body runs under `if F(p0)` with F the lifted, verified closure (C16/segment_proof_filters decides the three filter closures against the producer; they are re-extracted here); `family_branch.last().map(|&(p0, _)| p0).unwrap_or(x)` => helper branch_peak (the same two cases); `pmmr::peaks(last_pos).into_iter().filter(F).next()` => helper first_with (first element satisfying the lifted F; verified); `....filter(F).rev()` + `for pos0 in peaks {` => index loop from the back under `if F(pos0)`; `.ok_or_else(|| E)?` => `.ok_or(E)?` (E's `1 + pos` is then evaluated eagerly: its overflow is an obligation, discharged from the position bounds); `pmmr::` paths dropped
//@ assume: range (precondition of reconstruct_root / SegmentProof::validate): segment_last_pos0 < last_pos < 2^62 (what Segment::validate passes for a valid identifier: C16/segment_ident)
//@ assume: decided here (C16 'a segment validates against the archive header's roots only if ...', the receiver's fold), UNBOUNDED in the proof length and the MMR size (the Kani harnesses of C11/segment are the bounded stand-in for arbitrary identifiers): SegmentProof::reconstruct_root returns EXACTLY sp_reconstruct: starting from the segment root it consumes the proof hashes strictly in order, one for each family-branch pair whose parent is at or above the unpruned position (hashed on the side is_left_sibling says, indexed by the parent), then one for the first peak to the right of the branch's peak if there is one (root on the LEFT, indexed by the MMR size), then one for each peak left of the segment, nearest first (root on the RIGHT, indexed by the MMR size); it fails with MissingHash exactly when the proof runs out; it never indexes out of range or overflows. SegmentProof::validate accepts exactly when that root equals the expected root; validate_with first hashes it with the other root on the side `other_is_left` says; Segment::validate / validate_with hand the proof the identifier's position range, the segment's own root and unpruned position, in that order
//@ assumed_items: 6
//@ fns: SegmentProof::reconstruct_root (+ 3 filter closures), SegmentProof::validate, SegmentProof::validate_with, Segment::validate, Segment::validate_with
global size_of usize == 8;
#[derive(Clone, Copy, PartialEq, Eq, Structural)]
pub struct Hash { pub v: u64 }
pub uninterp spec fn sp_node_hash(l: Hash, r: Hash, idx: u64) -> Hash;
pub trait PMMRIndexHashable { spec fn sp_hash(&self, idx: u64) -> Hash; fn hash_with_index(&self, idx: u64) -> (r: Hash) ensures r == self.sp_hash(idx); }
impl PMMRIndexHashable for (Hash, Hash) {
    open spec fn sp_hash(&self, idx: u64) -> Hash { sp_node_hash(self.0, self.1, idx) }
    #[verifier::external_body]
    fn hash_with_index(&self, idx: u64) -> (r: Hash) { unimplemented!() }
}
pub enum SegmentError { MissingLeaf(u64), MissingHash(u64), NonExistent, Mismatch }
pub uninterp spec fn sp_branch(pos0: u64, size: u64) -> Seq<(u64, u64)>;
pub uninterp spec fn sp_peaks(size: u64) -> Seq<u64>;
pub uninterp spec fn sp_is_left(pos0: u64) -> bool;
#[verifier::external_body]
pub fn family_branch(pos0: u64, size: u64) -> (r: Vec<(u64, u64)>)
    requires pos0 < size, size < 0x4000_0000_0000_0000u64,
    ensures r@ == sp_branch(pos0, size), forall|i: int| 0 <= i < r@.len() ==> (#[trigger] r@[i]).0 < size && r@[i].1 < r@[i].0 { unimplemented!() }
#[verifier::external_body]
pub fn peaks(size: u64) -> (r: Vec<u64>) ensures r@ == sp_peaks(size), forall|i: int| 0 <= i < r@.len() ==> #[trigger] r@[i] < size { unimplemented!() }
#[verifier::external_body]
pub fn is_left_sibling(pos0: u64) -> (r: bool) ensures r == sp_is_left(pos0) { unimplemented!() }

/// step 1: the family branch from index bi on, hashes from index j on
pub open spec fn sp_s1(b: Seq<(u64, u64)>, up: u64, hs: Seq<Hash>, bi: int, j: int, root: Hash) -> Option<(Hash, int)> decreases b.len() - bi {
    if bi >= b.len() || bi < 0 { Some((root, j)) } else if b[bi].0 >= up {
        if 0 <= j < hs.len() { sp_s1(b, up, hs, bi + 1, j + 1, if sp_is_left(b[bi].1) { sp_node_hash(hs[j], root, b[bi].0) } else { sp_node_hash(root, hs[j], b[bi].0) }) } else { None }
    } else { sp_s1(b, up, hs, bi + 1, j, root) }
}
/// is there an element above p
pub open spec fn sp_has_above(v: Seq<u64>, p: u64) -> bool { exists|i: int| 0 <= i < v.len() && #[trigger] v[i] > p }
/// step 3: peaks with index below pi, from the back
pub open spec fn sp_s3(pk: Seq<u64>, first0: u64, hs: Seq<Hash>, pi: int, j: int, root: Hash, last_pos: u64) -> Option<Hash> decreases pi {
    if pi <= 0 || pi > pk.len() { Some(root) } else if pk[pi - 1] < first0 {
        if 0 <= j < hs.len() { sp_s3(pk, first0, hs, pi - 1, j + 1, sp_node_hash(hs[j], root, last_pos), last_pos) } else { None }
    } else { sp_s3(pk, first0, hs, pi - 1, j, root, last_pos) }
}
pub open spec fn sp_reconstruct(hs: Seq<Hash>, last_pos: u64, first0: u64, last0: u64, segment_root: Hash, up: u64) -> Option<Hash> {
    let b = sp_branch(last0, last_pos);
    match sp_s1(b, up, hs, 0, 0, segment_root) { None => None, Some((r1, j1)) => {
        let peak0 = if b.len() > 0 { b.last().0 } else { last0 };
        let pk = sp_peaks(last_pos);
        if sp_has_above(pk, peak0) {
            if 0 <= j1 < hs.len() { sp_s3(pk, first0, hs, pk.len() as int, j1 + 1, sp_node_hash(r1, hs[j1], last_pos), last_pos) } else { None }
        } else { sp_s3(pk, first0, hs, pk.len() as int, j1, r1, last_pos) } } }
}
/// cursor over the proof hashes
pub struct HashIter<'a> { pub v: &'a Vec<Hash>, pub i: usize }
pub fn hash_iter<'a>(v: &'a Vec<Hash>) -> (r: HashIter<'a>) ensures r.v == v, r.i == 0 { HashIter { v, i: 0 } }
impl<'a> HashIter<'a> {
    pub fn next(&mut self) -> (r: Option<Hash>)
        requires old(self).i <= old(self).v@.len(),
        ensures final(self).v == old(self).v, final(self).i <= final(self).v@.len(),
            old(self).i < old(self).v@.len() ==> r == Some(old(self).v@[old(self).i as int]) && final(self).i == old(self).i + 1,
            old(self).i >= old(self).v@.len() ==> r is None && final(self).i == old(self).i,
    { if self.i < self.v.len() { let h = self.v[self.i]; self.i += 1; Some(h) } else { None } }
}
pub fn branch_peak(b: &Vec<(u64, u64)>, dflt: u64) -> (r: u64) ensures r == (if b@.len() > 0 { b@.last().0 } else { dflt }) { if b.len() > 0 { b[b.len() - 1].0 } else { dflt } }
pub struct SegmentProof { pub hashes: Vec<Hash> }
impl SegmentProof {
//@ extract core/src/core/pmmr/segment.rs :: impl SegmentProof::reconstruct_root
//@   eclosure 1 lifted_as `pub fn keep_branch(p0: u64, segment_unpruned_pos: u64) -> bool`
//@   ensures:
//@+    r == (p0 >= segment_unpruned_pos),
//@ end
//@ extract core/src/core/pmmr/segment.rs :: impl SegmentProof::reconstruct_root
//@   eclosure 4 lifted_as `pub fn right_of(x: u64, peak_pos0: u64) -> bool`
//@   ensures:
//@+    r == (x > peak_pos0),
//@ end
//@ extract core/src/core/pmmr/segment.rs :: impl SegmentProof::reconstruct_root
//@   eclosure 6 lifted_as `pub fn left_of(x: u64, segment_first_pos0: u64) -> bool`
//@   ensures:
//@+    r == (x < segment_first_pos0),
//@ end
    /// `v.into_iter().filter(|&x| x > p).next()`: the first element to the right of p
    pub fn first_with(v: Vec<u64>, p: u64) -> (r: Option<u64>)
        ensures r is Some == sp_has_above(v@, p), r matches Some(x) ==> v@.contains(x)
    {
        let mut i: usize = 0;
        while i < v.len()
            invariant i <= v@.len(), forall|k: int| 0 <= k < i ==> !(#[trigger] v@[k] > p),
            decreases v@.len() - i,
        { if Self::right_of(v[i], p) { return Some(v[i]); } i += 1; }
        None
    }
//@ extract core/src/core/pmmr/segment.rs :: impl SegmentProof::reconstruct_root
//@   rewrite `pmmr::` => `` x4
//@   eclosure 1 replaced_by `KEEP_BRANCH`
//@   eclosure 4 replaced_by `RIGHT_OF`
//@   eclosure 6 replaced_by `LEFT_OF`
//@   rewrite `let mut iter = self.hashes.iter();` => `let mut iter = hash_iter(&self.hashes);`
//@   rewrite `for &(p0, s0) in family_branch\n\t\t\t.iter()\n\t\t\t.filter(KEEP_BRANCH)\n\t\t{` => `let mut bi: usize = 0; while bi < family_branch.len() { let (p0, s0) = family_branch[bi]; bi += 1; if Self::keep_branch(p0, segment_unpruned_pos) {`
//@   rewrite `\t\t}\n\n\t\t// 2. bagged peaks to the right` => `\t\t}}\n\n\t\t// 2. bagged peaks to the right`
//@   rewrite `family_branch\n\t\t\t.last()\n\t\t\t.map(|&(p0, _)| p0)\n\t\t\t.unwrap_or(segment_last_pos0)` => `branch_peak(&family_branch, segment_last_pos0)`
//@   rewrite `let rhs = peaks(last_pos)\n\t\t\t.into_iter()\n\t\t\t.filter(RIGHT_OF)\n\t\t\t.next();` => `let rhs = Self::first_with(peaks(last_pos), peak_pos0);`
//@   rewrite `let peaks = peaks(last_pos)\n\t\t\t.into_iter()\n\t\t\t.filter(LEFT_OF)\n\t\t\t.rev();\n\t\tfor pos0 in peaks {` => `let pk = peaks(last_pos); let mut pi: usize = pk.len(); while pi > 0 { pi -= 1; let pos0 = pk[pi]; if Self::left_of(pos0, segment_first_pos0) {`
//@   rewrite `\t\t}\n\n\t\tOk(root)` => `\t\t}}\n\n\t\tOk(root)`
//@   rewrite `.ok_or_else(|| SegmentError::MissingHash(1 + s0))?` => `.ok_or(SegmentError::MissingHash(1 + s0))?`
//@   rewrite `.ok_or_else(|| SegmentError::MissingHash(1 + pos0))?` => `.ok_or(SegmentError::MissingHash(1 + pos0))?` x2
//@   requires:
//@+    segment_last_pos0 < last_pos, last_pos < 0x4000_0000_0000_0000u64,
//@   ensures:
//@+    r matches Ok(h) ==> sp_reconstruct(self.hashes@, last_pos, segment_first_pos0, segment_last_pos0, segment_root, segment_unpruned_pos) == Some(h),
//@+    r is Err ==> sp_reconstruct(self.hashes@, last_pos, segment_first_pos0, segment_last_pos0, segment_root, segment_unpruned_pos) is None && r matches Err(SegmentError::MissingHash(_)),
//@   loop 1:
//@+    invariant
//@+        bi <= family_branch@.len(), family_branch@ == sp_branch(segment_last_pos0, last_pos), iter.v == &self.hashes, iter.i <= self.hashes@.len(),
//@+        forall|i: int| 0 <= i < family_branch@.len() ==> (#[trigger] family_branch@[i]).0 < last_pos && family_branch@[i].1 < family_branch@[i].0,
//@+        last_pos < 0x4000_0000_0000_0000u64,
//@+        sp_s1(family_branch@, segment_unpruned_pos, self.hashes@, 0, 0, segment_root) == sp_s1(family_branch@, segment_unpruned_pos, self.hashes@, bi as int, iter.i as int, root),
//@+    decreases family_branch@.len() - bi,
//@   loop 2:
//@+    invariant
//@+        pi <= pk@.len(), pk@ == sp_peaks(last_pos), iter.v == &self.hashes, iter.i <= self.hashes@.len(),
//@+        forall|i: int| 0 <= i < pk@.len() ==> #[trigger] pk@[i] < last_pos, last_pos < 0x4000_0000_0000_0000u64,
//@+        sp_reconstruct(self.hashes@, last_pos, segment_first_pos0, segment_last_pos0, segment_root, segment_unpruned_pos) == sp_s3(pk@, segment_first_pos0, self.hashes@, pi as int, iter.i as int, root, last_pos),
//@+    decreases pi,
//@ end
//@ extract core/src/core/pmmr/segment.rs :: impl SegmentProof::validate
//@   requires:
//@+    segment_last_pos < last_pos, last_pos < 0x4000_0000_0000_0000u64,
//@   ensures:
//@+    r is Ok <==> sp_reconstruct(self.hashes@, last_pos, segment_first_pos, segment_last_pos, segment_root, segment_unpruned_pos) == Some(mmr_root),
//@+    r matches Err(SegmentError::Mismatch) ==> sp_reconstruct(self.hashes@, last_pos, segment_first_pos, segment_last_pos, segment_root, segment_unpruned_pos) is Some,
//@ end
//@ extract core/src/core/pmmr/segment.rs :: impl SegmentProof::validate_with
//@   requires:
//@+    segment_last_pos < last_pos, last_pos < 0x4000_0000_0000_0000u64,
//@   ensures:
//@+    r is Ok <==> (sp_reconstruct(self.hashes@, last_pos, segment_first_pos, segment_last_pos, segment_root, segment_unpruned_pos) matches Some(h)
//@+        && mmr_root == (if other_is_left { sp_node_hash(other_root, h, hash_last_pos) } else { sp_node_hash(h, other_root, hash_last_pos) })),
//@ end
}
pub struct Bitmap { pub _p: u8 }
pub struct Segment { pub proof: SegmentProof, pub _p: u8 }
pub uninterp spec fn sp_range(s: Segment, mmr_size: u64) -> (u64, u64);
pub uninterp spec fn sp_fup(s: Segment, mmr_size: u64, bitmap: Option<&Bitmap>) -> Result<(Hash, u64), SegmentError>;
impl Segment {
    #[verifier::external_body]
    pub fn segment_pos_range(&self, mmr_size: u64) -> (r: (u64, u64)) ensures r == sp_range(*self, mmr_size) { unimplemented!() }
    #[verifier::external_body]
    pub fn first_unpruned_parent(&self, mmr_size: u64, bitmap: Option<&Bitmap>) -> (r: Result<(Hash, u64), SegmentError>) ensures r == sp_fup(*self, mmr_size, bitmap) { unimplemented!() }
//@ extract core/src/core/pmmr/segment.rs :: impl Segment::validate
//@   requires:
//@+    sp_range(*self, mmr_size).1 < mmr_size, mmr_size < 0x4000_0000_0000_0000u64,
//@   ensures:
//@+    r is Ok <==> (sp_fup(*self, mmr_size, bitmap) matches Ok(p) && sp_reconstruct(self.proof.hashes@, mmr_size, sp_range(*self, mmr_size).0, sp_range(*self, mmr_size).1, p.0, p.1) == Some(mmr_root)),
//@ end
//@ extract core/src/core/pmmr/segment.rs :: impl Segment::validate_with
//@   requires:
//@+    sp_range(*self, mmr_size).1 < mmr_size, mmr_size < 0x4000_0000_0000_0000u64,
//@   ensures:
//@+    r is Ok <==> (sp_fup(*self, mmr_size, bitmap) matches Ok(p) && (sp_reconstruct(self.proof.hashes@, mmr_size, sp_range(*self, mmr_size).0, sp_range(*self, mmr_size).1, p.0, p.1) matches Some(h)
//@+        && mmr_root == (if other_is_left { sp_node_hash(other_root, h, hash_last_pos) } else { sp_node_hash(h, other_root, hash_last_pos) }))),
//@ end
}
//@ canary reconstruct_root: r is Err
