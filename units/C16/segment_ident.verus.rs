//@ assume: decided here: the position arithmetic of segment identifiers (a full segment is exactly one complete subtree of height `height` whose first leaf is leaf idx*2^height; a partial last segment ends at mmr_size-1) for identifiers with height <= 62 and idx*2^height < 2^62; soundness of segment validation against tampering is a bounded Kani unit; assembly order, prunable segments with a bitmap (FFI) and the archive path are outside (DESIGN 6 C16)
//@ assume: 64-bit target
//@ assumed_items: 0
//@ fns: SegmentIdentifier::segment_capacity, SegmentIdentifier::leaf_offset, SegmentIdentifier::segment_unpruned_size, SegmentIdentifier::full_segment, SegmentIdentifier::segment_pos_range, SegmentIdentifier::count_segments_required
global size_of usize == 8;
//@ include: ../C07/pmmr_arith.verus.rs

// leaf index arithmetic of aligned blocks: n = a * 2^h, j < 2^h
proof fn lemma_leafpos_block(a: nat, j: nat, h: nat, big: nat)
    requires h <= big, j < pow2(h), a * pow2(h) + j < pow2(big)
    ensures leaf_pos(a * pow2(h) + j, big) == leaf_pos(a * pow2(h), big) + leaf_pos(j, h)
    decreases big
{
    lemma2_to64();
    lemma_pow2_pos(h);
    let n = a * pow2(h);
    if big == h {
        assert(a == 0) by(nonlinear_arith) requires a * pow2(h) + j < pow2(h), pow2(h) > 0;
        assert(n == 0);
        lemma_leafpos_zero(big);
    } else {
        lemma_pow2_unfold(big);
        let half = pow2((big - 1) as nat);
        lemma_pow2_adds(h, (big - 1 - h) as nat);
        let c = pow2((big - 1 - h) as nat);
        assert(half == pow2(h) * c);
        if n < half {
            assert(a < c) by(nonlinear_arith) requires a * pow2(h) < pow2(h) * c, pow2(h) > 0;
            assert((a + 1) * pow2(h) <= c * pow2(h)) by(nonlinear_arith) requires a + 1 <= c, pow2(h) > 0;
            assert((a + 1) * pow2(h) == a * pow2(h) + pow2(h)) by(nonlinear_arith);
            assert(c * pow2(h) == pow2(h) * c) by(nonlinear_arith);
            lemma_leafpos_block(a, j, h, (big - 1) as nat);
        } else {
            assert(a >= c) by(nonlinear_arith) requires a * pow2(h) >= pow2(h) * c, pow2(h) > 0;
            let a2 = (a - c) as nat;
            assert(a2 * pow2(h) == a * pow2(h) - pow2(h) * c) by(nonlinear_arith) requires a2 == a - c, a >= c;
            lemma_leafpos_block(a2, j, h, (big - 1) as nat);
        }
    }
}

// the last leaf of a perfect tree of height h sits h positions before its root
proof fn lemma_leafpos_last(h: nat)
    ensures leaf_pos((pow2(h) - 1) as nat, h) + h == tsize(h) - 1
    decreases h
{
    lemma2_to64(); lemma_psize(h); lemma_pow2_pos(h);
    if h > 0 {
        lemma_pow2_unfold(h); lemma_psize((h - 1) as nat); lemma_pow2_pos((h - 1) as nat);
        lemma_leafpos_last((h - 1) as nat);
    }
}

// the subtree of height h whose first leaf is the aligned leaf n = a * 2^h has its root at leaf_pos(n) + tsize(h) - 1
proof fn lemma_block_root(a: nat, h: nat, big: nat)
    requires h <= big, a * pow2(h) < pow2(big)
    ensures leaf_pos(a * pow2(h), big) + tsize(h) - 1 <= tsize(big) - 1,
            ht((leaf_pos(a * pow2(h), big) + tsize(h) - 1) as nat, big) == h
    decreases big
{
    lemma2_to64(); lemma_pow2_pos(h); lemma_psize(h); lemma_psize(big);
    let n = a * pow2(h);
    if big == h {
        assert(a == 0) by(nonlinear_arith) requires a * pow2(h) < pow2(h), pow2(h) > 0;
        assert(n == 0);
        lemma_leafpos_zero(big);
        lemma_ht_root((tsize(h) - 1) as nat, h);
    } else {
        lemma_pow2_unfold(big); lemma_psize((big - 1) as nat); lemma_pow2_pos((big - 1) as nat);
        let half = pow2((big - 1) as nat);
        lemma_pow2_adds(h, (big - 1 - h) as nat);
        let c = pow2((big - 1 - h) as nat);
        assert(half == pow2(h) * c);
        if n < half {
            lemma_block_root(a, h, (big - 1) as nat);
        } else {
            assert(a >= c) by(nonlinear_arith) requires a * pow2(h) >= pow2(h) * c, pow2(h) > 0;
            let a2 = (a - c) as nat;
            assert(a2 * pow2(h) == a * pow2(h) - pow2(h) * c) by(nonlinear_arith) requires a2 == a - c, a >= c;
            lemma_block_root(a2, h, (big - 1) as nat);
        }
    }
}

pub struct SegmentIdentifier {
    pub height: u8,
    pub idx: u64,
}

fn min(a: u64, b: u64) -> (r: u64)
    ensures r == if a <= b { a } else { b }
{ if a <= b { a } else { b } }

impl SegmentIdentifier {
    pub open spec fn valid(&self) -> bool {
        self.height <= 62 && self.idx as nat * pow2(self.height as nat) < 0x4000_0000_0000_0000
    }

//@ extract core/src/core/pmmr/segment.rs :: impl SegmentIdentifier::segment_capacity
//@   requires:
//@+    self.height <= 62,
//@   ensures:
//@+    r as nat == pow2(self.height as nat),
//@   at_start:
//@+    proof { lemma_shl2(self.height as u64); }
//@ end

//@ extract core/src/core/pmmr/segment.rs :: impl SegmentIdentifier::leaf_offset
//@   requires:
//@+    self.valid(),
//@   ensures:
//@+    r as nat == self.idx as nat * pow2(self.height as nat),
//@ end

//@ extract core/src/core/pmmr/segment.rs :: impl SegmentIdentifier::segment_unpruned_size
//@   rewrite `pmmr::n_leaves(` => `n_leaves(`
//@   requires:
//@+    self.valid(),
//@   ensures:
//@+    r as int == (if lb(mmr_size as nat, 64) - self.idx as nat * pow2(self.height as nat) >= pow2(self.height as nat) { pow2(self.height as nat) as int }
//@+                 else if lb(mmr_size as nat, 64) >= self.idx as nat * pow2(self.height as nat) { lb(mmr_size as nat, 64) - self.idx as nat * pow2(self.height as nat) } else { 0 }),
//@   at_start:
//@+    proof { lemma_psize(64); lemma2_to64(); lemma_lb_le(mmr_size as nat, 64); }
//@ end

//@ extract core/src/core/pmmr/segment.rs :: impl SegmentIdentifier::full_segment
//@   requires:
//@+    self.valid(),
//@   ensures:
//@+    r == (lb(mmr_size as nat, 64) >= (self.idx as nat + 1) * pow2(self.height as nat)),
//@   at_start:
//@+    proof { lemma_pow2_pos(self.height as nat);
//@+            assert((self.idx as nat + 1) * pow2(self.height as nat) == self.idx as nat * pow2(self.height as nat) + pow2(self.height as nat)) by(nonlinear_arith); }
//@ end

//@ extract core/src/core/pmmr/segment.rs :: impl SegmentIdentifier::segment_pos_range
//@   rewrite `pmmr::insertion_to_pmmr_index(` => `insertion_to_pmmr_index(` x2
//@   requires:
//@+    self.valid(), mmr_size >= 1,
//@   ensures:
//@+    r.0 as nat == leaf_pos(self.idx as nat * pow2(self.height as nat), 64),
//@+    lb(mmr_size as nat, 64) >= (self.idx as nat + 1) * pow2(self.height as nat) ==>
//@+        r.1 as nat == r.0 as nat + tsize(self.height as nat) - 1 && ht(r.1 as nat, 64) == self.height as nat,
//@+    lb(mmr_size as nat, 64) < (self.idx as nat + 1) * pow2(self.height as nat) ==> r.1 == mmr_size - 1,
//@   at_start:
//@+    proof {
//@+        let h = self.height as nat;
//@+        let n = self.idx as nat * pow2(h);
//@+        lemma2_to64(); lemma_pow2_pos(h); lemma_psize(h);
//@+        lemma_pow2_unfold(64); lemma_pow2_unfold(63);
//@+        assert((self.idx as nat + 1) * pow2(h) == n + pow2(h)) by(nonlinear_arith) requires n == self.idx as nat * pow2(h);
//@+        if h < 62 { lemma_pow2_strictly_increases(h, 62); }
//@+        lemma_leafpos_block(self.idx as nat, (pow2(h) - 1) as nat, h, 64);
//@+        lemma_leafpos_last(h);
//@+        lemma_block_root(self.idx as nat, h, 64);
//@+        lemma_block_root(self.idx as nat, h, 63);
//@+        lemma_psize(63); lemma_psize(64);
//@+        assert(leaf_pos(n, 64) == leaf_pos(n, 63));
//@+        lemma_leafpos_inv(n, 64);
//@+    }
//@ end

//@ extract core/src/core/pmmr/segment.rs :: impl SegmentIdentifier::count_segments_required
//@   rewrite `pmmr::n_leaves(` => `n_leaves(`
//@   requires:
//@+    segment_height <= 62, target_mmr_size < 0x4000_0000_0000_0000u64,
//@   ensures:
//@+    r as int == (lb(target_mmr_size as nat, 64) + pow2(segment_height as nat) - 1) / (pow2(segment_height as nat) as int),
//@   at_start:
//@+    proof { lemma_shl2(segment_height as u64); lemma_psize(64); lemma2_to64(); lemma_pow2_unfold(64); lemma_pow2_unfold(63);
//@+            lemma_lb_le(target_mmr_size as nat, 64); lemma_pow2_pos(segment_height as nat);
//@+            if segment_height < 62 { lemma_pow2_strictly_increases(segment_height as nat, 62); } }
//@ end
}
//@ canary segment_pos_range: r.1 == r.0
