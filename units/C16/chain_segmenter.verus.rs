//@ assume: Chain's collaborators are abstract: the RwLock guards are plain values (T6: `self.header_pmmr.write()` => self.header_pmmr_write(), `self.txhashset.write()` => self.txhashset_write(); lock order is C17, not decided here); the cached segmenter cell (`pibd_segmenter: Arc<RwLock<Option<Segmenter>>>`) is read through pibd_segmenter_get() (T6 for `self.pibd_segmenter.read().as_ref()`) and written through pibd_segmenter_set(v) (T6 for `let mut cache = self.pibd_segmenter.write(); *cache = v;`); ASSUMED of the cell: what it holds was put there by pibd_segmenter_set, whose precondition -- the segmenter's bitmap snapshot was taken at the segmenter's own header -- is therefore an invariant of the cell (segmenter() is its only writer); BlockHeader is plain data (an identity and a height: two headers at the same height need not be the same header); the extension's rewind moves it to the header given, bitmap_accumulator() hands out the accumulator as of where the extension stands; txhashset::extending_readonly returns what its closure returns (the closure is lifted and verified, T7); Segmenter::new stores its three arguments; `Arc::new` is the identity on the value; `let ref x = e?;` => `let x_v = e?; let x = &x_v;`; `let now = Instant::now();` (only used by a log line) dropped; T3: log macros removed
//@ assume: decided here (C16, 'a segment of any state MMR produced by a node validates against the archive header's roots', the segmenter the segments are cut from): Chain::segmenter returns a segmenter FOR THE CURRENT ARCHIVE HEADER -- the same header, not merely one at the same height -- whose bitmap snapshot was taken with the txhashset rewound to THAT header: a cached segmenter is reused only if its header IS the archive header (after a reorganisation below the archive height the archive header changes while its height does not), a fresh one is built by init_segmenter, which rewinds a read-only extension to the header it is given and snapshots the bitmap accumulator there, and is cached
//@ assumed_items: 9
//@ fns: Chain::segmenter, Chain::init_segmenter (+ its closure)
#[derive(Clone, Copy, PartialEq, Eq, Structural)]
pub struct BlockHeader { pub id: u64, pub height: u64 }
impl BlockHeader { pub fn clone(&self) -> (r: BlockHeader) ensures r == *self { *self } }
pub enum Error { TxHashSetErr, Store, Other }
/// the bitmap accumulator as of the header the extension stood at when it was handed out
#[derive(Clone, Copy)]
pub struct BitmapAccumulator { pub of: Ghost<BlockHeader> }
pub struct Arc { pub _p: u8 }
impl Arc { pub fn new(b: BitmapAccumulator) -> (r: BitmapAccumulator) ensures r == b { b } }
#[derive(Clone, Copy)]
pub struct TxHashSetHandle { pub _p: u8 }
#[derive(Clone, Copy)]
pub struct Segmenter { pub header: BlockHeader, pub bitmap_of: Ghost<BlockHeader> }
/// the snapshot belongs to the segmenter's own header
pub open spec fn sp_seg_ok(s: Segmenter) -> bool { s.bitmap_of@ == s.header }
impl Segmenter {
    pub fn new(t: TxHashSetHandle, bitmap_snapshot: BitmapAccumulator, header: BlockHeader) -> (r: Segmenter) ensures r.header == header, r.bitmap_of@ == bitmap_snapshot.of@ { Segmenter { header, bitmap_of: Ghost(bitmap_snapshot.of@) } }
    pub fn header(&self) -> (r: &BlockHeader) ensures *r == self.header { &self.header }
    pub fn clone(&self) -> (r: Segmenter) ensures r == *self { *self }
}
pub struct Batch { pub _p: u8 }
pub struct Extension { pub at: Ghost<BlockHeader> }
impl Extension {
    #[verifier::external_body]
    pub fn rewind(&mut self, header: &BlockHeader, batch: &Batch) -> (r: Result<(), Error>) ensures r.is_ok() ==> final(self).at@ == *header { unimplemented!() }
    #[verifier::external_body]
    pub fn bitmap_accumulator(&self) -> (r: BitmapAccumulator) ensures r.of@ == self.at@ { unimplemented!() }
}
pub struct ExtensionPair { pub extension: Extension }
pub struct HeaderPmmr { pub _p: u8 }
pub struct TxHashSet { pub _p: u8 }
pub struct SegClosure<'a> { pub header: &'a BlockHeader }
pub mod txhashset {
    use super::*;
    /// runs the closure on a fresh read-only extension pair and returns what it returns (C06/extending decides the discard)
    #[verifier::external_body]
    pub fn extending_readonly<'a>(h: &mut HeaderPmmr, t: &mut TxHashSet, f: SegClosure<'a>) -> (r: Result<BitmapAccumulator, Error>)
        ensures r matches Ok(b) ==> b.of@ == *f.header { unimplemented!() }
}
pub uninterp spec fn sp_archive_header(c: Chain) -> BlockHeader;
pub struct Chain { pub _p: u8 }
impl Chain {
    #[verifier::external_body]
    pub fn txhashset_archive_header(&self) -> (r: Result<BlockHeader, Error>) ensures r matches Ok(h) ==> h == sp_archive_header(*self) { unimplemented!() }
    #[verifier::external_body]
    pub fn pibd_segmenter_get(&self) -> (r: Option<&Segmenter>) ensures r matches Some(s) ==> sp_seg_ok(*s) { unimplemented!() }
    #[verifier::external_body]
    pub fn pibd_segmenter_set(&self, v: Option<Segmenter>) requires v matches Some(s) ==> sp_seg_ok(s) { unimplemented!() }
    #[verifier::external_body]
    pub fn header_pmmr_write(&self) -> (r: HeaderPmmr) { unimplemented!() }
    #[verifier::external_body]
    pub fn txhashset_write(&self) -> (r: TxHashSet) { unimplemented!() }
    #[verifier::external_body]
    pub fn txhashset(&self) -> (r: TxHashSetHandle) { unimplemented!() }
//@ extract chain/src/chain.rs :: impl Chain::init_segmenter
//@   closure 1 lifted_as `fn seg_closure(ext: &mut ExtensionPair, batch: &Batch, header: &BlockHeader) -> Result<BitmapAccumulator, Error>`
//@   ensures:
//@+    r matches Ok(b) ==> b.of@ == *header,
//@ end
//@ extract chain/src/chain.rs :: impl Chain::init_segmenter
//@   strip_logs
//@   closure 1 replaced_by `SegClosure { header: header }`
//@   rewrite `\t\tlet now = Instant::now();\n` => ``
//@   rewrite `self.header_pmmr.write()` => `self.header_pmmr_write()`
//@   rewrite `self.txhashset.write()` => `self.txhashset_write()`
//@   ensures:
//@+    r matches Ok(s) ==> s.header == *header && sp_seg_ok(s),
//@ end
//@ extract chain/src/chain.rs :: impl Chain::segmenter
//@   rewrite `let ref archive_header = self.txhashset_archive_header()?;` => `let archive_header_v = self.txhashset_archive_header()?; let archive_header = &archive_header_v;`
//@   rewrite `self.pibd_segmenter.read().as_ref()` => `self.pibd_segmenter_get()`
//@   rewrite `let mut cache = self.pibd_segmenter.write();\n\t\t*cache = Some(segmenter.clone());` => `self.pibd_segmenter_set(Some(segmenter.clone()));`
//@   ensures:
//@+    r matches Ok(s) ==> s.header == sp_archive_header(*self) && sp_seg_ok(s),
//@ end
}
//@ canary segmenter: r is Err
