//@ assume: Chain's collaborators are abstract: the RwLock guards are plain values (T6: `self.header_pmmr.write()` => self.header_pmmr_write(), `self.txhashset.write()` => self.txhashset_write(); lock order is C17, not decided here); the cached segmenter cell (`pibd_segmenter: Arc<RwLock<Option<Segmenter>>>`) is read through pibd_segmenter_get() (T6 for `self.pibd_segmenter.read().as_ref()`) and written through pibd_segmenter_set(v) (T6 for `let mut cache = self.pibd_segmenter.write(); *cache = v;`); ASSUMED of the cell: what it holds was put there by pibd_segmenter_set, whose precondition -- the segmenter's bitmap snapshot was taken at the segmenter's own header -- is therefore an invariant of the cell (segmenter() is its only writer); BlockHeader is plain data (an identity and a height: two headers at the same height need not be the same header); the extension's rewind moves it to the header given, bitmap_accumulator() hands out the accumulator as of where the extension stands; txhashset::extending_readonly returns what its closure returns (the closure is lifted and verified, T7); Segmenter::new stores its three arguments; `Arc::new` is the identity on the value; `let ref x = e?;` => `let x_v = e?; let x = &x_v;`; `let now = Instant::now();` (only used by a log line) dropped; T3: log macros removed
//@ assume: the desegmenter cell (`pibd_desegmenter: Arc<RwLock<Option<Desegmenter>>>`) is a ghost in/out parameter `cell` of Chain::desegmenter: `.write().as_ref()` => pibd_desegmenter_get(cell), `let mut cache = ...write(); *cache = v;` => pibd_desegmenter_set(v, cell), `self.pibd_desegmenter.clone()` => an opaque handle; Desegmenter::new stores the header it is given; global::state_sync_threshold / txhashset_archive_interval are uninterpreted constants (interval > 0); Chain::head / get_header_by_height are abstract reads
//@ assume: decided here (C16): Chain::txhashset_archive_header returns the header OUR chain has at (body head height - sync threshold, not below 0) rounded DOWN to a multiple of the archive interval -- no subtraction underflows; Chain::desegmenter leaves in the cell a desegmenter for exactly the archive header asked for, reusing the cached one only if its header IS that header
//@ assume: decided here (C16, 'a segment of any state MMR produced by a node validates against the archive header's roots', the segmenter the segments are cut from): Chain::segmenter returns a segmenter FOR THE CURRENT ARCHIVE HEADER -- the same header, not merely one at the same height -- whose bitmap snapshot was taken with the txhashset rewound to THAT header: a cached segmenter is reused only if its header IS the archive header (after a reorganisation below the archive height the archive header changes while its height does not), a fresh one is built by init_segmenter, which rewinds a read-only extension to the header it is given and snapshots the bitmap accumulator there, and is cached
//@ assumed_items: 15
//@ fns: Chain::segmenter, Chain::init_segmenter (+ its closure), Chain::txhashset_archive_header, Chain::desegmenter, Chain::init_desegmenter
#[derive(Clone, Copy, PartialEq, Eq, Structural)]
pub struct BlockHeader { pub id: u64, pub height: u64 }
impl BlockHeader { pub fn clone(&self) -> (r: BlockHeader) ensures r == *self { *self } }
pub enum Error { TxHashSetErr, Store, Other }
/// the bitmap accumulator as of the header the extension stood at when it was handed out
#[derive(Clone, Copy)]
pub struct BitmapAccumulator { pub of: Ghost<BlockHeader> }
pub struct Arc { pub _p: u8 }
impl Arc { pub fn new(b: BitmapAccumulator) -> (r: BitmapAccumulator) ensures r == b { b } }
#[derive(Clone, Copy)]
pub struct TxHashSetHandle { pub _p: u8 }
#[derive(Clone, Copy)]
pub struct Segmenter { pub header: BlockHeader, pub bitmap_of: Ghost<BlockHeader> }
/// the snapshot belongs to the segmenter's own header
pub open spec fn sp_seg_ok(s: Segmenter) -> bool { s.bitmap_of@ == s.header }
impl Segmenter {
    pub fn new(t: TxHashSetHandle, bitmap_snapshot: BitmapAccumulator, header: BlockHeader) -> (r: Segmenter) ensures r.header == header, r.bitmap_of@ == bitmap_snapshot.of@ { Segmenter { header, bitmap_of: Ghost(bitmap_snapshot.of@) } }
    pub fn header(&self) -> (r: &BlockHeader) ensures *r == self.header { &self.header }
    pub fn clone(&self) -> (r: Segmenter) ensures r == *self { *self }
}
pub struct Batch { pub _p: u8 }
pub struct Extension { pub at: Ghost<BlockHeader> }
impl Extension {
    #[verifier::external_body]
    pub fn rewind(&mut self, header: &BlockHeader, batch: &Batch) -> (r: Result<(), Error>) ensures r.is_ok() ==> final(self).at@ == *header { unimplemented!() }
    #[verifier::external_body]
    pub fn bitmap_accumulator(&self) -> (r: BitmapAccumulator) ensures r.of@ == self.at@ { unimplemented!() }
}
pub struct ExtensionPair { pub extension: Extension }
pub struct HeaderPmmr { pub _p: u8 }
pub struct TxHashSet { pub _p: u8 }
pub struct SegClosure<'a> { pub header: &'a BlockHeader }
pub mod txhashset {
    use super::*;
    /// runs the closure on a fresh read-only extension pair and returns what it returns (C06/extending decides the discard)
    #[verifier::external_body]
    pub fn extending_readonly<'a>(h: &mut HeaderPmmr, t: &mut TxHashSet, f: SegClosure<'a>) -> (r: Result<BitmapAccumulator, Error>)
        ensures r matches Ok(b) ==> b.of@ == *f.header { unimplemented!() }
}
/// the archive header: the header our chain has at the archive height
pub open spec fn sp_archive_height(c: Chain) -> u64 { let t = if sp_body_head_height(c) >= sp_threshold() as u64 { (sp_body_head_height(c) - sp_threshold() as u64) as u64 } else { 0u64 }; (t - t % sp_interval()) as u64 }
pub open spec fn sp_archive_header(c: Chain) -> BlockHeader { sp_header_at(c, sp_archive_height(c))->Some_0 }
#[derive(Clone, Copy)]
pub struct Desegmenter { pub header: BlockHeader }
impl Desegmenter {
    pub fn new(t: TxHashSetHandle, h: HeaderPmmrHandle, header: BlockHeader, genesis: BlockHeader, store: StoreHandle) -> (r: Desegmenter) ensures r.header == header { Desegmenter { header } }
    pub fn header(&self) -> (r: &BlockHeader) ensures *r == self.header { &self.header }
    pub fn clone(&self) -> (r: Desegmenter) ensures r == *self { *self }
}
#[derive(Clone, Copy)]
pub struct HeaderPmmrHandle { pub _p: u8 }
#[derive(Clone, Copy)]
pub struct StoreHandle { pub _p: u8 }
/// the shared desegmenter cell (`Arc<RwLock<Option<Desegmenter>>>`): what it holds is ghost state handed in and out of Chain::desegmenter
pub tracked struct DesegCell { pub ghost content: Option<Desegmenter> }
#[derive(Clone, Copy)]
pub struct DesegCellHandle { pub _p: u8 }
pub struct Genesis { pub header: BlockHeader }
pub uninterp spec fn sp_body_head_height(c: Chain) -> u64;
pub uninterp spec fn sp_header_at(c: Chain, height: u64) -> Option<BlockHeader>;
pub struct Tip { pub height: u64 }
pub mod global {
    use super::*;
    #[verifier::external_body]
    pub fn state_sync_threshold() -> (r: u32) ensures r == sp_threshold() { unimplemented!() }
    #[verifier::external_body]
    pub fn txhashset_archive_interval() -> (r: u64) ensures r == sp_interval(), r > 0 { unimplemented!() }
}
pub uninterp spec fn sp_threshold() -> u32;
pub uninterp spec fn sp_interval() -> u64;
pub struct Chain { pub genesis: Genesis, pub header_pmmr: HeaderPmmrHandle, pub store: StoreHandle, pub _p: u8 }
impl Chain {
    #[verifier::external_body]
    pub fn head(&self) -> (r: Result<Tip, Error>) ensures r matches Ok(t) ==> t.height == sp_body_head_height(*self) { unimplemented!() }
    #[verifier::external_body]
    pub fn get_header_by_height(&self, height: u64) -> (r: Result<BlockHeader, Error>) ensures r matches Ok(h) ==> sp_header_at(*self, height) == Some(h) { unimplemented!() }
    #[verifier::external_body]
    pub fn pibd_desegmenter_get(&self, Tracked(cell): Tracked<&DesegCell>) -> (r: Option<&Desegmenter>)
        ensures match r { Some(d) => cell.content == Some(*d), None => cell.content is None } { unimplemented!() }
    #[verifier::external_body]
    pub fn pibd_desegmenter_set(&self, v: Option<Desegmenter>, Tracked(cell): Tracked<&mut DesegCell>) ensures final(cell).content == v { unimplemented!() }
    #[verifier::external_body]
    pub fn pibd_desegmenter_handle(&self) -> (r: DesegCellHandle) { unimplemented!() }
//@ extract chain/src/chain.rs :: impl Chain::txhashset_archive_header
//@   strip_logs
//@   after `let mut txhashset_height = body_head.height.saturating_sub(sync_threshold);`:
//@+    assert(txhashset_height % archive_interval <= txhashset_height) by(nonlinear_arith) requires archive_interval > 0;
//@   ensures:
//@+    // the header OUR chain has at (body head height - state sync threshold) rounded DOWN to a multiple of the archive interval
//@+    r matches Ok(h) ==> h == sp_archive_header(*self),
//@ end
//@ extract chain/src/chain.rs :: impl Chain::init_desegmenter
//@   strip_logs
//@   ensures:
//@+    r matches Ok(d) ==> d.header == *header,
//@ end
//@ extract chain/src/chain.rs :: impl Chain::desegmenter
//@   sigrewrite `archive_header: &BlockHeader,\n\t)` => `archive_header: &BlockHeader,\n\t\tTracked(cell): Tracked<&mut DesegCell>,\n\t)`
//@   sigrewrite `Result<Arc<RwLock<Option<Desegmenter>>>, Error>` => `Result<DesegCellHandle, Error>`
//@   rewrite `self.pibd_desegmenter.write().as_ref()` => `self.pibd_desegmenter_get(Tracked(&*cell))`
//@   rewrite `let mut cache = self.pibd_desegmenter.write();\n\t\t*cache = Some(desegmenter.clone());` => `self.pibd_desegmenter_set(Some(desegmenter.clone()), Tracked(cell));`
//@   rewrite `self.pibd_desegmenter.clone()` => `self.pibd_desegmenter_handle()` x2
//@   ensures:
//@+    // whatever the cell held before, on Ok it holds a desegmenter FOR THE ARCHIVE HEADER ASKED FOR (the same header, not one at the same height)
//@+    r.is_ok() ==> (final(cell).content matches Some(d) && d.header == *archive_header),
//@ end
    #[verifier::external_body]
    pub fn pibd_segmenter_get(&self) -> (r: Option<&Segmenter>) ensures r matches Some(s) ==> sp_seg_ok(*s) { unimplemented!() }
    #[verifier::external_body]
    pub fn pibd_segmenter_set(&self, v: Option<Segmenter>) requires v matches Some(s) ==> sp_seg_ok(s) { unimplemented!() }
    #[verifier::external_body]
    pub fn header_pmmr_write(&self) -> (r: HeaderPmmr) { unimplemented!() }
    #[verifier::external_body]
    pub fn txhashset_write(&self) -> (r: TxHashSet) { unimplemented!() }
    #[verifier::external_body]
    pub fn txhashset(&self) -> (r: TxHashSetHandle) { unimplemented!() }
//@ extract chain/src/chain.rs :: impl Chain::init_segmenter
//@   closure 1 lifted_as `fn seg_closure(ext: &mut ExtensionPair, batch: &Batch, header: &BlockHeader) -> Result<BitmapAccumulator, Error>`
//@   ensures:
//@+    r matches Ok(b) ==> b.of@ == *header,
//@ end
//@ extract chain/src/chain.rs :: impl Chain::init_segmenter
//@   strip_logs
//@   closure 1 replaced_by `SegClosure { header: header }`
//@   rewrite `\t\tlet now = Instant::now();\n` => ``
//@   rewrite `self.header_pmmr.write()` => `self.header_pmmr_write()`
//@   rewrite `self.txhashset.write()` => `self.txhashset_write()`
//@   ensures:
//@+    r matches Ok(s) ==> s.header == *header && sp_seg_ok(s),
//@ end
//@ extract chain/src/chain.rs :: impl Chain::segmenter
//@   rewrite `let ref archive_header = self.txhashset_archive_header()?;` => `let archive_header_v = self.txhashset_archive_header()?; let archive_header = &archive_header_v;`
//@   rewrite `self.pibd_segmenter.read().as_ref()` => `self.pibd_segmenter_get()`
//@   rewrite `let mut cache = self.pibd_segmenter.write();\n\t\t*cache = Some(segmenter.clone());` => `self.pibd_segmenter_set(Some(segmenter.clone()));`
//@   ensures:
//@+    r matches Ok(s) ==> s.header == sp_archive_header(*self) && sp_seg_ok(s),
//@ end
}
//@ canary segmenter: r is Err
