//@ assume: the backend is abstract: Backend::rewind(pos, bitmap) is recorded in a ghost log; croaring Bitmap is opaque; positions below 2^62 (the range C07/pmmr_arith proves round_up_to_leaf_pos for) -- assumed precondition
//@ assume: T5: generic `PMMR<'a, T, B>` / `RewindablePMMR<'a, T, B>` => one abstract backend type
//@ assume: decided here (C07, 'rounding to a leaf'; C08 'rewind'): PMMR::rewind and RewindablePMMR::rewind both move the MMR's size to round_up_to_leaf_pos(position) -- the real function, included from C07/pmmr_arith and re-verified: the least position >= the given one that is a leaf position, i.e. a VALID MMR size holding the same leaves -- never to the raw position; PMMR::rewind hands the backend exactly that size and the caller's bitmap and leaves the size untouched if the backend fails
//@ assumed_items: 2
//@ fns: PMMR::rewind, RewindablePMMR::rewind
//@ include: ../C07/pmmr_arith.verus.rs
#[verifier::external_body]
pub struct Bitmap { _p: u8 }
pub struct Backend { pub log: Ghost<Seq<(u64, int)>> }
pub uninterp spec fn sp_bm(b: Bitmap) -> int;
impl Backend {
    #[verifier::external_body]
    pub fn rewind(&mut self, position: u64, rewind_rm_pos: &Bitmap) -> (r: Result<(), String>)
        ensures r.is_ok() ==> final(self).log@ == old(self).log@.push((position, sp_bm(*rewind_rm_pos))) { unimplemented!() }
}
pub struct PMMR { pub size: u64, pub backend: Backend }
pub struct RewindablePMMR { pub last_pos: u64, pub backend: Backend }
impl PMMR {
//@ extract core/src/core/pmmr/pmmr.rs :: impl PMMR::rewind
//@   requires:
//@+    position < 0x4000_0000_0000_0000u64,
//@   ensures:
//@+    r.is_ok() ==> final(self).size >= position && ht(final(self).size as nat, 64) == 0 && lb(final(self).size as nat, 64) == lb(position as nat, 64)
//@+        && (ht(position as nat, 64) == 0 ==> final(self).size == position)
//@+        && final(self).backend.log@ == old(self).backend.log@.push((final(self).size, sp_bm(*rewind_rm_pos))),
//@+    r.is_err() ==> final(self).size == old(self).size,
//@ end
}
impl RewindablePMMR {
//@ extract core/src/core/pmmr/rewindable_pmmr.rs :: impl RewindablePMMR::rewind
//@   requires:
//@+    position < 0x4000_0000_0000_0000u64,
//@   ensures:
//@+    r.is_ok(), final(self).last_pos >= position, ht(final(self).last_pos as nat, 64) == 0, lb(final(self).last_pos as nat, 64) == lb(position as nat, 64),
//@+    ht(position as nat, 64) == 0 ==> final(self).last_pos == position,
//@ end
}
//@ canary rewind: r.is_err()
