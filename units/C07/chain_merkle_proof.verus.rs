//@ assume: Chain's collaborators are abstract: the RwLock write guards are plain values (T6: `self.header_pmmr.write()` => self.header_pmmr_write(), `self.txhashset.write()` => self.txhashset_write(); lock order is C17); Chain::rewind_and_apply_fork leaves the extension standing on the header it is given (C03/rewind_and_apply_fork decides pipe::rewind_and_apply_fork); txhashset::extending_readonly returns what its closure returns (the closure is lifted and verified, T7); the output MMR view's merkle_proof(pos0) is the proof producer decided in C07/merkle_proof_gen, here an uninterpreted function of (which state the MMR is in, position); Batch::get_output_pos / the commit index read the output position index (C18/chain_store_tables)
//@ assume: T5: `out_id: T` with `T: AsRef<OutputIdentifier>` => `&OutputIdentifier` (`out_id.as_ref()` is then the identity); T6: `.map_err(&Error::TxHashSetErr)?` / `.map_err(|_| Error::MerkleProof)` => `?` / identity against callees that return the final error; `PMMR::at(&mut self.output_pmmr_h.backend, self.output_pmmr_h.size)` => the handle's own view; T3: log macros removed
//@ assume: decided here (C07 'Merkle proofs follow the MMR definition', the chain-level producers): Chain::get_merkle_proof(out_id, header) is the proof for the position the output index gives for THAT output's commitment, taken from the output MMR of an extension REWOUND TO THAT HEADER (not the current head); Extension::merkle_proof / TxHashSet::merkle_proof / Chain::get_merkle_proof_for_pos ask the OUTPUT MMR (not the range-proof or kernel MMR) for exactly the indexed position
//@ assumed_items: 7
//@ fns: Chain::get_merkle_proof (+ closure), Chain::get_merkle_proof_for_pos, Extension::merkle_proof, TxHashSet::merkle_proof
#[derive(Clone, Copy, PartialEq, Eq, Structural)]
pub struct BlockHeader { pub id: u64 }
#[derive(Clone, Copy, PartialEq, Eq, Structural)]
pub struct Commitment { pub id: u64 }
#[derive(Clone, Copy, PartialEq, Eq, Structural)]
pub struct OutputIdentifier { pub commit: Commitment, pub features: u8 }
impl OutputIdentifier { pub fn as_ref(&self) -> (r: &OutputIdentifier) ensures *r == *self { self } }
#[derive(Clone, Copy, PartialEq, Eq, Structural)]
pub struct MerkleProof { pub v: u64 }
pub enum Error { TxHashSetErr, MerkleProof, Store, Other }
/// the output position index (0-based), an uninterpreted reading of the batch / commit index
pub uninterp spec fn sp_output_pos(c: Commitment) -> Result<u64, Error>;
/// the proof the OUTPUT MMR standing on header `on` (None: the txhashset as it is) produces for pos0; which: 0 output, 1 range proof, 2 kernel
pub uninterp spec fn sp_proof(which: u8, on: Option<BlockHeader>, pos0: u64) -> Result<MerkleProof, Error>;
pub struct Batch { pub _p: u8 }
impl Batch {
    #[verifier::external_body]
    pub fn get_output_pos(&self, c: &Commitment) -> (r: Result<u64, Error>) ensures r == sp_output_pos(*c) { unimplemented!() }
}
pub struct CommitIndex { pub _p: u8 }
impl CommitIndex {
    #[verifier::external_body]
    pub fn get_output_pos(&self, c: &Commitment) -> (r: Result<u64, Error>) ensures r == sp_output_pos(*c) { unimplemented!() }
}
pub struct PmmrView { pub which: u8, pub on: Ghost<Option<BlockHeader>> }
impl PmmrView {
    #[verifier::external_body]
    pub fn merkle_proof(&self, pos0: u64) -> (r: Result<MerkleProof, Error>) ensures r == sp_proof(self.which, self.on@, pos0) { unimplemented!() }
}
pub struct Extension { pub output_pmmr: PmmrView, pub rproof_pmmr: PmmrView, pub kernel_pmmr: PmmrView }
impl Extension {
    pub open spec fn wf(&self) -> bool { self.output_pmmr.which == 0 && self.rproof_pmmr.which == 1 && self.kernel_pmmr.which == 2 && self.rproof_pmmr.on@ == self.output_pmmr.on@ && self.kernel_pmmr.on@ == self.output_pmmr.on@ }
//@ extract chain/src/txhashset/txhashset.rs :: impl Extension::merkle_proof
//@   strip_logs
//@   sigrewrite `pub fn merkle_proof<T: AsRef<OutputIdentifier>>(` => `pub fn merkle_proof(`
//@   sigrewrite `out_id: T,` => `out_id: &OutputIdentifier,`
//@   sigrewrite `batch: &Batch<'_>` => `batch: &Batch`
//@   rewrite `\n\t\t\t.map_err(&Error::TxHashSetErr)?;` => `?;`
//@   rewrite `let merkle_proof = self\n\t\t\t.output_pmmr\n\t\t\t.merkle_proof(pos0)` => `let merkle_proof = self.output_pmmr.merkle_proof(pos0)`
//@   requires:
//@+    self.wf(),
//@   ensures:
//@+    r matches Ok(p) ==> (sp_output_pos(out_id.commit) matches Ok(pos0) && sp_proof(0, self.output_pmmr.on@, pos0) == Ok::<MerkleProof, Error>(p)),
//@ end
}
pub struct ExtensionPair { pub extension: Extension }
pub struct PmmrHandle { pub view: PmmrView }
impl PmmrHandle { pub fn at(&mut self) -> (r: &PmmrView) ensures *r == old(self).view, final(self).view == old(self).view { &self.view } }
pub struct TxHashSet { pub output_pmmr_h: PmmrHandle, pub rproof_pmmr_h: PmmrHandle, pub kernel_pmmr_h: PmmrHandle, pub commit_index: CommitIndex }
impl TxHashSet {
    pub open spec fn wf(&self) -> bool { self.output_pmmr_h.view.which == 0 && self.rproof_pmmr_h.view.which == 1 && self.kernel_pmmr_h.view.which == 2 && self.output_pmmr_h.view.on@ is None }
//@ extract chain/src/txhashset/txhashset.rs :: impl TxHashSet::merkle_proof
//@   rewrite `PMMR::at(&mut self.output_pmmr_h.backend, self.output_pmmr_h.size)\n\t\t\t.merkle_proof(pos0)\n\t\t\t.map_err(|_| Error::MerkleProof)` => `self.output_pmmr_h.at().merkle_proof(pos0)`
//@   requires:
//@+    old(self).wf(),
//@   ensures:
//@+    r matches Ok(p) ==> (sp_output_pos(commit) matches Ok(pos0) && sp_proof(0, None, pos0) == Ok::<MerkleProof, Error>(p)),
//@ end
}
pub struct HeaderPmmr { pub _p: u8 }
pub struct ProofClosure<'a> { pub chain: &'a Chain, pub header: &'a BlockHeader, pub out_id: &'a OutputIdentifier }
pub mod txhashset {
    use super::*;
    /// runs the closure on a fresh read-only extension pair and returns what it returns
    #[verifier::external_body]
    pub fn extending_readonly<'a>(h: &mut HeaderPmmr, t: &mut TxHashSet, f: ProofClosure<'a>) -> (r: Result<MerkleProof, Error>)
        ensures r matches Ok(p) ==> (sp_output_pos(f.out_id.commit) matches Ok(pos0) && sp_proof(0, Some(*f.header), pos0) == Ok::<MerkleProof, Error>(p)) { unimplemented!() }
}
pub struct Chain { pub _p: u8 }
impl Chain {
    #[verifier::external_body]
    pub fn header_pmmr_write(&self) -> (r: HeaderPmmr) { unimplemented!() }
    #[verifier::external_body]
    pub fn txhashset_write(&self) -> (r: TxHashSet) ensures r.wf() { unimplemented!() }
    #[verifier::external_body]
    fn rewind_and_apply_fork(&self, header: &BlockHeader, ext: &mut ExtensionPair, batch: &mut Batch) -> (r: Result<BlockHeader, Error>)
        requires old(ext).extension.wf(),
        ensures r is Ok ==> final(ext).extension.wf() && final(ext).extension.output_pmmr.on@ == Some(*header) { unimplemented!() }
//@ extract chain/src/chain.rs :: impl Chain::get_merkle_proof
//@   closure 1 lifted_as `fn proof_inner(&self, ext: &mut ExtensionPair, batch: &mut Batch, header: &BlockHeader, out_id: &OutputIdentifier) -> Result<MerkleProof, Error>`
//@   requires:
//@+    old(ext).extension.wf(),
//@   ensures:
//@+    r matches Ok(p) ==> (sp_output_pos(out_id.commit) matches Ok(pos0) && sp_proof(0, Some(*header), pos0) == Ok::<MerkleProof, Error>(p)),
//@ end
//@ extract chain/src/chain.rs :: impl Chain::get_merkle_proof
//@   sigrewrite `pub fn get_merkle_proof<T: AsRef<OutputIdentifier>>(` => `pub fn get_merkle_proof(`
//@   sigrewrite `out_id: T,` => `out_id: &OutputIdentifier,`
//@   closure 1 replaced_by `ProofClosure { chain: self, header: header, out_id: out_id }`
//@   rewrite `self.header_pmmr.write()` => `self.header_pmmr_write()`
//@   rewrite `self.txhashset.write()` => `self.txhashset_write()`
//@   ensures:
//@+    r matches Ok(p) ==> (sp_output_pos(out_id.commit) matches Ok(pos0) && sp_proof(0, Some(*header), pos0) == Ok::<MerkleProof, Error>(p)),
//@ end
//@ extract chain/src/chain.rs :: impl Chain::get_merkle_proof_for_pos
//@   rewrite `self.txhashset.write()` => `self.txhashset_write()`
//@   ensures:
//@+    r matches Ok(p) ==> (sp_output_pos(commit) matches Ok(pos0) && sp_proof(0, None, pos0) == Ok::<MerkleProof, Error>(p)),
//@ end
}
//@ canary get_merkle_proof: r is Err
