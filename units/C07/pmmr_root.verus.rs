//@ assume: the readable MMR is abstract: unpruned_size and peaks() (the stored hashes of the peak positions, left to right) are uninterpreted accessors; node hashing is the uninterpreted function of C07/pmmr_push; ZERO_HASH abstract
//@ assume: T5/T6 rewrites: trait default method extracted as a method of an abstract struct; `for peak in peaks.into_iter().rev() {` => Verus iterator loop over a reversed copy (`let rp = reversed(peaks); for peakr in it: rp.iter() { let peak = *peakr;`) -- the iteration order (right to left) is what the helper's contract states; `.ok_or_else(|| "..".to_owned())` => `.ok_or(err_string())`
//@ assume: decided here: ReadablePMMR::root of a non-empty MMR is the right-to-left bagging of its peaks -- root = H(p0, H(p1, ... H(p_{n-2}, p_{n-1}))) with every node hash indexed by the MMR size -- and ZERO_HASH for the empty MMR; it fails only when there is no peak at all
//@ assumed_items: 8
//@ fns: ReadablePMMR::root, ReadablePMMR::is_empty
#[verifier::external_body]
#[derive(Clone, Copy)]
pub struct Hash { _p: u8 }
pub uninterp spec fn sp_node_hash(l: Hash, r: Hash, pos: u64) -> Hash;
pub uninterp spec fn sp_zero_hash() -> Hash;
#[verifier::external_body]
pub fn zero_hash() -> (r: Hash) ensures r == sp_zero_hash() { unimplemented!() }
pub trait PMMRIndexHashable {
    spec fn sp_hash(&self, pos: u64) -> Hash;
    fn hash_with_index(&self, pos: u64) -> (r: Hash) ensures r == self.sp_hash(pos);
}
impl PMMRIndexHashable for (Hash, Hash) {
    open spec fn sp_hash(&self, pos: u64) -> Hash { sp_node_hash(self.0, self.1, pos) }
    #[verifier::external_body]
    fn hash_with_index(&self, pos: u64) -> (r: Hash) { unimplemented!() }
}
#[verifier::external_body]
fn err_string() -> (r: String) { unimplemented!() }
#[verifier::external_body]
fn reversed(v: Vec<Hash>) -> (r: Vec<Hash>) ensures r@ == v@.reverse() { unimplemented!() }
#[verifier::external_body]
pub struct Mmr { _p: u8 }
/// bag(p[i..]) : the right fold
pub open spec fn bag(p: Seq<Hash>, i: int, size: u64) -> Hash decreases p.len() - i {
    if i >= p.len() - 1 { p[p.len() - 1] } else { sp_node_hash(p[i], bag(p, i + 1, size), size) }
}
impl Mmr {
    pub uninterp spec fn sp_size(&self) -> u64;
    pub uninterp spec fn sp_peaks(&self) -> Seq<Hash>;
    #[verifier::external_body]
    pub fn unpruned_size(&self) -> (r: u64) ensures r == self.sp_size() { unimplemented!() }
    #[verifier::external_body]
    pub fn peaks(&self) -> (r: Vec<Hash>) ensures r@ == self.sp_peaks() { unimplemented!() }
//@ extract core/src/core/pmmr/pmmr.rs :: trait ReadablePMMR::is_empty
//@   ensures:
//@+    r == (self.sp_size() == 0),
//@ end
//@ extract core/src/core/pmmr/pmmr.rs :: trait ReadablePMMR::root
//@   rewrite `return Ok(ZERO_HASH);` => `return Ok(zero_hash());`
//@   rewrite `for peak in peaks.into_iter().rev() {` => `let rp = reversed(peaks); for peakr in it: rp.iter() { let peak = *peakr;`
//@   rewrite `res.ok_or_else(|| "no root, invalid tree".to_owned())` => `res.ok_or(err_string())`
//@   loop 1:
//@+    invariant
//@+        rp@ == self.sp_peaks().reverse(), mmr_size == self.sp_size(),
//@+        it.index@ == 0 ==> res.is_none(),
//@+        it.index@ > 0 ==> res == Some(bag(self.sp_peaks(), self.sp_peaks().len() - it.index@, mmr_size)),
//@   ensures:
//@+    self.sp_size() == 0 ==> r == Ok::<Hash, String>(sp_zero_hash()),
//@+    self.sp_size() != 0 && self.sp_peaks().len() > 0 ==> r == Ok::<Hash, String>(bag(self.sp_peaks(), 0, self.sp_size())),
//@+    self.sp_size() != 0 && self.sp_peaks().len() == 0 ==> r.is_err(),
//@ end
}
//@ canary root: r.is_err()
