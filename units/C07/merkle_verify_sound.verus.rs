//@ assume: IDEAL HASH as a free term algebra (DESIGN 3.3, now unbounded): a Hash IS the term it was computed from -- Leaf(element, index) for `element.hash_with_index(index)`, Node(left, right, index) for `(left, right).hash_with_index(index)` -- so digests are equal iff their pre-images are (no collisions, no cycles, leaf and node hashes never coincide: grin separates them only by the position index, so this last part is an assumption about the elements' encodings); `==` on Hash is term equality
//@ assume: T5: `element: &dyn PMMRIndexHashable` => a generic `&E` (the trait object's one method, hash_with_index, is the trait's only obligation here); T6: `peaks_pos0.binary_search(&(node_pos0))` => bsearch (ASSUMED: on a strictly increasing slice, Ok(x) iff element x is the value, Err iff it does not occur); `self.clone()` is a copy (derived Clone)
//@ assume: pmmr::peaks(size) is abstract: SOME strictly increasing list of positions (that it is the list of peaks is not needed for what is decided here); pmmr::family / is_left_sibling are abstract with what C07/pmmr_arith PROVES about the real functions against the explicitly built tree (parent, sibling, left/right child) plus the bound parent + 2 <= 2 * (pos + 2) (a node of height h sits at a position >= 2^(h+1) - 2, lemma_subtree_fits there)
//@ assume: range (precondition): (node_pos + 2) * 2^(path length) <= 2^62 -- the verifier climbs one level of the INFINITE tree per path element, also while bagging peaks, so its position roughly doubles per element; beyond this range `family` overflows (observation O-C07 in DESIGN 8b)
//@ assume: decided here (C07, Merkle proof verification, UNBOUNDED in the MMR size and path length): MerkleProof::verify returns Ok IF AND ONLY IF folding the path from the element upwards reproduces the root -- sp_verify: the running node is hashed at its own position (at the MMR size once at or beyond it), an empty path must equal the root exactly, otherwise the next path hash is combined with the node as (node, hash) when the node is a peak other than the last or a LEFT child inside the MMR, as (hash, node) when it is the last peak, beyond the MMR, or a RIGHT child, and the fold continues at the parent position -- and it always terminates; PROVED about that fold (lemma_unique): for one root, position, MMR size and path LENGTH there is at most one (element, path) that verifies -- substituting another element or altering any path hash makes verification fail. Changing the path LENGTH or the position is decided only by the bounded Kani unit (it needs the honest root's structure)
//@ assumed_items: 7
//@ fns: MerkleProof::verify, MerkleProof::verify_consume
//@ import: use vstd::std_specs::cmp::PartialEqSpecImpl;
//@ import: use vstd::arithmetic::power2::*;
pub enum HTerm { Leaf(int, u64), Node(Box<HTerm>, Box<HTerm>, u64) }
/// what is hashed, before the index is known
pub enum NodeGen { Elem(int), Pair(HTerm, HTerm) }
pub open spec fn gen_at(g: NodeGen, idx: u64) -> HTerm {
    match g { NodeGen::Elem(e) => HTerm::Leaf(e, idx), NodeGen::Pair(l, r) => HTerm::Node(Box::new(l), Box::new(r), idx) }
}
#[derive(Clone, Copy)]
pub struct Hash { pub t: Ghost<HTerm> }
impl PartialEqSpecImpl for Hash { open spec fn obeys_eq_spec() -> bool { true } open spec fn eq_spec(&self, other: &Hash) -> bool { self.t@ == other.t@ } }
impl PartialEq for Hash { #[verifier::external_body] fn eq(&self, other: &Hash) -> (r: bool) { unimplemented!() } }
pub trait PMMRIndexHashable {
    spec fn gen(&self) -> NodeGen;
    fn hash_with_index(&self, idx: u64) -> (r: Hash) ensures r.t@ == gen_at(self.gen(), idx);
}
impl PMMRIndexHashable for (Hash, Hash) {
    open spec fn gen(&self) -> NodeGen { NodeGen::Pair(self.0.t@, self.1.t@) }
    #[verifier::external_body]
    fn hash_with_index(&self, idx: u64) -> (r: Hash) { unimplemented!() }
}
pub enum MerkleProofError { RootMismatch }
pub struct MerkleProof { pub mmr_size: u64, pub path: Vec<Hash> }
impl Clone for MerkleProof {
    #[verifier::external_body]
    fn clone(&self) -> (r: MerkleProof) ensures r == *self { unimplemented!() }
}
pub uninterp spec fn sp_peaks(size: u64) -> Seq<u64>;
pub uninterp spec fn sp_parent(pos0: u64) -> u64;
pub uninterp spec fn sp_sibling(pos0: u64) -> u64;
pub uninterp spec fn sp_is_left(pos0: u64) -> bool;
pub open spec fn increasing(s: Seq<u64>) -> bool { forall|i: int, j: int| 0 <= i < j < s.len() ==> s[i] < s[j] }
pub mod pmmr { use super::*;
    #[verifier::external_body]
    pub fn peaks(size: u64) -> (r: Vec<u64>) ensures r@ == sp_peaks(size), increasing(r@) { unimplemented!() }
    #[verifier::external_body]
    pub fn family(pos0: u64) -> (r: (u64, u64)) requires pos0 < 0x4000_0000_0000_0000u64
        ensures r.0 == sp_parent(pos0), r.1 == sp_sibling(pos0), r.0 > pos0, r.0 + 2 <= 2 * (pos0 + 2) { unimplemented!() }
    #[verifier::external_body]
    pub fn is_left_sibling(pos0: u64) -> (r: bool) ensures r == sp_is_left(pos0) { unimplemented!() }
}
#[verifier::external_body]
pub fn bsearch(s: &[u64], v: u64) -> (r: Result<usize, usize>) requires increasing(s@)
    ensures r matches Ok(x) ==> x < s@.len() && s@[x as int] == v, r is Err ==> !s@.contains(v) { unimplemented!() }

pub open spec fn path_terms(p: Seq<Hash>) -> Seq<HTerm> { p.map_values(|h: Hash| h.t@) }
pub open spec fn clampi(pos0: u64, size: u64) -> u64 { if pos0 >= size { size } else { pos0 } }
/// is the running node the LEFT operand of the next hash?
pub open spec fn node_left(pos0: u64, size: u64) -> bool {
    if sp_peaks(size).contains(pos0) { pos0 != sp_peaks(size).last() }
    else if sp_parent(pos0) >= size { false }
    else { !sp_is_left(sp_sibling(pos0)) }
}
pub open spec fn step_gen(g: NodeGen, sib: HTerm, pos0: u64, size: u64) -> NodeGen {
    let node = gen_at(g, clampi(pos0, size));
    if node_left(pos0, size) { NodeGen::Pair(node, sib) } else { NodeGen::Pair(sib, node) }
}
pub open spec fn sp_verify(root: HTerm, g: NodeGen, pos0: u64, path: Seq<HTerm>, size: u64) -> bool decreases path.len() {
    if path.len() == 0 { root == gen_at(g, clampi(pos0, size)) }
    else { sp_verify(root, step_gen(g, path[0], pos0, size), sp_parent(pos0), path.skip(1), size) }
}
pub open spec fn in_range(pos0: u64, n: nat) -> bool { (pos0 + 2) * pow2(n) <= 0x4000_0000_0000_0000 }
pub proof fn lemma_range_step(pos0: u64, pp: u64, n: nat)
    requires in_range(pos0, n), n >= 1, pp + 2 <= 2 * (pos0 + 2)
    ensures in_range(pp, (n - 1) as nat), pos0 < 0x4000_0000_0000_0000u64
{
    lemma_pow2_unfold(n);
    lemma_pow2_pos((n - 1) as nat);
    let a = pow2((n - 1) as nat) as int;
    assert((pp + 2) * a <= 2 * (pos0 + 2) * a) by(nonlinear_arith) requires pp + 2 <= 2 * (pos0 + 2), a >= 1;
    assert(2 * (pos0 + 2) * a == (pos0 + 2) * (2 * a)) by(nonlinear_arith);
    assert((pos0 + 2) * (2 * a) >= pos0 + 2) by(nonlinear_arith) requires a >= 1, pos0 >= 0;
}
pub proof fn lemma_range_base(pos0: u64, n: nat)
    requires in_range(pos0, n) ensures pos0 < 0x4000_0000_0000_0000u64
{ lemma_pow2_pos(n); let a = pow2(n) as int; assert((pos0 + 2) * a >= pos0 + 2) by(nonlinear_arith) requires a >= 1, pos0 >= 0; }
/// for one root, position, size and path length at most one (element, path) verifies
pub proof fn lemma_unique(root: HTerm, g1: NodeGen, g2: NodeGen, pos0: u64, p1: Seq<HTerm>, p2: Seq<HTerm>, size: u64)
    requires sp_verify(root, g1, pos0, p1, size), sp_verify(root, g2, pos0, p2, size), p1.len() == p2.len()
    ensures g1 == g2, p1 == p2
    decreases p1.len()
{
    let c = clampi(pos0, size);
    if p1.len() == 0 {
        assert(gen_at(g1, c) == gen_at(g2, c));
        assert(p1 =~= p2);
    } else {
        lemma_unique(root, step_gen(g1, p1[0], pos0, size), step_gen(g2, p2[0], pos0, size), sp_parent(pos0), p1.skip(1), p2.skip(1), size);
        assert(gen_at(g1, c) == gen_at(g2, c));
        assert(p1[0] == p2[0]);
        assert(p1 =~= seq![p1[0]] + p1.skip(1));
        assert(p2 =~= seq![p2[0]] + p2.skip(1));
    }
}
impl MerkleProof {
//@ extract core/src/core/merkle_proof.rs :: impl MerkleProof::verify
//@   sigrewrite `pub fn verify(` => `pub fn verify<E: PMMRIndexHashable>(`
//@   sigrewrite `element: &dyn PMMRIndexHashable,` => `element: &E,`
//@   requires:
//@+    in_range(node_pos, self.path@.len()),
//@   ensures:
//@+    r.is_ok() <==> sp_verify(root.t@, element.gen(), node_pos, path_terms(self.path@), self.mmr_size),
//@   decreases:
//@+    self.path@.len(), 1int
//@ end
//@ extract core/src/core/merkle_proof.rs :: impl MerkleProof::verify_consume
//@   sigrewrite `fn verify_consume(` => `fn verify_consume<E: PMMRIndexHashable>(`
//@   sigrewrite `element: &dyn PMMRIndexHashable,` => `element: &E,`
//@   rewrite `peaks_pos0.binary_search(&(node_pos0))` => `bsearch(peaks_pos0, node_pos0)`
//@   requires:
//@+    in_range(node_pos0, old(self).path@.len()), peaks_pos0@ == sp_peaks(old(self).mmr_size), increasing(peaks_pos0@),
//@   ensures:
//@+    r.is_ok() <==> sp_verify(root.t@, element.gen(), node_pos0, path_terms(old(self).path@), old(self).mmr_size),
//@   decreases:
//@+    old(self).path@.len(), 0int
//@   at_start:
//@+    proof { lemma_range_base(node_pos0, self.path@.len() as nat); }
//@   before `let sibling = self.path.remove(0);`:
//@+    let ghost path0 = self.path@;
//@   after `let (parent_pos0, sibling_pos0) = pmmr::family(node_pos0);`:
//@+    proof {
//@+        lemma_range_step(node_pos0, parent_pos0, path0.len() as nat);
//@+        assert(path_terms(self.path@) =~= path_terms(path0).skip(1));
//@+        assert(path_terms(path0)[0] == sibling.t@);
//@+        if peaks_pos0@.contains(node_pos0) {
//@+            let i = choose|i: int| 0 <= i < peaks_pos0@.len() && peaks_pos0@[i] == node_pos0;
//@+            assert(forall|x: int| 0 <= x < peaks_pos0@.len() && peaks_pos0@[x] == node_pos0 ==> x == i);
//@+        }
//@+    }
//@ end
}
//@ canary verify: r.is_err()
//@ canary verify_consume: r.is_err()
