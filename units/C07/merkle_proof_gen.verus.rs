//@ assume: the readable MMR is abstract: unpruned_size; get_hash(pos) (leaf-set aware) and get_from_file(pos) (the hash file, whatever the leaf set says) are uninterpreted reads; pmmr::is_leaf / family_branch are proved in C07/pmmr_arith against the explicitly built tree (family_branch(pos, size) = the (ancestor, sibling-of-the-node-below) pairs up to the peak) and uninterpreted here; ReadablePMMR::peak_path (C07/peak_path) is an uninterpreted function of (mmr, peak position)
//@ assume: T7: the closure `|x| self.get_from_file(x.1)` is lifted and verified; the std shell `vec.iter().filter_map(f).collect::<Vec<_>>()` is stood in for by abstract iterator types (filter_map keeps, in order, the Some results); T6: `.ok_or_else(|| format!(..))?` => `.ok_or(msg())?`; `family_branch.last()` => vec_last, with the ref pattern `Some(&(x, _)) => x` written `Some(xr) => xr.0`; `path.append(&mut self.peak_path(p))` => the same through a named temporary; T3: debug! removed, format! payloads replaced
//@ assume: decided here (C07 'a Merkle proof PRODUCED for any present leaf ...', the producer): ReadablePMMR::merkle_proof(pos) refuses a non-leaf position and a leaf whose hash is not readable; otherwise the proof carries the MMR's size and as path EXACTLY: the hash-file hashes of the SIBLINGS along the family branch of the leaf, bottom up (read with get_from_file, so a spent sibling still contributes), followed by peak_path of the peak the branch ends in (the leaf itself when it is a peak)
//@ assumed_items: 11
//@ fns: ReadablePMMR::merkle_proof (+ closure)
#[derive(Clone, Copy, PartialEq, Eq)]
pub struct Hash { pub h: u64 }
pub struct Msg;
pub fn msg() -> Msg { Msg }
pub struct MerkleProof { pub mmr_size: u64, pub path: Vec<Hash> }
pub uninterp spec fn sp_is_leaf(pos0: u64) -> bool;
pub uninterp spec fn sp_branch(pos0: u64, size: u64) -> Seq<(u64, u64)>;
#[verifier::external_body]
pub fn is_leaf(pos0: u64) -> (r: bool) ensures r == sp_is_leaf(pos0) { unimplemented!() }
#[verifier::external_body]
pub fn family_branch(pos0: u64, size: u64) -> (r: Vec<(u64, u64)>) ensures r@ == sp_branch(pos0, size) { unimplemented!() }
#[verifier::external_body]
pub fn vec_last(v: &Vec<(u64, u64)>) -> (r: Option<&(u64, u64)>) ensures (v@.len() == 0 ==> r is None), (v@.len() > 0 ==> (r matches Some(x) && *x == v@.last())) { unimplemented!() }
#[verifier::external_body]
pub struct Mmr { _p: u8 }
pub uninterp spec fn sp_size(m: Mmr) -> u64;
pub uninterp spec fn sp_hash_at(m: Mmr, pos0: u64) -> Option<Hash>;
pub uninterp spec fn sp_file_hash(m: Mmr, pos0: u64) -> Option<Hash>;
pub uninterp spec fn sp_peak_path(m: Mmr, peak_pos0: u64) -> Seq<Hash>;
/// hash-file hashes of the siblings (second components), in order, skipping unreadable ones
pub open spec fn sib_hashes(m: Mmr, b: Seq<(u64, u64)>) -> Seq<Hash> decreases b.len() {
    if b.len() == 0 { Seq::empty() } else { let r = sib_hashes(m, b.drop_last()); match sp_file_hash(m, b.last().1) { Some(h) => r.push(h), None => r } } }
pub struct SibOf<'a> { pub mmr: &'a Mmr }
pub struct BranchIter { pub items: Ghost<Seq<(u64, u64)>> }
pub struct HashIter { pub items: Ghost<Seq<Hash>> }
#[verifier::external_body]
pub fn branch_iter(v: &Vec<(u64, u64)>) -> (r: BranchIter) ensures r.items@ == v@ { unimplemented!() }
impl BranchIter {
    #[verifier::external_body]
    pub fn filter_map<'a>(self, f: SibOf<'a>) -> (r: HashIter) ensures r.items@ == sib_hashes(*f.mmr, self.items@) { unimplemented!() }
}
impl HashIter {
    #[verifier::external_body]
    pub fn collect<C>(self) -> (r: Vec<Hash>) ensures r@ == self.items@ { unimplemented!() }
}
impl Mmr {
    #[verifier::external_body]
    pub fn unpruned_size(&self) -> (r: u64) ensures r == sp_size(*self) { unimplemented!() }
    #[verifier::external_body]
    pub fn get_hash(&self, pos0: u64) -> (r: Option<Hash>) ensures r == sp_hash_at(*self, pos0) { unimplemented!() }
    #[verifier::external_body]
    pub fn get_from_file(&self, pos0: u64) -> (r: Option<Hash>) ensures r == sp_file_hash(*self, pos0) { unimplemented!() }
    #[verifier::external_body]
    pub fn peak_path(&self, peak_pos0: u64) -> (r: Vec<Hash>) ensures r@ == sp_peak_path(*self, peak_pos0) { unimplemented!() }
//@ extract core/src/core/pmmr/pmmr.rs :: trait ReadablePMMR::merkle_proof
//@   eclosure 2 lifted_as `fn sib_of(&self, x: &(u64, u64)) -> Option<Hash>`
//@   ensures:
//@+    r == sp_file_hash(*self, x.1),
//@ end
//@ extract core/src/core/pmmr/pmmr.rs :: trait ReadablePMMR::merkle_proof
//@   strip_logs
//@   format_as `msg()`
//@   sigrewrite `Result<MerkleProof, String>` => `Result<MerkleProof, Msg>`
//@   eclosure 2 replaced_by `SibOf { mmr: self }`
//@   rewrite `.ok_or_else(|| msg())?;` => `.ok_or(msg())?;`
//@   rewrite `family_branch\n\t\t\t.iter()` => `branch_iter(&family_branch)`
//@   rewrite `family_branch.last()` => `vec_last(&family_branch)`
//@   rewrite `Some(&(x, _)) => x,` => `Some(xr) => xr.0,`
//@   rewrite `.collect::<Vec<_>>();` => `.collect::<Vec<Hash>>();`
//@   rewrite `path.append(&mut self.peak_path(peak_pos));` => `let mut pp = self.peak_path(peak_pos); path.append(&mut pp);`
//@   ensures:
//@+    !sp_is_leaf(pos0) || sp_hash_at(*self, pos0) is None ==> r is Err,
//@+    r matches Ok(p) ==> p.mmr_size == sp_size(*self) && ({ let b = sp_branch(pos0, sp_size(*self)); let peak = if b.len() > 0 { b.last().0 } else { pos0 };
//@+        p.path@ =~= sib_hashes(*self, b) + sp_peak_path(*self, peak) }),
//@ end
}
//@ canary merkle_proof: r is Err
