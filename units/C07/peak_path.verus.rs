//@ assume: the readable MMR is abstract: unpruned_size; get_from_file(pos) = the hash stored in the hash file at pos, whatever the leaf set says (sp_file_hash); get_peak_from_file(pos) (sp_peak_hash); get_hash(pos) = the leaf-set-aware read (sp_hash: None for a removed leaf) is offered as a DIFFERENT uninterpreted function; pmmr::peaks(size) returns the peak positions left to right (decided in C07/pmmr_arith as far as positions go; here an uninterpreted list); node hashing is the uninterpreted function of C07/pmmr_root
//@ assume: T5: `peaks(size).into_iter().filter(f).filter_map(g)` (+ `.rev()` / `.collect()`) => abstract PosVec / PosIter / HashIter stand-ins whose contracts say exactly: filter keeps the elements with f in order, filter_map the `Some` results of g in order, rev reverses; ALL FOUR closures are the REAL closure texts, verified as lifted functions (T7; a `|&x|` pattern parameter becomes `let x = *xr;`). T6: `for peak in rhs.rev() {` => loop over the collected reversed list; `res.reverse()` => vec_reverse
//@ assume: decided here (C07 Merkle paths, C08 'removing spent leaves never changes the hashes needed for Merkle proofs'): ReadablePMMR::bag_the_rhs(peak) is the right-to-left bagging H(p_a, H(p_b, ..)) indexed by the MMR size of the hashes of the peaks to the RIGHT of `peak`, each read with get_from_file -- the read that ignores the leaf set, so a spent single-leaf peak still contributes -- and None iff there are none; ReadablePMMR::peak_path(peak) is that bag (if any) followed by the peaks to the LEFT read with get_peak_from_file, in right-to-left order
//@ assumed_items: 17
//@ fns: ReadablePMMR::bag_the_rhs, ReadablePMMR::peak_path, 4 closures
#[derive(Clone, Copy, PartialEq, Eq)]
pub struct Hash { pub h: u64 }
pub uninterp spec fn sp_node_hash(l: Hash, r: Hash, pos: u64) -> Hash;
pub trait PMMRIndexHashable {
    spec fn sp_hash(&self, pos: u64) -> Hash;
    fn hash_with_index(&self, pos: u64) -> (r: Hash) ensures r == self.sp_hash(pos);
}
impl PMMRIndexHashable for (Hash, Hash) {
    open spec fn sp_hash(&self, pos: u64) -> Hash { sp_node_hash(self.0, self.1, pos) }
    #[verifier::external_body]
    fn hash_with_index(&self, pos: u64) -> (r: Hash) { unimplemented!() }
}
pub uninterp spec fn sp_peaks(size: u64) -> Seq<u64>;
pub struct PosVec { pub v: Vec<u64> }
pub struct PosIter { pub items: Ghost<Seq<u64>> }
pub struct HashIter { pub items: Ghost<Seq<Hash>> }
#[verifier::external_body]
pub fn peaks(size: u64) -> (r: PosVec) ensures r.v@ == sp_peaks(size) { unimplemented!() }
/// bag(p[i..]) : the right fold (as in C07/pmmr_root)
pub open spec fn bag(p: Seq<Hash>, i: int, size: u64) -> Hash decreases p.len() - i {
    if i >= p.len() - 1 { p[p.len() - 1] } else { sp_node_hash(p[i], bag(p, i + 1, size), size) }
}
#[verifier::external_body]
pub struct Mmr { _p: u8 }
pub struct GtEnv { pub peak_pos0: u64 }
pub struct LtEnv { pub peak_pos0: u64 }
pub struct FromFile<'a> { pub mmr: &'a Mmr }
pub struct PeakFromFile<'a> { pub mmr: &'a Mmr }
pub open spec fn hashes_of(m: Mmr, ps: Seq<u64>) -> Seq<Hash> decreases ps.len() {
    if ps.len() == 0 { Seq::empty() } else { let r = hashes_of(m, ps.drop_last()); match m.sp_file_hash(ps.last()) { Some(h) => r.push(h), None => r } } }
pub open spec fn peak_hashes_of(m: Mmr, ps: Seq<u64>) -> Seq<Hash> decreases ps.len() {
    if ps.len() == 0 { Seq::empty() } else { let r = peak_hashes_of(m, ps.drop_last()); match m.sp_peak_hash(ps.last()) { Some(h) => r.push(h), None => r } } }
impl PosVec { #[verifier::external_body] pub fn into_iter(self) -> (r: PosIter) ensures r.items@ == self.v@ { unimplemented!() } }
impl PosIter { #[verifier::external_body] pub fn rev(self) -> (r: PosIter) ensures r.items@ == self.items@.reverse() { unimplemented!() } }
/// offered so that a rewritten peak_path that shuffles its result in place is DECIDED (refuted or proved) rather than left undecided
pub assume_specification<T> [<[T]>::swap] (s: &mut [T], a: usize, b: usize)
    requires a < old(s)@.len(), b < old(s)@.len(),
    ensures final(s)@ == old(s)@.update(a as int, old(s)@[b as int]).update(b as int, old(s)@[a as int]);
pub trait Filt<E> { spec fn filtered(self, f: E) -> Seq<u64>; fn filter(self, f: E) -> (r: PosIter) ensures r.items@ == self.filtered(f); }
impl Filt<GtEnv> for PosIter {
    open spec fn filtered(self, f: GtEnv) -> Seq<u64> { self.items@.filter(|x: u64| x > f.peak_pos0) }
    #[verifier::external_body] fn filter(self, f: GtEnv) -> (r: PosIter) { unimplemented!() }
}
impl Filt<LtEnv> for PosIter {
    open spec fn filtered(self, f: LtEnv) -> Seq<u64> { self.items@.filter(|x: u64| x < f.peak_pos0) }
    #[verifier::external_body] fn filter(self, f: LtEnv) -> (r: PosIter) { unimplemented!() }
}
pub trait FiltMap<E> { spec fn mapped(self, f: E) -> Seq<Hash>; fn filter_map(self, f: E) -> (r: HashIter) ensures r.items@ == self.mapped(f); }
impl<'a> FiltMap<FromFile<'a>> for PosIter {
    open spec fn mapped(self, f: FromFile<'a>) -> Seq<Hash> { hashes_of(*f.mmr, self.items@) }
    #[verifier::external_body] fn filter_map(self, f: FromFile<'a>) -> (r: HashIter) { unimplemented!() }
}
impl<'a> FiltMap<PeakFromFile<'a>> for PosIter {
    open spec fn mapped(self, f: PeakFromFile<'a>) -> Seq<Hash> { peak_hashes_of(*f.mmr, self.items@) }
    #[verifier::external_body] fn filter_map(self, f: PeakFromFile<'a>) -> (r: HashIter) { unimplemented!() }
}
impl HashIter {
    #[verifier::external_body] pub fn rev(self) -> (r: HashIter) ensures r.items@ == self.items@.reverse() { unimplemented!() }
    #[verifier::external_body] pub fn collect(self) -> (r: Vec<Hash>) ensures r@ == self.items@ { unimplemented!() }
}
#[verifier::external_body]
fn vec_reverse(v: &mut Vec<Hash>) ensures final(v)@ == old(v)@.reverse() { unimplemented!() }
/// the hashes bag_the_rhs bags: peaks to the right of peak_pos0, read from the hash file
pub open spec fn rhs_hashes(m: Mmr, peak_pos0: u64) -> Seq<Hash> { hashes_of(m, sp_peaks(m.sp_size()).filter(|x: u64| x > peak_pos0)) }
pub open spec fn lhs_hashes(m: Mmr, peak_pos0: u64) -> Seq<Hash> { peak_hashes_of(m, sp_peaks(m.sp_size()).filter(|x: u64| x < peak_pos0)) }
pub open spec fn sp_bag_rhs(m: Mmr, peak_pos0: u64) -> Option<Hash> { let hs = rhs_hashes(m, peak_pos0); if hs.len() == 0 { None } else { Some(bag(hs, 0, m.sp_size())) } }
impl Mmr {
    pub uninterp spec fn sp_size(&self) -> u64;
    pub uninterp spec fn sp_file_hash(&self, pos0: u64) -> Option<Hash>;
    pub uninterp spec fn sp_peak_hash(&self, pos0: u64) -> Option<Hash>;
    pub uninterp spec fn sp_leafset_hash(&self, pos0: u64) -> Option<Hash>;
    #[verifier::external_body]
    pub fn unpruned_size(&self) -> (r: u64) ensures r == self.sp_size() { unimplemented!() }
    #[verifier::external_body]
    pub fn get_from_file(&self, pos0: u64) -> (r: Option<Hash>) ensures r == self.sp_file_hash(pos0) { unimplemented!() }
    #[verifier::external_body]
    pub fn get_peak_from_file(&self, pos0: u64) -> (r: Option<Hash>) ensures r == self.sp_peak_hash(pos0) { unimplemented!() }
    /// the leaf-set-aware read: None for a removed leaf
    #[verifier::external_body]
    pub fn get_hash(&self, pos0: u64) -> (r: Option<Hash>) ensures r == self.sp_leafset_hash(pos0) { unimplemented!() }
//@ extract core/src/core/pmmr/pmmr.rs :: trait ReadablePMMR::bag_the_rhs
//@   eclosure 1 replaced_by `GtEnv { peak_pos0 }`
//@   eclosure 2 replaced_by `FromFile { mmr: self }`
//@   rewrite `let mut res = None;` => `let mut res: Option<Hash> = None;`
//@   rewrite `for peak in rhs.rev() {` => `let rv = rhs.rev().collect(); for pk in it: rv.iter() { let peak = *pk;`
//@   loop 1:
//@+    invariant
//@+        rv@ == rhs_hashes(*self, peak_pos0).reverse(), size == self.sp_size(),
//@+        it.index@ == 0 ==> res.is_none(),
//@+        it.index@ > 0 ==> res == Some(bag(rhs_hashes(*self, peak_pos0), rhs_hashes(*self, peak_pos0).len() - it.index@, size)),
//@   ensures:
//@+    r == sp_bag_rhs(*self, peak_pos0),
//@ end
//@ extract core/src/core/pmmr/pmmr.rs :: trait ReadablePMMR::bag_the_rhs
//@   eclosure 2 lifted_as `fn rhs_hash(&self, x: u64) -> Option<Hash>`
//@   ensures:
//@+    r == self.sp_file_hash(x),
//@ end
//@ extract core/src/core/pmmr/pmmr.rs :: trait ReadablePMMR::peak_path
//@   eclosure 1 replaced_by `LtEnv { peak_pos0 }`
//@   eclosure 2 replaced_by `PeakFromFile { mmr: self }`
//@   rewrite `.collect::<Vec<_>>();` => `.collect();`
//@   rewrite `res.reverse();` => `vec_reverse(&mut res);`
//@   ensures:
//@+    r@ == (match sp_bag_rhs(*self, peak_pos0) { Some(b) => lhs_hashes(*self, peak_pos0).push(b), None => lhs_hashes(*self, peak_pos0) }).reverse(),
//@ end
//@ extract core/src/core/pmmr/pmmr.rs :: trait ReadablePMMR::peak_path
//@   eclosure 2 lifted_as `fn lhs_hash(&self, x: u64) -> Option<Hash>`
//@   ensures:
//@+    r == self.sp_peak_hash(x),
//@ end
}
//@ extract core/src/core/pmmr/pmmr.rs :: trait ReadablePMMR::bag_the_rhs
//@   eclosure 1 lifted_as `fn rhs_pred(xr: &u64, peak_pos0: u64) -> bool`
//@   at_start:
//@+    let x = *xr; // the closure's pattern parameter `|&x|`
//@   ensures:
//@+    r == (*xr > peak_pos0),
//@ end
//@ extract core/src/core/pmmr/pmmr.rs :: trait ReadablePMMR::peak_path
//@   eclosure 1 lifted_as `fn lhs_pred(xr: &u64, peak_pos0: u64) -> bool`
//@   at_start:
//@+    let x = *xr; // the closure's pattern parameter `|&x|`
//@   ensures:
//@+    r == (*xr < peak_pos0),
//@ end
//@ canary bag_the_rhs: r.is_none()
