//@ assume: T5: generic `VecBackend<T>` / `T::E` => one abstract element type whose as_elmt() is the identity, `impl Backend for VecBackend` => inherent; T6: `usize::try_from(E).expect("usize from u64")` => usize_from(E) (64-bit target: the conversion is total and the identity); `self.hashes.get(idx).cloned()` => vec_get_cloned (Some(v[idx]) iff idx < len); `data.get(idx).map(|x| x.as_elmt())` => likewise; `elmt.clone()` => a copy; `&Bitmap` => an abstract value (unused by this back end); pmmr::n_leaves is proved in C07/pmmr_arith and uninterpreted here; std HashSet<u64> through vstd's specification (a set of u64)
//@ assume: decided here (C07 'size, peaks and root equal those of the defining construction', C15: the bitmap accumulator's MMR lives in this back end): VecBackend stores hash i of the MMR at index i -- append pushes the element and ALL the given hashes at the end, get_from_file(p) is entry p, get_data_from_file(p) entry n_leaves(p + 1) - 1 of the data, get_hash / get_data hide exactly the removed positions -- and rewind(position) keeps EXACTLY the first `position` hashes and the first n_leaves(position) elements (the node count of an MMR is NOT 2n - 1), so what is appended next lands at index `position`, where PMMR::push expects it
//@ assume: 64-bit target
//@ assumed_items: 4
//@ fns: VecBackend::append, VecBackend::get_hash, VecBackend::get_data, VecBackend::get_from_file, VecBackend::get_peak_from_file, VecBackend::get_data_from_file, VecBackend::remove, VecBackend::rewind, VecBackend::size
//@ import: use std::collections::HashSet;
//@ import: use vstd::std_specs::hash::*;
global size_of usize == 8;
broadcast use vstd::std_specs::hash::group_hash_axioms;
#[derive(Clone, Copy, PartialEq, Eq)]
pub struct Hash { pub v: u64 }
#[derive(Clone, Copy, PartialEq, Eq)]
pub struct Elem { pub v: u64 }
impl Elem { pub fn as_elmt(&self) -> (r: Elem) ensures r == *self { *self } }
pub fn clone_elem(e: &Elem) -> (r: Elem) ensures r == *e { *e }
#[verifier::external_body]
pub struct Bitmap { _p: u8 }
pub uninterp spec fn sp_n_leaves(size: u64) -> u64;
pub mod pmmr { use super::*;
    #[verifier::external_body]
    pub fn n_leaves(size: u64) -> (r: u64) ensures r == sp_n_leaves(size) { unimplemented!() } }
pub fn usize_from(x: u64) -> (r: usize) ensures r == x { x as usize }
#[verifier::external_body]
pub fn hashes_get_cloned(v: &Vec<Hash>, idx: usize) -> (r: Option<Hash>) ensures r == (if idx < v@.len() { Some(v@[idx as int]) } else { None::<Hash> }) { unimplemented!() }
#[verifier::external_body]
pub fn data_get_elmt(v: &Vec<Elem>, idx: usize) -> (r: Option<Elem>) ensures r == (if idx < v@.len() { Some(v@[idx as int]) } else { None::<Elem> }) { unimplemented!() }
pub struct VecBackend { pub data: Option<Vec<Elem>>, pub hashes: Vec<Hash>, pub removed: HashSet<u64> }
impl VecBackend {
//@ extract core/src/core/pmmr/vec_backend.rs :: impl Backend for VecBackend::append
//@   sigrewrite `elmt: &T,` => `elmt: &Elem,`
//@   rewrite `elmt.clone()` => `clone_elem(elmt)`
//@   ensures:
//@+    r is Ok, final(self).removed == old(self).removed,
//@+    final(self).hashes@ == old(self).hashes@ + hashes@,
//@+    old(self).data matches Some(d) ==> final(self).data matches Some(d2) && d2@ == d@.push(*elmt),
//@+    old(self).data is None ==> final(self).data is None,
//@ end
//@ extract core/src/core/pmmr/vec_backend.rs :: impl Backend for VecBackend::get_from_file
//@   rewrite `usize::try_from(pos0).expect("usize from u64")` => `usize_from(pos0)`
//@   rewrite `self.hashes.get(idx).cloned()` => `hashes_get_cloned(&self.hashes, idx)`
//@   ensures:
//@+    r == (if pos0 < self.hashes@.len() { Some(self.hashes@[pos0 as int]) } else { None::<Hash> }),
//@ end
//@ extract core/src/core/pmmr/vec_backend.rs :: impl Backend for VecBackend::get_peak_from_file
//@   ensures:
//@+    r == (if pos0 < self.hashes@.len() { Some(self.hashes@[pos0 as int]) } else { None::<Hash> }),
//@ end
//@ extract core/src/core/pmmr/vec_backend.rs :: impl Backend for VecBackend::get_data_from_file
//@   sigrewrite `-> Option<T::E>` => `-> Option<Elem>`
//@   rewrite `usize::try_from(pmmr::n_leaves(1 + pos0) - 1).expect("usize from u64")` => `usize_from(pmmr::n_leaves(1 + pos0) - 1)`
//@   rewrite `data.get(idx).map(|x| x.as_elmt())` => `data_get_elmt(data, idx)`
//@   requires:
//@+    pos0 < u64::MAX, sp_n_leaves((1 + pos0) as u64) >= 1,
//@   ensures:
//@+    self.data is None ==> r is None,
//@+    self.data matches Some(d) ==> r == (if sp_n_leaves((1 + pos0) as u64) - 1 < d@.len() { Some(d@[sp_n_leaves((1 + pos0) as u64) - 1]) } else { None::<Elem> }),
//@ end
//@ extract core/src/core/pmmr/vec_backend.rs :: impl Backend for VecBackend::get_hash
//@   ensures:
//@+    self.removed@.contains(pos0) ==> r is None,
//@+    !self.removed@.contains(pos0) ==> r == (if pos0 < self.hashes@.len() { Some(self.hashes@[pos0 as int]) } else { None::<Hash> }),
//@ end
//@ extract core/src/core/pmmr/vec_backend.rs :: impl Backend for VecBackend::get_data
//@   sigrewrite `-> Option<T::E>` => `-> Option<Elem>`
//@   requires:
//@+    pos0 < u64::MAX, sp_n_leaves((1 + pos0) as u64) >= 1,
//@   ensures:
//@+    self.removed@.contains(pos0) ==> r is None,
//@+    !self.removed@.contains(pos0) && self.data is Some ==> r == (if sp_n_leaves((1 + pos0) as u64) - 1 < self.data->0@.len() { Some(self.data->0@[sp_n_leaves((1 + pos0) as u64) - 1]) } else { None::<Elem> }),
//@ end
//@ extract core/src/core/pmmr/vec_backend.rs :: impl Backend for VecBackend::remove
//@   ensures:
//@+    r is Ok, final(self).removed@ == old(self).removed@.insert(pos0), final(self).hashes == old(self).hashes, final(self).data == old(self).data,
//@ end
//@ extract core/src/core/pmmr/vec_backend.rs :: impl Backend for VecBackend::rewind
//@   sigrewrite `_rewind_rm_pos: &Bitmap` => `_rewind_rm_pos: &Bitmap`
//@   rewrite `usize::try_from(idx).expect("usize from u64")` => `usize_from(idx)`
//@   rewrite `usize::try_from(position).expect("usize from u64")` => `usize_from(position)`
//@   ensures:
//@+    r is Ok, final(self).removed == old(self).removed,
//@+    position <= old(self).hashes@.len() ==> final(self).hashes@ == old(self).hashes@.subrange(0, position as int),
//@+    position > old(self).hashes@.len() ==> final(self).hashes@ == old(self).hashes@,
//@+    old(self).data is None ==> final(self).data is None,
//@+    old(self).data matches Some(d) ==> final(self).data matches Some(d2) && (sp_n_leaves(position) <= d@.len() ==> d2@ == d@.subrange(0, sp_n_leaves(position) as int)) && (sp_n_leaves(position) > d@.len() ==> d2@ == d@),
//@ end
}
impl VecBackend {
//@ extract core/src/core/pmmr/vec_backend.rs :: impl VecBackend::size
//@   ensures:
//@+    r == self.hashes@.len(),
//@ end
}
//@ canary rewind: r is Err
//@ canary get_from_file: r is None
