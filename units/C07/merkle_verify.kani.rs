//@ crate: grin_core
//@ target: core/src/core/merkle_proof.rs
//@ assume: IDEAL HASH: blake2b is replaced by a hash-consing table -- equal inputs get the same 16-bit tag, distinct inputs distinct tags (Blake2b::update records the bytes, HashWriter::finalize looks the record up); results hold assuming collision resistance of blake2b; attacker-chosen path hashes range over all tags
//@ assume: BOUNDED stand-in: MMR sizes 1, 3, 4, 7 (1..4 leaves) and 19 (11 leaves: three peaks with a gap in their heights, the shape in which the bagging of peaks above a leaf's own peak takes more than one step; the 8-leaf left peak enters only through its hash) with the honest root and sibling paths built by the harness directly from the MMR definition (leaf hash over position and data, parent hash over position and both children, peaks bagged right to left with the size); Merkle soundness for larger trees is NOT proved
//@ harness c07_merkle_size1 kind=bounded tier=quick fns=MerkleProof::verify,MerkleProof::verify_consume bound=mmr_size_1
//@ harness c07_merkle_size3 kind=bounded tier=quick fns=MerkleProof::verify,MerkleProof::verify_consume,pmmr::peaks,pmmr::family,pmmr::is_left_sibling bound=mmr_size_3
//@ harness c07_merkle_size19 kind=bounded tier=quick fns=MerkleProof::verify,MerkleProof::verify_consume,pmmr::peaks,pmmr::family,pmmr::is_left_sibling bound=mmr_size_19_three_peaks_of_heights_3_1_0_leaves_under_the_two_right_peaks
//@ harness c07_merkle_size4 kind=bounded tier=thorough optional=1 fns=MerkleProof::verify,MerkleProof::verify_consume bound=mmr_size_4
//@ harness c07_merkle_size7 kind=bounded tier=thorough optional=1 fns=MerkleProof::verify,MerkleProof::verify_consume bound=mmr_size_7
use crate::core::hash::{DefaultHashable, HashWriter};
use crate::verif_kani_support::stub_format;

static mut REC: [u8; 80] = [0; 80];
static mut RECLEN: usize = 0;
static mut KEYS: [(u8, u64, u16, u16); 24] = [(0, 0, 0, 0); 24];
static mut TAGS: [u16; 24] = [0; 24];
static mut TLEN: usize = 0;

fn stub_update(_s: &mut blake2::blake2b::Blake2b, data: &[u8]) {
	unsafe {
		let mut i = 0;
		while i < data.len() {
			if RECLEN < 80 {
				REC[RECLEN] = data[i];
				RECLEN += 1;
			}
			i += 1;
		}
	}
}
fn stub_finalize(_w: HashWriter, output: &mut [u8]) {
	unsafe {
		let mut idxb = [0u8; 8];
		idxb.copy_from_slice(&REC[0..8]);
		let idx = u64::from_be_bytes(idxb);
		let key = if RECLEN == 9 {
			(0u8, idx, REC[8] as u16, 0u16)
		} else {
			assert!(RECLEN == 72, "unexpected hash input shape");
			(1u8, idx, u16::from_be_bytes([REC[8], REC[9]]), u16::from_be_bytes([REC[40], REC[41]]))
		};
		RECLEN = 0;
		let mut tag: u16 = 0;
		let mut found = false;
		let mut i = 0;
		while i < TLEN {
			if KEYS[i] == key {
				tag = TAGS[i];
				found = true;
			}
			i += 1;
		}
		if !found {
			let t: u16 = kani::any();
			let mut j = 0;
			while j < TLEN {
				kani::assume(TAGS[j] != t);
				j += 1;
			}
			assert!(TLEN < 24);
			KEYS[TLEN] = key;
			TAGS[TLEN] = t;
			TLEN += 1;
			tag = t;
		}
		let mut out = [0u8; 32];
		out[0] = (tag >> 8) as u8;
		out[1] = tag as u8;
		output.copy_from_slice(&out);
	}
}
fn tag_hash(t: u16) -> Hash {
	let mut out = [0u8; 32];
	out[0] = (t >> 8) as u8;
	out[1] = t as u8;
	Hash::from_vec(&out)
}

#[derive(Clone, Debug, PartialEq)]
struct KElem(u8);
impl Writeable for KElem {
	fn write<W: Writer>(&self, writer: &mut W) -> Result<(), ser::Error> {
		writer.write_u8(self.0)
	}
}
impl DefaultHashable for KElem {}

fn leaf(e: &KElem, pos: u64) -> Hash {
	e.hash_with_index(pos)
}
fn node(l: Hash, r: Hash, pos: u64) -> Hash {
	(l, r).hash_with_index(pos)
}
fn reset() {
	unsafe {
		RECLEN = 0;
		TLEN = 0;
	}
}

/// the tampering checks shared by all sizes: `path` is the honest path of leaf `pos` holding `e`
fn check(size: u64, root: Hash, e: &KElem, pos: u64, path: Vec<Hash>, other_leaf_pos: u64) {
	let honest = MerkleProof { mmr_size: size, path: path.clone() };
	assert!(honest.verify(root, e, pos).is_ok(), "C07: an honest Merkle proof verifies");
	// another element
	let e2 = KElem(kani::any());
	if e2 != *e {
		assert!(honest.verify(root, &e2, pos).is_err(), "C07: substituting another element fails");
	}
	// another leaf position
	if other_leaf_pos != pos {
		assert!(honest.verify(root, e, other_leaf_pos).is_err(), "C07: substituting another leaf position fails");
	}
	// lengthened path (extra hash appended)
	let mut longer = path.clone();
	longer.push(tag_hash(kani::any()));
	let p = MerkleProof { mmr_size: size, path: longer };
	assert!(p.verify(root, e, pos).is_err(), "C07: lengthening the path fails");
	// shortened path
	if !path.is_empty() {
		let mut shorter = path.clone();
		shorter.pop();
		let p = MerkleProof { mmr_size: size, path: shorter };
		assert!(p.verify(root, e, pos).is_err(), "C07: shortening the path fails");
		// altered first path hash
		let mut altered = path.clone();
		let t = tag_hash(kani::any());
		if t != altered[0] {
			altered[0] = t;
			let p = MerkleProof { mmr_size: size, path: altered };
			assert!(p.verify(root, e, pos).is_err(), "C07: altering a path hash fails");
		}
	}
}

macro_rules! merkle_harness {
	($name:ident, $body:block) => {
		#[kani::proof]
		#[kani::unwind(82)]
		#[kani::stub(alloc::fmt::format, stub_format)]
		#[kani::stub(blake2_rfc::blake2b::Blake2b::update, stub_update)]
		#[kani::stub(crate::core::hash::HashWriter::finalize, stub_finalize)]
		fn $name() {
			reset();
			$body
		}
	};
}

merkle_harness!(c07_merkle_size1, {
	let e0 = KElem(kani::any());
	let root = leaf(&e0, 0);
	check(1, root, &e0, 0, vec![], 0);
});

merkle_harness!(c07_merkle_size3, {
	let e0 = KElem(kani::any());
	let e1 = KElem(kani::any());
	let h0 = leaf(&e0, 0);
	let h1 = leaf(&e1, 1);
	let root = node(h0, h1, 2);
	if kani::any() {
		check(3, root, &e0, 0, vec![h1], 1);
	} else {
		check(3, root, &e1, 1, vec![h0], 0);
	}
});

merkle_harness!(c07_merkle_size4, {
	let e0 = KElem(kani::any());
	let e1 = KElem(kani::any());
	let e2 = KElem(kani::any());
	let h0 = leaf(&e0, 0);
	let h1 = leaf(&e1, 1);
	let p2 = node(h0, h1, 2);
	let h3 = leaf(&e2, 3);
	let root = node(p2, h3, 4); // peaks bagged right to left with the size
	let which: u8 = kani::any();
	if which == 0 {
		check(4, root, &e0, 0, vec![h1, h3], 3);
	} else if which == 1 {
		check(4, root, &e1, 1, vec![h0, h3], 0);
	} else {
		check(4, root, &e2, 3, vec![p2], 1);
	}
});

merkle_harness!(c07_merkle_size7, {
	let e0 = KElem(kani::any());
	let e1 = KElem(kani::any());
	let e2 = KElem(kani::any());
	let e3 = KElem(kani::any());
	let h0 = leaf(&e0, 0);
	let h1 = leaf(&e1, 1);
	let p2 = node(h0, h1, 2);
	let h3 = leaf(&e2, 3);
	let h4 = leaf(&e3, 4);
	let p5 = node(h3, h4, 5);
	let root = node(p2, p5, 6);
	if kani::any() {
		check(7, root, &e0, 0, vec![h1, p5], 4);
	} else {
		check(7, root, &e3, 4, vec![h3, p2], 1);
	}
});

// 11 leaves: peaks at 14 (height 3), 17 (height 1), 18 (height 0); root = H(p14, H(p17, h18)) with index 19.
// Only the three leaves under the two right-hand peaks get proofs here; the left peak is opaque.
merkle_harness!(c07_merkle_size19, {
	let e8 = KElem(kani::any());
	let e9 = KElem(kani::any());
	let e10 = KElem(7);
	let p14 = node(tag_hash(kani::any()), tag_hash(kani::any()), 14);
	let h15 = leaf(&e8, 15);
	let h16 = leaf(&e9, 16);
	let p17 = node(h15, h16, 17);
	let h18 = leaf(&e10, 18);
	let rhs = node(p17, h18, 19);
	let root = node(p14, rhs, 19);
	// completeness only (the tampering checks run on the smaller shapes): the honest proof of the left leaf under the
	// middle peak verifies -- two bagging steps above its own peak
	let honest = MerkleProof { mmr_size: 19, path: vec![h16, h18, p14] };
	assert!(honest.verify(root, &e8, 15).is_ok(), "C07: an honest Merkle proof verifies (three peaks with a height gap)");
});
