//@ crate: grin_core
//@ target: core/src/core/pmmr/pmmr.rs
//@ assume: API-level relations between the public position functions, for all u64 positions below 2^62; the height function itself is proved against the explicit tree in C07/pmmr_arith (Verus)
//@ harness c07_range_consistent kind=complete tier=quick fns=pmmr::bintree_range,pmmr::bintree_leftmost,pmmr::bintree_rightmost,pmmr::bintree_postorder_height,pmmr::is_leaf bound=-
//@ harness c07_family_consistent kind=complete tier=quick fns=pmmr::family,pmmr::is_left_sibling,pmmr::bintree_postorder_height bound=-

/// Subtree ranges agree with the node height: for every pos0 < 2^62 with height h,
/// range == [pos0 + 2 - 2^(h+1), pos0], leftmost/rightmost are its first leaf / pos0 - h.
#[kani::proof]
#[kani::unwind(66)]
fn c07_range_consistent() {
	let p: u64 = kani::any();
	kani::assume(p < (1u64 << 62));
	let h = bintree_postorder_height(p);
	assert!(h <= 62);
	let r = bintree_range(p);
	let size = (1u64 << (h + 1)) - 1; // nodes in a perfect subtree of height h
	assert!(r.end == p + 1, "C07: subtree range ends at its root");
	assert!(r.end - r.start == size, "C07: subtree range has 2^(h+1)-1 positions");
	assert!(bintree_leftmost(p) == r.start, "C07: leftmost is the first position of the range");
	assert!(bintree_rightmost(p) == p - h, "C07: rightmost leaf is h positions before the root");
	assert!(is_leaf(p) == (h == 0));
}

/// Parent and sibling agree with the explicit tree: the parent has height h+1 and its two
/// children (parent - 2^(h+1), parent - 1) are exactly {pos0, sibling}.
#[kani::proof]
#[kani::unwind(66)]
fn c07_family_consistent() {
	let p: u64 = kani::any();
	kani::assume(p < (1u64 << 61));
	let h = bintree_postorder_height(p);
	let (parent, sibling) = family(p);
	let left = parent - (1u64 << (h + 1));
	let right = parent - 1;
	if is_left_sibling(p) {
		assert!(p == left && sibling == right, "C07: left child / sibling positions");
	} else {
		assert!(p == right && sibling == left, "C07: right child / sibling positions");
	}
	assert!(bintree_postorder_height(parent) == h + 1, "C07: parent is one level up");
	assert!(bintree_postorder_height(sibling) == h, "C07: sibling is at the same height");
}
