//@ crate: grin_core
//@ target: core/src/core/pmmr/pmmr.rs
//@ assume: API-level relations between the public position functions (robust to refactoring of their bodies); positions below 2^40 (CBMC does not finish the 64-level descent on full-width positions); the unbounded statement is the Verus unit C07/pmmr_arith
//@ harness c07_range_vs_height kind=bounded tier=quick fns=pmmr::bintree_range,pmmr::bintree_postorder_height bound=pos0_<_2^40
//@ harness c07_leftmost_vs_height kind=bounded tier=quick fns=pmmr::bintree_leftmost,pmmr::bintree_postorder_height bound=pos0_<_2^40
//@ harness c07_rightmost_vs_height kind=bounded tier=quick fns=pmmr::bintree_rightmost,pmmr::bintree_postorder_height bound=pos0_<_2^40
//@ harness c07_family_vs_height kind=bounded tier=thorough optional=1 fns=pmmr::family,pmmr::is_left_sibling,pmmr::bintree_postorder_height bound=pos0_<_2^40

#[kani::proof]
#[kani::unwind(66)]
#[kani::solver(kissat)]
fn c07_range_vs_height() {
	let p: u64 = kani::any();
	kani::assume(p < (1u64 << 40));
	let h = bintree_postorder_height(p);
	let r = bintree_range(p);
	assert!(h <= 40);
	assert!(r.end == p + 1, "C07: subtree range ends at its root");
	assert!(r.end - r.start == (1u64 << (h + 1)) - 1, "C07: subtree range has 2^(h+1)-1 positions");
}

#[kani::proof]
#[kani::unwind(66)]
#[kani::solver(kissat)]
fn c07_leftmost_vs_height() {
	let p: u64 = kani::any();
	kani::assume(p < (1u64 << 40));
	let h = bintree_postorder_height(p);
	assert!(h <= 40);
	assert!(bintree_leftmost(p) + (1u64 << (h + 1)) == p + 2, "C07: leftmost leaf of the subtree");
}

#[kani::proof]
#[kani::unwind(66)]
#[kani::solver(kissat)]
fn c07_rightmost_vs_height() {
	let p: u64 = kani::any();
	kani::assume(p < (1u64 << 40));
	let h = bintree_postorder_height(p);
	assert!(bintree_rightmost(p) + h == p, "C07: rightmost leaf is h positions before the root");
}

#[kani::proof]
#[kani::unwind(66)]
#[kani::solver(kissat)]
fn c07_family_vs_height() {
	let p: u64 = kani::any();
	kani::assume(p < (1u64 << 40));
	let h = bintree_postorder_height(p);
	assert!(h <= 40);
	let (parent, sibling) = family(p);
	let left = parent - (1u64 << (h + 1));
	let right = parent - 1;
	if is_left_sibling(p) {
		assert!(p == left && sibling == right, "C07: left child / sibling positions");
	} else {
		assert!(p == right && sibling == left, "C07: right child / sibling positions");
	}
}
