//@ assume: vstd axioms for u64::leading_zeros (axiom_u64_leading_zeros), pow2 and shift/div lemmas are trusted (vstd library)
//@ assume: assumed contract: u64::count_ones(x) == pc(x) where pc(n) = n%2 + pc(n/2) (population count; std intrinsic, not verified)
//@ assume: machine integers are u64 with Verus overflow obligations generated; spec integers are mathematical (nat) and every contract states the u64 range it covers
//@ assumed_items: 1
//@ fns: pmmr::family_branch, pmmr::n_leaves, pmmr::insertion_to_pmmr_index, pmmr::pmmr_leaf_to_insertion_index, pmmr::round_up_to_leaf_pos, pmmr::family, pmmr::is_left_sibling, pmmr::peak_map_height, pmmr::bintree_postorder_height, pmmr::is_leaf, pmmr::bintree_rightmost, pmmr::bintree_leftmost, pmmr::bintree_range
//@ import: use vstd::arithmetic::power2::*;
//@ import: use vstd::bits::*;
//@ import: use vstd::std_specs::bits::*;
//@ import: use std::ops::Range;
// size of perfect binary tree of height h  (2^(h+1) - 1)
pub open spec fn tsize(h: nat) -> nat { (pow2(h + 1) - 1) as nat }
// peak size processed at loop stage j  (2^j - 1) == tsize(j-1) for j>0
pub open spec fn psize(j: nat) -> nat { (pow2(j) - 1) as nat }

// height of node at postorder position pos inside a perfect tree of height h (pos < tsize(h))
pub open spec fn ht(pos: nat, h: nat) -> nat
    decreases h
{
    if h == 0 { 0 }
    else if pos == tsize(h) - 1 { h }
    else if pos < tsize((h - 1) as nat) { ht(pos, (h - 1) as nat) }
    else { ht((pos - tsize((h - 1) as nat)) as nat, (h - 1) as nat) }
}

// value left in `size` after the loop has processed peak sizes psize(j), psize(j-1), ..., psize(1)
pub open spec fn loop_h(size: nat, j: nat) -> nat
    decreases j
{
    if j == 0 { size }
    else if size >= psize(j) { loop_h((size - psize(j)) as nat, (j - 1) as nat) }
    else { loop_h(size, (j - 1) as nat) }
}

proof fn lemma_psize(j: nat)
    ensures psize(j + 1) == 2 * psize(j) + 1, psize(0) == 0, pow2(j) >= 1,
            psize(j+1) == tsize(j),
{
    lemma_pow2_pos(j);
    lemma_pow2_unfold(j + 1);
    lemma2_to64();
}

// LEMMA B: root chain
proof fn lemma_b(j: nat, e: nat)
    ensures loop_h((tsize(j) - 1 + e) as nat, j) == j + e
    decreases j
{
    lemma_psize(j);
    if j == 0 {
        lemma2_to64();
        assert(tsize(0) == 1);
    } else {
        lemma_psize((j - 1) as nat);
        // tsize(j) - 1 + e = 2*psize(j) + e  >= psize(j)
        let s = (tsize(j) - 1 + e) as nat;
        assert(s == 2 * psize(j) + e);
        assert(s - psize(j) == psize(j) + e);
        assert(psize(j) == tsize((j - 1) as nat));
        assert(psize(j) + e == tsize((j-1) as nat) - 1 + (e + 1));
        lemma_b((j - 1) as nat, e + 1);
    }
}

// LEMMA A
proof fn lemma_a(size: nat, j: nat)
    requires size < tsize(j)
    ensures loop_h(size, j) == ht(size, j)
    decreases j
{
    lemma_psize(j);
    if j == 0 {
        lemma2_to64();
    } else {
        lemma_psize((j - 1) as nat);
        if size == tsize(j) - 1 {
            lemma_b(j, 0);
        } else if size < tsize((j - 1) as nat) {
            lemma_a(size, (j - 1) as nat);
        } else {
            lemma_a((size - tsize((j - 1) as nat)) as nat, (j - 1) as nat);
        }
    }
}



//@ extract core/src/core/pmmr/pmmr.rs :: const ALL_ONES
//@ end

// bit-vector facts
proof fn lemma_bv_mask_shr(m: u64, j: u64)
    requires 0 < j <= 64, m as nat == psize(j as nat)
    ensures (m >> 1u64) as nat == psize((j - 1) as nat), (m >> 1u64) < m
{
    lemma_psize((j - 1) as nat);
    lemma_u64_shr_is_div(m, 1);
    lemma2_to64();
    assert(pow2(1) == 2);
}

proof fn lemma_init(size: u64) -> (k: nat)
    requires size > 0
    ensures 1 <= k <= 64, (ALL_ONES >> (u64_leading_zeros(size) as u64)) as nat == psize(k), (size as nat) <= psize(k),
            u64_leading_zeros(size) < 64,
{
    axiom_u64_leading_zeros(size);
    let lz = u64_leading_zeros(size);
    let k: nat = (64 - lz) as nat;
    lemma_u64_shr_is_div(ALL_ONES, lz as u64);
    lemma2_to64();
    lemma_pow2_adds(lz as nat, k);
    // ALL_ONES == pow2(64) - 1 == pow2(lz)*pow2(k) - 1
    assert(ALL_ONES as nat == pow2(64) - 1);
    lemma_pow2_pos(lz as nat);
    lemma_pow2_pos(k);
    assert((pow2(lz as nat) * pow2(k) - 1) / (pow2(lz as nat) as int) == pow2(k) - 1) by(nonlinear_arith)
        requires pow2(lz as nat) >= 1, pow2(k) >= 1;
    // size < pow2(k)
    if k < 64 {
        lemma_u64_shr_is_div(size, k as u64);
        assert(size >> (k as u64) == 0);
        assert((size as nat) / pow2(k) == 0);
        assert((size as nat) < pow2(k)) by(nonlinear_arith)
            requires (size as nat) / pow2(k) == 0, pow2(k) >= 1;
    } else {
    }
    k
}

proof fn lemma_loop_zero(j: nat) ensures loop_h(0, j) == 0 decreases j
{ if j > 0 { lemma_psize((j-1) as nat); lemma_loop_zero((j-1) as nat); } }

// height does not depend on the enclosing tree
proof fn lemma_ht_mono(pos: nat, h: nat, big: nat)
    requires pos < tsize(h), h <= big
    ensures ht(pos, big) == ht(pos, h)
    decreases big
{
    if big > h {
        lemma_psize(big); lemma_psize((big-1) as nat); lemma_psize(h);
        lemma_tsize_mono(h, (big - 1) as nat);
        lemma_ht_mono(pos, h, (big - 1) as nat);
    }
}
proof fn lemma_tsize_mono(a: nat, b: nat) requires a <= b ensures tsize(a) <= tsize(b)
{ lemma_pow2_pos(a+1); lemma_pow2_pos(b+1); if a < b { lemma_pow2_strictly_increases(a+1, b+1); } }


proof fn lemma_ht_bound(pos: nat, h: nat)
    requires pos < tsize(h)
    ensures ht(pos, h) <= h, (pos < tsize(h) - 1 && h > 0) ==> ht(pos, h) < h
    decreases h
{
    if h > 0 {
        lemma_psize(h); lemma_psize((h-1) as nat);
        if pos == tsize(h) - 1 {
        } else if pos < tsize((h - 1) as nat) {
            lemma_ht_bound(pos, (h - 1) as nat);
        } else {
            lemma_ht_bound((pos - tsize((h - 1) as nat)) as nat, (h - 1) as nat);
        }
    }
}

// the position range of the subtree rooted at a node of height h: [pos + 2 - 2^(h+1), pos]
proof fn lemma_subtree_fits(pos: nat, h: nat)
    requires pos < tsize(h)
    ensures pos + 2 >= pow2(ht(pos, h) + 1), pos >= ht(pos, h)
    decreases h
{
    lemma_psize(h);
    if h == 0 { lemma2_to64(); }
    else {
        lemma_psize((h-1) as nat);
        if pos == tsize(h) - 1 {
            lemma_pow2_pos(h + 1);
            lemma_pow2_ge_succ(h);
        } else if pos < tsize((h - 1) as nat) {
            lemma_subtree_fits(pos, (h - 1) as nat);
        } else {
            lemma_subtree_fits((pos - tsize((h - 1) as nat)) as nat, (h - 1) as nat);
        }
    }
}

proof fn lemma_pow2_ge_succ(h: nat)
    ensures pow2(h + 1) >= h + 2
    decreases h
{
    lemma2_to64();
    if h > 0 { lemma_pow2_ge_succ((h - 1) as nat); lemma_pow2_unfold(h + 1); lemma_pow2_unfold(h); }
}

proof fn lemma_ht_small(pos: nat)
    requires pos + 2 < pow2(64)
    ensures ht(pos, 64) <= 62, pow2(ht(pos, 64) + 1) <= pow2(63), pow2(ht(pos, 64)) >= 1, 2 * pow2(ht(pos, 64)) == pow2(ht(pos, 64) + 1)
{
    lemma_psize(64); lemma_psize(63); lemma2_to64();
    lemma_pow2_unfold(64);
    assert(pos < tsize(63) - 1);
    lemma_ht_mono(pos, 63, 64);
    lemma_ht_bound(pos, 63);
    let h = ht(pos, 64);
    if h + 1 < 63 { lemma_pow2_strictly_increases(h + 1, 63); }
    lemma_pow2_unfold(h + 1);
    lemma_pow2_pos(h);
}

proof fn lemma_shl2(h: u64)
    requires h <= 62
    ensures (2u64 << h) as nat == pow2((h + 1) as nat), (1u64 << h) as nat == pow2(h as nat)
{
    lemma2_to64();
    lemma_pow2_strictly_increases((h + 1) as nat, 64);
    lemma_pow2_unfold((h + 1) as nat);
    lemma_pow2_pos(h as nat);
    lemma_u64_shl_is_mul(2, h);
    lemma_u64_shl_is_mul(1, h);
}

// ---------------------------------------------------------------------------------------------
// peak map: bit (j-1) is set iff the stage-j peak was subtracted
pub open spec fn loop_map(size: nat, j: nat) -> nat
    decreases j
{
    if j == 0 { 0 }
    else if size >= psize(j) { pow2((j - 1) as nat) + loop_map((size - psize(j)) as nat, (j - 1) as nat) }
    else { loop_map(size, (j - 1) as nat) }
}

// number of leaves at positions strictly before pos, in a perfect tree of height h (pos < tsize(h))
pub open spec fn lb(pos: nat, h: nat) -> nat
    decreases h
{
    if h == 0 { 0 }
    else if pos == tsize(h) - 1 { pow2(h) }
    else if pos < tsize((h - 1) as nat) { lb(pos, (h - 1) as nat) }
    else { pow2((h - 1) as nat) + lb((pos - tsize((h - 1) as nat)) as nat, (h - 1) as nat) }
}

proof fn lemma_bmap(j: nat, e: nat)
    ensures loop_map((tsize(j) - 1 + e) as nat, j) == pow2(j) - 1
    decreases j
{
    lemma_psize(j);
    if j == 0 {
        lemma2_to64();
    } else {
        lemma_psize((j - 1) as nat);
        let s = (tsize(j) - 1 + e) as nat;
        assert(s == 2 * psize(j) + e);
        assert(s - psize(j) == psize(j) + e);
        assert(psize(j) + e == tsize((j-1) as nat) - 1 + (e + 1));
        lemma_bmap((j - 1) as nat, e + 1);
        lemma_pow2_unfold(j);
    }
}

proof fn lemma_m1(pos: nat, j: nat)
    requires pos < tsize(j)
    ensures loop_map(pos, j) + (if ht(pos, j) != 0 { 1nat } else { 0nat }) == lb(pos, j),
            loop_map(pos, j) < pow2(j),
    decreases j
{
    lemma_psize(j);
    if j == 0 {
        lemma2_to64();
    } else {
        lemma_psize((j - 1) as nat);
        lemma_pow2_unfold(j);
        if pos == tsize(j) - 1 {
            lemma_bmap(j, 0);
        } else if pos < tsize((j - 1) as nat) {
            lemma_m1(pos, (j - 1) as nat);
        } else {
            lemma_m1((pos - tsize((j - 1) as nat)) as nat, (j - 1) as nat);
        }
    }
}

proof fn lemma_lb_mono(pos: nat, h: nat, big: nat)
    requires pos < tsize(h), h <= big
    ensures lb(pos, big) == lb(pos, h)
    decreases big
{
    if big > h {
        lemma_psize(big); lemma_psize((big-1) as nat); lemma_psize(h);
        lemma_tsize_mono(h, (big - 1) as nat);
        lemma_lb_mono(pos, h, (big - 1) as nat);
    }
}

proof fn lemma_loop_map_zero(j: nat) ensures loop_map(0, j) == 0 decreases j
{ if j > 0 { lemma_psize((j-1) as nat); lemma_psize(j); lemma_pow2_pos(j); lemma_pow2_unfold(j); lemma_loop_map_zero((j-1) as nat);
    if j == 1 { lemma2_to64(); } else { lemma_pow2_strictly_increases(1, j); lemma2_to64(); } } }

proof fn lemma_map_ext(size: nat, k: nat, big: nat)
    requires size <= psize(k), k <= big
    ensures loop_map(size, big) == loop_map(size, k)
    decreases big
{
    if big > k {
        lemma_psize((big - 1) as nat); lemma_psize(k);
        lemma_tsize_mono(k, (big - 1) as nat);
        assert(psize(k) < psize(big)) by { lemma_pow2_strictly_increases(k, big); }
        lemma_map_ext(size, k, (big - 1) as nat);
    }
}

proof fn lemma_map_bound(pos: u64)
    ensures loop_map(pos as nat, 64) <= 0x8000_0000_0000_0000u64
{
    lemma_psize(64); lemma_psize(63); lemma2_to64(); lemma_pow2_unfold(64);
    if (pos as nat) < psize(64) {
        lemma_m1(pos as nat, 63);
    } else {
        lemma_loop_map_zero(63);
    }
}

proof fn lemma_shl1_or(pm: u64, b: bool)
    requires pm < 0x8000_0000_0000_0000u64
    ensures (pm << 1u64) == 2 * pm, ((pm << 1u64) | 1u64) == 2 * pm + 1
{
    assert((pm << 1u64) == mul(2, pm) && ((pm << 1u64) | 1u64) == add(mul(2, pm), 1)) by(bit_vector)
        requires pm < 0x8000_0000_0000_0000u64;
}
//@ extract core/src/core/pmmr/pmmr.rs :: fn peak_map_height
//@   ensures:
//@+    r.1 as nat == ht(size as nat, 64),
//@+    r.1 <= 63,
//@+    r.0 as nat + (if r.1 != 0 { 1nat } else { 0nat }) == lb(size as nat, 64),
//@+    r.0 as nat == loop_map(size as nat, 64),
//@+    r.0 <= 0x8000_0000_0000_0000u64,
//@   before `return (0, 0);`:
//@+    proof { lemma_pow2_pos(65); lemma_pow2_strictly_increases(0, 65); lemma2_to64(); lemma_a(0, 64); lemma_psize(64); lemma_loop_zero(64);
//@+            lemma_m1(0, 64); lemma_loop_map_zero(64); }
//@   before `let mut peak_size = ALL_ONES`:
//@+    let ghost size0 = size;
//@+    let ghost k = lemma_init(size);
//@+    let ghost mut j: nat = k;
//@+    proof { lemma2_to64(); }
//@   loop 1:
//@+    invariant
//@+        j <= k <= 64,
//@+        peak_size as nat == psize(j),
//@+        loop_h(size as nat, j) == loop_h(size0 as nat, k),
//@+        peak_map as nat * pow2(j) + loop_map(size as nat, j) == loop_map(size0 as nat, k),
//@+        (peak_map as nat) < pow2((k - j) as nat),
//@+    decreases peak_size
//@   before `peak_map <<= 1;`:
//@+    proof {
//@+        lemma_psize(j);
//@+        if j == 0 { assert(false); }
//@+        lemma_bv_mask_shr(peak_size, j as u64);
//@+        lemma2_to64();
//@+        lemma_pow2_unfold(64);
//@+        if k - j < 63 { lemma_pow2_strictly_increases((k - j) as nat, 63); }
//@+        lemma_shl1_or(peak_map, true);
//@+        lemma_pow2_unfold(j);
//@+        lemma_pow2_unfold((k - j + 1) as nat);
//@+    }
//@+    let ghost pm0 = peak_map;
//@+    let ghost sz0 = size;
//@   after `peak_size >>= 1;`:
//@+    proof {
//@+        assert(peak_map as nat * pow2((j - 1) as nat) + loop_map(size as nat, (j - 1) as nat) == pm0 as nat * pow2(j) + loop_map(sz0 as nat, j)) by(nonlinear_arith)
//@+            requires
//@+                pow2(j) == 2 * pow2((j - 1) as nat),
//@+                sz0 >= psize(j) ==> (peak_map as nat == 2 * pm0 as nat + 1 && loop_map(sz0 as nat, j) == pow2((j - 1) as nat) + loop_map(size as nat, (j - 1) as nat)),
//@+                sz0 < psize(j) ==> (peak_map as nat == 2 * pm0 as nat && loop_map(sz0 as nat, j) == loop_map(size as nat, (j - 1) as nat));
//@+        j = (j - 1) as nat;
//@+    }
//@   before `(peak_map, size)`:
//@+    proof {
//@+        lemma_psize(0);
//@+        assert(j == 0) by { if j > 0 { lemma_psize((j-1) as nat); } }
//@+        lemma_psize(k);
//@+        lemma_a(size0 as nat, k);
//@+        lemma_ht_mono(size0 as nat, k, 64);
//@+        lemma_psize(64); lemma2_to64();
//@+        lemma_ht_bound(size0 as nat, 64);
//@+        lemma_m1(size0 as nat, k);
//@+        lemma_lb_mono(size0 as nat, k, 64);
//@+        lemma_map_bound(size0);
//@+        lemma_map_ext(size0 as nat, k, 64);
//@+        assert(pow2(0) == 1);
//@+        assert(loop_map(size as nat, 0) == 0);
//@+        assert(peak_map as nat * 1 == peak_map as nat);
//@+        assert(peak_map as nat == loop_map(size0 as nat, k));
//@+        assert(size as nat == ht(size0 as nat, k));
//@+    }
//@ end
//@ canary peak_map_height: r.1 == 0

// ---------------------------------------------------------------------------------------------
// leaf index <-> position
pub open spec fn pc(n: nat) -> nat decreases n { if n == 0 { 0 } else { (n % 2) + pc(n / 2) } }

pub assume_specification [u64::count_ones](x: u64) -> (r: u32)
    ensures r as nat == pc(x as nat);

// position of the n-th leaf (0-based) in a perfect tree of height h (n < 2^h)
pub open spec fn leaf_pos(n: nat, h: nat) -> nat
    decreases h
{
    if h == 0 { 0 }
    else if n < pow2((h - 1) as nat) { leaf_pos(n, (h - 1) as nat) }
    else { tsize((h - 1) as nat) + leaf_pos((n - pow2((h - 1) as nat)) as nat, (h - 1) as nat) }
}

proof fn lemma_pc_top(a: nat, k: nat)
    requires a < pow2(k)
    ensures pc(a + pow2(k)) == pc(a) + 1, pc(a) <= a
    decreases k
{
    lemma2_to64();
    if k == 0 {
        assert(a == 0);
        assert(pc(1) == 1 + pc(0));
    } else {
        lemma_pow2_unfold(k);
        lemma_pow2_pos((k - 1) as nat);
        let b = a + pow2(k);
        assert(b % 2 == a % 2 && b / 2 == a / 2 + pow2((k - 1) as nat)) by(nonlinear_arith)
            requires b == a + 2 * pow2((k - 1) as nat);
        assert(a / 2 < pow2((k - 1) as nat)) by(nonlinear_arith) requires a < 2 * pow2((k - 1) as nat);
        lemma_pc_top(a / 2, (k - 1) as nat);
        assert(pc(b) == b % 2 + pc(b / 2));
        if a > 0 { assert(pc(a) == a % 2 + pc(a / 2)); }
        assert(a % 2 + a / 2 <= a) by(nonlinear_arith);
    }
}

proof fn lemma_leafpos(n: nat, h: nat)
    requires n < pow2(h)
    ensures 2 * n - pc(n) == leaf_pos(n, h), pc(n) <= n
    decreases h
{
    lemma2_to64();
    if h == 0 {
        assert(n == 0);
    } else {
        lemma_pow2_unfold(h);
        lemma_psize(h); lemma_psize((h - 1) as nat);
        if n < pow2((h - 1) as nat) {
            lemma_leafpos(n, (h - 1) as nat);
        } else {
            let m = (n - pow2((h - 1) as nat)) as nat;
            lemma_leafpos(m, (h - 1) as nat);
            lemma_pc_top(m, (h - 1) as nat);
        }
    }
}

proof fn lemma_leafpos_inv(n: nat, h: nat)
    requires n < pow2(h)
    ensures leaf_pos(n, h) < tsize(h), ht(leaf_pos(n, h), h) == 0, lb(leaf_pos(n, h), h) == n,
            h > 0 ==> leaf_pos(n, h) < tsize(h) - 1
    decreases h
{
    lemma2_to64();
    lemma_psize(h);
    if h > 0 {
        lemma_pow2_unfold(h);
        lemma_psize((h - 1) as nat);
        lemma_pow2_pos(h);
        if n < pow2((h - 1) as nat) {
            lemma_leafpos_inv(n, (h - 1) as nat);
        } else {
            lemma_leafpos_inv((n - pow2((h - 1) as nat)) as nat, (h - 1) as nat);
        }
    }
}

proof fn lemma_lb_le(pos: nat, h: nat)
    requires pos < tsize(h)
    ensures lb(pos, h) <= pow2(h), lb(pos, h) <= pos + 1
    decreases h
{
    lemma2_to64(); lemma_psize(h);
    if h > 0 {
        lemma_pow2_unfold(h); lemma_psize((h - 1) as nat); lemma_pow2_pos((h - 1) as nat);
        if pos == tsize(h) - 1 {
        } else if pos < tsize((h - 1) as nat) {
            lemma_lb_le(pos, (h - 1) as nat);
        } else {
            lemma_lb_le((pos - tsize((h - 1) as nat)) as nat, (h - 1) as nat);
        }
    }
}

proof fn lemma_leafpos_zero(h: nat) ensures leaf_pos(0, h) == 0 decreases h
{ if h > 0 { lemma_pow2_pos((h - 1) as nat); lemma_leafpos_zero((h - 1) as nat); } }

// the first leaf at or after pos
proof fn lemma_round_up(pos: nat, h: nat)
    requires pos < tsize(h), lb(pos, h) < pow2(h)
    ensures leaf_pos(lb(pos, h), h) >= pos,
            ht(pos, h) == 0 ==> leaf_pos(lb(pos, h), h) == pos
    decreases h
{
    lemma2_to64(); lemma_psize(h);
    if h > 0 {
        lemma_pow2_unfold(h); lemma_psize((h - 1) as nat); lemma_pow2_pos((h - 1) as nat);
        if pos == tsize(h) - 1 {
        } else if pos < tsize((h - 1) as nat) {
            lemma_lb_le(pos, (h - 1) as nat);
            if lb(pos, (h - 1) as nat) == pow2((h - 1) as nat) {
                lemma_leafpos_zero((h - 1) as nat);
                // a leaf has lb < 2^(h-1) inside its own subtree unless it is ... show ht != 0
                lemma_lb_full_not_leaf(pos, (h - 1) as nat);
            } else {
                lemma_round_up(pos, (h - 1) as nat);
            }
        } else {
            lemma_round_up((pos - tsize((h - 1) as nat)) as nat, (h - 1) as nat);
        }
    }
}

// if all 2^h leaves of the tree are before pos, pos is not a leaf
proof fn lemma_lb_full_not_leaf(pos: nat, h: nat)
    requires pos < tsize(h), lb(pos, h) == pow2(h)
    ensures ht(pos, h) != 0 || h == 0 && false
    decreases h
{
    lemma2_to64(); lemma_psize(h);
    if h == 0 {
        assert(lb(pos, 0) == 0);
        assert(false);
    } else {
        lemma_pow2_unfold(h); lemma_psize((h - 1) as nat); lemma_pow2_pos((h - 1) as nat);
        if pos == tsize(h) - 1 {
        } else if pos < tsize((h - 1) as nat) {
            lemma_lb_le(pos, (h - 1) as nat);
            assert(false);
        } else {
            lemma_lb_le((pos - tsize((h - 1) as nat)) as nat, (h - 1) as nat);
            lemma_lb_full_not_leaf((pos - tsize((h - 1) as nat)) as nat, (h - 1) as nat);
        }
    }
}

//@ extract core/src/core/pmmr/pmmr.rs :: fn n_leaves
//@   ensures:
//@+    r as nat == lb(size as nat, 64),
//@ end

//@ extract core/src/core/pmmr/pmmr.rs :: fn insertion_to_pmmr_index
//@   requires:
//@+    nleaf0 < 0x8000_0000_0000_0000u64,
//@   ensures:
//@+    r as nat == leaf_pos(nleaf0 as nat, 64),
//@+    ht(r as nat, 64) == 0, lb(r as nat, 64) == nleaf0 as nat,
//@   at_start:
//@+    proof { lemma2_to64(); lemma_pow2_unfold(64); lemma_leafpos(nleaf0 as nat, 64); lemma_leafpos_inv(nleaf0 as nat, 64); }
//@ end

//@ extract core/src/core/pmmr/pmmr.rs :: fn pmmr_leaf_to_insertion_index
//@   ensures:
//@+    ht(pos0 as nat, 64) == 0 ==> r == Some(lb(pos0 as nat, 64) as u64) && lb(pos0 as nat, 64) <= u64::MAX,
//@+    ht(pos0 as nat, 64) != 0 ==> r.is_none(),
//@ end

//@ extract core/src/core/pmmr/pmmr.rs :: fn round_up_to_leaf_pos
//@   requires:
//@+    pos0 < 0x4000_0000_0000_0000u64,
//@   ensures:
//@+    r >= pos0, ht(r as nat, 64) == 0, lb(r as nat, 64) == lb(pos0 as nat, 64),
//@+    ht(pos0 as nat, 64) == 0 ==> r == pos0,
//@   at_start:
//@+    proof { lemma2_to64(); lemma_psize(64); lemma_pow2_unfold(64); lemma_pow2_unfold(63); lemma_lb_le(pos0 as nat, 64); lemma_round_up(pos0 as nat, 64); }
//@ end
//@ canary n_leaves: r == 0

// ---------------------------------------------------------------------------------------------
// parent / sibling in the explicit tree (descending from the root of a perfect tree of height h)
pub open spec fn is_right(pos: nat, h: nat) -> bool
    decreases h
{
    if h == 0 { false }
    else if pos == tsize(h) - 1 { false }
    else if pos < tsize((h - 1) as nat) { is_right(pos, (h - 1) as nat) }
    else if pos - tsize((h - 1) as nat) == tsize((h - 1) as nat) - 1 { true }
    else { is_right((pos - tsize((h - 1) as nat)) as nat, (h - 1) as nat) }
}

// parent of a non-root node: the root if pos is one of its two children, else recurse
pub open spec fn parent(pos: nat, h: nat) -> nat
    decreases h
{
    if h == 0 { 0 }
    else if pos == tsize((h - 1) as nat) - 1 || pos == tsize(h) - 2 { (tsize(h) - 1) as nat }
    else if pos < tsize((h - 1) as nat) { parent(pos, (h - 1) as nat) }
    else { tsize((h - 1) as nat) + parent((pos - tsize((h - 1) as nat)) as nat, (h - 1) as nat) }
}

pub open spec fn sibling(pos: nat, h: nat) -> nat
    decreases h
{
    if h == 0 { 0 }
    else if pos == tsize((h - 1) as nat) - 1 { (tsize(h) - 2) as nat }
    else if pos == tsize(h) - 2 { (tsize((h - 1) as nat) - 1) as nat }
    else if pos < tsize((h - 1) as nat) { sibling(pos, (h - 1) as nat) }
    else { tsize((h - 1) as nat) + sibling((pos - tsize((h - 1) as nat)) as nat, (h - 1) as nat) }
}

pub open spec fn bit(m: nat, t: nat) -> bool { (m / pow2(t)) % 2 == 1 }

proof fn lemma_bit_add_high(m: nat, t: nat, k: nat)
    requires t < k
    ensures bit(pow2(k) + m, t) == bit(m, t)
{
    lemma_pow2_adds(t, (k - t) as nat);
    lemma_pow2_pos(t);
    lemma_pow2_unfold((k - t) as nat);
    let a = pow2(t); let c = pow2((k - t - 1) as nat);
    assert((a * (2 * c) + m) / a == 2 * c + m / a) by(nonlinear_arith) requires a > 0;
    let x = m / a;
    assert((2 * c + x) % 2 == x % 2);
}

proof fn lemma_bit_allones(k: nat, t: nat)
    requires k >= 1
    ensures bit((pow2(k) - 1) as nat, t) == (t < k)
{
    lemma_pow2_pos(t); lemma_pow2_pos(k);
    let a = pow2(t);
    if t < k {
        lemma_pow2_adds(t, (k - t) as nat);
        lemma_pow2_unfold((k - t) as nat);
        let c = pow2((k - t - 1) as nat);
        lemma_pow2_pos((k - t - 1) as nat);
        // 2^k - 1 = a*(2c) - 1 = a*(2c-1) + (a-1)
        assert(((a * (2 * c) - 1) as nat) / a == 2 * c - 1) by(nonlinear_arith) requires a > 0, c > 0;
        assert((2 * c - 1) % 2 == 1) by(nonlinear_arith) requires c > 0;
    } else {
        if t > k { lemma_pow2_strictly_increases(k, t); }
        assert(((pow2(k) - 1) as nat) / a == 0) by(nonlinear_arith) requires pow2(k) <= a, pow2(k) >= 1;
    }
}

// bit ht(pos) of the peak map is set iff pos is a right child
proof fn lemma_right_bit(pos: nat, j: nat)
    requires pos < tsize(j)
    ensures bit(loop_map(pos, j), ht(pos, j)) == is_right(pos, j)
    decreases j
{
    lemma_psize(j); lemma2_to64();
    if j == 0 {
        assert(loop_map(pos, 0) == 0);
        assert(0nat / 1 == 0);
    } else {
        lemma_psize((j - 1) as nat);
        lemma_pow2_unfold(j);
        if pos == tsize(j) - 1 {
            lemma_bmap(j, 0);
            lemma_bit_allones(j, j);
        } else if pos < tsize((j - 1) as nat) {
            lemma_right_bit(pos, (j - 1) as nat);
        } else {
            let p = (pos - tsize((j - 1) as nat)) as nat;
            lemma_ht_bound(p, (j - 1) as nat);
            if p == tsize((j - 1) as nat) - 1 {
                lemma_bmap((j - 1) as nat, 0);
                assert(loop_map(pos, j) == pow2(j) - 1);
                lemma_bit_allones(j, (j - 1) as nat);
            } else {
                lemma_right_bit(p, (j - 1) as nat);
                if j - 1 > 0 { } 
                lemma_bit_add_high(loop_map(p, (j - 1) as nat), ht(p, (j - 1) as nat), (j - 1) as nat);
            }
        }
    }
}

// explicit-tree parent/sibling in closed form
proof fn lemma_family(pos: nat, h: nat)
    requires h > 0, pos < tsize(h) - 1
    ensures
        is_right(pos, h) ==> parent(pos, h) == pos + 1 && sibling(pos, h) + pow2(ht(pos, h) + 1) == pos + 1,
        !is_right(pos, h) ==> parent(pos, h) == pos + pow2(ht(pos, h) + 1) && sibling(pos, h) == parent(pos, h) - 1,
        parent(pos, h) < tsize(h), sibling(pos, h) < tsize(h) - 1,
        ht(parent(pos, h), h) == ht(pos, h) + 1, ht(sibling(pos, h), h) == ht(pos, h),
    decreases h
{
    lemma_psize(h); lemma_psize((h - 1) as nat); lemma2_to64();
    lemma_pow2_unfold(h); lemma_pow2_pos((h - 1) as nat);
    let ts = tsize((h - 1) as nat);
    if pos == ts - 1 {
        // left child of the root
        lemma_ht_root(pos, (h - 1) as nat);
        lemma_ht_root((tsize(h) - 2 - ts) as nat, (h - 1) as nat);
        lemma_isright_root(pos, (h - 1) as nat);
    } else if pos == tsize(h) - 2 {
        lemma_ht_root((pos - ts) as nat, (h - 1) as nat);
        lemma_ht_root((ts - 1) as nat, (h - 1) as nat);
    } else if pos < ts {
        assert(h - 1 > 0) by { if h == 1 { assert(ts == 1); } }
        lemma_family(pos, (h - 1) as nat);
    } else {
        let p = (pos - ts) as nat;
        assert(h - 1 > 0) by { if h == 1 { assert(ts == 1); } }
        lemma_family(p, (h - 1) as nat);
    }
}

proof fn lemma_ht_root(pos: nat, h: nat)
    requires pos == tsize(h) - 1
    ensures ht(pos, h) == h
{ lemma_psize(h); lemma2_to64(); if h == 0 { } }

proof fn lemma_isright_root(pos: nat, h: nat)
    requires pos == tsize(h) - 1
    ensures !is_right(pos, h)
{ }

proof fn lemma_ht_lt(pos: nat, k: nat)
    requires 1 <= k <= 64, pos < pow2(k)
    ensures ht(pos, 64) < k
{
    lemma_psize(k); lemma_psize((k - 1) as nat); lemma2_to64(); lemma_pow2_unfold(k);
    if pos < tsize((k - 1) as nat) {
        lemma_ht_mono(pos, (k - 1) as nat, 64);
        lemma_ht_bound(pos, (k - 1) as nat);
        if k - 1 > 0 && pos == tsize((k - 1) as nat) - 1 { } 
    } else {
        // pos == 2^k - 1 == tsize(k-1): first leaf of the right subtree of the height-k tree
        assert(pos == tsize((k - 1) as nat));
        if k < 64 {
            assert(pos < tsize(k)) by { lemma_psize(k); lemma_pow2_unfold(k + 1); lemma_pow2_pos(k); }
            lemma_ht_mono(pos, k, 64);
        } else {
            lemma_psize(64);
            lemma_pow2_unfold(65); lemma_pow2_pos(64);
        }
        lemma_ht_zero_first((k - 1) as nat);
    }
}

// position 0 of any perfect tree is a leaf
proof fn lemma_ht_zero_first(h: nat)
    ensures ht(0, h) == 0
    decreases h
{
    if h > 0 { lemma_psize(h); lemma_psize((h - 1) as nat); lemma_pow2_pos(h); lemma_pow2_unfold(h + 1); lemma_pow2_unfold(h); lemma_pow2_pos((h-1) as nat); lemma_ht_zero_first((h - 1) as nat); }
}

proof fn lemma_bit_test(m: u64, h: u64)
    requires h < 64
    ensures ((m & (1u64 << h)) != 0) == bit(m as nat, h as nat)
{
    assert(((m & (1u64 << h)) != 0) == (((m >> h) & 1u64) == 1u64)) by(bit_vector) requires h < 64;
    let x = m >> h;
    assert((x & 1u64) == x % 2) by(bit_vector);
    lemma_u64_shr_is_div(m, h);
}

//@ extract core/src/core/pmmr/pmmr.rs :: fn family
//@   requires:
//@+    pos0 < 0x4000_0000_0000_0000u64,
//@   ensures:
//@+    r.0 as nat == parent(pos0 as nat, 64),
//@+    r.1 as nat == sibling(pos0 as nat, 64),
//@+    ht(r.0 as nat, 64) == ht(pos0 as nat, 64) + 1,
//@+    ht(r.1 as nat, 64) == ht(pos0 as nat, 64),
//@   at_start:
//@+    proof {
//@+        lemma2_to64(); lemma_psize(64); lemma_pow2_unfold(65); lemma_pow2_unfold(64); lemma_pow2_unfold(63);
//@+        lemma_ht_lt(pos0 as nat, 62);
//@+        lemma_family(pos0 as nat, 64);
//@+        lemma_right_bit(pos0 as nat, 64);
//@+        let t = ht(pos0 as nat, 64);
//@+        lemma_shl2(t as u64);
//@+        lemma_pow2_strictly_increases(t + 1, 63);
//@+        lemma_pow2_unfold(t + 1);
//@+        assert forall|m: u64| ((m & (1u64 << (t as u64))) != 0) == bit(m as nat, t) by { lemma_bit_test(m, t as u64); }
//@+    }
//@ end

//@ extract core/src/core/pmmr/pmmr.rs :: fn is_left_sibling
//@   ensures:
//@+    r == !is_right(pos0 as nat, 64),
//@   at_start:
//@+    proof {
//@+        lemma2_to64(); lemma_psize(64);
//@+        lemma_right_bit(pos0 as nat, 64);
//@+        let t = ht(pos0 as nat, 64);
//@+        lemma_ht_bound(pos0 as nat, 64);
//@+        assert forall|m: u64| ((m & (1u64 << (t as u64))) != 0) == bit(m as nat, t) by { lemma_bit_test(m, t as u64); }
//@+    }
//@ end
//@ canary family: r.0 == r.1

// ---------------------------------------------------------------------------------------------
// the peak map of a position also encodes the left/right turns of all its ancestors
proof fn lemma_bit_high_zero(m: nat, k: nat, t: nat)
    requires m < pow2(k), t >= k
    ensures !bit(m, t)
{
    lemma_pow2_pos(t); lemma_pow2_pos(k);
    if t > k { lemma_pow2_strictly_increases(k, t); }
    assert(m / pow2(t) == 0) by(nonlinear_arith) requires m < pow2(t), pow2(t) > 0;
}

proof fn lemma_bit_top(m: nat, k: nat)
    requires m < pow2(k)
    ensures bit(pow2(k) + m, k)
{
    lemma_pow2_pos(k);
    let a = pow2(k);
    assert((a + m) / a == 1) by(nonlinear_arith) requires m < a, a > 0;
}

// parent of pos (non-root in the j-tree): the two peak maps agree on every bit at or above the parent's height
proof fn lemma_parent_bits(pos: nat, j: nat, t: nat)
    requires j > 0, pos < tsize(j) - 1, t >= ht(pos, j) + 1
    ensures bit(loop_map(pos, j), t) == bit(loop_map(parent(pos, j), j), t)
    decreases j
{
    lemma_psize(j); lemma_psize((j - 1) as nat); lemma2_to64();
    lemma_pow2_unfold(j); lemma_pow2_pos((j - 1) as nat);
    let ts = tsize((j - 1) as nat);
    lemma_family(pos, j);
    if pos == ts - 1 {
        // left child of the root: maps 2^(j-1)-1 and 2^j-1, heights j-1 and j: bits >= j are 0 in both
        lemma_bmap((j - 1) as nat, 0);
        lemma_bmap(j, 0);
        lemma_ht_root(pos, (j - 1) as nat);
        assert(loop_map(pos, j) == loop_map(pos, (j - 1) as nat));
        lemma_bit_high_zero((pow2((j - 1) as nat) - 1) as nat, j, t);
        lemma_pow2_strictly_increases((j - 1) as nat, j);
        lemma_bit_high_zero((pow2(j) - 1) as nat, j, t);
    } else if pos == tsize(j) - 2 {
        // right child of the root: both maps are 2^j - 1
        lemma_bmap((j - 1) as nat, 0);
        lemma_bmap(j, 0);
        assert(loop_map(pos, j) == pow2((j - 1) as nat) + loop_map((pos - ts) as nat, (j - 1) as nat));
    } else if pos < ts {
        assert(j - 1 > 0) by { if j == 1 { assert(ts == 1); } }
        lemma_parent_bits(pos, (j - 1) as nat, t);
        lemma_family(pos, (j - 1) as nat);
        // parent stays inside the left subtree
        assert(parent(pos, j) == parent(pos, (j - 1) as nat));
        assert(parent(pos, j) < ts);
    } else {
        let p = (pos - ts) as nat;
        assert(j - 1 > 0) by { if j == 1 { assert(ts == 1); } }
        lemma_parent_bits(p, (j - 1) as nat, t);
        lemma_family(p, (j - 1) as nat);
        let q = parent(p, (j - 1) as nat);
        assert(parent(pos, j) == ts + q);
        lemma_m1(p, (j - 1) as nat);
        lemma_m1(q, (j - 1) as nat);
        let mp = loop_map(p, (j - 1) as nat);
        let mq = loop_map(q, (j - 1) as nat);
        // q is not the root of the right subtree unless ... handled: parent(pos,j) < tsize(j)-1 here
        assert(loop_map(pos, j) == pow2((j - 1) as nat) + mp);
        assert(ts + q < tsize(j) - 1);
        assert(loop_map((ts + q) as nat, j) == pow2((j - 1) as nat) + mq);
        if t < j - 1 {
            lemma_bit_add_high(mp, t, (j - 1) as nat);
            lemma_bit_add_high(mq, t, (j - 1) as nat);
        } else if t == j - 1 {
            lemma_bit_top(mp, (j - 1) as nat);
            lemma_bit_top(mq, (j - 1) as nat);
        } else {
            lemma_bit_high_zero((pow2((j - 1) as nat) + mp) as nat, j, t);
            lemma_bit_high_zero((pow2((j - 1) as nat) + mq) as nat, j, t);
        }
    }
}

pub open spec fn anc(pos: nat, k: nat) -> nat
    decreases k
{ if k == 0 { pos } else { parent(anc(pos, (k - 1) as nat), 64) } }

proof fn lemma_anc_facts(pos: nat, k: nat)
    requires forall|i: nat| i <= k ==> #[trigger] anc(pos, i) < tsize(64) - 1
    ensures ht(anc(pos, k), 64) == ht(pos, 64) + k,
            forall|t: nat| t >= ht(pos, 64) + k ==> #[trigger] bit(loop_map(pos, 64), t) == bit(loop_map(anc(pos, k), 64), t),
    decreases k
{
    lemma_psize(64); lemma2_to64();
    if k > 0 {
        let a = anc(pos, (k - 1) as nat);
        assert(a < tsize(64) - 1);
        assert forall|i: nat| i <= (k - 1) as nat implies #[trigger] anc(pos, i) < tsize(64) - 1 by { }
        lemma_anc_facts(pos, (k - 1) as nat);
        lemma_family(a, 64);
        assert forall|t: nat| t >= ht(pos, 64) + k implies #[trigger] bit(loop_map(pos, 64), t) == bit(loop_map(anc(pos, k), 64), t) by {
            lemma_parent_bits(a, 64, t);
        }
    }
}

//@ extract core/src/core/pmmr/pmmr.rs :: fn family_branch
//@   rewrite `let mut branch = vec![];` => `let mut branch: Vec<(u64, u64)> = Vec::new();`
//@   requires:
//@+    size < 0x4000_0000_0000_0000u64, pos0 < size,
//@   ensures:
//@+    forall|i: int| 0 <= i < r@.len() ==> (#[trigger] r@[i]).0 as nat == anc(pos0 as nat, (i + 1) as nat)
//@+        && r@[i].1 as nat == crate::sibling(anc(pos0 as nat, i as nat), 64) && r@[i].0 < size,
//@+    anc(pos0 as nat, (r@.len() + 1) as nat) >= size,
//@   after `let mut sibling;`:
//@+    let ghost mut k: nat = 0;
//@+    proof {
//@+        lemma2_to64(); lemma_psize(64); lemma_pow2_unfold(65); lemma_pow2_unfold(64); lemma_pow2_unfold(63);
//@+        lemma_ht_lt(pos0 as nat, 62);
//@+        lemma_shl2(height);
//@+        lemma_family(pos0 as nat, 64);
//@+        lemma_pow2_pos((height + 1) as nat);
//@+        assert(anc(pos0 as nat, 1) == parent(anc(pos0 as nat, 0), 64));
//@+    }
//@   loop 1:
//@+    invariant_except_break
//@+        current < size,
//@+        current as nat == anc(pos0 as nat, k),
//@+        ht(current as nat, 64) == height + k,
//@+        anc(pos0 as nat, k + 1) > anc(pos0 as nat, k),
//@+    invariant
//@+        size < 0x4000_0000_0000_0000u64,
//@+        forall|i: nat| i <= k ==> #[trigger] anc(pos0 as nat, i) < size,
//@+        height + k <= 61,
//@+        peak as nat == pow2((height + k) as nat),
//@+        peak_map as nat == loop_map(pos0 as nat, 64),
//@+        height as nat == ht(pos0 as nat, 64),
//@+        branch@.len() == k,
//@+        forall|i: int| 0 <= i < branch@.len() ==> (#[trigger] branch@[i]).0 as nat == anc(pos0 as nat, (i + 1) as nat)
//@+            && branch@[i].1 as nat == crate::sibling(anc(pos0 as nat, i as nat), 64) && branch@[i].0 < size,
//@+    ensures
//@+        anc(pos0 as nat, (branch@.len() + 1) as nat) >= size,
//@+    decreases size - current
//@   before `if (peak_map & peak) != 0 {`:
//@+    proof {
//@+        lemma2_to64(); lemma_psize(64); lemma_pow2_unfold(65); lemma_pow2_unfold(64); lemma_pow2_unfold(63);
//@+        let t = (height + k) as nat;
//@+        assert forall|i: nat| i <= k implies #[trigger] anc(pos0 as nat, i) < tsize(64) - 1 by { }
//@+        lemma_anc_facts(pos0 as nat, k);
//@+        lemma_right_bit(current as nat, 64);
//@+        lemma_family(current as nat, 64);
//@+        lemma_bit_test(peak_map, t as u64);
//@+        lemma_shl2(t as u64);
//@+        lemma_pow2_unfold(t + 1);
//@+        lemma_pow2_strictly_increases(t + 1, 63);
//@+        assert(bit(loop_map(pos0 as nat, 64), t) == bit(loop_map(current as nat, 64), t));
//@+    }
//@   before `if current >= size {`:
//@+    proof { assert(current as nat == anc(pos0 as nat, k + 1)); }
//@   before `branch.push((current, sibling));`:
//@+    proof {
//@+        lemma_ht_lt(current as nat, 62);
//@+        lemma_u64_shl_is_mul(peak, 1);
//@+        lemma_family(current as nat, 64);
//@+        lemma_pow2_pos(ht(current as nat, 64) + 1);
//@+        assert(anc(pos0 as nat, k + 2) == parent(anc(pos0 as nat, k + 1), 64));
//@+    }
//@   after `peak <<= 1;`:
//@+    proof { k = k + 1; }
//@ end
//@ canary family_branch: r@.len() == 0

//@ extract core/src/core/pmmr/pmmr.rs :: fn bintree_postorder_height
//@   ensures:
//@+    r as nat == ht(pos0 as nat, 64), r <= 63,
//@ end

//@ extract core/src/core/pmmr/pmmr.rs :: fn is_leaf
//@   ensures:
//@+    r == (ht(pos0 as nat, 64) == 0),
//@ end

//@ extract core/src/core/pmmr/pmmr.rs :: fn bintree_rightmost
//@   ensures:
//@+    r as nat == pos0 as nat - ht(pos0 as nat, 64),
//@   at_start:
//@+    proof { lemma_psize(64); lemma2_to64(); lemma_subtree_fits(pos0 as nat, 64); }
//@ end

//@ extract core/src/core/pmmr/pmmr.rs :: fn bintree_leftmost
//@   ensures:
//@+    r as nat == pos0 as nat + 2 - pow2(ht(pos0 as nat, 64) + 1),
//@   requires:
//@+    pos0 <= u64::MAX - 2,
//@   at_start:
//@+    proof { lemma_psize(64); lemma2_to64(); lemma_subtree_fits(pos0 as nat, 64);
//@+            lemma_ht_small(pos0 as nat);
//@+            lemma_shl2(ht(pos0 as nat, 64) as u64); }
//@ end

//@ extract core/src/core/pmmr/pmmr.rs :: fn bintree_range
//@   requires:
//@+    pos0 <= u64::MAX - 2,
//@   ensures:
//@+    r.start as nat == pos0 as nat + 2 - pow2(ht(pos0 as nat, 64) + 1),
//@+    r.end == pos0 + 1,
//@+    r.end - r.start == tsize(ht(pos0 as nat, 64)),
//@   at_start:
//@+    proof { lemma_psize(64); lemma2_to64(); lemma_subtree_fits(pos0 as nat, 64);
//@+            lemma_ht_small(pos0 as nat);
//@+            lemma_shl2(ht(pos0 as nat, 64) as u64); }
//@ end
