//@ assume: vstd axioms for u64::leading_zeros (axiom_u64_leading_zeros), pow2 and shift/div lemmas are trusted (vstd library)
//@ assume: machine integers are u64 with Verus overflow obligations generated; spec integers are mathematical (nat) and every contract states the u64 range it covers
//@ assumed_items: 0
//@ fns: pmmr::peak_map_height, pmmr::bintree_postorder_height, pmmr::is_leaf, pmmr::bintree_rightmost, pmmr::bintree_leftmost, pmmr::bintree_range
//@ import: use vstd::arithmetic::power2::*;
//@ import: use vstd::bits::*;
//@ import: use vstd::std_specs::bits::*;
//@ import: use std::ops::Range;
// size of perfect binary tree of height h  (2^(h+1) - 1)
pub open spec fn tsize(h: nat) -> nat { (pow2(h + 1) - 1) as nat }
// peak size processed at loop stage j  (2^j - 1) == tsize(j-1) for j>0
pub open spec fn psize(j: nat) -> nat { (pow2(j) - 1) as nat }

// height of node at postorder position pos inside a perfect tree of height h (pos < tsize(h))
pub open spec fn ht(pos: nat, h: nat) -> nat
    decreases h
{
    if h == 0 { 0 }
    else if pos == tsize(h) - 1 { h }
    else if pos < tsize((h - 1) as nat) { ht(pos, (h - 1) as nat) }
    else { ht((pos - tsize((h - 1) as nat)) as nat, (h - 1) as nat) }
}

// value left in `size` after the loop has processed peak sizes psize(j), psize(j-1), ..., psize(1)
pub open spec fn loop_h(size: nat, j: nat) -> nat
    decreases j
{
    if j == 0 { size }
    else if size >= psize(j) { loop_h((size - psize(j)) as nat, (j - 1) as nat) }
    else { loop_h(size, (j - 1) as nat) }
}

proof fn lemma_psize(j: nat)
    ensures psize(j + 1) == 2 * psize(j) + 1, psize(0) == 0, pow2(j) >= 1,
            psize(j+1) == tsize(j),
{
    lemma_pow2_pos(j);
    lemma_pow2_unfold(j + 1);
    lemma2_to64();
}

// LEMMA B: root chain
proof fn lemma_b(j: nat, e: nat)
    ensures loop_h((tsize(j) - 1 + e) as nat, j) == j + e
    decreases j
{
    lemma_psize(j);
    if j == 0 {
        lemma2_to64();
        assert(tsize(0) == 1);
    } else {
        lemma_psize((j - 1) as nat);
        // tsize(j) - 1 + e = 2*psize(j) + e  >= psize(j)
        let s = (tsize(j) - 1 + e) as nat;
        assert(s == 2 * psize(j) + e);
        assert(s - psize(j) == psize(j) + e);
        assert(psize(j) == tsize((j - 1) as nat));
        assert(psize(j) + e == tsize((j-1) as nat) - 1 + (e + 1));
        lemma_b((j - 1) as nat, e + 1);
    }
}

// LEMMA A
proof fn lemma_a(size: nat, j: nat)
    requires size < tsize(j)
    ensures loop_h(size, j) == ht(size, j)
    decreases j
{
    lemma_psize(j);
    if j == 0 {
        lemma2_to64();
    } else {
        lemma_psize((j - 1) as nat);
        if size == tsize(j) - 1 {
            lemma_b(j, 0);
        } else if size < tsize((j - 1) as nat) {
            lemma_a(size, (j - 1) as nat);
        } else {
            lemma_a((size - tsize((j - 1) as nat)) as nat, (j - 1) as nat);
        }
    }
}



//@ extract core/src/core/pmmr/pmmr.rs :: const ALL_ONES
//@ end

// bit-vector facts
proof fn lemma_bv_mask_shr(m: u64, j: u64)
    requires 0 < j <= 64, m as nat == psize(j as nat)
    ensures (m >> 1u64) as nat == psize((j - 1) as nat), (m >> 1u64) < m
{
    lemma_psize((j - 1) as nat);
    lemma_u64_shr_is_div(m, 1);
    lemma2_to64();
    assert(pow2(1) == 2);
}

proof fn lemma_init(size: u64) -> (k: nat)
    requires size > 0
    ensures 1 <= k <= 64, (ALL_ONES >> (u64_leading_zeros(size) as u64)) as nat == psize(k), (size as nat) <= psize(k),
            u64_leading_zeros(size) < 64,
{
    axiom_u64_leading_zeros(size);
    let lz = u64_leading_zeros(size);
    let k: nat = (64 - lz) as nat;
    lemma_u64_shr_is_div(ALL_ONES, lz as u64);
    lemma2_to64();
    lemma_pow2_adds(lz as nat, k);
    // ALL_ONES == pow2(64) - 1 == pow2(lz)*pow2(k) - 1
    assert(ALL_ONES as nat == pow2(64) - 1);
    lemma_pow2_pos(lz as nat);
    lemma_pow2_pos(k);
    assert((pow2(lz as nat) * pow2(k) - 1) / (pow2(lz as nat) as int) == pow2(k) - 1) by(nonlinear_arith)
        requires pow2(lz as nat) >= 1, pow2(k) >= 1;
    // size < pow2(k)
    if k < 64 {
        lemma_u64_shr_is_div(size, k as u64);
        assert(size >> (k as u64) == 0);
        assert((size as nat) / pow2(k) == 0);
        assert((size as nat) < pow2(k)) by(nonlinear_arith)
            requires (size as nat) / pow2(k) == 0, pow2(k) >= 1;
    } else {
    }
    k
}

proof fn lemma_loop_zero(j: nat) ensures loop_h(0, j) == 0 decreases j
{ if j > 0 { lemma_psize((j-1) as nat); lemma_loop_zero((j-1) as nat); } }

// height does not depend on the enclosing tree
proof fn lemma_ht_mono(pos: nat, h: nat, big: nat)
    requires pos < tsize(h), h <= big
    ensures ht(pos, big) == ht(pos, h)
    decreases big
{
    if big > h {
        lemma_psize(big); lemma_psize((big-1) as nat); lemma_psize(h);
        lemma_tsize_mono(h, (big - 1) as nat);
        lemma_ht_mono(pos, h, (big - 1) as nat);
    }
}
proof fn lemma_tsize_mono(a: nat, b: nat) requires a <= b ensures tsize(a) <= tsize(b)
{ lemma_pow2_pos(a+1); lemma_pow2_pos(b+1); if a < b { lemma_pow2_strictly_increases(a+1, b+1); } }


proof fn lemma_ht_bound(pos: nat, h: nat)
    requires pos < tsize(h)
    ensures ht(pos, h) <= h, (pos < tsize(h) - 1 && h > 0) ==> ht(pos, h) < h
    decreases h
{
    if h > 0 {
        lemma_psize(h); lemma_psize((h-1) as nat);
        if pos == tsize(h) - 1 {
        } else if pos < tsize((h - 1) as nat) {
            lemma_ht_bound(pos, (h - 1) as nat);
        } else {
            lemma_ht_bound((pos - tsize((h - 1) as nat)) as nat, (h - 1) as nat);
        }
    }
}

// the position range of the subtree rooted at a node of height h: [pos + 2 - 2^(h+1), pos]
proof fn lemma_subtree_fits(pos: nat, h: nat)
    requires pos < tsize(h)
    ensures pos + 2 >= pow2(ht(pos, h) + 1), pos >= ht(pos, h)
    decreases h
{
    lemma_psize(h);
    if h == 0 { lemma2_to64(); }
    else {
        lemma_psize((h-1) as nat);
        if pos == tsize(h) - 1 {
            lemma_pow2_pos(h + 1);
            lemma_pow2_ge_succ(h);
        } else if pos < tsize((h - 1) as nat) {
            lemma_subtree_fits(pos, (h - 1) as nat);
        } else {
            lemma_subtree_fits((pos - tsize((h - 1) as nat)) as nat, (h - 1) as nat);
        }
    }
}

proof fn lemma_pow2_ge_succ(h: nat)
    ensures pow2(h + 1) >= h + 2
    decreases h
{
    lemma2_to64();
    if h > 0 { lemma_pow2_ge_succ((h - 1) as nat); lemma_pow2_unfold(h + 1); lemma_pow2_unfold(h); }
}

proof fn lemma_ht_small(pos: nat)
    requires pos + 2 < pow2(64)
    ensures ht(pos, 64) <= 62, pow2(ht(pos, 64) + 1) <= pow2(63), pow2(ht(pos, 64)) >= 1, 2 * pow2(ht(pos, 64)) == pow2(ht(pos, 64) + 1)
{
    lemma_psize(64); lemma_psize(63); lemma2_to64();
    lemma_pow2_unfold(64);
    assert(pos < tsize(63) - 1);
    lemma_ht_mono(pos, 63, 64);
    lemma_ht_bound(pos, 63);
    let h = ht(pos, 64);
    if h + 1 < 63 { lemma_pow2_strictly_increases(h + 1, 63); }
    lemma_pow2_unfold(h + 1);
    lemma_pow2_pos(h);
}

//@ extract core/src/core/pmmr/pmmr.rs :: fn peak_map_height
//@   ensures:
//@+    r.1 as nat == ht(size as nat, 64),
//@+    r.1 <= 63,
//@   before `return (0, 0);`:
//@+    proof { lemma_pow2_pos(65); lemma_pow2_strictly_increases(0, 65); lemma2_to64(); lemma_a(0, 64); lemma_psize(64); lemma_loop_zero(64); }
//@   before `let mut peak_size = ALL_ONES`:
//@+    let ghost size0 = size;
//@+    let ghost k = lemma_init(size);
//@+    let ghost mut j: nat = k;
//@   loop 1:
//@+    invariant
//@+        j <= 64,
//@+        peak_size as nat == psize(j),
//@+        loop_h(size as nat, j) == loop_h(size0 as nat, k),
//@+    decreases peak_size
//@   before `peak_map <<= 1;`:
//@+    proof {
//@+        lemma_psize(j);
//@+        if j == 0 { assert(false); }
//@+        lemma_bv_mask_shr(peak_size, j as u64);
//@+    }
//@   after `peak_size >>= 1;`:
//@+    proof { j = (j - 1) as nat; }
//@   before `(peak_map, size)`:
//@+    proof {
//@+        lemma_psize(0);
//@+        assert(j == 0) by { if j > 0 { lemma_psize((j-1) as nat); } }
//@+        lemma_psize(k);
//@+        lemma_a(size0 as nat, k);
//@+        lemma_ht_mono(size0 as nat, k, 64);
//@+        lemma_psize(64); lemma2_to64();
//@+        lemma_ht_bound(size0 as nat, 64);
//@+    }
//@ end
//@ canary peak_map_height: r.1 == 0

//@ extract core/src/core/pmmr/pmmr.rs :: fn bintree_postorder_height
//@   ensures:
//@+    r as nat == ht(pos0 as nat, 64), r <= 63,
//@ end

//@ extract core/src/core/pmmr/pmmr.rs :: fn is_leaf
//@   ensures:
//@+    r == (ht(pos0 as nat, 64) == 0),
//@ end

//@ extract core/src/core/pmmr/pmmr.rs :: fn bintree_rightmost
//@   ensures:
//@+    r as nat == pos0 as nat - ht(pos0 as nat, 64),
//@   before `pos0 - bintree_postorder_height(pos0)`:
//@+    proof { lemma_psize(64); lemma2_to64(); lemma_subtree_fits(pos0 as nat, 64); }
//@ end

//@ extract core/src/core/pmmr/pmmr.rs :: fn bintree_leftmost
//@   ensures:
//@+    r as nat == pos0 as nat + 2 - pow2(ht(pos0 as nat, 64) + 1),
//@   requires:
//@+    pos0 <= u64::MAX - 2,
//@   before `pos0 + 2 - (2 << height)`:
//@+    proof { lemma_psize(64); lemma2_to64(); lemma_subtree_fits(pos0 as nat, 64);
//@+            lemma_ht_small(pos0 as nat);
//@+            lemma_u64_shl_is_mul(2, height); }
//@ end

//@ extract core/src/core/pmmr/pmmr.rs :: fn bintree_range
//@   requires:
//@+    pos0 <= u64::MAX - 2,
//@   ensures:
//@+    r.start as nat == pos0 as nat + 2 - pow2(ht(pos0 as nat, 64) + 1),
//@+    r.end == pos0 + 1,
//@+    r.end - r.start == tsize(ht(pos0 as nat, 64)),
//@   before `let leftmost = pos0 + 2 - (2 << height);`:
//@+    proof { lemma_psize(64); lemma2_to64(); lemma_subtree_fits(pos0 as nat, 64);
//@+            lemma_ht_small(pos0 as nat);
//@+            lemma_u64_shl_is_mul(2, height); }
//@ end
