//@ assume: the backend is abstract (get_peak_from_file reads the stored hash of a position, append receives the leaf and the list of new hashes); hashing is an uninterpreted pair of functions (leaf hash with index, node hash of two children with index) -- blake2b is outside; PMMR keeps the real fields (size + `&mut` backend)
//@ assume: T6 rewrites: `format!(..)` / `&str` error payloads => helper error strings; `vec![current_hash]` => helper single-element vec; hash_with_index is a trait with an uninterpreted meaning per implementor (element, pair of hashes); generics reduced to one abstract element type and backend trait (T5)
//@ assume: RANGE: MMR sizes below 2^61 (positions and peak masks then stay below 2^63)
//@ assume: decided here, against the explicit tree of C07/pmmr_arith (included and re-verified): PMMR::push on an MMR of n leaves refuses an invalid size; otherwise it writes, in order, the new leaf's hash at position `size` and then, for as long as the current node is a RIGHT child in the tree, its parent -- at exactly the parent position, computed as node_hash(stored hash of exactly the tree-sibling position, hash of the current node, indexed by the parent position) -- and stops at the first node that is not a right child (a new peak); the new size is the old size plus the number of hashes written. This is the definition of appending to a Merkle Mountain Range.
//@ assume: 64-bit target
//@ assumed_items: 8
//@ fns: PMMR::push
//@ include: ../C07/pmmr_arith.verus.rs

#[verifier::external_body]
#[derive(Clone, Copy)]
pub struct Hash { _p: u8 }
#[verifier::external_body]
pub struct Elem { _p: u8 }
pub uninterp spec fn sp_leaf_hash(e: Elem, pos: u64) -> Hash;
pub uninterp spec fn sp_node_hash(l: Hash, r: Hash, pos: u64) -> Hash;
pub trait PMMRIndexHashable {
    spec fn sp_hash(&self, pos: u64) -> Hash;
    fn hash_with_index(&self, pos: u64) -> (r: Hash) ensures r == self.sp_hash(pos);
}
impl PMMRIndexHashable for Elem {
    open spec fn sp_hash(&self, pos: u64) -> Hash { sp_leaf_hash(*self, pos) }
    #[verifier::external_body]
    fn hash_with_index(&self, pos: u64) -> (r: Hash) { unimplemented!() }
}
impl PMMRIndexHashable for (Hash, Hash) {
    open spec fn sp_hash(&self, pos: u64) -> Hash { sp_node_hash(self.0, self.1, pos) }
    #[verifier::external_body]
    fn hash_with_index(&self, pos: u64) -> (r: Hash) { unimplemented!() }
}
#[verifier::external_body]
fn err_string() -> (r: String) { unimplemented!() }
#[verifier::external_body]
fn vec_of_one(h: Hash) -> (r: Vec<Hash>) ensures r@ == seq![h] { unimplemented!() }
pub struct Backend { pub stored: Ghost<Map<nat, Hash>>, pub appended: Ghost<Seq<(Elem, Seq<Hash>)>> }
impl Backend {
    #[verifier::external_body]
    pub fn get_peak_from_file(&self, pos0: u64) -> (r: Option<Hash>)
        ensures r matches Some(h) ==> self.stored@.contains_key(pos0 as nat) && self.stored@[pos0 as nat] == h { unimplemented!() }
    #[verifier::external_body]
    pub fn append(&mut self, data: &Elem, hashes: &Vec<Hash>) -> (r: Result<(), String>)
        ensures r.is_ok() ==> final(self).appended@ == old(self).appended@.push((*data, hashes@)), r.is_err() ==> final(self).appended@ == old(self).appended@,
                final(self).stored@ == old(self).stored@ { unimplemented!() }
}
pub struct PMMR<'a> { pub size: u64, pub backend: &'a mut Backend }

/// node i of the climb (i >= 1): anc(base, i-1) is a right child, its parent anc(base, i) is the next position, and the hash written
/// for the parent is node_hash(stored hash of the tree-sibling of the child, hash of the child, parent position)
#[verifier::opaque]
pub open spec fn link(stored: Map<nat, Hash>, base: nat, i: int, hprev: Hash, hcur: Hash) -> bool {
    let child = anc(base, (i - 1) as nat);
    &&& is_right(child, 64)
    &&& anc(base, i as nat) == child + 1
    &&& stored.contains_key(sibling(child, 64))
    &&& hcur == sp_node_hash(stored[sibling(child, 64)], hprev, anc(base, i as nat) as u64)
}
/// hashes[0] is the leaf at `base`; every later entry is linked to its predecessor
pub open spec fn chain_ok(stored: Map<nat, Hash>, leaf: Elem, base: nat, hashes: Seq<Hash>) -> bool {
    &&& hashes.len() >= 1 && hashes[0] == sp_leaf_hash(leaf, base as u64)
    &&& forall|i: int| 1 <= i < hashes.len() ==> link(stored, base, i, hashes[i - 1], #[trigger] hashes[i])
}
proof fn lemma_link_intro(stored: Map<nat, Hash>, base: nat, k: nat, hprev: Hash, h: Hash)
    requires is_right(anc(base, k), 64), anc(base, k + 1) == anc(base, k) + 1, stored.contains_key(sibling(anc(base, k), 64)),
             h == sp_node_hash(stored[sibling(anc(base, k), 64)], hprev, anc(base, k + 1) as u64),
    ensures link(stored, base, (k + 1) as int, hprev, h)
{
    reveal(link);
}
proof fn lemma_chain_push(stored: Map<nat, Hash>, leaf: Elem, base: nat, hashes: Seq<Hash>, h: Hash, k: nat)
    requires chain_ok(stored, leaf, base, hashes), hashes.len() == k + 1, link(stored, base, (k + 1) as int, hashes[k as int], h),
    ensures chain_ok(stored, leaf, base, hashes.push(h))
{
    let h2 = hashes.push(h);
    assert forall|i: int| 1 <= i < h2.len() implies link(stored, base, i, h2[i - 1], #[trigger] h2[i]) by {
        if i < hashes.len() { assert(h2[i] == hashes[i]); assert(h2[i - 1] == hashes[i - 1]); }
        else { assert(h2[i - 1] == hashes[k as int]); }
    }
}

/// one step of the climb: node `pos` = anc(base, k) of height k; bit k of the peak map decides whether it is a right child
proof fn lemma_push_step(base: nat, k: nat, peak_map: u64, pos: u64)
    requires k <= 61, base < pow2(61), pos as nat == base + k, pos as nat == anc(base, k), ht(pos as nat, 64) == k, ht(base, 64) == 0,
             forall|i: nat| i <= k ==> #[trigger] anc(base, i) < tsize(64) - 1,
             peak_map as nat == loop_map(base, 64),
    ensures ((peak_map & (1u64 << (k as u64))) != 0) == is_right(pos as nat, 64),
            is_right(pos as nat, 64) ==> {
                &&& anc(base, k + 1) == pos + 1 && ht((pos + 1) as nat, 64) == k + 1 && k + 1 <= 61
                &&& sibling(pos as nat, 64) + 2 * pow2(k) == pos + 1
                &&& forall|i: nat| i <= k + 1 ==> #[trigger] anc(base, i) < tsize(64) - 1 },
            (1u64 << (k as u64)) as nat == pow2(k),
            k < 61 ==> ((1u64 << (k as u64)) * 2 == 1u64 << ((k + 1) as u64)) && (1u64 << ((k + 1) as u64)) as nat == pow2(k + 1),
{
    lemma2_to64(); lemma_psize(64); lemma_pow2_unfold(65); lemma_pow2_unfold(64); lemma_pow2_unfold(63); lemma_pow2_unfold(62);
    lemma_anc_facts(base, k);
    lemma_bit_test(peak_map, k as u64);
    lemma_right_bit(pos as nat, 64);
    lemma_shl2(k as u64);
    lemma_pow2_unfold(k + 1);
    if is_right(pos as nat, 64) {
        lemma_family(pos as nat, 64);
        assert(anc(base, k + 1) == parent(pos as nat, 64));
        lemma_ht_lt((pos + 1) as nat, 62);
        assert forall|i: nat| i <= k + 1 implies #[trigger] anc(base, i) < tsize(64) - 1 by { if i == k + 1 { } }
    }
    if k < 61 {
        let ku = k as u64;
        assert((1u64 << ku) * 2 == 1u64 << ((ku + 1) as u64)) by(bit_vector) requires ku < 61;
        lemma_shl2((k + 1) as u64);
    }
}

impl<'a> PMMR<'a> {
//@ extract core/src/core/pmmr/pmmr.rs :: impl PMMR::push
//@   sigrewrite `pub fn push(&mut self, leaf: &T)` => `pub fn push(&mut self, leaf: &Elem)`
//@   rewrite `let mut hashes = vec![current_hash];` => `let mut hashes = vec_of_one(current_hash);`
//@   rewrite `return Err(format!("bad mmr size {}", pos));` => `return Err(err_string());`
//@   rewrite `.ok_or("missing left sibling in tree, should not have been pruned")?;` => `.ok_or(err_string())?;`
//@   rewrite `let mut peak = 1;` => `let mut peak: u64 = 1;`
//@   before `let mut peak: u64 = 1;`:
//@+    let ghost base = leaf_pos as nat;
//@+    let ghost mut k: nat = 0;
//@+    proof { lemma2_to64(); lemma_psize(64); lemma_pow2_unfold(65); lemma_pow2_unfold(64); lemma_pow2_unfold(63); lemma_pow2_unfold(62);
//@+            assert(1u64 == 1u64 << 0u64) by(bit_vector); }
//@   loop 1:
//@+    invariant
//@+        k <= 61, peak == 1u64 << (k as u64), peak as nat == pow2(k),
//@+        base < pow2(61), base < 0x2000_0000_0000_0000, pos as nat == base + k, pos as nat == anc(base, k),
//@+        ht(pos as nat, 64) == k, ht(base, 64) == 0,
//@+        forall|i: nat| i <= k ==> #[trigger] anc(base, i) < tsize(64) - 1,
//@+        peak_map as nat == loop_map(base, 64),
//@+        current_hash == hashes@[k as int], hashes@.len() == k + 1,
//@+        chain_ok(self.backend.stored@, *leaf, base, hashes@),
//@+        self.backend.stored@ == old(self).backend.stored@, self.backend.appended@ == old(self).backend.appended@, self.size == old(self).size,
//@+    decreases 62 - k,
//@   after `while (peak_map & peak) != 0 {`:
//@+    proof { lemma_push_step(base, k, peak_map, pos); lemma2_to64(); }
//@   before `self.backend.append(leaf, &hashes)?;`:
//@+    proof { lemma_push_step(base, k, peak_map, pos); }
//@   before `hashes.push(current_hash);`:
//@+    proof { lemma_link_intro(self.backend.stored@, base, k, hashes@[k as int], current_hash); lemma_chain_push(self.backend.stored@, *leaf, base, hashes@, current_hash, k); }
//@   after `hashes.push(current_hash);`:
//@+    proof { k = k + 1; }
//@   requires:
//@+    old(self).size < 0x2000_0000_0000_0000u64,
//@   ensures:
//@+    r matches Ok(p) ==> p == old(self).size && ht(old(self).size as nat, 64) == 0
//@+        && final(self).backend.appended@.len() == old(self).backend.appended@.len() + 1
//@+        && final(self).backend.appended@.last().0 == *leaf
//@+        && chain_ok(old(self).backend.stored@, *leaf, old(self).size as nat, final(self).backend.appended@.last().1)
//@+        && final(self).size == old(self).size + final(self).backend.appended@.last().1.len()
//@+        && !is_right((final(self).size - 1) as nat, 64),
//@+    r.is_err() ==> final(self).backend.appended@ == old(self).backend.appended@,
//@+    ht(old(self).size as nat, 64) != 0 ==> r.is_err(),
//@ end
}
//@ canary push: r.is_err()
