//@ assume: the back end is abstract: get_hash / get_from_file are uninterpreted reads; the node hash H(left, right, pos) is an uninterpreted function (ideal hash, DESIGN 3.3), `(l, r).hash_with_index(n)` => hash_pair(&l, &r, n), `!=` on Hash => hash_ne; pmmr::bintree_postorder_height is abstract with what C07/pmmr_arith PROVES about it: the height is below 64 and a node of height h >= 1 sits at a 0-based position >= 2^(h+1) - 2 (lemma_subtree_fits there); T3: format! payload replaced
//@ assume: `1 << height` is Rust's shift on the integer type inferred for the literal (u64, from `n - ..`): Verus checks it with the bit-vector lemma below
//@ assume: decided here (C07 'roots ... follow the definition', C01/C16 'full validation'): PMMR::validate (run on all three MMRs by Extension::validate_mmrs during full-state validation) returns Ok ONLY IF every parent position below the size whose hash is readable and whose two children are still on file carries H(left child, right child, its own position) -- with the children taken at n - 2^height (left) and n - 1 (right), the definition of the post-order layout -- and never under- or overflows
//@ assumed_items: 5
//@ fns: PMMR::validate
#[derive(Clone, Copy)]
pub struct Hash { pub v: u64 }
pub uninterp spec fn sp_h(l: Hash, r: Hash, pos0: u64) -> Hash;
#[verifier::external_body]
pub fn hash_pair(l: &Hash, r: &Hash, pos0: u64) -> (h: Hash) ensures h == sp_h(*l, *r, pos0) { unimplemented!() }
pub fn hash_ne(a: &Hash, b: &Hash) -> (r: bool) ensures r == (a.v != b.v) { a.v != b.v }
pub uninterp spec fn sp_height(n: u64) -> u64;
#[verifier::external_body]
pub fn bintree_postorder_height(n: u64) -> (r: u64)
    ensures r == sp_height(n), r < 64, r >= 1 ==> n as int >= vstd::arithmetic::power2::pow2((r + 1) as nat) - 2 { unimplemented!() }
#[verifier::external_body]
pub fn msg() -> String { unimplemented!() }
pub uninterp spec fn sp_hash_at(p: PMMR, pos0: u64) -> Option<Hash>;
pub uninterp spec fn sp_file_at(p: PMMR, pos0: u64) -> Option<Hash>;
pub open spec fn sp_node_ok(p: PMMR, n: u64) -> bool {
    let h = sp_height(n);
    (h > 0 && sp_hash_at(p, n) is Some) ==> {
        let left = (n - vstd::arithmetic::power2::pow2(h as nat)) as u64;
        let right = (n - 1) as u64;
        (sp_file_at(p, left) is Some && sp_file_at(p, right) is Some) ==> sp_h(sp_file_at(p, left)->0, sp_file_at(p, right)->0, n).v == (sp_hash_at(p, n)->0).v
    }
}
pub proof fn lemma_shift(h: u64)
    requires h < 64
    ensures (1u64 << h) as int == vstd::arithmetic::power2::pow2(h as nat), vstd::arithmetic::power2::pow2((h + 1) as nat) == 2 * vstd::arithmetic::power2::pow2(h as nat),
        vstd::arithmetic::power2::pow2(h as nat) >= 1, h >= 1 ==> vstd::arithmetic::power2::pow2(h as nat) >= 2
{
    vstd::arithmetic::power2::lemma2_to64();
    vstd::arithmetic::power2::lemma_pow2_strictly_increases(h as nat, 64);
    vstd::arithmetic::power2::lemma_pow2_pos(h as nat);
    if h >= 1 { vstd::arithmetic::power2::lemma_pow2_strictly_increases(0, h as nat); }
    vstd::arithmetic::power2::lemma_pow2_unfold((h + 1) as nat);
    assert(1 * vstd::arithmetic::power2::pow2(h as nat) <= u64::MAX);
    vstd::bits::lemma_u64_shl_is_mul(1, h);
}
pub struct PMMR { pub size: u64 }
impl PMMR {
    #[verifier::external_body]
    pub fn get_hash(&self, pos0: u64) -> (r: Option<Hash>) ensures r == sp_hash_at(*self, pos0) { unimplemented!() }
    #[verifier::external_body]
    pub fn get_from_file(&self, pos0: u64) -> (r: Option<Hash>) ensures r == sp_file_at(*self, pos0) { unimplemented!() }
//@ extract core/src/core/pmmr/pmmr.rs :: impl PMMR::validate
//@   format_as `msg()`
//@   rewrite `(left_child_hs, right_child_hs).hash_with_index(n) != hash` => `hash_ne(&hash_pair(&left_child_hs, &right_child_hs, n), &hash)`
//@   rewrite `let left_pos = n - (1 << height);` => `proof { lemma_shift(height); } let left_pos = n - (1u64 << height);`
//@   loop 1:
//@+    invariant forall|k: u64| k < n ==> sp_node_ok(*self, k),
//@   ensures:
//@+    r.is_ok() ==> forall|k: u64| k < self.size ==> sp_node_ok(*self, k),
//@ end
}
//@ canary validate: r.is_err()
