//@ assume: the denylist cell (`denylist: Arc<RwLock<Vec<Hash>>>`) is read through denylist_snapshot() (T6 for `self.denylist.read().clone()`); pipe::validate_header_denylist (C13/pipe_views decides it) is an uninterpreted predicate of (header, denylist); pipe::rewind_and_apply_fork / rewind_and_apply_header_fork (C03/rewind_and_apply_fork) are abstract: their result is an uninterpreted function of (target header, which validator they were given), the validator being identified by the denylist it checks against; the closures `|header| pipe::validate_header_denylist(header, &denylist)` are lifted and verified (T7) and stood in for by a value carrying the denylist; the header extension's root is uninterpreted; Batch::get_previous_header reads the stored parent; txhashset::header_extending_readonly returns what its closure returns (closure lifted and verified)
//@ assume: decided here (C03 / C04: 'a denied header never becomes part of the chain we follow', the chain-level wrappers every caller goes through): Chain::rewind_and_apply_fork and Chain::rewind_and_apply_header_fork run the pipe function on the header, extension and batch THEY WERE GIVEN with a validator that is exactly validate_header_denylist against THIS chain's current denylist (not an empty list, not accept-all); Chain::set_prev_root_only sets prev_root to the header-MMR root of a read-only header extension rewound -- under the same denylist rule -- to the header's OWN PARENT, and changes nothing else of the header
//@ assumed_items: 9
//@ fns: Chain::rewind_and_apply_fork (+ closure), Chain::rewind_and_apply_header_fork (+ closure), Chain::set_prev_root_only (+ closure)
#[derive(Clone, Copy, PartialEq, Eq, Structural)]
pub struct Hash { pub v: u64 }
#[derive(Clone, Copy, PartialEq, Eq, Structural)]
pub struct BlockHeader { pub id: u64, pub prev_root: Hash, pub height: u64 }
pub enum Error { Denied, Store, Other }
pub uninterp spec fn sp_denied(h: BlockHeader, list: Seq<Hash>) -> bool;
pub uninterp spec fn sp_prev(id: u64) -> BlockHeader;
/// result of the pipe functions: target header, denylist the validator checks
pub uninterp spec fn sp_fork(target: BlockHeader, list: Seq<Hash>) -> Result<BlockHeader, Error>;
pub uninterp spec fn sp_header_fork_ok(target: BlockHeader, list: Seq<Hash>) -> bool;
pub uninterp spec fn sp_header_root(on: Option<u64>) -> Hash;
pub struct Batch { pub _p: u8 }
impl Batch {
    #[verifier::external_body]
    pub fn get_previous_header(&self, h: &BlockHeader) -> (r: Result<BlockHeader, Error>) ensures r matches Ok(p) ==> p == sp_prev(h.id) { unimplemented!() }
}
pub struct HeaderExtension { pub on: Ghost<Option<u64>> }
impl HeaderExtension {
    #[verifier::external_body]
    pub fn root(&self) -> (r: Result<Hash, Error>) ensures r matches Ok(h) ==> h == sp_header_root(self.on@) { unimplemented!() }
}
pub struct ExtensionPair { pub on: Ghost<Option<u64>> }
/// the validator closure: which denylist it checks
pub struct DenyCheck<'a> { pub list: &'a Vec<Hash> }
pub mod pipe {
    use super::*;
    #[verifier::external_body]
    pub fn validate_header_denylist(header: &BlockHeader, denylist: &[Hash]) -> (r: Result<(), Error>) ensures r is Ok == !sp_denied(*header, denylist@) { unimplemented!() }
    #[verifier::external_body]
    pub fn rewind_and_apply_fork<'a>(header: &BlockHeader, ext: &mut ExtensionPair, batch: &mut Batch, v: &DenyCheck<'a>) -> (r: Result<BlockHeader, Error>)
        ensures r == sp_fork(*header, v.list@), r is Ok ==> final(ext).on@ == Some(header.id) { unimplemented!() }
    #[verifier::external_body]
    pub fn rewind_and_apply_header_fork<'a>(header: &BlockHeader, ext: &mut HeaderExtension, batch: &mut Batch, v: &DenyCheck<'a>) -> (r: Result<(), Error>)
        ensures r is Ok == sp_header_fork_ok(*header, v.list@), r is Ok ==> final(ext).on@ == Some(header.id) { unimplemented!() }
}
pub struct HeaderPmmr { pub _p: u8 }
pub struct ChainStore { pub _p: u8 }
pub struct PrevRootClosure<'a> { pub chain: &'a Chain, pub header: &'a BlockHeader }
pub mod txhashset {
    use super::*;
    #[verifier::external_body]
    pub fn header_extending_readonly<'a>(h: &mut HeaderPmmr, s: &ChainStore, f: PrevRootClosure<'a>) -> (r: Result<Hash, Error>)
        ensures r matches Ok(x) ==> sp_header_fork_ok(sp_prev(f.header.id), f.chain.sp_denylist()) && x == sp_header_root(Some(sp_prev(f.header.id).id)) { unimplemented!() }
}
pub struct Chain { pub _p: u8 }
impl Chain {
    pub uninterp spec fn sp_denylist(&self) -> Seq<Hash>;
    #[verifier::external_body]
    pub fn denylist_snapshot(&self) -> (r: Vec<Hash>) ensures r@ == self.sp_denylist() { unimplemented!() }
    #[verifier::external_body]
    pub fn header_pmmr_write(&self) -> (r: HeaderPmmr) { unimplemented!() }
    #[verifier::external_body]
    pub fn store(&self) -> (r: ChainStore) { unimplemented!() }
//@ extract chain/src/chain.rs :: impl Chain::rewind_and_apply_fork
//@   closure 1 lifted_as `fn deny_check_block(header: &BlockHeader, denylist: &Vec<Hash>) -> Result<(), Error>`
//@   ensures:
//@+    r is Ok == !sp_denied(*header, denylist@),
//@ end
//@ extract chain/src/chain.rs :: impl Chain::rewind_and_apply_fork
//@   closure 1 replaced_by `DenyCheck { list: &denylist }`
//@   rewrite `self.denylist.read().clone()` => `self.denylist_snapshot()`
//@   ensures:
//@+    r == sp_fork(*header, self.sp_denylist()), r is Ok ==> final(ext).on@ == Some(header.id),
//@ end
//@ extract chain/src/chain.rs :: impl Chain::rewind_and_apply_header_fork
//@   closure 1 lifted_as `fn deny_check_header(header: &BlockHeader, denylist: &Vec<Hash>) -> Result<(), Error>`
//@   ensures:
//@+    r is Ok == !sp_denied(*header, denylist@),
//@ end
//@ extract chain/src/chain.rs :: impl Chain::rewind_and_apply_header_fork
//@   closure 1 replaced_by `DenyCheck { list: &denylist }`
//@   rewrite `self.denylist.read().clone()` => `self.denylist_snapshot()`
//@   ensures:
//@+    r is Ok == sp_header_fork_ok(*header, self.sp_denylist()), r is Ok ==> final(ext).on@ == Some(header.id),
//@ end
//@ extract chain/src/chain.rs :: impl Chain::set_prev_root_only
//@   closure 1 lifted_as `fn prev_root_inner(&self, ext: &mut HeaderExtension, batch: &mut Batch, header: &BlockHeader) -> Result<Hash, Error>`
//@   ensures:
//@+    r matches Ok(x) ==> sp_header_fork_ok(sp_prev(header.id), self.sp_denylist()) && x == sp_header_root(Some(sp_prev(header.id).id)),
//@ end
//@ extract chain/src/chain.rs :: impl Chain::set_prev_root_only
//@   closure 1 replaced_by `PrevRootClosure { chain: self, header: &*header }`
//@   rewrite `self.header_pmmr.write()` => `self.header_pmmr_write()`
//@   ensures:
//@+    r is Ok ==> final(header).prev_root == sp_header_root(Some(sp_prev(old(header).id).id)) && final(header).id == old(header).id && final(header).height == old(header).height,
//@+    r is Err ==> *final(header) == *old(header),
//@ end
}
//@ canary set_prev_root_only: r is Err
