//@ assume: Chain is abstract. T5: the `&self` receivers become `&mut self` so that the interior-mutable state (LMDB behind the store, the adapter) can carry a ghost log; RwLock guards, the store batch and the BlockContext are abstract owned values (locking itself is not verified: C17 is not applicable); pipe::process_block is abstract: on Ok the context's batch holds the block's writes (`applied == Some(block id)`), on Err it holds nothing new (pipe's own contract: C03/process_block, C06)
//@ assume: T6: `ctx.batch.commit()?` => `self.commit_ctx(ctx)?` and `self.adapter.block_accepted(` => `self.adapter_block_accepted(` (re-addressed to the chain's ghost log; commit consumes the context); log macros removed (T3)
//@ assume: decided here (C03 'the chain head only ever moves to a fully validated block', C06 'a rejected input leaves state untouched' at the Chain wrapper): process_block_single COMMITS a database batch only if pipe::process_block accepted the block in that very batch -- on every error path (header refused, known block, orphan, pipe error) nothing is committed; it returns exactly the head pipe returned; the adapter is told about the block exactly once, only AFTER the commit succeeded, with the status determine_status computes from the head pipe returned, the block's parent, the body head read BEFORE processing, and pipe's fork point. determine_status: Fork iff the head did not move, Next iff it moved and the previous head is on the new head's chain, Reorg otherwise.
//@ assumed_items: 12
//@ fns: Chain::process_block_single, Chain::determine_status
#[derive(Clone, Copy)]
pub struct Hash { pub v: u64 }
#[derive(Clone, Copy)]
pub struct BlockHeader { pub height: u64, pub id: Hash, pub prev_hash: Hash }
pub struct Block { pub header: BlockHeader, pub id: int }
#[derive(Clone, Copy)]
pub struct Options { pub bits: u32 }
#[derive(Clone, Copy)]
pub struct Tip { pub height: u64, pub last_block_h: Hash }
impl Tip {
    pub open spec fn sp_from_header(h: BlockHeader) -> Tip { Tip { height: h.height, last_block_h: h.id } }
    pub fn from_header(h: &BlockHeader) -> (r: Tip) ensures r == Tip::sp_from_header(*h) { Tip { height: h.height, last_block_h: h.id } }
}
pub enum Error { Orphan, Unfit, Other }
//@ extract chain/src/types.rs :: enum BlockStatus
//@   strip_attrs
//@ end
pub struct Guard { pub _p: u8 }
pub struct Lock { pub _p: u8 }
impl Lock { #[verifier::external_body] pub fn write(&self) -> (r: Guard) { unimplemented!() } }
pub struct Batch { pub applied: Ghost<Option<int>> }
impl Batch {
    #[verifier::external_body]
    pub fn head(&self) -> (r: Result<Tip, Error>) ensures r matches Ok(t) ==> t == sp_head_in(self.applied@) { unimplemented!() }
}
pub struct Store { pub _p: u8 }
impl Store { #[verifier::external_body] pub fn batch(&self) -> (r: Result<Batch, Error>) ensures r matches Ok(b) ==> b.applied@ is None { unimplemented!() } }
pub struct BlockContext { pub batch: Batch }
/// the body head stored when the call starts
pub open spec fn sp_body_head() -> Tip { sp_head_in(None) }
/// the body head as seen through a batch that holds the given uncommitted block (None: the stored one)
pub uninterp spec fn sp_head_in(applied: Option<int>) -> Tip;
pub uninterp spec fn sp_prev(h: BlockHeader) -> BlockHeader;
pub uninterp spec fn sp_on_chain(x: Tip, head: Tip) -> bool;
/// what pipe::process_block answers for this block on this state: (new head if it moved, fork point)
pub uninterp spec fn sp_pipe(block: int) -> (Option<Tip>, BlockHeader);
pub mod pipe {
    use super::*;
    #[verifier::external_body]
    pub fn process_block(b: &Block, ctx: &mut BlockContext) -> (r: Result<(Option<Tip>, BlockHeader), Error>)
        ensures r.is_ok() ==> final(ctx).batch.applied@ == Some(b.id), r matches Ok(p) ==> p == sp_pipe(b.id), r.is_err() ==> final(ctx).batch.applied@ == old(ctx).batch.applied@ { unimplemented!() }
}
pub struct Notice { pub block: int, pub status: BlockStatus }
pub struct Chain { pub header_pmmr: Lock, pub txhashset: Lock, pub store: Store, pub committed: Ghost<Seq<Option<int>>>, pub notices: Ghost<Seq<Notice>> }
impl Chain {
    #[verifier::external_body]
    pub fn process_block_header(&mut self, bh: &BlockHeader, opts: Options) -> (r: Result<(), Error>)
        ensures final(self).committed@ == old(self).committed@, final(self).notices@ == old(self).notices@ { unimplemented!() }
    #[verifier::external_body]
    pub fn is_known(&self, header: &BlockHeader) -> (r: Result<(), Error>) { unimplemented!() }
    #[verifier::external_body]
    fn check_orphan(&mut self, block: &Block, opts: Options) -> (r: Result<(), Error>)
        ensures final(self).committed@ == old(self).committed@, final(self).notices@ == old(self).notices@ { unimplemented!() }
    #[verifier::external_body]
    fn new_ctx(&self, opts: Options, batch: Batch, header_pmmr: &mut Guard, txhashset: &mut Guard) -> (r: Result<BlockContext, Error>)
        ensures r matches Ok(c) ==> c.batch == batch { unimplemented!() }
    #[verifier::external_body]
    fn commit_ctx(&mut self, ctx: BlockContext) -> (r: Result<(), Error>)
        ensures r.is_ok() ==> final(self).committed@ == old(self).committed@.push(ctx.batch.applied@), r.is_err() ==> final(self).committed@ == old(self).committed@,
            final(self).notices@ == old(self).notices@ { unimplemented!() }
    #[verifier::external_body]
    pub fn get_previous_header(&self, h: &BlockHeader) -> (r: Result<BlockHeader, Error>) ensures r matches Ok(p) ==> p == sp_prev(*h) { unimplemented!() }
    #[verifier::external_body]
    fn is_on_current_chain(&self, x: Tip, head: Tip) -> (r: Result<(), Error>) ensures r.is_ok() == sp_on_chain(x, head) { unimplemented!() }
    #[verifier::external_body]
    fn adapter_block_accepted(&mut self, b: &Block, status: BlockStatus, opts: Options)
        ensures final(self).committed@ == old(self).committed@, final(self).notices@ == old(self).notices@.push(Notice { block: b.id, status }) { unimplemented!() }
    pub open spec fn sp_status(head: Option<Tip>, prev: Tip, prev_head: Tip, fork_point: Tip) -> BlockStatus {
        match head {
            Some(h) => if sp_on_chain(prev_head, h) { BlockStatus::Next { prev } } else { BlockStatus::Reorg { prev, prev_head, fork_point } },
            None => BlockStatus::Fork { prev, head: prev_head, fork_point },
        }
    }
//@ extract chain/src/chain.rs :: impl Chain::determine_status
//@   ensures:
//@+    r == Chain::sp_status(head, prev, prev_head, fork_point),
//@ end
//@ extract chain/src/chain.rs :: impl Chain::process_block_single
//@   strip_logs
//@   sigrewrite `fn process_block_single(&self, b: Block, opts: Options)` => `fn process_block_single(&mut self, b: Block, opts: Options)`
//@   rewrite `ctx.batch.commit()?;` => `self.commit_ctx(ctx)?;`
//@   rewrite `self.adapter.block_accepted(` => `self.adapter_block_accepted(`
//@   ensures:
//@+    // nothing is committed, or exactly the batch in which pipe accepted THIS block
//@+    final(self).committed@ == old(self).committed@ || final(self).committed@ == old(self).committed@.push(Some(b.id)),
//@+    r.is_ok() ==> final(self).committed@ == old(self).committed@.push(Some(b.id)),
//@+    // the adapter hears about it once, after the commit, with the right status -- and never about a refused block
//@+    final(self).notices@ == old(self).notices@ || (final(self).committed@ == old(self).committed@.push(Some(b.id))
//@+        && final(self).notices@ == old(self).notices@.push(Notice { block: b.id,
//@+            status: Chain::sp_status(sp_pipe(b.id).0, Tip::sp_from_header(sp_prev(b.header)), sp_body_head(), Tip::sp_from_header(sp_pipe(b.id).1)) })),
//@+    r matches Ok(h) ==> h == sp_pipe(b.id).0,
//@+    r.is_ok() ==> final(self).notices@.len() == old(self).notices@.len() + 1,
//@ end
}
//@ canary process_block_single: r.is_err()
