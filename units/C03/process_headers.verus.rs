//@ assume: BlockContext / Batch / HeaderExtension are abstract (owned fields, ghost field for the stored header head, rollback flag); validate_header, add_block_header, rewind_and_apply_header_fork, is_on_current_chain are abstract with uninterpreted "this check passed" meanings (validate_header is under contract in C04); Difficulty comparison is numeric (Kani unit more_work)
//@ assume: txhashset::header_extending is abstract (it builds structs holding `&mut` borrows): assumed to return Ok(v) only if the closure returned Ok(v), to keep the closure's index writes (made on a child batch) only if the closure did not force a rollback, and to leave the batch untouched on Err
//@ assume: T7: the closure passed to txhashset::header_extending is lifted to pbhs_inner (captured last_header, sync_head, head, ctx_specific_validation become parameters). T6: `headers.last().expect(..)` => helper last_of (requires non-empty, returns the last element); `last_header.into()` => tip_from (the From<&BlockHeader> impl, field-for-field the same as Tip::from_header); `&mut batch` on the closure's `mut batch: &mut Batch` parameter => `batch`; `for header in headers {` => Verus iterator loop with spliced invariant; log macros removed
//@ assume: decided here: pipe::process_block_headers (header sync) moves the stored header head ONLY to the tip of the LAST header of the batch, ONLY if that header has strictly more total difficulty than the header head read at the start, and ONLY after EVERY header of the batch passed validate_header and the fork was applied to the header MMR; otherwise the header extension is force-rolled-back and the header head is untouched (also on every error path and for an empty batch)
//@ assume: decided here (C04, 'a header is accepted only if it ... commits to the header-MMR root of its ancestors', for the header-sync entry point): every header that process_block_headers ADDS TO THE STORE in a call that returns Ok passed validate_header AND is the last header of the batch or one of its ancestors by prev_hash links -- the only headers rewind_and_apply_header_fork checks against the header MMR root (assumed here: a successful rewind_and_apply_header_fork(last) means every header on last's ancestry commits to the header-MMR root of its own ancestors -- the fork headers are validate_root-ed there (C04/header_fork), those below the fork point when they entered the MMR); ancestry is the reflexive-transitive closure of `child.prev_hash == parent.hash()` (axioms ax_anc; hashes identify headers)
//@ assumed_items: 20
//@ import: use vstd::std_specs::cmp::PartialEqSpecImpl;
//@ fns: pipe::process_block_headers, pipe::process_block_headers (closure passed to txhashset::header_extending), pipe::has_more_work, pipe::update_header_head
#[derive(Clone, Copy)]
pub struct Hash { pub v: u64 }
impl PartialEqSpecImpl for Hash { open spec fn obeys_eq_spec() -> bool { true } open spec fn eq_spec(&self, other: &Hash) -> bool { self.v == other.v } }
impl PartialEq for Hash { fn eq(&self, other: &Hash) -> (r: bool) { self.v == other.v } }
#[derive(Clone, Copy, PartialEq, Eq, PartialOrd, Ord)]
pub struct Difficulty { pub num: u64 }
#[derive(Clone, Copy)]
pub struct BlockHeader { pub height: u64, pub td: Difficulty, pub prev_hash: Hash, pub id: Hash }
#[derive(Clone, Copy)]
pub struct Tip { pub height: u64, pub last_block_h: Hash, pub prev_block_h: Hash, pub total_difficulty: Difficulty }
pub enum Error { Rejected, StoreErr, Unfit(Msg) }
pub struct Msg;
fn unfit_msg() -> Msg { Msg }
#[verifier::external_body]
pub struct Allowed { _p: u8 }
#[verifier::external_body]
pub struct HeaderPmmr { _p: u8 }

impl BlockHeader {
    pub fn total_difficulty(&self) -> (r: Difficulty) ensures r == self.td { self.td }
    pub fn hash(&self) -> (r: Hash) ensures r == self.id { self.id }
}
fn diff_gt(a: Difficulty, b: Difficulty) -> (r: bool) ensures r == (a.num > b.num) { a.num > b.num }
impl Tip {
    pub open spec fn sp_from_header(h: BlockHeader) -> Tip { Tip { height: h.height, last_block_h: h.id, prev_block_h: h.prev_hash, total_difficulty: h.td } }
    #[verifier::external_body]
    pub fn from_header(h: &BlockHeader) -> (r: Tip) ensures r == Tip::sp_from_header(*h) { unimplemented!() }
}
pub uninterp spec fn sp_prev(h: BlockHeader) -> BlockHeader;
pub uninterp spec fn sp_header_valid(h: BlockHeader) -> bool;
pub uninterp spec fn sp_hfork_done(prev: BlockHeader) -> bool;
/// h commits to the header-MMR root of its ancestors
pub uninterp spec fn sp_root_ok(h: BlockHeader) -> bool;
/// a is b or one of b's ancestors (by prev_hash links)
pub uninterp spec fn sp_anc(a: BlockHeader, b: BlockHeader) -> bool;
pub open spec fn sp_link(parent: BlockHeader, child: BlockHeader) -> bool { child.prev_hash == parent.id }
#[verifier::external_body]
pub proof fn ax_anc()
    ensures forall|h: BlockHeader| #[trigger] sp_anc(h, h),
            forall|a: BlockHeader, b: BlockHeader, c: BlockHeader| #![trigger sp_anc(a, b), sp_link(b, c)] sp_anc(a, b) && sp_link(b, c) ==> sp_anc(a, c) { }
/// the fork ending in `prev` is on the header MMR: every header of prev's ancestry was checked against the MMR root
pub open spec fn sp_hfork_applied(prev: BlockHeader) -> bool { sp_hfork_done(prev) && forall|h: BlockHeader| #[trigger] sp_anc(h, prev) ==> sp_root_ok(h) }
pub uninterp spec fn sp_root_valid(h: BlockHeader) -> bool;
pub uninterp spec fn sp_header_applied(h: BlockHeader) -> bool;
pub open spec fn sp_more_work(h: BlockHeader, head: Tip) -> bool { h.td.num > head.total_difficulty.num }

pub struct Batch { pub header_head: Ghost<Tip>, pub added: Ghost<Set<BlockHeader>>, pub _p: u8 }
impl Batch {
    #[verifier::external_body]
    pub fn head(&self) -> (r: Result<Tip, Error>) { unimplemented!() }
    #[verifier::external_body]
    pub fn header_head(&self) -> (r: Result<Tip, Error>) ensures r matches Ok(t) ==> t == self.header_head@ { unimplemented!() }
    #[verifier::external_body]
    pub fn get_previous_header(&self, h: &BlockHeader) -> (r: Result<BlockHeader, Error>) ensures r matches Ok(p) ==> p == sp_prev(*h) { unimplemented!() }
    #[verifier::external_body]
    pub fn get_block_header(&self, h: &Hash) -> (r: Result<BlockHeader, Error>) { unimplemented!() }
    #[verifier::external_body]
    pub fn save_header_head(&mut self, t: &Tip) -> (r: Result<(), Error>)
        ensures r.is_ok() ==> final(self).header_head@ == *t, r.is_err() ==> final(self).header_head@ == old(self).header_head@, final(self).added@ == old(self).added@ { unimplemented!() }
}
pub struct HeaderExtension { pub rollback: bool }
impl HeaderExtension {
//@ extract chain/src/txhashset/txhashset.rs :: impl HeaderExtension::force_rollback
//@   ensures:
//@+    final(self).rollback,
//@ end
    #[verifier::external_body]
    pub fn validate_root(&self, h: &BlockHeader) -> (r: Result<(), Error>) ensures r.is_ok() ==> sp_root_valid(*h) { unimplemented!() }
    #[verifier::external_body]
    pub fn apply_header(&mut self, h: &BlockHeader) -> (r: Result<(), Error>)
        ensures r.is_ok() ==> sp_header_applied(*h), final(self).rollback == old(self).rollback { unimplemented!() }
}
pub struct BlockContext { pub batch: Batch, pub header_pmmr: HeaderPmmr, pub header_allowed: Allowed }

#[verifier::external_body]
fn check_known(header: &BlockHeader, head: &Tip, ctx: &BlockContext) -> (r: Result<(), Error>) { unimplemented!() }
#[verifier::external_body]
fn validate_header(header: &BlockHeader, ctx: &mut BlockContext) -> (r: Result<(), Error>)
    ensures r.is_ok() ==> sp_header_valid(*header), final(ctx).batch.header_head@ == old(ctx).batch.header_head@, final(ctx).batch.added@ == old(ctx).batch.added@ { unimplemented!() }
#[verifier::external_body]
pub fn rewind_and_apply_header_fork(prev: &BlockHeader, ext: &mut HeaderExtension, batch: &mut Batch, allowed: &Allowed) -> (r: Result<(), Error>)
    ensures r.is_ok() ==> sp_hfork_applied(*prev), final(ext).rollback == old(ext).rollback, final(batch).header_head@ == old(batch).header_head@, final(batch).added@ == old(batch).added@ { unimplemented!() }
#[verifier::external_body]
fn add_block_header(bh: &BlockHeader, batch: &mut Batch) -> (r: Result<(), Error>)
    ensures final(batch).header_head@ == old(batch).header_head@, final(batch).added@ == old(batch).added@.insert(*bh) { unimplemented!() }


pub uninterp spec fn sp_on_current(t: Tip) -> bool;
impl HeaderExtension {
    #[verifier::external_body]
    pub fn is_on_current_chain(&self, t: Tip, batch: &Batch) -> (r: Result<bool, Error>) ensures r matches Ok(b) ==> b == sp_on_current(t) { unimplemented!() }
}
#[verifier::external_body]
fn last_of(headers: &[BlockHeader]) -> (r: &BlockHeader) requires headers@.len() > 0 ensures *r == headers@.last() { unimplemented!() }
#[verifier::external_body]
fn tip_from(h: &BlockHeader) -> (r: Tip) ensures r == Tip::sp_from_header(*h) { unimplemented!() }

//@ extract chain/src/pipe.rs :: fn has_more_work
//@   rewrite `header.total_difficulty() > head.total_difficulty` => `diff_gt(header.total_difficulty(), head.total_difficulty)`
//@   ensures:
//@+    r == sp_more_work(*header, *head),
//@ end

//@ extract chain/src/pipe.rs :: fn update_header_head
//@   strip_logs
//@   sigrewrite `batch: &mut store::Batch<'_>` => `batch: &mut Batch`
//@   rewrite `\t\t.save_header_head(&head)\n\t\t.map_err(|e| Error::StoreErr(e, "pipe save header head".to_owned()))?;` => `\t\t.save_header_head(&head)?;`
//@   ensures:
//@+    r.is_ok() ==> final(batch).header_head@ == *head,
//@+    r.is_err() ==> final(batch).header_head@ == old(batch).header_head@,
//@ end

/// what the closure establishes on Ok: the fork was applied; the (child) batch's header head is the last header's tip iff it has more work, else unchanged and rolled back
pub open spec fn sp_hsinner_ok(last: BlockHeader, head: Tip, old_hh: Tip, new_hh: Tip, rolled_back: bool) -> bool {
    sp_hfork_applied(last)
    && (sp_more_work(last, head) ==> new_hh == Tip::sp_from_header(last))
    && (!sp_more_work(last, head) ==> rolled_back && new_hh == old_hh)
}

//@ extract chain/src/pipe.rs :: fn process_block_headers
//@   closure 1 lifted_as `fn pbhs_inner(ext: &mut HeaderExtension, batch: &mut Batch, last_header: &BlockHeader, sync_head: Tip, head: Tip, ctx_specific_validation: &Allowed) -> Result<Option<Tip>, Error>`
//@   rewrite `rewind_and_apply_header_fork(&last_header, ext, batch, ctx_specific_validation)?;` => `rewind_and_apply_header_fork(last_header, ext, batch, ctx_specific_validation)?;`
//@   rewrite `last_header.into()` => `tip_from(last_header)` x2
//@   rewrite `update_header_head(&header_head, &mut batch)?;` => `update_header_head(&header_head, batch)?;`
//@   rewrite `let header_head = tip_from(last_header);` => `let header_head: Tip = tip_from(last_header);`
//@   ensures:
//@+    r.is_ok() ==> sp_hsinner_ok(*last_header, head, old(batch).header_head@, final(batch).header_head@, final(ext).rollback),
//@+    r.is_err() ==> true,
//@ end

#[verifier::external_body]
fn arbitrary_tip() -> (r: Tip) { unimplemented!() }
pub struct HsInnerEnv<'a> { pub last_header: &'a BlockHeader, pub sync_head: Tip, pub head: Tip }
#[verifier::external_body]
fn header_extending_pbhs(allowed: &Allowed, header_pmmr: &mut HeaderPmmr, batch: &mut Batch, env: HsInnerEnv) -> (r: Result<Option<Tip>, Error>)
    ensures r.is_ok() ==> exists|hh: Tip, rb: bool| sp_hsinner_ok(*env.last_header, env.head, old(batch).header_head@, hh, rb)
                && final(batch).header_head@ == (if rb { old(batch).header_head@ } else { hh }),
            r.is_err() ==> final(batch).header_head@ == old(batch).header_head@,
            final(batch).added@ == old(batch).added@ { unimplemented!() }

/// the store's added headers are the old ones plus the first `upto` of the batch
pub open spec fn added_upto(added: Set<BlockHeader>, old_added: Set<BlockHeader>, hs: Seq<BlockHeader>, upto: int) -> bool {
    forall|h: BlockHeader| #[trigger] added.contains(h) ==> old_added.contains(h) || exists|j: int| 0 <= j < upto && hs[j] == h
}
pub open spec fn all_anc(hs: Seq<BlockHeader>, upto: int) -> bool { forall|j: int| 0 <= j < upto ==> sp_anc(#[trigger] hs[j], hs[upto - 1]) }
pub open spec fn all_valid(hs: Seq<BlockHeader>, upto: int) -> bool { forall|i: int| 0 <= i < upto ==> sp_header_valid(#[trigger] hs[i]) }

//@ extract chain/src/pipe.rs :: fn process_block_headers
//@   strip_logs
//@   sigrewrite `ctx: &mut BlockContext<'_>` => `ctx: &mut BlockContext`
//@   closure 1 replaced_by `HsInnerEnv { last_header, sync_head, head: {head?arbitrary_tip()} }`
//@   rewrite `let last_header = headers.last().expect("last header");` => `let last_header = last_of(headers);`
//@   rewrite `for header in headers {` => `for header in it: headers.iter() {`
//@   rewrite `\tlet ctx_specific_validation = &ctx.header_allowed;\n` => ``
//@   rewrite `txhashset::header_extending(&mut ctx.header_pmmr, &mut ctx.batch, HsInnerEnv {` => `header_extending_pbhs(&ctx.header_allowed, &mut ctx.header_pmmr, &mut ctx.batch, HsInnerEnv {`
//@   rewrite `"headers not linked".to_owned()` => `unfit_msg()` x?
//@   at_start:
//@+    // the variable the linkage check keeps (shadowed by the function's own one; without it the invariant below fails)
//@+    let prev_hash: Option<Hash> = None;
//@   after? `prev_hash = Some(header.hash());`:
//@+    proof { ax_anc();
//@+        assert(all_anc(headers@, it.index@ + 1)) by {
//@+            assert forall|j: int| 0 <= j < it.index@ + 1 implies sp_anc(#[trigger] headers@[j], headers@[it.index@ as int]) by {
//@+                if j < it.index@ { assert(sp_link(headers@[it.index@ - 1], headers@[it.index@ as int])); assert(sp_anc(headers@[j], headers@[it.index@ - 1])); }
//@+            }
//@+        }
//@+    }
//@   loop 1:
//@+    invariant
//@+        all_valid(headers@, it.index@ as int),
//@+        ctx.batch.header_head@ == old(ctx).batch.header_head@,
//@+        added_upto(ctx.batch.added@, old(ctx).batch.added@, headers@, it.index@ as int),
//@+        it.index@ > 0 ==> prev_hash == Some(headers@[it.index@ - 1].id),
//@+        all_anc(headers@, it.index@ as int),
//@   ensures:
//@+    final(ctx).batch.header_head@ == old(ctx).batch.header_head@ || (
//@+        r.is_ok() && headers@.len() > 0
//@+        && final(ctx).batch.header_head@ == Tip::sp_from_header(headers@.last())
//@+        && sp_more_work(headers@.last(), old(ctx).batch.header_head@)
//@+        && all_valid(headers@, headers@.len() as int)
//@+        && sp_hfork_applied(headers@.last())),
//@+    // C04: whatever this call added to the store is a valid header that commits to the header-MMR root of its ancestors
//@+    r.is_ok() ==> forall|h: BlockHeader| final(ctx).batch.added@.contains(h) && !old(ctx).batch.added@.contains(h) ==> sp_header_valid(h) && sp_root_ok(h),
//@ end
//@ canary process_block_headers: final(ctx).batch.header_head@ == old(ctx).batch.header_head@
