//@ assume: Chain / OrphanBlockPool are abstract; T5: `&self` => `&mut self` on check_orphan so that the orphan pool (interior-mutable) can carry a ghost log of what was added; head() / block_exists() are abstract reads of one state; hashes compare by value
//@ assume: T6: `block.clone()` => clone_block(block) (a copy), `Instant::now()` => instant_now(), `"duplicate block".into()` => msg(); T3: debug! (with its format! argument) removed
//@ assume: decided here (C03, 'parents-after-children within the orphan capacity'): Chain::check_orphan lets a block through exactly when its parent is the body head or a stored block; otherwise it puts THAT block with THOSE options into the orphan pool and answers Orphan -- nothing is added on any other path; Chain::is_known refuses a block as a duplicate exactly when it IS the head, or has no more total difficulty than the head and is stored -- a block with more work than the head is never refused as known
//@ assumed_items: 8
//@ fns: Chain::check_orphan, Chain::is_known
//@ import: use vstd::std_specs::cmp::PartialEqSpecImpl;
#[derive(Clone, Copy)]
pub struct Hash { pub v: u64 }
impl PartialEqSpecImpl for Hash { open spec fn obeys_eq_spec() -> bool { true } open spec fn eq_spec(&self, other: &Hash) -> bool { self.v == other.v } }
impl PartialEq for Hash { fn eq(&self, other: &Hash) -> (r: bool) { self.v == other.v } }
#[derive(Clone, Copy)]
pub struct Difficulty { pub num: u64 }
impl vstd::std_specs::cmp::PartialOrdSpecImpl for Difficulty {
    open spec fn obeys_partial_cmp_spec() -> bool { true }
    open spec fn partial_cmp_spec(&self, other: &Difficulty) -> Option<core::cmp::Ordering> {
        if self.num < other.num { Some(core::cmp::Ordering::Less) } else if self.num == other.num { Some(core::cmp::Ordering::Equal) } else { Some(core::cmp::Ordering::Greater) } }
}
impl PartialEqSpecImpl for Difficulty { open spec fn obeys_eq_spec() -> bool { true } open spec fn eq_spec(&self, other: &Difficulty) -> bool { self.num == other.num } }
impl PartialEq for Difficulty { fn eq(&self, other: &Difficulty) -> (r: bool) { self.num == other.num } }
impl PartialOrd for Difficulty {
    fn partial_cmp(&self, other: &Difficulty) -> (r: Option<core::cmp::Ordering>) {
        if self.num < other.num { Some(core::cmp::Ordering::Less) } else if self.num == other.num { Some(core::cmp::Ordering::Equal) } else { Some(core::cmp::Ordering::Greater) } }
}
#[derive(Clone, Copy)]
pub struct BlockHeader { pub height: u64, pub prev_hash: Hash, pub id: Hash, pub td: Difficulty }
impl BlockHeader {
    pub fn hash(&self) -> (r: Hash) ensures r == self.id { self.id }
    pub fn total_difficulty(&self) -> (r: Difficulty) ensures r == self.td { self.td }
}
#[derive(Clone, Copy)]
pub struct Block { pub header: BlockHeader, pub body_id: u64 }
impl Block { pub fn hash(&self) -> (r: Hash) ensures r == self.header.id { self.header.id } }
pub fn clone_block(b: &Block) -> (r: Block) ensures r == *b { *b }
#[derive(Clone, Copy)]
pub struct Options { pub bits: u32 }
#[derive(Clone, Copy)]
pub struct Tip { pub height: u64, pub last_block_h: Hash, pub total_difficulty: Difficulty }
impl Tip { pub fn hash(&self) -> (r: Hash) ensures r == self.last_block_h { self.last_block_h } }
pub struct Msg;
pub fn msg() -> Msg { Msg }
pub enum Error { Orphan, Unfit(Msg), Store }
#[derive(Clone, Copy)]
pub struct Instant { pub _p: u8 }
#[verifier::external_body]
pub fn instant_now() -> Instant { unimplemented!() }
#[derive(Clone, Copy)]
pub struct Orphan { pub block: Block, pub opts: Options, pub added: Instant }
pub struct OrphanBlockPool { pub added: Ghost<Seq<(Block, Options)>> }
impl OrphanBlockPool {
    #[verifier::external_body]
    pub fn add(&mut self, orphan: Orphan) ensures final(self).added@ == old(self).added@.push((orphan.block, orphan.opts)) { unimplemented!() }
}
pub uninterp spec fn sp_head() -> Tip;
pub uninterp spec fn sp_exists(h: Hash) -> bool;
pub struct Chain { pub orphans: OrphanBlockPool }
impl Chain {
    #[verifier::external_body]
    pub fn head(&self) -> (r: Result<Tip, Error>) ensures r matches Ok(t) ==> t == sp_head(), r matches Err(e) ==> !(e is Orphan) && !(e is Unfit) { unimplemented!() }
    #[verifier::external_body]
    pub fn block_exists(&self, h: Hash) -> (r: Result<bool, Error>) ensures r matches Ok(b) ==> b == sp_exists(h), r matches Err(e) ==> !(e is Orphan) && !(e is Unfit) { unimplemented!() }
    /// offered (not used by the pinned text): reads of the HEADER chain -- what they answer says nothing about which full blocks are stored
    #[verifier::external_body]
    pub fn get_previous_header(&self, h: &BlockHeader) -> (r: Result<BlockHeader, Error>) ensures r matches Err(e) ==> !(e is Orphan) && !(e is Unfit) { unimplemented!() }
    #[verifier::external_body]
    pub fn is_on_current_chain(&self, h: &BlockHeader, head: Tip) -> (r: Result<(), Error>) { unimplemented!() }
    #[verifier::external_body]
    pub fn get_block_header(&self, h: &Hash) -> (r: Result<BlockHeader, Error>) ensures r matches Err(e) ==> !(e is Orphan) && !(e is Unfit) { unimplemented!() }
    #[verifier::external_body]
    pub fn header_head(&self) -> (r: Result<Tip, Error>) ensures r matches Err(e) ==> !(e is Orphan) && !(e is Unfit) { unimplemented!() }
//@ extract chain/src/chain.rs :: impl Chain::is_known
//@   rewrite `"duplicate block".into()` => `msg()` x?
//@   ensures:
//@+    r.is_ok() ==> !(sp_head().last_block_h.v == header.id.v) && !(header.td.num <= sp_head().total_difficulty.num && sp_exists(header.id)),
//@+    (r matches Err(e) && e is Unfit) ==> sp_head().last_block_h.v == header.id.v || (header.td.num <= sp_head().total_difficulty.num && sp_exists(header.id)),
//@ end
//@ extract chain/src/chain.rs :: impl Chain::check_orphan
//@   strip_logs
//@   sigrewrite `fn check_orphan(&self, block: &Block, opts: Options)` => `fn check_orphan(&mut self, block: &Block, opts: Options)`
//@   rewrite `block.clone()` => `clone_block(block)` x?
//@   rewrite `Instant::now()` => `instant_now()` x?
//@   ensures:
//@+    r.is_ok() ==> final(self).orphans.added@ == old(self).orphans.added@ && (block.header.prev_hash.v == sp_head().last_block_h.v || sp_exists(block.header.prev_hash)),
//@+    (r matches Err(e) && e is Orphan) ==> final(self).orphans.added@ == old(self).orphans.added@.push((*block, opts))
//@+        && !(block.header.prev_hash.v == sp_head().last_block_h.v) && !sp_exists(block.header.prev_hash),
//@+    (r matches Err(e) && !(e is Orphan)) ==> final(self).orphans.added@ == old(self).orphans.added@,
//@ end
}
//@ canary check_orphan: r.is_ok()
