//@ crate: grin_chain
//@ target: chain/src/pipe.rs
//@ assume: HashWriter::finalize stubbed to a constant digest (header identity plays no role in the work comparison)
//@ assume: only the 'head moves only to strictly more work' clause is decided; delivery-order independence and head = argmax over accepted blocks are history properties outside this family (DESIGN 6 C03)
//@ harness c03_has_more_work_strict kind=complete tier=quick fns=pipe::has_more_work,BlockHeader::total_difficulty,Difficulty::cmp,Difficulty::to_num bound=-
//@ harness c03_tip_from_header kind=complete tier=quick fns=Tip::from_header,Tip::from bound=-
use crate::verif_kani_support::*;

/// has_more_work(h, t) <=> h.total_difficulty (as a number) > t.total_difficulty: strict, for all u64 pairs.
#[kani::proof]
#[kani::unwind(34)]
#[kani::stub(alloc::fmt::format, stub_format)]
#[kani::stub(crate::core::global::get_chain_type, stub_get_chain_type)]
fn c03_has_more_work_strict() {
	init_globals();
	let a: u64 = kani::any();
	let b: u64 = kani::any();
	kani::assume(a >= 1 && b >= 1);
	let header = header_with(kani::any(), a);
	let tip = Tip {
		height: kani::any(),
		last_block_h: crate::core::core::hash::ZERO_HASH,
		prev_block_h: crate::core::core::hash::ZERO_HASH,
		total_difficulty: crate::core::pow::Difficulty::from_num(b),
	};
	assert!(has_more_work(&header, &tip) == (a > b), "C03: head may only move to strictly more work");
	assert!(header.total_difficulty().to_num() == a);
	// the derived ordering on Difficulty agrees with the numeric one
	assert!((header.total_difficulty() > tip.total_difficulty) == (a > b));
	assert!((header.total_difficulty() <= tip.total_difficulty) == (a <= b));
	core::mem::forget(header); // BlindingFactor zeroizes on drop with inline asm, which Kani cannot model
}

/// Tip::from_header copies height, prev hash and cumulative difficulty unchanged.
#[kani::proof]
#[kani::unwind(34)]
#[kani::stub(alloc::fmt::format, stub_format)]
#[kani::stub(crate::core::core::hash::HashWriter::finalize, stub_finalize)]
#[kani::stub(blake2_rfc::blake2b::Blake2b::update, stub_blake_update)]
#[kani::stub(crate::core::global::get_chain_type, stub_get_chain_type)]
fn c03_tip_from_header() {
	init_globals();
	let h: u64 = kani::any();
	let a: u64 = kani::any();
	kani::assume(a >= 1);
	let header = header_with(h, a);
	let tip = Tip::from_header(&header);
	assert!(tip.height == h);
	assert!(tip.total_difficulty.to_num() == a);
	assert!(tip.prev_block_h == header.prev_hash);
	assert!(!has_more_work(&header, &tip), "a header never has more work than its own tip");
	core::mem::forget(header);
}
