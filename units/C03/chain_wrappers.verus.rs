//@ assume: Chain's collaborators are abstract: the RwLock write guards are plain values (T6: `self.header_pmmr.write()` => self.header_pmmr_write(), `self.txhashset.write()` => self.txhashset_write(); lock order is C17, not decided); store.batch() opens a batch whose commit is recorded; Chain::new_ctx bundles exactly the batch and handles it is given (its option plumbing is not decided); pipe::process_block_header / process_block_headers (C03/process_header, C03/process_headers) are uninterpreted predicates of (header(s), the batch they ran in); Chain::validate_tx_against_utxo / validate_tx_kernels (C13/validate_tx_kernels, C02/utxo_block) likewise
//@ assume: decided here (C03 / C06 'rejected input leaves the state untouched', C14 'every input exists in the unspent set', the Chain-level wrappers): Chain::process_block_header and Chain::sync_block_headers COMMIT their database batch only if the pipeline accepted the header(s) IN THAT BATCH, and return the pipeline's answer -- on any error nothing is committed; Chain::validate_tx (what the pool calls) answers Ok only if BOTH the UTXO check and the kernel (NRD) check passed for THAT transaction
//@ assumed_items: 9
//@ fns: Chain::process_block_header, Chain::sync_block_headers, Chain::validate_tx
pub enum Error { Store, Pipe, Utxo, Kernel }
#[derive(Clone, Copy, PartialEq, Eq)]
pub struct BlockHeader { pub id: u64 }
#[derive(Clone, Copy, PartialEq, Eq)]
pub struct Tip { pub id: u64 }
#[derive(Clone, Copy, PartialEq, Eq)]
pub struct Options { pub bits: u32 }
#[derive(Clone, Copy, PartialEq, Eq)]
pub struct Transaction { pub id: u64 }
#[derive(Clone, Copy, PartialEq, Eq)]
pub struct OutputIdentifier { pub v: u64 }
#[derive(Clone, Copy, PartialEq, Eq)]
pub struct CommitPos { pub v: u64 }
pub struct PMMRHandle { pub _p: u8 }
pub struct TxHashSet { pub _p: u8 }
/// a database batch: an identity and whether the pipeline accepted something in it
pub struct Batch { pub id: Ghost<int>, pub accepted_header: Ghost<Option<BlockHeader>>, pub accepted_headers: Ghost<Option<Seq<BlockHeader>>> }
pub uninterp spec fn sp_committed(b: Batch) -> bool;
impl Batch {
    #[verifier::external_body]
    pub fn commit(self) -> (r: Result<(), Error>) ensures r is Ok ==> sp_committed(self) { unimplemented!() }
}
pub struct ChainStore { pub _p: u8 }
impl ChainStore {
    #[verifier::external_body]
    pub fn batch(&self) -> (r: Result<Batch, Error>) ensures r matches Ok(b) ==> b.accepted_header@ is None && b.accepted_headers@ is None { unimplemented!() }
}
pub struct BlockContext { pub opts: Options, pub batch: Batch }
pub mod pipe { use super::*;
    #[verifier::external_body]
    pub fn process_block_header(bh: &BlockHeader, ctx: &mut BlockContext) -> (r: Result<(), Error>)
        ensures final(ctx).batch.id == old(ctx).batch.id, r is Ok ==> final(ctx).batch.accepted_header@ == Some(*bh), r is Err ==> final(ctx).batch.accepted_header@ == old(ctx).batch.accepted_header@ { unimplemented!() }
    #[verifier::external_body]
    pub fn process_block_headers(headers: &[BlockHeader], sync_head: Tip, ctx: &mut BlockContext) -> (r: Result<Option<Tip>, Error>)
        ensures final(ctx).batch.id == old(ctx).batch.id, r is Ok ==> final(ctx).batch.accepted_headers@ == Some(headers@) && r == sp_sync_result(headers@, sync_head) { unimplemented!() }
}
pub uninterp spec fn sp_sync_result(hs: Seq<BlockHeader>, sync_head: Tip) -> Result<Option<Tip>, Error>;
pub uninterp spec fn sp_utxo_ok(t: Transaction) -> bool;
pub uninterp spec fn sp_kernels_ok(t: Transaction) -> bool;
pub struct Chain { pub store: ChainStore }
impl Chain {
    #[verifier::external_body]
    pub fn header_pmmr_write(&self) -> (r: PMMRHandle) { unimplemented!() }
    #[verifier::external_body]
    pub fn txhashset_write(&self) -> (r: TxHashSet) { unimplemented!() }
    #[verifier::external_body]
    pub fn new_ctx(&self, opts: Options, batch: Batch, header_pmmr: &mut PMMRHandle, txhashset: &mut TxHashSet) -> (r: Result<BlockContext, Error>) ensures r matches Ok(c) ==> c.batch == batch && c.opts == opts { unimplemented!() }
    #[verifier::external_body]
    fn validate_tx_against_utxo(&self, tx: &Transaction) -> (r: Result<Vec<(OutputIdentifier, CommitPos)>, Error>) ensures r is Ok ==> sp_utxo_ok(*tx) { unimplemented!() }
    #[verifier::external_body]
    fn validate_tx_kernels(&self, tx: &Transaction) -> (r: Result<(), Error>) ensures r is Ok ==> sp_kernels_ok(*tx) { unimplemented!() }
//@ extract chain/src/chain.rs :: impl Chain::process_block_header
//@   rewrite `self.header_pmmr.write()` => `self.header_pmmr_write()`
//@   rewrite `self.txhashset.write()` => `self.txhashset_write()`
//@   ensures:
//@+    r is Ok ==> exists|b: Batch| #[trigger] sp_committed(b) && b.accepted_header@ == Some(*bh),
//@ end
//@ extract chain/src/chain.rs :: impl Chain::sync_block_headers
//@   rewrite `self.header_pmmr.write()` => `self.header_pmmr_write()`
//@   rewrite `self.txhashset.write()` => `self.txhashset_write()`
//@   ensures:
//@+    r is Ok ==> r == sp_sync_result(headers@, sync_head) && exists|b: Batch| #[trigger] sp_committed(b) && b.accepted_headers@ == Some(headers@),
//@ end
//@ extract chain/src/chain.rs :: impl Chain::validate_tx
//@   ensures:
//@+    r is Ok ==> sp_utxo_ok(*tx) && sp_kernels_ok(*tx),
//@ end
}
//@ canary process_block_header: r is Err
//@ canary validate_tx: r is Err
