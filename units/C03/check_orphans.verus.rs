//@ assume: Chain / OrphanBlockPool are abstract; T5: the `&self` receivers of check_orphans / process_block_single / OrphanBlockPool::remove_by_height are made `&mut self` so that the interior-mutable state they touch can carry ghost logs (locking is not verified); process_block_single is an abstract callee (its pipeline is under contract in C03/process_block, C03/pipe_helpers) that logs the (block, options) it was handed; remove_by_height logs the orphans it took out of the pool
//@ assume: T6: `for (i, orphan) in orphans.into_iter().enumerate() {` => the verifier's `for x in it: slice.iter()` form + a copy of the element (`i` is used by the debug! line only); T3: trace!/debug! removed (with them the only uses of `i`, `orphans_len`, `initial_height`)
//@ assume: process_block_single returns Ok only for a block whose header was validated, so height < u64::MAX (C04/validate_header proves the height rule); termination of the outer loop is NOT proved: exec_allows_no_decreases_clause
//@ assume: decided here (C03, 'every delivery order (parents-after-children within orphan capacity) finishes on the same head'): Chain::check_orphans hands EVERY orphan it takes out of the pool to process_block_single, in order, none dropped, none twice -- the log of processed blocks grows by exactly the log of removed orphans
//@ assumed_items: 2
//@ fns: Chain::check_orphans
#[derive(Clone, Copy)]
pub struct BlockHeader { pub height: u64 }
#[derive(Clone, Copy)]
pub struct Block { pub header: BlockHeader, pub body_id: u64 }
#[derive(Clone, Copy)]
pub struct Options { pub bits: u32 }
#[derive(Clone, Copy)]
pub struct Tip { pub height: u64 }
pub enum Error { Orphan, Other }
#[derive(Clone, Copy)]
pub struct Orphan { pub block: Block, pub opts: Options }
pub struct OrphanBlockPool { pub removed: Ghost<Seq<Orphan>> }
impl OrphanBlockPool {
    #[verifier::external_body]
    pub fn remove_by_height(&mut self, height: u64) -> (r: Option<Vec<Orphan>>)
        ensures r matches Some(v) ==> final(self).removed@ == old(self).removed@ + v@, r.is_none() ==> final(self).removed@ == old(self).removed@ { unimplemented!() }
}
pub struct Chain { pub orphans: OrphanBlockPool, pub processed: Ghost<Seq<Orphan>> }
impl Chain {
    #[verifier::external_body]
    fn process_block_single(&mut self, b: Block, opts: Options) -> (r: Result<Option<Tip>, Error>)
        ensures final(self).processed@ == old(self).processed@.push(Orphan { block: b, opts }), final(self).orphans == old(self).orphans,
                r.is_ok() ==> b.header.height < u64::MAX { unimplemented!() }
//@ extract chain/src/chain.rs :: impl Chain::check_orphans
//@   attr: #[verifier::exec_allows_no_decreases_clause]
//@   strip_logs
//@   sigrewrite `fn check_orphans(&self, mut height: u64)` => `fn check_orphans(&mut self, mut height: u64)`
//@   rewrite `for (i, orphan) in orphans.into_iter().enumerate() {` => `for orphan_r in it: orphans.iter() { let orphan = *orphan_r;`
//@   requires:
//@+    old(self).processed@ == old(self).orphans.removed@,
//@   ensures:
//@+    final(self).processed@ == final(self).orphans.removed@,
//@   loop 1:
//@+    invariant
//@+        self.processed@ == self.orphans.removed@,
//@   before `let orphans_len = orphans.len();`:
//@+    let ghost p0 = self.processed@;
//@   loop 2:
//@+    invariant
//@+        self.orphans.removed@ == p0 + orphans@, self.processed@ == p0 + orphans@.take(it.index@ as int),
//@+        orphan_accepted ==> height_accepted < u64::MAX,
//@   after `for orphan_r in it: orphans.iter() { let orphan = *orphan_r;`:
//@+    proof { assert(orphans@.take(it.index@ + 1) =~= orphans@.take(it.index@ as int).push(orphan)); }
//@   before `if orphan_accepted {`:
//@+    proof { assert(orphans@.take(orphans@.len() as int) =~= orphans@); }
//@ end
}
//@ canary check_orphans: false
