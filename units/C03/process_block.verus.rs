//@ assume: BlockContext / Batch / ExtensionPair are abstract (owned fields instead of `&'a mut` ones; ghost fields for the stored body head and the extension's rollback flag); check_known, validate_pow_only, prev_header_store, process_block_header, validate_block, rewind_and_apply_fork, verify_coinbase_maturity, validate_utxo, verify_block_sums, apply_block_to_txhashset, add_block, update_body_tail are abstract with uninterpreted "this check passed" meanings (several are under contract in C01/C02/C04 units); Difficulty comparison is numeric (proved for the real types in the Kani unit more_work)
//@ assume: txhashset::extending is abstract (it builds structs holding `&mut` borrows, which Verus cannot type): assumed to return Ok(v) only if the closure returned Ok(v), and to keep the closure's writes only if the closure did not force a rollback
//@ assume: T7: the closure passed to txhashset::extending is lifted to the named function pb_inner (captured prev, b, ctx_specific_validation become parameters) and verified against the predicate the abstract `extending` hands back; in process_block the closure expression is replaced by the captured environment. T6: the four `let x = &mut ctx.field;` re-borrows are folded into the call; `?` error conversions dropped; log macros removed
//@ assume: decided here: pipe::process_block moves the stored chain head ONLY to the tip of the block being processed, ONLY if that block has strictly more total difficulty than the head read at the start, and ONLY after check_known, the PoW check, header processing, validate_block and the whole extension closure (fork rewind, coinbase maturity, UTXO validation, block sums, apply + roots/sizes) succeeded; when the block has no more work the extension is force-rolled-back and the head is left untouched; every error path leaves the stored head untouched
//@ assumed_items: 22
//@ import: use vstd::std_specs::cmp::PartialEqSpecImpl;
//@ fns: pipe::process_block, pipe::process_block (closure passed to txhashset::extending), pipe::has_more_work, pipe::update_head
#[derive(Clone, Copy)]
pub struct Hash { pub v: u64 }
impl PartialEqSpecImpl for Hash { open spec fn obeys_eq_spec() -> bool { true } open spec fn eq_spec(&self, other: &Hash) -> bool { self.v == other.v } }
impl PartialEq for Hash { fn eq(&self, other: &Hash) -> (r: bool) { self.v == other.v } }
#[derive(Clone, Copy, PartialEq, Eq, PartialOrd, Ord)]
pub struct Difficulty { pub num: u64 }
#[derive(Clone, Copy)]
pub struct BlockHeader { pub height: u64, pub td: Difficulty, pub prev_hash: Hash, pub id: Hash }
#[derive(Clone, Copy)]
pub struct Tip { pub height: u64, pub last_block_h: Hash, pub prev_block_h: Hash, pub total_difficulty: Difficulty }
pub struct Block { pub header: BlockHeader }
pub enum Error { Rejected, StoreErr }
#[verifier::external_body]
pub struct Allowed { _p: u8 }
#[verifier::external_body]
pub struct TxHashSet { _p: u8 }
#[verifier::external_body]
pub struct HeaderPmmr { _p: u8 }

impl BlockHeader {
    pub fn total_difficulty(&self) -> (r: Difficulty) ensures r == self.td { self.td }
    pub fn hash(&self) -> (r: Hash) ensures r == self.id { self.id }
}
fn diff_gt(a: Difficulty, b: Difficulty) -> (r: bool) ensures r == (a.num > b.num) { a.num > b.num }
impl Tip {
    pub open spec fn sp_from_header(h: BlockHeader) -> Tip { Tip { height: h.height, last_block_h: h.id, prev_block_h: h.prev_hash, total_difficulty: h.td } }
    #[verifier::external_body]
    pub fn from_header(h: &BlockHeader) -> (r: Tip) ensures r == Tip::sp_from_header(*h) { unimplemented!() }
}

pub uninterp spec fn sp_not_known(h: BlockHeader, head: Tip) -> bool;
pub uninterp spec fn sp_pow_ok(h: BlockHeader) -> bool;
pub uninterp spec fn sp_prev(h: BlockHeader) -> BlockHeader;   // the stored header h.prev_hash names
pub uninterp spec fn sp_header_processed(h: BlockHeader) -> bool;
pub uninterp spec fn sp_block_valid(b: Block) -> bool;
pub uninterp spec fn sp_fork_applied(prev: BlockHeader, fork_point: BlockHeader) -> bool;
pub uninterp spec fn sp_coinbase_mature(b: Block) -> bool;
pub uninterp spec fn sp_utxo_valid(b: Block) -> bool;
pub uninterp spec fn sp_block_sums_ok(b: Block) -> bool;
pub uninterp spec fn sp_applied_roots_sizes_ok(b: Block) -> bool;

pub open spec fn sp_more_work(h: BlockHeader, head: Tip) -> bool { h.td.num > head.total_difficulty.num }

pub struct Batch { pub body_head: Ghost<Tip>, pub saved_blocks: Ghost<Seq<Block>>, pub _p: u8 }
impl Batch {
    #[verifier::external_body]
    pub fn head(&self) -> (r: Result<Tip, Error>) ensures r matches Ok(t) ==> t == self.body_head@ { unimplemented!() }
    #[verifier::external_body]
    pub fn tail(&self) -> (r: Result<Tip, Error>) { unimplemented!() }
    #[verifier::external_body]
    pub fn save_body_head(&mut self, t: &Tip) -> (r: Result<(), Error>)
        ensures r.is_ok() ==> final(self).body_head@ == *t, r.is_err() ==> final(self).body_head@ == old(self).body_head@,
                final(self).saved_blocks@ == old(self).saved_blocks@ { unimplemented!() }
}
pub struct Extension { pub rollback: bool }
#[derive(Clone, Copy)]
pub struct HeaderExtension { pub _p: u8 }
pub trait HxArg {}
impl HxArg for HeaderExtension {}
impl<'a> HxArg for &'a HeaderExtension {}
impl<'a> HxArg for &'a mut HeaderExtension {}
pub struct ExtensionPair { pub header_extension: HeaderExtension, pub extension: Extension }
impl Extension {
    /// offered so that a variant of the closure that rewinds ONLY the txhashset extension is decided: it moves the three MMRs to `h`
    /// but says nothing about the header extension, which the fork rewind (sp_fork_applied) also has to put on the fork being extended
    #[verifier::external_body]
    pub fn rewind(&mut self, h: &BlockHeader, batch: &Batch) -> (r: Result<(), Error>) ensures final(self).rollback == old(self).rollback { unimplemented!() }
    /// offered so that a variant applying a block WITHOUT apply_block_to_txhashset's root / size validation is decided
    #[verifier::external_body]
    pub fn apply_block<H: HxArg>(&mut self, b: &Block, header_ext: H, batch: &mut Batch) -> (r: Result<(), Error>)
        ensures final(self).rollback == old(self).rollback, final(batch).body_head@ == old(batch).body_head@, final(batch).saved_blocks@ == old(batch).saved_blocks@ { unimplemented!() }
//@ extract chain/src/txhashset/txhashset.rs :: impl Extension::force_rollback
//@   ensures:
//@+    final(self).rollback,
//@ end
}
pub struct BlockContext { pub batch: Batch, pub txhashset: TxHashSet, pub header_pmmr: HeaderPmmr, pub header_allowed: Allowed }

#[verifier::external_body]
fn check_known(header: &BlockHeader, head: &Tip, ctx: &BlockContext) -> (r: Result<(), Error>)
    ensures r.is_ok() ==> sp_not_known(*header, *head) { unimplemented!() }
#[verifier::external_body]
fn validate_pow_only(header: &BlockHeader, ctx: &mut BlockContext) -> (r: Result<(), Error>)
    ensures r.is_ok() ==> sp_pow_ok(*header), final(ctx).batch.body_head@ == old(ctx).batch.body_head@ { unimplemented!() }
#[verifier::external_body]
fn prev_header_store(header: &BlockHeader, batch: &mut Batch) -> (r: Result<BlockHeader, Error>)
    ensures r matches Ok(p) ==> p == sp_prev(*header), final(batch).body_head@ == old(batch).body_head@ { unimplemented!() }
#[verifier::external_body]
pub fn process_block_header(header: &BlockHeader, ctx: &mut BlockContext) -> (r: Result<(), Error>)
    ensures r.is_ok() ==> sp_header_processed(*header), final(ctx).batch.body_head@ == old(ctx).batch.body_head@ { unimplemented!() }
#[verifier::external_body]
fn validate_block(block: &Block, ctx: &mut BlockContext) -> (r: Result<(), Error>)
    ensures r.is_ok() ==> sp_block_valid(*block), final(ctx).batch.body_head@ == old(ctx).batch.body_head@ { unimplemented!() }
#[verifier::external_body]
pub fn rewind_and_apply_fork(prev: &BlockHeader, ext: &mut ExtensionPair, batch: &mut Batch, allowed: &Allowed) -> (r: Result<BlockHeader, Error>)
    ensures r matches Ok(fp) ==> sp_fork_applied(*prev, fp), final(ext).extension.rollback == old(ext).extension.rollback,
            final(batch).body_head@ == old(batch).body_head@ { unimplemented!() }
#[verifier::external_body]
fn verify_coinbase_maturity(b: &Block, ext: &ExtensionPair, batch: &Batch) -> (r: Result<(), Error>)
    ensures r.is_ok() ==> sp_coinbase_mature(*b) { unimplemented!() }
#[verifier::external_body]
fn validate_utxo(b: &Block, ext: &mut ExtensionPair, batch: &Batch) -> (r: Result<(), Error>)
    ensures r.is_ok() ==> sp_utxo_valid(*b), final(ext).extension.rollback == old(ext).extension.rollback { unimplemented!() }
#[verifier::external_body]
fn verify_block_sums(b: &Block, batch: &mut Batch) -> (r: Result<(), Error>)
    ensures r.is_ok() ==> sp_block_sums_ok(*b), final(batch).body_head@ == old(batch).body_head@ { unimplemented!() }
#[verifier::external_body]
fn apply_block_to_txhashset(b: &Block, ext: &mut ExtensionPair, batch: &mut Batch) -> (r: Result<(), Error>)
    ensures r.is_ok() ==> sp_applied_roots_sizes_ok(*b), final(ext).extension.rollback == old(ext).extension.rollback,
            final(batch).body_head@ == old(batch).body_head@ { unimplemented!() }
#[verifier::external_body]
fn add_block(b: &Block, batch: &mut Batch) -> (r: Result<(), Error>)
    ensures r.is_ok() ==> final(batch).saved_blocks@ == old(batch).saved_blocks@.push(*b), final(batch).body_head@ == old(batch).body_head@ { unimplemented!() }
#[verifier::external_body]
fn update_body_tail(bh: &BlockHeader, batch: &mut Batch) -> (r: Result<(), Error>)
    ensures final(batch).body_head@ == old(batch).body_head@, final(batch).saved_blocks@ == old(batch).saved_blocks@ { unimplemented!() }

//@ extract chain/src/pipe.rs :: fn has_more_work
//@   rewrite `header.total_difficulty() > head.total_difficulty` => `diff_gt(header.total_difficulty(), head.total_difficulty)`
//@   ensures:
//@+    r == sp_more_work(*header, *head),
//@ end

//@ extract chain/src/pipe.rs :: fn update_head
//@   strip_logs
//@   sigrewrite `batch: &mut store::Batch<'_>` => `batch: &mut Batch`
//@   rewrite `\t\t.save_body_head(&head)\n\t\t.map_err(|e| Error::StoreErr(e, "pipe save body".to_owned()))?;` => `\t\t.save_body_head(&head)?;`
//@   ensures:
//@+    r.is_ok() ==> final(batch).body_head@ == *head,
//@+    r.is_err() ==> final(batch).body_head@ == old(batch).body_head@,
//@+    final(batch).saved_blocks@ == old(batch).saved_blocks@,
//@ end

/// what the extension closure establishes when it returns Ok(fork_point), given the head the (child) batch reports
pub open spec fn sp_inner_ok(prev: BlockHeader, b: Block, head: Tip, fork_point: BlockHeader, rolled_back: bool) -> bool {
    sp_fork_applied(prev, fork_point) && sp_coinbase_mature(b) && sp_utxo_valid(b) && sp_block_sums_ok(b) && sp_applied_roots_sizes_ok(b)
    && (!sp_more_work(b.header, head) ==> rolled_back)
}

//@ extract chain/src/pipe.rs :: fn process_block
//@   closure 1 lifted_as `fn pb_inner(ext: &mut ExtensionPair, batch: &mut Batch, prev: &BlockHeader, b: &Block, ctx_specific_validation: &Allowed, head: &Tip) -> Result<BlockHeader, Error>`
//@   rewrite `rewind_and_apply_fork(&prev, ext, batch, ctx_specific_validation)?` => `rewind_and_apply_fork(prev, ext, batch, ctx_specific_validation)?` x?
//@   ensures:
//@+    r matches Ok(fp) ==> sp_inner_ok(*prev, *b, old(batch).body_head@, fp, final(ext).extension.rollback),
//@+    final(batch).body_head@ == old(batch).body_head@,
//@ end

/// the closure returned Ok(fork_point) with some final value of the rollback flag
pub open spec fn sp_ext_ok(prev: BlockHeader, b: Block, head: Tip, fork_point: BlockHeader) -> bool {
    exists|rb: bool| sp_inner_ok(prev, b, head, fork_point, rb)
}
pub struct InnerEnv<'a> { pub prev: &'a BlockHeader, pub b: &'a Block }
/// txhashset::extending, abstract: Ok(v) only if the closure (pb_inner above) returned Ok(v); the closure ran against a child of
/// `batch` (same stored head); its index writes survive only if it did not force a rollback; the outer batch's head is not written.
#[verifier::external_body]
fn extending_pb(header_pmmr: &mut HeaderPmmr, trees: &mut TxHashSet, batch: &mut Batch, env: InnerEnv, allowed: &Allowed) -> (r: Result<BlockHeader, Error>)
    ensures r matches Ok(fp) ==> sp_ext_ok(*env.prev, *env.b, old(batch).body_head@, fp),
            final(batch).body_head@ == old(batch).body_head@, final(batch).saved_blocks@ == old(batch).saved_blocks@ { unimplemented!() }

//@ extract chain/src/pipe.rs :: fn process_block
//@   strip_logs
//@   sigrewrite `ctx: &mut BlockContext<'_>` => `ctx: &mut BlockContext`
//@   closure 1 replaced_by `InnerEnv { prev: &prev, b }`
//@   rewrite `\tlet header_pmmr = &mut ctx.header_pmmr;\n\tlet txhashset = &mut ctx.txhashset;\n\tlet batch = &mut ctx.batch;\n\tlet ctx_specific_validation = &ctx.header_allowed;\n` => ``
//@   rewrite `txhashset::extending(header_pmmr, txhashset, batch, InnerEnv { prev: &prev, b })?;` => `extending_pb(&mut ctx.header_pmmr, &mut ctx.txhashset, &mut ctx.batch, InnerEnv { prev: &prev, b }, &ctx.header_allowed)?;`
//@   ensures:
//@+    r matches Ok((Some(t), fp)) ==> t == Tip::sp_from_header(b.header) && final(ctx).batch.body_head@ == t,
//@+    r matches Ok((Some(t), fp)) ==> sp_more_work(b.header, old(ctx).batch.body_head@),
//@+    r matches Ok((_, fp)) ==> sp_not_known(b.header, old(ctx).batch.body_head@) && sp_pow_ok(b.header) && sp_header_processed(b.header) && sp_block_valid(*b),
//@+    r matches Ok((_, fp)) ==> sp_ext_ok(sp_prev(b.header), *b, old(ctx).batch.body_head@, fp),
//@+    r matches Ok((None, fp)) ==> !sp_more_work(b.header, old(ctx).batch.body_head@) && final(ctx).batch.body_head@ == old(ctx).batch.body_head@,
//@+    r.is_err() ==> final(ctx).batch.body_head@ == old(ctx).batch.body_head@,
//@ end
//@ canary process_block: r.is_err()
