//@ assume: Chain is abstract; T5: the `&self` receivers of process_block / process_block_single / check_orphans are made `&mut self` so that the interior-mutable state they touch (orphan pool, stores behind RwLock/LMDB) can carry a ghost log -- locking itself is not verified; process_block_single and check_orphans are abstract callees
//@ assume: process_block_single returns Ok only for a block whose header was validated, in particular height == parent height + 1, so height < u64::MAX (C04/validate_header proves the height rule)
//@ assume: decided here: Chain::process_block returns exactly what process_block_single returned and, whenever that is Ok -- whether or not the head moved (a block accepted onto a losing fork returns Ok(None)) -- re-examines the orphans waiting for height + 1, so a child that arrived before its parent is processed once the parent is accepted
//@ assumed_items: 2
//@ fns: Chain::process_block
pub struct BlockHeader { pub height: u64 }
pub struct Block { pub header: BlockHeader, pub body_id: u64 }
#[derive(Clone, Copy)]
pub struct Options { pub bits: u32 }
#[derive(Clone, Copy)]
pub struct Tip { pub height: u64 }
pub enum Error { Orphan, Other }
pub uninterp spec fn sp_single(c: Chain, b: Block, opts: Options) -> Result<Option<Tip>, Error>;
pub struct Chain { pub orphans_checked: Ghost<Seq<u64>>, pub state_id: Ghost<int> }
impl Chain {
    #[verifier::external_body]
    fn process_block_single(&mut self, b: Block, opts: Options) -> (r: Result<Option<Tip>, Error>)
        ensures r == sp_single(*old(self), b, opts), final(self).orphans_checked@ == old(self).orphans_checked@,
                r.is_ok() ==> b.header.height < u64::MAX { unimplemented!() }
    #[verifier::external_body]
    fn check_orphans(&mut self, height: u64)
        ensures final(self).orphans_checked@ == old(self).orphans_checked@.push(height) { unimplemented!() }

//@ extract chain/src/chain.rs :: impl Chain::process_block
//@   sigrewrite `pub fn process_block(&self, b: Block, opts: Options)` => `pub fn process_block(&mut self, b: Block, opts: Options)`
//@   ensures:
//@+    r == sp_single(*old(self), b, opts),
//@+    r.is_ok() ==> final(self).orphans_checked@ == old(self).orphans_checked@.push((b.header.height + 1) as u64),
//@+    r.is_err() ==> final(self).orphans_checked@ == old(self).orphans_checked@,
//@ end
}
//@ canary process_block: r.is_err()
