//@ assume: Batch (LMDB), the extension, Block::validate, Extension::apply_block / validate_roots / validate_sizes and the PoW verifier are abstract with uninterpreted results and ghost logs; `Options` is reduced to the SKIP_POW flag; one error type
//@ assume: T6: `.map_err(|e| Error::StoreErr(e, "..".to_owned()))?` => `?`; `(ctx.pow_verifier)(header)` => `ctx.pow_verifier.call(header)`; `bh == head.last_block_h` on hashes => hash_eq; `Err(Error::Unfit("..".to_string()))` => `Err(Error::Unfit)`; `match ctx.batch.block_exists(..)` arms keep their text; T3: log macros removed
//@ assume: decided here (C03 / C06, the helpers pipe::process_block and process_block_header call and that their units assume): check_known refuses a block ONLY IF it has no more work than the head AND (it is the head's last or previous block OR it is already in the store) -- a block with more work is never refused as known -- and the 'old block' flavour only when it lies more than 50 below the head; validate_pow_only returns Ok only if SKIP_POW is set or the edge bits are admissible and the PoW verifier accepted; validate_block validates against the PREVIOUS header's total kernel offset; apply_block_to_txhashset applies the block and then checks roots AND sizes against that block's header; add_block / add_block_header / update_header_head / update_body_tail write exactly the given object and nothing else
//@ assumed_items: 13
//@ fns: pipe::check_known, pipe::check_known_head, pipe::check_known_store, pipe::validate_pow_only, pipe::validate_block, pipe::apply_block_to_txhashset, pipe::add_block, pipe::add_block_header, pipe::update_header_head, pipe::update_body_tail, pipe::prev_header_store
#[derive(Clone, Copy, PartialEq, Eq, Structural)]
pub struct Hash { pub h: u64 }
#[derive(Clone, Copy, PartialEq, Eq, PartialOrd, Ord)]
pub struct Difficulty { pub num: u64 }
#[derive(Clone, Copy)]
pub struct BlindingFactor { pub b: u64 }
#[derive(Clone, Copy)]
pub struct PowView { pub edge_bits: u8, pub primary: bool, pub secondary: bool }
impl PowView {
    pub fn is_primary(&self) -> (r: bool) ensures r == self.primary { self.primary }
    pub fn is_secondary(&self) -> (r: bool) ensures r == self.secondary { self.secondary }
    pub fn edge_bits(&self) -> (r: u8) ensures r == self.edge_bits { self.edge_bits }
}
#[derive(Clone, Copy)]
pub struct BlockHeader { pub height: u64, pub td: Difficulty, pub prev_hash: Hash, pub id: Hash, pub total_kernel_offset: BlindingFactor, pub pow: PowView }
impl BlockHeader {
    pub fn total_difficulty(&self) -> (r: Difficulty) ensures r == self.td { self.td }
    pub fn hash(&self) -> (r: Hash) ensures r == self.id { self.id }
}
#[derive(Clone, Copy)]
pub struct Tip { pub height: u64, pub last_block_h: Hash, pub prev_block_h: Hash, pub total_difficulty: Difficulty }
impl Tip {
    pub open spec fn sp_from_header(h: BlockHeader) -> Tip { Tip { height: h.height, last_block_h: h.id, prev_block_h: h.prev_hash, total_difficulty: h.td } }
    #[verifier::external_body]
    pub fn from_header(h: &BlockHeader) -> (r: Tip) ensures r == Tip::sp_from_header(*h) { unimplemented!() }
}
pub struct Block { pub header: BlockHeader }
pub uninterp spec fn sp_block_valid(b: Block, prev_offset: BlindingFactor) -> bool;
impl Block {
    #[verifier::external_body]
    pub fn validate(&self, prev_kernel_offset: &BlindingFactor) -> (r: Result<(), Error>) ensures r.is_ok() ==> sp_block_valid(*self, *prev_kernel_offset) { unimplemented!() }
}
pub enum Error { Unfit, OldBlock, LowEdgebits, InvalidPow, StoreErr, Other }
fn diff_le(a: Difficulty, b: Difficulty) -> (r: bool) ensures r == (a.num <= b.num) { a.num <= b.num }
pub uninterp spec fn sp_prev(h: BlockHeader) -> BlockHeader;
pub uninterp spec fn sp_exists(batch: Batch, h: Hash) -> Result<bool, Error>;
pub struct Batch { pub saved_blocks: Ghost<Seq<Block>>, pub saved_headers: Ghost<Seq<BlockHeader>>, pub header_head: Ghost<Option<Tip>>, pub body_tail: Ghost<Option<Tip>>, pub id: Ghost<int> }
impl Batch {
    #[verifier::external_body]
    pub fn block_exists(&self, h: &Hash) -> (r: Result<bool, Error>) ensures r == sp_exists(*self, *h) { unimplemented!() }
    #[verifier::external_body]
    pub fn get_previous_header(&self, h: &BlockHeader) -> (r: Result<BlockHeader, Error>) ensures r matches Ok(p) ==> p == sp_prev(*h) { unimplemented!() }
    #[verifier::external_body]
    pub fn save_block(&mut self, b: &Block) -> (r: Result<(), Error>)
        ensures r.is_ok() ==> final(self).saved_blocks@ == old(self).saved_blocks@.push(*b), final(self).saved_headers@ == old(self).saved_headers@, final(self).header_head@ == old(self).header_head@, final(self).body_tail@ == old(self).body_tail@ { unimplemented!() }
    #[verifier::external_body]
    pub fn save_block_header(&mut self, h: &BlockHeader) -> (r: Result<(), Error>)
        ensures r.is_ok() ==> final(self).saved_headers@ == old(self).saved_headers@.push(*h), final(self).saved_blocks@ == old(self).saved_blocks@, final(self).header_head@ == old(self).header_head@, final(self).body_tail@ == old(self).body_tail@ { unimplemented!() }
    #[verifier::external_body]
    pub fn save_header_head(&mut self, t: &Tip) -> (r: Result<(), Error>)
        ensures r.is_ok() ==> final(self).header_head@ == Some(*t), final(self).saved_blocks@ == old(self).saved_blocks@, final(self).saved_headers@ == old(self).saved_headers@, final(self).body_tail@ == old(self).body_tail@ { unimplemented!() }
    #[verifier::external_body]
    pub fn save_body_tail(&mut self, t: &Tip) -> (r: Result<(), Error>)
        ensures r.is_ok() ==> final(self).body_tail@ == Some(*t), final(self).saved_blocks@ == old(self).saved_blocks@, final(self).saved_headers@ == old(self).saved_headers@, final(self).header_head@ == old(self).header_head@ { unimplemented!() }
}
pub uninterp spec fn sp_pow_verifies(h: BlockHeader) -> bool;
#[verifier::external_body]
pub struct PowVerifier { _p: u8 }
impl PowVerifier { #[verifier::external_body] pub fn call(&self, h: &BlockHeader) -> (r: Result<(), Error>) ensures r.is_ok() == sp_pow_verifies(*h) { unimplemented!() } }
pub struct Options { pub skip_pow: bool }
pub struct OptFlag { pub f: u8 }
impl Options {
    pub const SKIP_POW: OptFlag = OptFlag { f: 1 };
    pub fn contains(&self, f: OptFlag) -> (r: bool) requires f.f == 1 ensures r == self.skip_pow { self.skip_pow }
}
pub struct BlockContext { pub batch: Batch, pub opts: Options, pub pow_verifier: PowVerifier }
pub struct HeaderExtension { pub _p: u8 }
pub struct Extension { pub log: Ghost<Seq<(int, BlockHeader)>> }
pub struct ExtensionPair { pub header_extension: HeaderExtension, pub extension: Extension }
impl Extension {
    #[verifier::external_body]
    pub fn apply_block(&mut self, b: &Block, he: &HeaderExtension, batch: &mut Batch) -> (r: Result<(), Error>) ensures r.is_ok() ==> final(self).log@ == old(self).log@.push((0int, b.header)) { unimplemented!() }
    #[verifier::external_body]
    pub fn validate_roots(&mut self, h: &BlockHeader) -> (r: Result<(), Error>) ensures r.is_ok() ==> final(self).log@ == old(self).log@.push((1int, *h)) { unimplemented!() }
    #[verifier::external_body]
    pub fn validate_sizes(&mut self, h: &BlockHeader) -> (r: Result<(), Error>) ensures r.is_ok() ==> final(self).log@ == old(self).log@.push((2int, *h)) { unimplemented!() }
}
pub open spec fn known(header: BlockHeader, head: Tip, batch: Batch) -> bool {
    header.id == head.last_block_h || header.id == head.prev_block_h || sp_exists(batch, header.id) != Ok::<bool, Error>(false)
}
//@ extract chain/src/pipe.rs :: fn check_known_head
//@   rewrite `return Err(Error::Unfit("already known in head".to_string()));` => `return Err(Error::Unfit);`
//@   ensures:
//@+    r.is_ok() == !(header.id == head.last_block_h || header.id == head.prev_block_h),
//@ end
//@ extract chain/src/pipe.rs :: fn check_known_store
//@   sigrewrite `ctx: &BlockContext<'_>,` => `ctx: &BlockContext,`
//@   rewrite `Err(Error::Unfit("already known in store".to_string()))` => `Err(Error::Unfit)`
//@   rewrite `Err(e) => Err(Error::StoreErr(e, "pipe get this block".to_owned())),` => `Err(e) => Err(Error::StoreErr),`
//@   ensures:
//@+    r.is_ok() == (sp_exists(ctx.batch, header.id) == Ok::<bool, Error>(false)),
//@+    r matches Err(Error::OldBlock) ==> header.height + 50 < head.height,
//@ end
//@ extract chain/src/pipe.rs :: fn check_known
//@   sigrewrite `ctx: &BlockContext<'_>` => `ctx: &BlockContext`
//@   rewrite `header.total_difficulty() <= head.total_difficulty` => `diff_le(header.total_difficulty(), head.total_difficulty)`
//@   ensures:
//@+    r.is_ok() == (header.td.num > head.total_difficulty.num || !known(*header, *head, ctx.batch)),
//@ end
//@ extract chain/src/pipe.rs :: fn validate_pow_only
//@   strip_logs
//@   sigrewrite `ctx: &mut BlockContext<'_>` => `ctx: &mut BlockContext`
//@   rewrite `if (ctx.pow_verifier)(header).is_err() {` => `if ctx.pow_verifier.call(header).is_err() {`
//@   ensures:
//@+    r.is_ok() == (old(ctx).opts.skip_pow || ((header.pow.primary || header.pow.secondary) && sp_pow_verifies(*header))),
//@+    *final(ctx) == *old(ctx),
//@ end
//@ extract chain/src/pipe.rs :: fn prev_header_store
//@   sigrewrite `batch: &mut store::Batch<'_>,` => `batch: &mut Batch,`
//@   ensures:
//@+    r matches Ok(p) ==> p == sp_prev(*header),
//@+    *final(batch) == *old(batch),
//@ end
//@ extract chain/src/pipe.rs :: fn validate_block
//@   sigrewrite `ctx: &mut BlockContext<'_>` => `ctx: &mut BlockContext`
//@   ensures:
//@+    r.is_ok() ==> sp_block_valid(*block, sp_prev(block.header).total_kernel_offset),
//@+    *final(ctx) == *old(ctx),
//@ end
//@ extract chain/src/pipe.rs :: fn apply_block_to_txhashset
//@   sigrewrite `ext: &mut txhashset::ExtensionPair<'_>,` => `ext: &mut ExtensionPair,`
//@   sigrewrite `batch: &mut store::Batch<'_>,` => `batch: &mut Batch,`
//@   rewrite `.apply_block(block, ext.header_extension, batch)?;` => `.apply_block(block, &ext.header_extension, batch)?;`
//@   ensures:
//@+    r.is_ok() ==> final(ext).extension.log@ == old(ext).extension.log@.push((0int, block.header)).push((1int, block.header)).push((2int, block.header)),
//@ end
//@ extract chain/src/pipe.rs :: fn add_block
//@   sigrewrite `batch: &mut store::Batch<'_>` => `batch: &mut Batch`
//@   ensures:
//@+    r.is_ok() ==> final(batch).saved_blocks@ == old(batch).saved_blocks@.push(*b) && final(batch).saved_headers@ == old(batch).saved_headers@ && final(batch).header_head@ == old(batch).header_head@ && final(batch).body_tail@ == old(batch).body_tail@,
//@ end
//@ extract chain/src/pipe.rs :: fn add_block_header
//@   sigrewrite `batch: &mut store::Batch<'_>` => `batch: &mut Batch`
//@   rewrite `\t\t.save_block_header(bh)\n\t\t.map_err(|e| Error::StoreErr(e, "pipe save header".to_owned()))?;` => `\t\t.save_block_header(bh)?;`
//@   ensures:
//@+    r.is_ok() ==> final(batch).saved_headers@ == old(batch).saved_headers@.push(*bh) && final(batch).saved_blocks@ == old(batch).saved_blocks@ && final(batch).header_head@ == old(batch).header_head@,
//@ end
//@ extract chain/src/pipe.rs :: fn update_header_head
//@   strip_logs
//@   sigrewrite `batch: &mut store::Batch<'_>` => `batch: &mut Batch`
//@   rewrite `\t\t.save_header_head(&head)\n\t\t.map_err(|e| Error::StoreErr(e, "pipe save header head".to_owned()))?;` => `\t\t.save_header_head(&head)?;`
//@   ensures:
//@+    r.is_ok() ==> final(batch).header_head@ == Some(*head) && final(batch).saved_headers@ == old(batch).saved_headers@ && final(batch).saved_blocks@ == old(batch).saved_blocks@,
//@ end
//@ extract chain/src/pipe.rs :: fn update_body_tail
//@   strip_logs
//@   sigrewrite `batch: &mut store::Batch<'_>` => `batch: &mut Batch`
//@   rewrite `\t\t.save_body_tail(&tip)\n\t\t.map_err(|e| Error::StoreErr(e, "pipe save body tail".to_owned()))?;` => `\t\t.save_body_tail(&tip)?;`
//@   ensures:
//@+    r.is_ok() ==> final(batch).body_tail@ == Some(Tip::sp_from_header(*bh)) && final(batch).saved_blocks@ == old(batch).saved_blocks@ && final(batch).saved_headers@ == old(batch).saved_headers@ && final(batch).header_head@ == old(batch).header_head@,
//@ end
//@ canary check_known: r.is_err()
