//@ assume: BlockContext / Batch / HeaderExtension are abstract (owned fields, ghost field for the stored header head, rollback flag); check_known, validate_header, rewind_and_apply_header_fork, validate_root, apply_header, add_block_header, get_previous_header, get_block_header are abstract with uninterpreted "this check passed" meanings (validate_header is under contract in C04); Difficulty comparison is numeric (Kani unit more_work)
//@ assume: txhashset::header_extending is abstract (it builds structs holding `&mut` borrows): assumed to return Ok only if the closure returned Ok, never to write the stored header head itself
//@ assume: T7: the closure passed to txhashset::header_extending is lifted to the named function pbh_inner (captured prev_header, header, header_head, ctx_specific_validation become parameters); in process_block_header the closure expression is replaced by the captured environment. T6: `?` error conversions dropped; log macros removed; `header.hash()` abstract
//@ assume: decided here: pipe::process_block_header moves the stored header head ONLY to the tip of the header being processed, ONLY if it has strictly more total difficulty than the header head read before, and ONLY after validate_header and the extension closure (fork rewind, root validation, apply) succeeded; a header without more work force-rolls-back the header extension and leaves the header head untouched, as does every error path and the early "already known" return
//@ assumed_items: 16
//@ fns: pipe::process_block_header, pipe::process_block_header (closure passed to txhashset::header_extending), pipe::has_more_work, pipe::update_header_head
#[verifier::external_body]
#[derive(Clone, Copy)]
pub struct Hash { _p: u8 }
#[derive(Clone, Copy, PartialEq, Eq, PartialOrd, Ord)]
pub struct Difficulty { pub num: u64 }
#[derive(Clone, Copy)]
pub struct BlockHeader { pub height: u64, pub td: Difficulty, pub prev_hash: Hash, pub id: Hash }
#[derive(Clone, Copy)]
pub struct Tip { pub height: u64, pub last_block_h: Hash, pub prev_block_h: Hash, pub total_difficulty: Difficulty }
pub enum Error { Rejected, StoreErr }
#[verifier::external_body]
pub struct Allowed { _p: u8 }
#[verifier::external_body]
pub struct HeaderPmmr { _p: u8 }

impl BlockHeader {
    pub fn total_difficulty(&self) -> (r: Difficulty) ensures r == self.td { self.td }
    pub fn hash(&self) -> (r: Hash) ensures r == self.id { self.id }
}
fn diff_gt(a: Difficulty, b: Difficulty) -> (r: bool) ensures r == (a.num > b.num) { a.num > b.num }
impl Tip {
    pub open spec fn sp_from_header(h: BlockHeader) -> Tip { Tip { height: h.height, last_block_h: h.id, prev_block_h: h.prev_hash, total_difficulty: h.td } }
    #[verifier::external_body]
    pub fn from_header(h: &BlockHeader) -> (r: Tip) ensures r == Tip::sp_from_header(*h) { unimplemented!() }
}
pub uninterp spec fn sp_prev(h: BlockHeader) -> BlockHeader;
pub uninterp spec fn sp_header_valid(h: BlockHeader) -> bool;
pub uninterp spec fn sp_hfork_applied(prev: BlockHeader) -> bool;
pub uninterp spec fn sp_root_valid(h: BlockHeader) -> bool;
pub uninterp spec fn sp_header_applied(h: BlockHeader) -> bool;
pub open spec fn sp_more_work(h: BlockHeader, head: Tip) -> bool { h.td.num > head.total_difficulty.num }

pub struct Batch { pub header_head: Ghost<Tip>, pub _p: u8 }
impl Batch {
    #[verifier::external_body]
    pub fn head(&self) -> (r: Result<Tip, Error>) { unimplemented!() }
    #[verifier::external_body]
    pub fn header_head(&self) -> (r: Result<Tip, Error>) ensures r matches Ok(t) ==> t == self.header_head@ { unimplemented!() }
    #[verifier::external_body]
    pub fn get_previous_header(&self, h: &BlockHeader) -> (r: Result<BlockHeader, Error>) ensures r matches Ok(p) ==> p == sp_prev(*h) { unimplemented!() }
    #[verifier::external_body]
    pub fn get_block_header(&self, h: &Hash) -> (r: Result<BlockHeader, Error>) { unimplemented!() }
    #[verifier::external_body]
    pub fn save_header_head(&mut self, t: &Tip) -> (r: Result<(), Error>)
        ensures r.is_ok() ==> final(self).header_head@ == *t, r.is_err() ==> final(self).header_head@ == old(self).header_head@ { unimplemented!() }
}
pub struct HeaderExtension { pub rollback: bool }
impl HeaderExtension {
//@ extract chain/src/txhashset/txhashset.rs :: impl HeaderExtension::force_rollback
//@   ensures:
//@+    final(self).rollback,
//@ end
    #[verifier::external_body]
    pub fn validate_root(&self, h: &BlockHeader) -> (r: Result<(), Error>) ensures r.is_ok() ==> sp_root_valid(*h) { unimplemented!() }
    #[verifier::external_body]
    pub fn apply_header(&mut self, h: &BlockHeader) -> (r: Result<(), Error>)
        ensures r.is_ok() ==> sp_header_applied(*h), final(self).rollback == old(self).rollback { unimplemented!() }
}
pub struct BlockContext { pub batch: Batch, pub header_pmmr: HeaderPmmr, pub header_allowed: Allowed }

#[verifier::external_body]
fn check_known(header: &BlockHeader, head: &Tip, ctx: &BlockContext) -> (r: Result<(), Error>) { unimplemented!() }
#[verifier::external_body]
fn validate_header(header: &BlockHeader, ctx: &mut BlockContext) -> (r: Result<(), Error>)
    ensures r.is_ok() ==> sp_header_valid(*header), final(ctx).batch.header_head@ == old(ctx).batch.header_head@ { unimplemented!() }
#[verifier::external_body]
pub fn rewind_and_apply_header_fork(prev: &BlockHeader, ext: &mut HeaderExtension, batch: &mut Batch, allowed: &Allowed) -> (r: Result<(), Error>)
    ensures r.is_ok() ==> sp_hfork_applied(*prev), final(ext).rollback == old(ext).rollback, final(batch).header_head@ == old(batch).header_head@ { unimplemented!() }
#[verifier::external_body]
fn add_block_header(bh: &BlockHeader, batch: &mut Batch) -> (r: Result<(), Error>)
    ensures final(batch).header_head@ == old(batch).header_head@ { unimplemented!() }

//@ extract chain/src/pipe.rs :: fn has_more_work
//@   rewrite `header.total_difficulty() > head.total_difficulty` => `diff_gt(header.total_difficulty(), head.total_difficulty)`
//@   ensures:
//@+    r == sp_more_work(*header, *head),
//@ end

//@ extract chain/src/pipe.rs :: fn update_header_head
//@   strip_logs
//@   sigrewrite `batch: &mut store::Batch<'_>` => `batch: &mut Batch`
//@   rewrite `\t\t.save_header_head(&head)\n\t\t.map_err(|e| Error::StoreErr(e, "pipe save header head".to_owned()))?;` => `\t\t.save_header_head(&head)?;`
//@   ensures:
//@+    r.is_ok() ==> final(batch).header_head@ == *head,
//@+    r.is_err() ==> final(batch).header_head@ == old(batch).header_head@,
//@ end

pub open spec fn sp_hinner_ok(prev: BlockHeader, h: BlockHeader, header_head: Tip, rolled_back: bool) -> bool {
    sp_hfork_applied(prev) && sp_root_valid(h) && sp_header_applied(h) && (!sp_more_work(h, header_head) ==> rolled_back)
}
pub open spec fn sp_hext_ok(prev: BlockHeader, h: BlockHeader, header_head: Tip) -> bool { exists|rb: bool| sp_hinner_ok(prev, h, header_head, rb) }

//@ extract chain/src/pipe.rs :: fn process_block_header
//@   closure 1 lifted_as `fn pbh_inner(ext: &mut HeaderExtension, batch: &mut Batch, prev_header: BlockHeader, header: &BlockHeader, header_head: Tip, ctx_specific_validation: &Allowed) -> Result<(), Error>`
//@   ensures:
//@+    r.is_ok() ==> sp_hinner_ok(prev_header, *header, header_head, final(ext).rollback),
//@+    final(batch).header_head@ == old(batch).header_head@,
//@ end

pub struct HInnerEnv<'a> { pub prev_header: BlockHeader, pub header: &'a BlockHeader, pub header_head: Tip }
#[verifier::external_body]
fn header_extending_pbh(header_pmmr: &mut HeaderPmmr, batch: &mut Batch, env: HInnerEnv, allowed: &Allowed) -> (r: Result<(), Error>)
    ensures r.is_ok() ==> sp_hext_ok(env.prev_header, *env.header, env.header_head),
            final(batch).header_head@ == old(batch).header_head@ { unimplemented!() }

//@ extract chain/src/pipe.rs :: fn process_block_header
//@   strip_logs
//@   sigrewrite `ctx: &mut BlockContext<'_>` => `ctx: &mut BlockContext`
//@   closure 1 replaced_by `HInnerEnv { prev_header, header, header_head }`
//@   rewrite `\tlet ctx_specific_validation = &ctx.header_allowed;\n` => ``
//@   rewrite `txhashset::header_extending(&mut ctx.header_pmmr, &mut ctx.batch, HInnerEnv { prev_header, header, header_head })?;` => `header_extending_pbh(&mut ctx.header_pmmr, &mut ctx.batch, HInnerEnv { prev_header, header, header_head }, &ctx.header_allowed)?;`
//@   ensures:
//@+    final(ctx).batch.header_head@ == old(ctx).batch.header_head@ || (
//@+        r.is_ok() && final(ctx).batch.header_head@ == Tip::sp_from_header(*header)
//@+        && sp_more_work(*header, old(ctx).batch.header_head@)
//@+        && sp_header_valid(*header)
//@+        && sp_hext_ok(sp_prev(*header), *header, old(ctx).batch.header_head@)),
//@ end
//@ canary process_block_header: final(ctx).batch.header_head@ == old(ctx).batch.header_head@
