//@ assume: Chain's collaborators are abstract: store.head_header() is the BODY head's header; txhashset::extending_readonly(.., closure) => extending_readonly_validate (returns what the (lifted, verified) closure returned; its discard-everything contract is C06/extending_readonly); Chain::rewind_and_apply_fork (C02/block_fork) records the header the extension was put on; Extension::validate (C01/txhashset_validate) is an uninterpreted predicate of (the header it validates against, the fast flag, the header the extension stands on); RwLock guards are plain values (T6: `self.header_pmmr.write()` / `self.txhashset.write()` => accessor calls); `&NoStatus` => an abstract status sink
//@ assume: decided here (C01 'after any accepted history the full-state equation holds ... the running sums equal the sums recomputed from the full state', the ENTRY POINT of that recomputation; also C09 / C16 start-up and post-sync validation): Chain::validate(fast) answers Ok for a chain with only genesis, and otherwise ONLY IF Extension::validate succeeded with exactly the requested fast flag, against the header of the BODY head, in an extension that was first rewound to THAT header; every failure of the rewind or of the validation is an error
//@ assumed_items: 6
//@ fns: Chain::validate (+ its closure)
pub enum Error { Store, Rewind, Invalid }
#[derive(Clone, Copy, PartialEq, Eq)]
pub struct BlockHeader { pub height: u64, pub id: u64 }
pub struct Genesis { pub header: BlockHeader }
pub struct NoStatus;
pub struct Guard { pub _p: u8 }
pub struct Batch { pub _p: u8 }
pub uninterp spec fn sp_head_header() -> BlockHeader;
pub uninterp spec fn sp_state_valid(genesis: BlockHeader, fast: bool, at: BlockHeader, standing_on: Option<BlockHeader>) -> bool;
pub struct ChainStore { pub _p: u8 }
impl ChainStore {
    #[verifier::external_body]
    pub fn head_header(&self) -> (r: Result<BlockHeader, Error>) ensures r matches Ok(h) ==> h == sp_head_header() { unimplemented!() }
}
pub struct Extension { pub on: Ghost<Option<BlockHeader>> }
impl Extension {
    #[verifier::external_body]
    pub fn validate(&self, genesis: &BlockHeader, fast_validation: bool, status: &NoStatus, a: Option<u64>, b: Option<u64>, header: &BlockHeader, stop: Option<u8>) -> (r: Result<(), Error>)
        ensures r is Ok ==> sp_state_valid(*genesis, fast_validation, *header, self.on@) { unimplemented!() }
}
pub struct ExtensionPair { pub extension: Extension }
pub struct ValidateEnv<'a> { pub header: &'a BlockHeader, pub fast_validation: bool }
pub struct Chain { pub store: ChainStore, pub genesis: Genesis }
pub mod txhashset { use super::*;
    /// runs the (lifted) closure in a readonly extension and returns what it returned
    #[verifier::external_body]
    pub fn extending_readonly_validate(chain: &Chain, header_pmmr: &mut Guard, trees: &mut Guard, env: ValidateEnv) -> (r: Result<(), Error>)
        ensures r is Ok ==> sp_state_valid(chain.genesis.header, env.fast_validation, *env.header, Some(*env.header)) { unimplemented!() }
}
impl Chain {
    #[verifier::external_body]
    pub fn header_pmmr_write(&self) -> (r: Guard) { unimplemented!() }
    #[verifier::external_body]
    pub fn txhashset_write(&self) -> (r: Guard) { unimplemented!() }
    #[verifier::external_body]
    fn rewind_and_apply_fork(&self, header: &BlockHeader, ext: &mut ExtensionPair, batch: &Batch) -> (r: Result<BlockHeader, Error>) ensures r is Ok ==> final(ext).extension.on@ == Some(*header) { unimplemented!() }
//@ extract chain/src/chain.rs :: impl Chain::validate
//@   closure 1 lifted_as `fn validate_inner(&self, ext: &mut ExtensionPair, batch: &Batch, header: &BlockHeader, fast_validation: bool) -> Result<(), Error>`
//@   ensures:
//@+    r is Ok ==> sp_state_valid(self.genesis.header, fast_validation, *header, Some(*header)),
//@ end
//@ extract chain/src/chain.rs :: impl Chain::validate
//@   closure 1 replaced_by `ValidateEnv { header: &header, fast_validation }`
//@   rewrite `self.header_pmmr.write()` => `self.header_pmmr_write()`
//@   rewrite `self.txhashset.write()` => `self.txhashset_write()`
//@   rewrite `txhashset::extending_readonly(&mut header_pmmr, &mut txhashset, ValidateEnv { header: &header, fast_validation })` => `txhashset::extending_readonly_validate(self, &mut header_pmmr, &mut txhashset, ValidateEnv { header: &header, fast_validation })`
//@   ensures:
//@+    r is Ok ==> sp_head_header().height == 0 || sp_state_valid(self.genesis.header, fast_validation, sp_head_header(), Some(sp_head_header())),
//@ end
}
//@ canary validate: r is Err
