//@ assume: Commitment is an abstract value with a ghost key (its 33 bytes as an integer: equality of commitments is equality of keys, Ord is the order of keys); inputs_committed() / outputs_committed() are abstract readings of the body (the commitments of ALL inputs, whatever their feature flags and encoding, and of all outputs: iterator chains outside the subset); T6: `commits.sort_unstable()` => sort_keys (assumed: a permutation sorted by key); `for pair in commits.windows(2) {` => a loop over the list of adjacent pairs built by the VERIFIED helper windows2 (pair i = elements i and i+1)
//@ assume: decided here (C01, 'no value is created': the balance equation subtracts every listed input, so ONE output referenced by TWO inputs -- e.g. once as Plain and once as Coinbase, which the hash-of-(features, commitment) sort order regards as different entries -- or an output that is spent inside the same body would count value twice): TransactionBody::verify_cut_through returns Ok ONLY IF the commitments of all inputs and all outputs TOGETHER are pairwise distinct -- no commitment occurs twice among the inputs, twice among the outputs, or on both sides; inputs_outputs_committed returns exactly those commitments (a permutation), sorted.
//@ assumed_items: 3
//@ fns: TransactionBody::verify_cut_through, TransactionBody::inputs_outputs_committed
//@ import: use vstd::std_specs::cmp::PartialEqSpecImpl;
//@ import: use vstd::multiset::*;
//@ import: use vstd::seq_lib::*;
#[derive(Clone, Copy)]
pub struct Commitment { pub k: u64, pub k2: u64 }
impl PartialEqSpecImpl for Commitment { open spec fn obeys_eq_spec() -> bool { true } open spec fn eq_spec(&self, other: &Commitment) -> bool { self.k == other.k && self.k2 == other.k2 } }
impl PartialEq for Commitment { fn eq(&self, other: &Commitment) -> (r: bool) { self.k == other.k && self.k2 == other.k2 } }
pub enum Error { CutThrough, Other }
pub open spec fn key(c: Commitment) -> int { c.k as int * 0x1_0000_0000_0000_0000 + c.k2 as int }
pub open spec fn key_sorted(s: Seq<Commitment>) -> bool { forall|i: int, j: int| 0 <= i <= j < s.len() ==> key(s[i]) <= key(s[j]) }
pub open spec fn no_dup(s: Seq<Commitment>) -> bool { forall|i: int, j: int| 0 <= i < j < s.len() ==> s[i] != s[j] }
#[verifier::external_body]
fn sort_keys(s: &mut Vec<Commitment>)
    ensures key_sorted(final(s)@), final(s)@.to_multiset() == old(s)@.to_multiset(), final(s)@.len() == old(s)@.len() { unimplemented!() }
/// adjacent pairs of a vector (verified)
fn windows2(v: &Vec<Commitment>) -> (r: Vec<[Commitment; 2]>)
    ensures r@.len() == (if v@.len() == 0 { 0 } else { v@.len() - 1 }), forall|i: int| 0 <= i < r@.len() ==> #[trigger] r@[i]@ == seq![v@[i], v@[i + 1]]
{
    let mut out: Vec<[Commitment; 2]> = Vec::new();
    let mut i: usize = 0;
    if v.len() < 2 { return out; }
    while i < v.len() - 1
        invariant v@.len() >= 2, i <= v@.len() - 1, out@.len() == i as int,
            forall|j: int| 0 <= j < out@.len() ==> #[trigger] out@[j]@ == seq![v@[j], v@[j + 1]],
        decreases v@.len() - i,
    {
        let p = [v[i], v[i + 1]];
        assert(p@ =~= seq![v@[i as int], v@[i + 1]]);
        out.push(p);
        i += 1;
    }
    out
}
/// sorted by an injective key + no two adjacent elements equal ==> no two elements equal (no induction needed: squeeze)
proof fn lemma_sorted_adjacent_distinct(s: Seq<Commitment>)
    requires key_sorted(s), forall|i: int| 0 <= i < s.len() - 1 ==> s[i] != #[trigger] s[i + 1]
    ensures no_dup(s)
{
    assert forall|i: int, j: int| 0 <= i < j < s.len() implies s[i] != s[j] by {
        if s[i] == s[j] {
            assert(key(s[i]) <= key(s[i + 1]) && key(s[i + 1]) <= key(s[j]));
            assert(key(s[i + 1]) == key(s[i]));
            assert(s[i + 1].k == s[i].k && s[i + 1].k2 == s[i].k2) by (nonlinear_arith)
                requires key(s[i + 1]) == key(s[i]), key(s[i]) == s[i].k as int * 0x1_0000_0000_0000_0000 + s[i].k2 as int, key(s[i + 1]) == s[i + 1].k as int * 0x1_0000_0000_0000_0000 + s[i + 1].k2 as int;
            assert(s[i] != s[i + 1]);
        }
    }
}
/// a permutation of a duplicate-free sequence is duplicate-free
proof fn lemma_perm_no_dup(a: Seq<Commitment>, b: Seq<Commitment>)
    requires no_dup(a), a.to_multiset() == b.to_multiset()
    ensures no_dup(b)
{
    assert(a.no_duplicates());
    a.lemma_multiset_has_no_duplicates();
    b.lemma_multiset_has_no_duplicates_conv();
    assert(b.no_duplicates());
}
/// the two lemmas above, quantified over the sorted copy (so that the proof text does not name a local variable)
proof fn lemma_all_sorted_copies(x: Seq<Commitment>)
    ensures forall|c: Seq<Commitment>| #[trigger] key_sorted(c) && c.to_multiset() == x.to_multiset()
        && (forall|i: int| 0 <= i < c.len() - 1 ==> c[i] != #[trigger] c[i + 1]) ==> no_dup(x)
{
    assert forall|c: Seq<Commitment>| #[trigger] key_sorted(c) && c.to_multiset() == x.to_multiset()
        && (forall|i: int| 0 <= i < c.len() - 1 ==> c[i] != #[trigger] c[i + 1]) implies no_dup(x) by {
        lemma_sorted_adjacent_distinct(c);
        lemma_perm_no_dup(c, x);
    }
}
pub struct TransactionBody { pub _p: u8 }
impl TransactionBody {
    pub uninterp spec fn sp_in(&self) -> Seq<Commitment>;
    pub uninterp spec fn sp_out(&self) -> Seq<Commitment>;
    #[verifier::external_body]
    fn inputs_committed(&self) -> (r: Vec<Commitment>) ensures r@ == self.sp_in() { unimplemented!() }
    #[verifier::external_body]
    fn outputs_committed(&self) -> (r: Vec<Commitment>) ensures r@ == self.sp_out() { unimplemented!() }
//@ extract? core/src/core/transaction.rs :: impl TransactionBody::inputs_outputs_committed
//@   rewrite `commits.sort_unstable();` => `sort_keys(&mut commits);` x?
//@   after? `commits.extend_from_slice(`:
//@+    proof { assert(commits@ =~= self.sp_in() + self.sp_out()); }
//@   ensures:
//@+    key_sorted(r@), r@.to_multiset() == (self.sp_in() + self.sp_out()).to_multiset(),
//@ end
//@ extract core/src/core/transaction.rs :: impl TransactionBody::verify_cut_through
//@   rewrite `for pair in commits.windows(2) {` => `let ws = windows2(&commits); for pair in it: ws.iter() {` x?
//@   rewrite `inputs.sort_unstable();` => `sort_keys(&mut inputs);` x?
//@   loop 1?:
//@+    invariant
//@+        ws@.len() == (if commits@.len() == 0 { 0 } else { commits@.len() - 1 }),
//@+        forall|i: int| 0 <= i < ws@.len() ==> #[trigger] ws@[i]@ == seq![commits@[i], commits@[i + 1]],
//@+        forall|i: int| 0 <= i < it.index@ ==> commits@[i] != #[trigger] commits@[i + 1],
//@   at_start:
//@+    proof { lemma_all_sorted_copies(self.sp_in() + self.sp_out()); }
//@   ensures:
//@+    // nothing is referenced twice: not among the inputs, not among the outputs, not across
//@+    r.is_ok() ==> no_dup(self.sp_in() + self.sp_out()),
//@ end
}
//@ canary verify_cut_through: r.is_err()
