//@ assume: the output / range-proof MMRs are abstract (get_data over uninterpreted content functions); `for pos0 in leaf_pos_iter()` (a boxed iterator over the unspent leaf positions, CRoaring behind it) is replaced by an index loop over the finite sequence it yields, handed over as a Vec (T6; Verus for-loops do not support `continue`) -- at most 2^32 positions, as the leaf set is a 32-bit bitmap, which also bounds n_unpruned_leaves_to_index; Output::batch_verify_proofs returns Ok only if every (commitment, proof) pair of the two equally long slices verifies (libsecp256k1 bulletproof batch verification, a cryptographic assumption); progress callbacks and the stop flag are abstract
//@ assume: T6 rewrites: `Option<&dyn TxHashsetWriteStatus>` => abstract struct; `Instant::now()` and the elapsed-time log dropped; `if let Some(ref s) = stop_state` => by-reference match on the same Option; log macros removed
//@ assume: decided here (C01 'full validation verifies every range proof'): Extension::verify_rangeproofs, when not asked for a single iteration, returns Ok only if EVERY unspent leaf position at or after the start position holds an output AND a range proof and that proof went through a successful batch verification against THAT output's commitment (no tail batch is skipped, whatever the leaf count and batch size; a missing output or proof is an error), unless the node was asked to stop; Extension::validate_mmrs returns Ok only if PMMR::validate (C07/pmmr_validate) succeeded on ALL THREE MMRs (output, range proof, kernel)
//@ assume: 64-bit target
//@ assumed_items: 22
//@ fns: Extension::verify_rangeproofs, Extension::validate_mmrs
use std::sync::Arc;
global size_of usize == 8;
#[verifier::external_body]
#[derive(Clone, Copy)]
pub struct Commitment { _p: u8 }
#[verifier::external_body]
#[derive(Clone, Copy)]
pub struct RangeProof { _p: u8 }
#[derive(Clone, Copy)]
pub struct Output { pub commit: Commitment }
pub enum Error { OutputNotFound, RangeproofNotFound, Proof, InvalidTxHashSet(String) }
#[verifier::external_body]
pub struct Status { _p: u8 }
#[verifier::external_body]
pub struct StopState { _p: u8 }
pub uninterp spec fn sp_proof_ok(c: Commitment, p: RangeProof) -> bool;
pub uninterp spec fn sp_stop_requested() -> bool;
impl Status {
    #[verifier::external_body]
    pub fn on_validation_rproofs(&self, done: u64, total: u64) { unimplemented!() }
}
impl StopState {
    #[verifier::external_body]
    pub fn is_stopped(&self) -> (r: bool) ensures r ==> sp_stop_requested() { unimplemented!() }
}
impl Output {
    #[verifier::external_body]
    pub fn batch_verify_proofs(cs: &Vec<Commitment>, ps: &Vec<RangeProof>) -> (r: Result<(), Error>)
        ensures r.is_ok() ==> cs@.len() == ps@.len() && forall|i: int| 0 <= i < cs@.len() ==> sp_proof_ok(#[trigger] cs@[i], ps@[i]) { unimplemented!() }
}
pub mod pmmr {
    use super::*;
    #[verifier::external_body]
    pub fn pmmr_leaf_to_insertion_index(pos0: u64) -> (r: Option<u64>) { unimplemented!() }
}
#[verifier::external_body]
pub struct OutputPmmr { _p: u8 }
impl OutputPmmr {
    pub uninterp spec fn leaves(&self) -> Seq<u64>;
    pub uninterp spec fn data(&self, pos0: u64) -> Option<Output>;
    #[verifier::external_body]
    pub fn leaf_pos_vec(&self) -> (r: Vec<u64>) ensures r@ == self.leaves(), r@.len() <= 0x1_0000_0000 { unimplemented!() }
    #[verifier::external_body]
    pub fn get_data(&self, pos0: u64) -> (r: Option<Output>) ensures r == self.data(pos0) { unimplemented!() }
    #[verifier::external_body]
    pub fn n_unpruned_leaves(&self) -> (r: u64) { unimplemented!() }
    #[verifier::external_body]
    pub fn n_unpruned_leaves_to_index(&self, to_index: u64) -> (r: u64) ensures r <= 0x1_0000_0000 { unimplemented!() }
    #[verifier::external_body]
    pub fn unpruned_size(&self) -> (r: u64) { unimplemented!() }
}
#[verifier::external_body]
pub struct RproofPmmr { _p: u8 }
impl RproofPmmr {
    pub uninterp spec fn data(&self, pos0: u64) -> Option<RangeProof>;
    #[verifier::external_body]
    pub fn get_data(&self, pos0: u64) -> (r: Option<RangeProof>) ensures r == self.data(pos0) { unimplemented!() }
    #[verifier::external_body]
    pub fn unpruned_size(&self) -> (r: u64) { unimplemented!() }
}
#[verifier::external_body]
pub struct KernelPmmr { _p: u8 }
pub uninterp spec fn sp_out_mmr_valid(m: OutputPmmr) -> bool;
pub uninterp spec fn sp_rp_mmr_valid(m: RproofPmmr) -> bool;
pub uninterp spec fn sp_kern_mmr_valid(m: KernelPmmr) -> bool;
impl OutputPmmr {
    #[verifier::external_body]
    pub fn validate(&self) -> (r: Result<(), String>) ensures r.is_ok() ==> sp_out_mmr_valid(*self) { unimplemented!() }
}
impl RproofPmmr {
    #[verifier::external_body]
    pub fn validate(&self) -> (r: Result<(), String>) ensures r.is_ok() ==> sp_rp_mmr_valid(*self) { unimplemented!() }
}
impl KernelPmmr {
    #[verifier::external_body]
    pub fn validate(&self) -> (r: Result<(), String>) ensures r.is_ok() ==> sp_kern_mmr_valid(*self) { unimplemented!() }
    #[verifier::external_body]
    pub fn unpruned_size(&self) -> (r: u64) { unimplemented!() }
}
pub struct Extension { pub output_pmmr: OutputPmmr, pub rproof_pmmr: RproofPmmr, pub kernel_pmmr: KernelPmmr }

pub open spec fn eligible(start: Option<u64>, p: u64) -> bool { start is None || p >= start->0 }
/// the leaf at position p holds an output and a proof, and the proof verified against the output's commitment or the pair still waits in the current batch
pub open spec fn leaf_done(e: Extension, p: u64, cs: Seq<Commitment>, ps: Seq<RangeProof>) -> bool {
    e.output_pmmr.data(p) is Some && e.rproof_pmmr.data(p) is Some && (
        sp_proof_ok((e.output_pmmr.data(p)->0).commit, e.rproof_pmmr.data(p)->0)
        || exists|k: int| 0 <= k < cs.len() && k < ps.len() && #[trigger] cs[k] == (e.output_pmmr.data(p)->0).commit && ps[k] == e.rproof_pmmr.data(p)->0)
}
pub open spec fn covered(e: Extension, start: Option<u64>, upto: int, cs: Seq<Commitment>, ps: Seq<RangeProof>) -> bool {
    forall|j: int| 0 <= j < upto && j < e.output_pmmr.leaves().len() && eligible(start, #[trigger] e.output_pmmr.leaves()[j]) ==> leaf_done(e, e.output_pmmr.leaves()[j], cs, ps)
}
pub proof fn lemma_flush(e: Extension, start: Option<u64>, upto: int, cs: Seq<Commitment>, ps: Seq<RangeProof>)
    requires covered(e, start, upto, cs, ps), cs.len() == ps.len(), forall|i: int| 0 <= i < cs.len() ==> sp_proof_ok(#[trigger] cs[i], ps[i])
    ensures covered(e, start, upto, Seq::<Commitment>::empty(), Seq::<RangeProof>::empty())
{
    assert forall|j: int| 0 <= j < upto && j < e.output_pmmr.leaves().len() && eligible(start, #[trigger] e.output_pmmr.leaves()[j])
        implies leaf_done(e, e.output_pmmr.leaves()[j], Seq::<Commitment>::empty(), Seq::<RangeProof>::empty()) by {
        let p = e.output_pmmr.leaves()[j];
        assert(leaf_done(e, p, cs, ps));
        if !sp_proof_ok((e.output_pmmr.data(p)->0).commit, e.rproof_pmmr.data(p)->0) {
            let k = choose|k: int| 0 <= k < cs.len() && k < ps.len() && #[trigger] cs[k] == (e.output_pmmr.data(p)->0).commit && ps[k] == e.rproof_pmmr.data(p)->0;
            assert(sp_proof_ok(cs[k], ps[k]));
        }
    }
}
pub proof fn lemma_push(e: Extension, start: Option<u64>, upto: int, cs: Seq<Commitment>, ps: Seq<RangeProof>, c: Commitment, p: RangeProof)
    requires covered(e, start, upto, cs, ps), cs.len() == ps.len(), 0 <= upto < e.output_pmmr.leaves().len(),
        e.output_pmmr.data(e.output_pmmr.leaves()[upto]) is Some, e.rproof_pmmr.data(e.output_pmmr.leaves()[upto]) is Some,
        c == (e.output_pmmr.data(e.output_pmmr.leaves()[upto])->0).commit, p == e.rproof_pmmr.data(e.output_pmmr.leaves()[upto])->0
    ensures covered(e, start, upto + 1, cs.push(c), ps.push(p))
{
    let cs2 = cs.push(c); let ps2 = ps.push(p);
    assert forall|j: int| 0 <= j < upto + 1 && j < e.output_pmmr.leaves().len() && eligible(start, #[trigger] e.output_pmmr.leaves()[j])
        implies leaf_done(e, e.output_pmmr.leaves()[j], cs2, ps2) by {
        let q = e.output_pmmr.leaves()[j];
        if j == upto {
            assert(cs2[cs.len() as int] == c && ps2[cs.len() as int] == p);
        } else {
            assert(leaf_done(e, q, cs, ps));
            if !sp_proof_ok((e.output_pmmr.data(q)->0).commit, e.rproof_pmmr.data(q)->0) {
                let k = choose|k: int| 0 <= k < cs.len() && k < ps.len() && #[trigger] cs[k] == (e.output_pmmr.data(q)->0).commit && ps[k] == e.rproof_pmmr.data(q)->0;
                assert(cs2[k] == cs[k] && ps2[k] == ps[k]);
            }
        }
    }
}
pub proof fn lemma_skip(e: Extension, start: Option<u64>, upto: int, cs: Seq<Commitment>, ps: Seq<RangeProof>)
    requires covered(e, start, upto, cs, ps), 0 <= upto < e.output_pmmr.leaves().len(), !eligible(start, e.output_pmmr.leaves()[upto])
    ensures covered(e, start, upto + 1, cs, ps)
{ }

impl Extension {
//@ extract chain/src/txhashset/txhashset.rs :: impl Extension::verify_rangeproofs
//@   strip_logs
//@   sigrewrite `status: Option<&dyn TxHashsetWriteStatus>,` => `status: Option<&Status>,`
//@   rewrite `\t\tlet now = Instant::now();\n` => ``
//@   rewrite `if let Some(ref s) = stop_state {` => `if let Some(s) = &stop_state {`
//@   rewrite `for pos0 in self.output_pmmr.leaf_pos_iter() {` => `let lp = self.output_pmmr.leaf_pos_vec(); let mut lpi: usize = 0; while lpi < lp.len() { let pos0 = lp[lpi]; lpi += 1;`
//@   before `continue;`:
//@+    proof { lemma_skip(*self, start_pos, lpi - 1, commits@, proofs@); }
//@   after `proofs.push(proof);`:
//@+    proof { lemma_push(*self, start_pos, lpi - 1, pre_c, pre_p, output.commit, proof); }
//@   before `commits.push(output.commit);`:
//@+    let ghost pre_c = commits@; let ghost pre_p = proofs@;
//@   after `#1:Output::batch_verify_proofs(&commits, &proofs)?;`:
//@+    proof { lemma_flush(*self, start_pos, lpi as int, commits@, proofs@); }
//@   after `#2:Output::batch_verify_proofs(&commits, &proofs)?;`:
//@+    proof { lemma_flush(*self, start_pos, lp@.len() as int, commits@, proofs@); }
//@   loop 1:
//@+    invariant
//@+        lp@ == self.output_pmmr.leaves(), lp@.len() <= 0x1_0000_0000,
//@+        commits@.len() == proofs@.len(),
//@+        lpi <= lp@.len(), covered(*self, start_pos, lpi as int, commits@, proofs@),
//@+        proof_count <= 0x1_0000_0000 + lpi,
//@+    decreases lp@.len() - lpi,
//@   ensures:
//@+    r.is_ok() && !single_iter ==> (stop_state.is_some() && sp_stop_requested()) || forall|j: int| 0 <= j < self.output_pmmr.leaves().len() && eligible(start_pos, #[trigger] self.output_pmmr.leaves()[j]) ==>
//@+        self.output_pmmr.data(self.output_pmmr.leaves()[j]) is Some && self.rproof_pmmr.data(self.output_pmmr.leaves()[j]) is Some
//@+        && sp_proof_ok((self.output_pmmr.data(self.output_pmmr.leaves()[j])->0).commit, self.rproof_pmmr.data(self.output_pmmr.leaves()[j])->0),
//@ end
//@ extract chain/src/txhashset/txhashset.rs :: impl Extension::validate_mmrs
//@   strip_logs
//@   rewrite `\t\tlet now = Instant::now();\n` => ``
//@   ensures:
//@+    r.is_ok() ==> sp_out_mmr_valid(self.output_pmmr) && sp_rp_mmr_valid(self.rproof_pmmr) && sp_kern_mmr_valid(self.kernel_pmmr),
//@ end
}
//@ canary verify_rangeproofs: r.is_err()
//@ canary validate_mmrs: r.is_err()
