//@ assume: ABSTRACT ADDITIVE GROUP as in C01/committed: every Pedersen commitment c has a value val(c) in an abelian group (modelled by the integers); ASSUMED contracts of libsecp256k1 (C, behind FFI): commit_sum(pos, neg) = sum val(pos) - sum val(neg), commit_value(v) = v*H; commitments are equal iff their values are (binding)
//@ assume: T7 (expression closures): the four closures of Block::verify_coinbase -- the two coinbase predicates, `|x| x.commitment()` and `|x| x.excess` -- are lifted and verified as named functions; the std shells `vec.iter().filter(f).collect::<Vec<&T>>()`, `map_vec!(v, f)` (= v.iter().map(f).collect()) and `v.iter().map(f).collect()` are stood in for by abstract iterator types whose ASSUMED contracts say: filter keeps, in order, exactly the elements the predicate holds for; map is pointwise; collect gathers in order
//@ assume: T6: `kerns_sum != out_adjust_sum` => commit_ne (values differ); consensus::reward and Block::total_fees are uninterpreted (reward = subsidy + fees: C01/scalars; the fee sum: C01/tx_fee); static_secp_instance / lock are abstract
//@ assume: decided here (C01, 'subsidy plus fees is the only new value'): Block::verify_coinbase returns Ok ONLY IF the sum of the excesses of EXACTLY the coinbase-flagged kernels equals the sum of the commitments of EXACTLY the coinbase-flagged outputs minus reward(total fees of the block) * H -- every coinbase output and every coinbase kernel is counted, no other one is
//@ assumed_items: 20
//@ fns: Block::verify_coinbase (+ 4 closures)
#[verifier::external_body]
#[derive(Clone, Copy)]
pub struct Commitment { _p: u8 }
#[derive(Debug)]
pub enum Error { CoinbaseSumMismatch, Secp }
pub uninterp spec fn val(c: Commitment) -> int;
pub uninterp spec fn h_gen() -> int;
pub open spec fn sumv(s: Seq<Commitment>) -> int decreases s.len() { if s.len() == 0 { 0 } else { sumv(s.drop_last()) + val(s.last()) } }
#[verifier::external_body]
pub struct Secp { _p: u8 }
#[verifier::external_body]
pub struct SecpHandle { _p: u8 }
#[verifier::external_body]
fn static_secp_instance() -> (r: SecpHandle) { unimplemented!() }
impl SecpHandle {
    #[verifier::external_body]
    pub fn lock(&self) -> (r: Secp) { unimplemented!() }
}
impl Secp {
    #[verifier::external_body]
    pub fn commit_sum(&self, positive: Vec<Commitment>, negative: Vec<Commitment>) -> (r: Result<Commitment, Error>)
        ensures r matches Ok(c) ==> val(c) == sumv(positive@) - sumv(negative@) { unimplemented!() }
    #[verifier::external_body]
    pub fn commit_value(&self, v: u64) -> (r: Result<Commitment, Error>)
        ensures r matches Ok(c) ==> val(c) == v as int * h_gen() { unimplemented!() }
}
#[verifier::external_body]
fn commit_ne(a: &Commitment, b: &Commitment) -> (r: bool) ensures r == (val(*a) != val(*b)) { unimplemented!() }
pub uninterp spec fn sp_reward(fees: u64) -> u64;
#[verifier::external_body]
fn reward(fees: u64) -> (r: u64) ensures r == sp_reward(fees) { unimplemented!() }

#[derive(Clone, Copy)]
pub struct Output { pub cb: bool, pub commit: Commitment }
#[derive(Clone, Copy)]
pub struct TxKernel { pub cb: bool, pub excess: Commitment }
impl Output {
    pub fn is_coinbase(&self) -> (r: bool) ensures r == self.cb { self.cb }
    pub fn commitment(&self) -> (r: Commitment) ensures r == self.commit { self.commit }
}
impl TxKernel {
    pub fn is_coinbase(&self) -> (r: bool) ensures r == self.cb { self.cb }
}
pub open spec fn out_cb() -> spec_fn(Output) -> bool { |o: Output| o.cb }
pub open spec fn kern_cb() -> spec_fn(TxKernel) -> bool { |k: TxKernel| k.cb }
pub open spec fn out_commit() -> spec_fn(Output) -> Commitment { |o: Output| o.commit }
pub open spec fn kern_excess() -> spec_fn(TxKernel) -> Commitment { |k: TxKernel| k.excess }
pub open spec fn cb_out_commits(outs: Seq<Output>) -> Seq<Commitment> { outs.filter(out_cb()).map_values(out_commit()) }
pub open spec fn cb_kern_excesses(ks: Seq<TxKernel>) -> Seq<Commitment> { ks.filter(kern_cb()).map_values(kern_excess()) }

pub struct IsCbOut {}
pub struct IsCbKern {}
pub struct CommitOf {}
pub struct ExcessOf {}
pub struct OutVec { pub v: Vec<Output> }
pub struct KernVec { pub v: Vec<TxKernel> }
pub struct OutIter { pub items: Ghost<Seq<Output>> }
pub struct KernIter { pub items: Ghost<Seq<TxKernel>> }
/// Vec<&Output> / Vec<&TxKernel> as collected
pub struct OutRefs { pub items: Ghost<Seq<Output>> }
pub struct KernRefs { pub items: Ghost<Seq<TxKernel>> }
pub struct CommitIter { pub items: Ghost<Seq<Commitment>> }
impl OutVec {
    #[verifier::external_body]
    pub fn iter(&self) -> (r: OutIter) ensures r.items@ == self.v@ { unimplemented!() }
}
impl KernVec {
    #[verifier::external_body]
    pub fn iter(&self) -> (r: KernIter) ensures r.items@ == self.v@ { unimplemented!() }
}
impl OutIter {
    #[verifier::external_body]
    pub fn filter(self, f: IsCbOut) -> (r: OutIter) ensures r.items@ == self.items@.filter(out_cb()) { unimplemented!() }
    #[verifier::external_body]
    pub fn collect<C>(self) -> (r: OutRefs) ensures r.items@ == self.items@ { unimplemented!() }
}
impl KernIter {
    #[verifier::external_body]
    pub fn filter(self, f: IsCbKern) -> (r: KernIter) ensures r.items@ == self.items@.filter(kern_cb()) { unimplemented!() }
    #[verifier::external_body]
    pub fn collect<C>(self) -> (r: KernRefs) ensures r.items@ == self.items@ { unimplemented!() }
    #[verifier::external_body]
    pub fn map(self, f: ExcessOf) -> (r: CommitIter) ensures r.items@ == self.items@.map_values(kern_excess()) { unimplemented!() }
}
impl OutRefs {
    /// map_vec!(v, f) = v.iter().map(f).collect::<Vec<_>>()
    #[verifier::external_body]
    pub fn map_vec(&self, f: CommitOf) -> (r: Vec<Commitment>) ensures r@ == self.items@.map_values(out_commit()) { unimplemented!() }
}
impl KernRefs {
    #[verifier::external_body]
    pub fn iter(&self) -> (r: KernIter) ensures r.items@ == self.items@ { unimplemented!() }
}
impl CommitIter {
    #[verifier::external_body]
    pub fn collect(self) -> (r: Vec<Commitment>) ensures r@ == self.items@ { unimplemented!() }
}
pub struct TransactionBody { pub outputs: OutVec, pub kernels: KernVec }
pub struct Block { pub body: TransactionBody }
pub uninterp spec fn sp_total_fees(b: Block) -> u64;
proof fn lemma_sum1(c: Commitment) ensures sumv(seq![c]) == val(c)
{ assert(seq![c].drop_last() =~= Seq::<Commitment>::empty()); assert(sumv(Seq::<Commitment>::empty()) == 0); assert(seq![c].last() == c); }
impl Block {
    #[verifier::external_body]
    pub fn total_fees(&self) -> (r: u64) ensures r == sp_total_fees(*self) { unimplemented!() }
//@ extract core/src/core/block.rs :: impl Block::verify_coinbase
//@   eclosure 1 replaced_by `IsCbOut {}`
//@   eclosure 2 replaced_by `IsCbKern {}`
//@   eclosure 3 replaced_by `CommitOf {}`
//@   eclosure 4 replaced_by `ExcessOf {}`
//@   rewrite `map_vec!(cb_outs, CommitOf {})` => `cb_outs.map_vec(CommitOf {})`
//@   rewrite `vec![over_commit]` => `{ let mut v1: Vec<Commitment> = Vec::new(); v1.push(over_commit); proof { lemma_sum1(over_commit); assert(v1@ =~= seq![over_commit]); } v1 }`
//@   rewrite `vec![])?;` => `Vec::new())?;`
//@   rewrite `if kerns_sum != out_adjust_sum {` => `if commit_ne(&kerns_sum, &out_adjust_sum) {`
//@   ensures:
//@+    r.is_ok() ==> sumv(cb_kern_excesses(self.body.kernels.v@)) == sumv(cb_out_commits(self.body.outputs.v@)) - sp_reward(sp_total_fees(*self)) as int * h_gen(),
//@ end
}
//@ extract core/src/core/block.rs :: impl Block::verify_coinbase
//@   eclosure 1 lifted_as `fn is_cb_out(out: &&Output) -> bool`
//@   ensures:
//@+    r == out_cb()(**out),
//@ end
//@ extract core/src/core/block.rs :: impl Block::verify_coinbase
//@   eclosure 2 lifted_as `fn is_cb_kern(kernel: &&TxKernel) -> bool`
//@   ensures:
//@+    r == kern_cb()(**kernel),
//@ end
//@ extract core/src/core/block.rs :: impl Block::verify_coinbase
//@   eclosure 3 lifted_as `fn commit_of(x: &&Output) -> Commitment`
//@   ensures:
//@+    r == out_commit()(**x),
//@ end
//@ extract core/src/core/block.rs :: impl Block::verify_coinbase
//@   eclosure 4 lifted_as `fn excess_of(x: &&TxKernel) -> Commitment`
//@   ensures:
//@+    r == kern_excess()(**x),
//@ end
//@ canary verify_coinbase: r.is_err()
