//@ crate: grin_core
//@ target: core/src/core/block.rs
//@ assume: decided here: the scalar side of the balance equation (subsidy, overage, fee packing); the group equation over Pedersen commitments is libsecp256k1 behind FFI, and the 'after any accepted history' clause is a history property -- both outside this unit (DESIGN 6 C01)
//@ assume: total_overage requires (height + 1) * REWARD < 2^63 (height < 153_722_867); beyond it the product wraps -- recorded as the range of validated header heights
//@ harness c01_header_overage kind=complete tier=quick fns=BlockHeader::overage,BlockHeader::total_overage,consensus::reward bound=-
use crate::verif_kani_support::*;

/// Every block creates exactly the fixed 60-grin subsidy: overage == -60_000_000_000 for every
/// header; total_overage == -(height [+1]) * REWARD; reward(fee) == REWARD + fee saturating.
#[kani::proof]
#[kani::unwind(34)]
#[kani::stub(alloc::fmt::format, stub_format)]
fn c01_header_overage() {
	let height: u64 = kani::any();
	kani::assume(height < 153_722_866);
	let mut h = BlockHeader {
		version: HeaderVersion(1),
		height,
		prev_hash: ZERO_HASH,
		prev_root: ZERO_HASH,
		timestamp: DateTime::<Utc>::from_timestamp(0, 0).unwrap(),
		output_root: ZERO_HASH,
		range_proof_root: ZERO_HASH,
		kernel_root: ZERO_HASH,
		total_kernel_offset: unsafe { core::mem::zeroed::<BlindingFactor>() },
		output_mmr_size: 0,
		kernel_mmr_size: 0,
		pow: ProofOfWork {
			total_difficulty: Difficulty::from_num(1),
			secondary_scaling: 0,
			nonce: 0,
			proof: Proof { edge_bits: 31, nonces: vec![] },
		},
	};
	assert!(h.overage() == -60_000_000_000i64, "C01: the subsidy is exactly 60 grin per block");
	let g: bool = kani::any();
	let n = height + if g { 1 } else { 0 };
	assert!(h.total_overage(g) == -((n * 60_000_000_000u64) as i64), "C01: supply is height-determined");
	let fee: u64 = kani::any();
	let r = consensus::reward(fee);
	assert!(r == if fee <= u64::MAX - 60_000_000_000 { 60_000_000_000 + fee } else { u64::MAX });
	core::mem::forget(h); // BlindingFactor zeroizes on drop with inline asm, which Kani cannot model
}
