//@ crate: grin_core
//@ target: core/src/core/transaction.rs
//@ assume: decided here: the overage operand Transaction::validate hands to verify_kernel_sums is exactly the sum of the 40-bit fee fields of the fee-carrying kernels (coinbase kernels contribute nothing), for every combination of kernel variants and fee values; bounded to <= 3 kernels (the fold is unrolled), every fee field value symbolic
//@ repeat N in 0..=3
//@ harness c01_tx_overage_is_fee_sum_{N} kind=bounded tier=quick fns=TransactionBody::overage,Transaction::overage,TransactionBody::fee,FeeFields::fee bound={N}_kernels,_all_u64_fee_fields,_all_variants
//@ end
use crate::verif_kani_support::*;

fn c01_any_kernel() -> TxKernel {
	let f = FeeFields(kani::any());
	let k: u8 = kani::any();
	let features = match k {
		0 => KernelFeatures::Plain { fee: f },
		1 => KernelFeatures::Coinbase,
		2 => KernelFeatures::HeightLocked { fee: f, lock_height: kani::any() },
		_ => KernelFeatures::NoRecentDuplicate { fee: f, relative_height: NRDRelativeHeight(1) },
	};
	TxKernel { features, excess: Commitment([0u8; 33]), excess_sig: unsafe { core::mem::zeroed() } }
}
fn c01_fee_of(k: &TxKernel) -> u64 {
	match k.features {
		KernelFeatures::Coinbase => 0,
		KernelFeatures::Plain { fee } => fee.0 & ((1u64 << 40) - 1),
		KernelFeatures::HeightLocked { fee, .. } => fee.0 & ((1u64 << 40) - 1),
		KernelFeatures::NoRecentDuplicate { fee, .. } => fee.0 & ((1u64 << 40) - 1),
	}
}

/// Transaction::overage == sum of kernel fees (each 40 bits), as the i64 that verify_kernel_sums receives.
macro_rules! tx_overage {
	($name:ident, $n:expr) => {
		#[kani::proof]
		#[kani::unwind(5)]
		#[kani::stub(alloc::fmt::format, stub_format)]
		fn $name() {
			let ks = [c01_any_kernel(), c01_any_kernel(), c01_any_kernel()];
			let mut body = TransactionBody::empty();
			body.kernels = ks[..$n].to_vec();
			let mut sum: u64 = 0;
			let mut i = 0;
			while i < $n {
				sum += c01_fee_of(&ks[i]);
				i += 1;
			}
			assert!(body.fee() == sum, "C01: body fee is the sum of the kernels' fees");
			let tx = Transaction { offset: unsafe { core::mem::zeroed::<BlindingFactor>() }, body };
			assert!(tx.overage() == sum as i64 && tx.overage() >= 0, "C01: the overage of a transaction is the sum of its kernels' fees");
			assert!(tx.fee() == sum);
			core::mem::forget(tx); // BlindingFactor zeroizes on drop with inline asm, which Kani cannot model
		}
	};
}
//@ repeat N in 0..=3
tx_overage!(c01_tx_overage_is_fee_sum_{N}, {N});
//@ end
