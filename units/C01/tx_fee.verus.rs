//@ assume: T5: `self.kernels.iter().filter_map(f).fold(init, g)` => abstract KernVec / KernIter / FeeIter stand-ins whose contracts say exactly: filter_map yields, in order, the `Some` results of f; fold is the left fold of g from init; BOTH closures of each function are the REAL closure texts, verified as lifted functions (T7). TxKernel is reduced to its `features` field; NRDRelativeHeight is an opaque u16. `std::cmp::max` at u8 => a verified local max
//@ assume: decided here, for ANY number of kernels (replaces the bounded C01/tx_overage stand-in for the fee fold): TransactionBody::fee is exactly the saturating sum, in kernel order, of the 40-bit fee fields of the fee-carrying kernels -- Plain, HeightLocked and NoRecentDuplicate; a Coinbase kernel contributes nothing; TransactionBody::fee_shift is the maximum of their 4-bit shift fields (0 if none); overage is that fee reinterpreted as i64 (equal to it below 2^63) -- NOT the aggregated 40-bit fee field, which fails above 2^40; shifted_fee = fee >> fee_shift; FeeFields::new packs (shift, fee) exactly and refuses fee 0, fee > 2^40-1, shift > 15; aggregate_fee_fields = new(fee_shift, fee); Transaction::fee / overage / shifted_fee delegate to the body
//@ assumed_items: 4
//@ fns: FeeFields::new, TransactionBody::aggregate_fee_fields, TransactionBody::fee, TransactionBody::fee_shift, TransactionBody::overage, TransactionBody::shifted_fee, Transaction::fee, Transaction::overage, Transaction::shifted_fee, FeeFields::fee, FeeFields::fee_shift, 4 closures
#[derive(Clone, Copy, PartialEq, Eq)]
pub struct NRDRelativeHeight { pub h: u16 }
#[derive(Clone, Copy, PartialEq)]
//@ extract core/src/core/transaction.rs :: enum KernelFeatures
//@   strip_attrs
//@ end
#[derive(Clone, Copy, PartialEq)]
//@ extract core/src/core/transaction.rs :: struct FeeFields
//@   rewrite `pub struct FeeFields(u64);` => `pub struct FeeFields(pub u64);`
//@ end
pub open spec fn fee40(f: FeeFields) -> u64 { f.0 & 0xff_ffff_ffffu64 }
pub open spec fn shift4(f: FeeFields) -> u8 { ((f.0 >> 40u64) & 0xfu64) as u8 }
#[derive(Debug)]
pub enum Error { InvalidFeeFields, Other }
impl FeeFields {
    pub const FEE_BITS: u32 = 40;
    pub const FEE_MASK: u64 = 0xff_ffff_ffffu64;
    pub const FEE_SHIFT_MASK: u64 = 0xfu64;
//@ extract core/src/core/transaction.rs :: impl FeeFields::new
//@   ensures:
//@+    r.is_err() == (fee == 0 || fee > 0xff_ffff_ffffu64 || fee_shift > 15),
//@+    r matches Ok(f) ==> fee40(f) == fee && shift4(f) == fee_shift,
//@   at_start:
//@+    proof { if fee <= 0xff_ffff_ffffu64 && fee_shift <= 15 {
//@+        assert((((fee_shift << 40u32) | fee) & 0xff_ffff_ffffu64) == fee) by(bit_vector) requires fee <= 0xff_ffff_ffffu64, fee_shift <= 15u64;
//@+        assert(((((fee_shift << 40u32) | fee) >> 40u64) & 0xfu64) == fee_shift) by(bit_vector) requires fee <= 0xff_ffff_ffffu64, fee_shift <= 15u64; } }
//@ end
//@ extract core/src/core/transaction.rs :: impl FeeFields::fee
//@   ensures:
//@+    r == fee40(*self),
//@ end
//@ extract core/src/core/transaction.rs :: impl FeeFields::fee_shift
//@   ensures:
//@+    r == shift4(*self),
//@   at_start:
//@+    proof { let x = self.0; assert(((x >> 40u64) & 0xfu64) <= 0xfu64) by(bit_vector); }
//@ end
}
#[derive(Clone, Copy)]
pub struct TxKernel { pub features: KernelFeatures }
fn max(a: u8, b: u8) -> (r: u8) ensures r == (if a >= b { a } else { b }) { if a >= b { a } else { b } }
/// the fee field a kernel carries, if any
pub open spec fn sp_fee_of(k: TxKernel) -> Option<FeeFields> {
    match k.features {
        KernelFeatures::Coinbase => None,
        KernelFeatures::Plain { fee } => Some(fee),
        KernelFeatures::HeightLocked { fee, .. } => Some(fee),
        KernelFeatures::NoRecentDuplicate { fee, .. } => Some(fee),
    }
}
pub open spec fn sat_add(a: u64, b: u64) -> u64 { if a + b > u64::MAX { u64::MAX } else { (a + b) as u64 } }
/// the property's reading: fee-carrying kernels in order
pub open spec fn fee_fields_of(ks: Seq<TxKernel>) -> Seq<FeeFields> decreases ks.len() {
    if ks.len() == 0 { Seq::empty() } else { let r = fee_fields_of(ks.drop_last()); match sp_fee_of(ks.last()) { Some(f) => r.push(f), None => r } }
}
pub open spec fn fee_sum(fs: Seq<FeeFields>) -> u64 decreases fs.len() { if fs.len() == 0 { 0 } else { sat_add(fee_sum(fs.drop_last()), fee40(fs.last())) } }
pub open spec fn shift_max(fs: Seq<FeeFields>) -> u8 decreases fs.len() { if fs.len() == 0 { 0 } else { let m = shift_max(fs.drop_last()); if m >= shift4(fs.last()) { m } else { shift4(fs.last()) } } }
/// stand-ins for `Vec<TxKernel>::iter().filter_map(..).fold(..)`
pub struct KernVec { pub v: Vec<TxKernel> }
pub struct KernIter { pub items: Ghost<Seq<TxKernel>> }
pub struct FeeIter { pub items: Ghost<Seq<FeeFields>> }
pub struct FeeOf {}
pub struct AddFee {}
pub struct MaxShift {}
impl KernVec { #[verifier::external_body] pub fn iter(&self) -> (r: KernIter) ensures r.items@ == self.v@ { unimplemented!() } }
impl KernIter {
    #[verifier::external_body]
    pub fn filter_map(self, f: FeeOf) -> (r: FeeIter) ensures r.items@ == fee_fields_of(self.items@) { unimplemented!() }
}
pub trait Fold<E, A> {
    spec fn folded(self, init: A) -> A;
    fn fold(self, init: A, f: E) -> (r: A) ensures r == self.folded(init);
}
impl Fold<AddFee, u64> for FeeIter {
    open spec fn folded(self, init: u64) -> u64 { if init == 0 { fee_sum(self.items@) } else { arbitrary() } }
    #[verifier::external_body]
    fn fold(self, init: u64, f: AddFee) -> (r: u64) { unimplemented!() }
}
impl Fold<MaxShift, u8> for FeeIter {
    open spec fn folded(self, init: u8) -> u8 { if init == 0 { shift_max(self.items@) } else { arbitrary() } }
    #[verifier::external_body]
    fn fold(self, init: u8, f: MaxShift) -> (r: u8) { unimplemented!() }
}
pub struct TransactionBody { pub kernels: KernVec }
impl TransactionBody {
//@ extract core/src/core/transaction.rs :: impl TransactionBody::fee
//@   eclosure 1 replaced_by `FeeOf {}`
//@   eclosure 2 replaced_by `AddFee {}`
//@   rewrite `.fold(0, ` => `.fold(0u64, `
//@   ensures:
//@+    r == fee_sum(fee_fields_of(self.kernels.v@)),
//@ end
//@ extract core/src/core/transaction.rs :: impl TransactionBody::fee_shift
//@   eclosure 1 replaced_by `FeeOf {}`
//@   eclosure 2 replaced_by `MaxShift {}`
//@   rewrite `.fold(0, ` => `.fold(0u8, `
//@   ensures:
//@+    r == shift_max(fee_fields_of(self.kernels.v@)), r <= 15,
//@   at_start:
//@+    proof { lemma_shift_max_le(fee_fields_of(self.kernels.v@)); }
//@ end
//@ extract core/src/core/transaction.rs :: impl TransactionBody::shifted_fee
//@   ensures:
//@+    r == fee_sum(fee_fields_of(self.kernels.v@)) >> (shift_max(fee_fields_of(self.kernels.v@)) as u64),
//@ end
//@ extract core/src/core/transaction.rs :: impl TransactionBody::aggregate_fee_fields
//@   ensures:
//@+    r.is_err() == (fee_sum(fee_fields_of(self.kernels.v@)) == 0 || fee_sum(fee_fields_of(self.kernels.v@)) > 0xff_ffff_ffffu64),
//@+    r matches Ok(f) ==> fee40(f) == fee_sum(fee_fields_of(self.kernels.v@)) && shift4(f) == shift_max(fee_fields_of(self.kernels.v@)),
//@ end
//@ extract core/src/core/transaction.rs :: impl TransactionBody::overage
//@   ensures:
//@+    r == fee_sum(fee_fields_of(self.kernels.v@)) as i64,
//@+    fee_sum(fee_fields_of(self.kernels.v@)) < 0x8000_0000_0000_0000u64 ==> r as int == fee_sum(fee_fields_of(self.kernels.v@)) as int,
//@ end
}
proof fn lemma_shift_max_le(fs: Seq<FeeFields>) ensures shift_max(fs) <= 15 decreases fs.len() {
    if fs.len() > 0 { lemma_shift_max_le(fs.drop_last()); let x = fs.last().0; assert(((x >> 40u64) & 0xfu64) <= 0xfu64) by(bit_vector); }
}
//@ extract core/src/core/transaction.rs :: impl TransactionBody::fee
//@   eclosure 1 lifted_as `fn fee_of(k: &TxKernel) -> Option<FeeFields>`
//@   ensures:
//@+    r == sp_fee_of(*k),
//@ end
//@ extract core/src/core/transaction.rs :: impl TransactionBody::fee
//@   eclosure 2 lifted_as `fn add_fee(acc: u64, fee_fields: FeeFields) -> u64`
//@   ensures:
//@+    r == sat_add(acc, fee40(fee_fields)),
//@ end
//@ extract core/src/core/transaction.rs :: impl TransactionBody::fee_shift
//@   eclosure 1 lifted_as `fn fee_of_2(k: &TxKernel) -> Option<FeeFields>`
//@   ensures:
//@+    r == sp_fee_of(*k),
//@ end
//@ extract core/src/core/transaction.rs :: impl TransactionBody::fee_shift
//@   eclosure 2 lifted_as `fn max_shift(acc: u8, fee_fields: FeeFields) -> u8`
//@   ensures:
//@+    r == (if acc >= shift4(fee_fields) { acc } else { shift4(fee_fields) }),
//@ end
pub struct Transaction { pub body: TransactionBody }
impl Transaction {
//@ extract core/src/core/transaction.rs :: impl Transaction::fee
//@   ensures:
//@+    r == fee_sum(fee_fields_of(self.body.kernels.v@)),
//@ end
//@ extract core/src/core/transaction.rs :: impl Transaction::overage
//@   ensures:
//@+    r == fee_sum(fee_fields_of(self.body.kernels.v@)) as i64,
//@ end
//@ extract core/src/core/transaction.rs :: impl Transaction::shifted_fee
//@   ensures:
//@+    r == fee_sum(fee_fields_of(self.body.kernels.v@)) >> (shift_max(fee_fields_of(self.body.kernels.v@)) as u64),
//@ end
}
//@ canary fee: r == 0
