//@ assume: Output, TxKernel, Commitment, RangeProof are abstract; validate_read, Output::batch_verify_proofs (bulletproof batch verification, libsecp256k1) and TxKernel::batch_sig_verify are external with uninterpreted meanings over the sequences they receive
//@ assume: T6 rewrites: `for x in &self.outputs {` => `for x in it: self.outputs.iter()` (Verus iterator-loop syntax over the same Vec), `vec![]` => Vec::new()
//@ assume: decided here: TransactionBody::validate verifies the range proof of EVERY output, in order and paired with that output's own commitment (none skipped, none mismatched), and the signatures of all kernels, after validate_read
//@ assumed_items: 6
//@ fns: TransactionBody::validate
#[verifier::external_body]
#[derive(Clone, Copy)]
pub struct Commitment { _p: u8 }
#[verifier::external_body]
#[derive(Clone, Copy)]
pub struct RangeProof { _p: u8 }
pub struct Output { pub commit: Commitment, pub proof: RangeProof }
#[verifier::external_body]
pub struct TxKernel { _p: u8 }
pub enum Weighting { AsTransaction, AsLimitedTransaction(u64), AsBlock, NoLimit }
pub enum Error { Invalid }
pub struct TransactionBody { pub outputs: Vec<Output>, pub kernels: Vec<TxKernel>, pub id: Ghost<int> }

pub uninterp spec fn sp_read_ok(b: TransactionBody, w: Weighting) -> bool;
pub uninterp spec fn sp_proofs_ok(commits: Seq<Commitment>, proofs: Seq<RangeProof>) -> bool;
pub uninterp spec fn sp_sigs_ok(kernels: Seq<TxKernel>) -> bool;

impl Output {
    pub fn commitment(&self) -> (r: Commitment) ensures r == self.commit { self.commit }
    #[verifier::external_body]
    pub fn batch_verify_proofs(commits: &[Commitment], proofs: &[RangeProof]) -> (r: Result<(), Error>)
        ensures r.is_ok() ==> sp_proofs_ok(commits@, proofs@) { unimplemented!() }
}
impl TxKernel {
    #[verifier::external_body]
    pub fn batch_sig_verify(kernels: &[TxKernel]) -> (r: Result<(), Error>)
        ensures r.is_ok() ==> sp_sigs_ok(kernels@) { unimplemented!() }
}
impl TransactionBody {
    #[verifier::external_body]
    pub fn validate_read(&self, weighting: Weighting) -> (r: Result<(), Error>)
        ensures r.is_ok() ==> sp_read_ok(*self, weighting) { unimplemented!() }

//@ extract core/src/core/transaction.rs :: impl TransactionBody::validate
//@   rewrite `let mut commits = vec![];` => `let mut commits: Vec<Commitment> = Vec::new();`
//@   rewrite `let mut proofs = vec![];` => `let mut proofs: Vec<RangeProof> = Vec::new();`
//@   rewrite `for x in &self.outputs {` => `for x in it: self.outputs.iter() {`
//@   rewrite `Output::batch_verify_proofs(&commits, &proofs)?;` => `Output::batch_verify_proofs(commits.as_slice(), proofs.as_slice())?;`
//@   rewrite `TxKernel::batch_sig_verify(&self.kernels)?;` => `TxKernel::batch_sig_verify(self.kernels.as_slice())?;`
//@   ensures:
//@+    r.is_ok() ==> sp_read_ok(*self, weighting) && sp_sigs_ok(self.kernels@)
//@+        && (self.outputs@.len() > 0 ==> sp_proofs_ok(self.outputs@.map_values(|o: Output| o.commit), self.outputs@.map_values(|o: Output| o.proof))),
//@   loop 1:
//@+    invariant
//@+        commits@.len() == it.index@, proofs@.len() == it.index@,
//@+        forall|i: int| 0 <= i < it.index@ ==> #[trigger] commits@[i] == self.outputs@[i].commit,
//@+        forall|i: int| 0 <= i < it.index@ ==> #[trigger] proofs@[i] == self.outputs@[i].proof,
//@   before `Output::batch_verify_proofs(`:
//@+    proof {
//@+        assert(commits@ =~= self.outputs@.map_values(|o: Output| o.commit));
//@+        assert(proofs@ =~= self.outputs@.map_values(|o: Output| o.proof));
//@+    }
//@ end
}
//@ canary validate: r.is_err()
