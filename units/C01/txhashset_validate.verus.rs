//@ assume: the Extension is abstract: validate_mmrs / validate_roots / validate_sizes / verify_rangeproofs / verify_kernel_signatures / verify_kernel_sums are callees with uninterpreted "this check passed" meanings (verify_kernel_sums is under contract in C01/committed, verify_kernel_signatures in C01/kernel_sigs, both proved of the real bodies); BlockHeader::total_overage / total_kernel_offset are uninterpreted functions of the header (total_overage decided by Kani in C01/scalars); the stop flag is modelled as constant during the call (StopState is set-only, so a flag seen set stays set)
//@ assume: T6 rewrites: `&dyn TxHashsetWriteStatus` => abstract struct; `Instant::now()` dropped; `if let Some(ref s) = stop_state` => by-reference match; `Error::Stopped.into()` => `Error::Stopped`; `secp_static::commit_to_zero_value()` abstract; `stop_state.clone()` => helper clone; log macros removed
//@ assume: decided here: full-state validation (Chain::validate, fast sync, PIBD) accepts only a state whose MMRs, roots and sizes match the header AND whose unspent outputs minus the height-determined supply equal all kernels plus the total offset -- Extension::validate returns Ok only if verify_kernel_sums was called with header.total_overage(genesis had a reward iff genesis.kernel_mmr_size > 0) and header.total_kernel_offset() -- and, unless fast validation was asked for, every range proof and every kernel signature was verified (a stop request turns into an error, never into Ok)
//@ assumed_items: 15
//@ fns: Extension::validate, Extension::validate_kernel_sums
use std::sync::Arc;
#[verifier::external_body]
#[derive(Clone, Copy)]
pub struct Commitment { _p: u8 }
#[verifier::external_body]
#[derive(Clone, Copy)]
pub struct BlindingFactor { _p: u8 }
pub enum Error { Stopped, Invalid }
#[verifier::external_body]
pub struct Status { _p: u8 }
#[verifier::external_body]
pub struct StopState { _p: u8 }
pub struct BlockHeader { pub height: u64, pub kernel_mmr_size: u64, pub id: u64 }
pub struct Tip { pub height: u64 }
pub uninterp spec fn sp_stop_requested() -> bool;
pub uninterp spec fn sp_total_overage(h: BlockHeader, genesis_had_reward: bool) -> i64;
pub uninterp spec fn sp_total_offset(h: BlockHeader) -> BlindingFactor;
pub uninterp spec fn sp_mmrs_valid(e: Extension) -> bool;
pub uninterp spec fn sp_roots_valid(e: Extension, h: BlockHeader) -> bool;
pub uninterp spec fn sp_sizes_valid(e: Extension, h: BlockHeader) -> bool;
pub uninterp spec fn sp_sums_verified(e: Extension, overage: i64, offset: BlindingFactor) -> bool;
pub uninterp spec fn sp_rangeproofs_verified(e: Extension, start: Option<u64>) -> bool;
pub uninterp spec fn sp_kernel_sigs_verified(e: Extension) -> bool;
impl StopState {
    #[verifier::external_body]
    pub fn is_stopped(&self) -> (r: bool) ensures r == sp_stop_requested() { unimplemented!() }
}
#[verifier::external_body]
fn clone_stop(s: &Option<Arc<StopState>>) -> (r: Option<Arc<StopState>>) ensures r.is_some() == s.is_some() { unimplemented!() }
impl BlockHeader {
    #[verifier::external_body]
    pub fn total_overage(&self, genesis_had_reward: bool) -> (r: i64) ensures r == sp_total_overage(*self, genesis_had_reward) { unimplemented!() }
    #[verifier::external_body]
    pub fn total_kernel_offset(&self) -> (r: BlindingFactor) ensures r == sp_total_offset(*self) { unimplemented!() }
}
pub mod secp_static {
    use super::*;
    #[verifier::external_body]
    pub fn commit_to_zero_value() -> (r: Commitment) { unimplemented!() }
}
pub struct Extension { pub head: Tip, pub id: u64 }
impl Extension {
    #[verifier::external_body]
    fn validate_mmrs(&self) -> (r: Result<(), Error>) ensures r.is_ok() ==> sp_mmrs_valid(*self) { unimplemented!() }
    #[verifier::external_body]
    pub fn validate_roots(&self, h: &BlockHeader) -> (r: Result<(), Error>) ensures r.is_ok() ==> sp_roots_valid(*self, *h) { unimplemented!() }
    #[verifier::external_body]
    pub fn validate_sizes(&self, h: &BlockHeader) -> (r: Result<(), Error>) ensures r.is_ok() ==> sp_sizes_valid(*self, *h) { unimplemented!() }
    #[verifier::external_body]
    fn verify_kernel_sums(&self, overage: i64, offset: BlindingFactor) -> (r: Result<(Commitment, Commitment), Error>)
        ensures r.is_ok() ==> sp_sums_verified(*self, overage, offset) { unimplemented!() }
    #[verifier::external_body]
    fn verify_rangeproofs(&self, status: Option<&Status>, start_pos: Option<u64>, batch_size: Option<usize>, single_iter: bool, stop_state: Option<Arc<StopState>>) -> (r: Result<u64, Error>)
        ensures r.is_ok() && batch_size.is_none() && !single_iter ==> (stop_state.is_some() && sp_stop_requested()) || sp_rangeproofs_verified(*self, start_pos) { unimplemented!() }
    #[verifier::external_body]
    fn verify_kernel_signatures(&self, status: &Status, stop_state: Option<Arc<StopState>>) -> (r: Result<(), Error>)
        ensures r.is_ok() ==> (stop_state.is_some() && sp_stop_requested()) || sp_kernel_sigs_verified(*self) { unimplemented!() }

//@ extract chain/src/txhashset/txhashset.rs :: impl Extension::validate_kernel_sums
//@   strip_logs
//@   rewrite `\t\tlet now = Instant::now();\n` => ``
//@   ensures:
//@+    r.is_ok() ==> sp_sums_verified(*self, sp_total_overage(*header, genesis.kernel_mmr_size > 0), sp_total_offset(*header)),
//@ end

//@ extract chain/src/txhashset/txhashset.rs :: impl Extension::validate
//@   strip_logs
//@   sigrewrite `status: &dyn TxHashsetWriteStatus,` => `status: &Status,`
//@   rewrite `if let Some(ref s) = stop_state {` => `if let Some(s) = &stop_state {` x2
//@   rewrite `return Err(Error::Stopped.into());` => `return Err(Error::Stopped);` x2
//@   rewrite `stop_state.clone()` => `clone_stop(&stop_state)` x2
//@   ensures:
//@+    r.is_ok() ==> sp_mmrs_valid(*self) && sp_roots_valid(*self, *header) && sp_sizes_valid(*self, *header),
//@+    r.is_ok() && self.head.height != 0 ==> sp_sums_verified(*self, sp_total_overage(*header, genesis.kernel_mmr_size > 0), sp_total_offset(*header)),
//@+    r.is_ok() && self.head.height != 0 && !fast_validation ==> sp_rangeproofs_verified(*self, output_start_pos) && sp_kernel_sigs_verified(*self),
//@+    r.is_ok() && stop_state.is_some() && !fast_validation && self.head.height != 0 ==> !sp_stop_requested(),
//@ end
}
//@ canary validate: r.is_err()
