//@ assume: the kernel MMR is abstract (unpruned_size, get_data over an uninterpreted content function), pmmr::is_leaf is uninterpreted here (its meaning is proved in C07), TxKernel::batch_sig_verify returns Ok only if every kernel of the slice verifies under its own excess (the libsecp256k1 batch verification, a cryptographic assumption); progress callbacks and the stop flag are abstract
//@ assume: T6 rewrites: `&dyn TxHashsetWriteStatus` => abstract struct; `Instant::now()` and the elapsed-time log dropped; in-function `const` => `let`; `.ok_or_else(|| E)` => `.ok_or(E)`; `if let Some(ref s) = stop_state` => by-reference match on the same Option; `for n in 0..self.kernel_pmmr.unpruned_size()` => named range loop with spliced invariant; log macros removed
//@ assume: decided here: full-state validation checks the signature of EVERY kernel in the kernel MMR -- Extension::verify_kernel_signatures returns Ok only if every leaf position below the unpruned size holds a kernel that went through a successful batch verification (no tail batch is skipped, whatever the kernel count and batch size), unless the node was asked to stop
//@ assume: 64-bit target
//@ assumed_items: 11
//@ fns: Extension::verify_kernel_signatures
use std::sync::Arc;
global size_of usize == 8;
#[verifier::external_body]
#[derive(Clone, Copy)]
pub struct TxKernel { _p: u8 }
pub enum Error { TxKernelNotFound, Sig }
#[verifier::external_body]
pub struct Status { _p: u8 }
#[verifier::external_body]
pub struct StopState { _p: u8 }
pub uninterp spec fn sp_sig_ok(k: TxKernel) -> bool;
pub uninterp spec fn sp_is_leaf(pos0: u64) -> bool;
pub uninterp spec fn sp_stop_requested() -> bool;
impl Status {
    #[verifier::external_body]
    pub fn on_validation_kernels(&self, done: u64, total: u64) { unimplemented!() }
}
impl StopState {
    #[verifier::external_body]
    pub fn is_stopped(&self) -> (r: bool) ensures r ==> sp_stop_requested() { unimplemented!() }
}
impl TxKernel {
    #[verifier::external_body]
    pub fn batch_sig_verify(ks: &Vec<TxKernel>) -> (r: Result<(), Error>)
        ensures r.is_ok() ==> forall|i: int| 0 <= i < ks@.len() ==> sp_sig_ok(#[trigger] ks@[i]) { unimplemented!() }
}
pub mod pmmr {
    use super::*;
    #[verifier::external_body]
    pub fn is_leaf(pos0: u64) -> (r: bool) ensures r == sp_is_leaf(pos0) { unimplemented!() }
    #[verifier::external_body]
    pub fn n_leaves(size: u64) -> (r: u64) { unimplemented!() }
}
#[verifier::external_body]
pub struct KernelPmmr { _p: u8 }
impl KernelPmmr {
    pub uninterp spec fn size(&self) -> u64;
    pub uninterp spec fn data(&self, pos0: u64) -> Option<TxKernel>;
    #[verifier::external_body]
    pub fn unpruned_size(&self) -> (r: u64) ensures r == self.size() { unimplemented!() }
    #[verifier::external_body]
    pub fn get_data(&self, pos0: u64) -> (r: Option<TxKernel>) ensures r == self.data(pos0) { unimplemented!() }
}
pub struct Extension { pub kernel_pmmr: KernelPmmr }

/// every leaf below `upto` holds a kernel whose signature verified, or one still waiting in the current batch
pub open spec fn covered(m: KernelPmmr, upto: int, pending: Seq<TxKernel>) -> bool {
    forall|p: u64| 0 <= p < upto && sp_is_leaf(p) ==> (#[trigger] m.data(p)).is_some() && (sp_sig_ok(m.data(p).unwrap()) || pending.contains(m.data(p).unwrap()))
}

impl Extension {
//@ extract chain/src/txhashset/txhashset.rs :: impl Extension::verify_kernel_signatures
//@   strip_logs
//@   sigrewrite `status: &dyn TxHashsetWriteStatus,` => `status: &Status,`
//@   rewrite `\t\tlet now = Instant::now();\n` => ``
//@   rewrite `const KERNEL_BATCH_SIZE: usize = 5_000;` => `let KERNEL_BATCH_SIZE: usize = 5_000;`
//@   rewrite `.ok_or_else(|| Error::TxKernelNotFound)?;` => `.ok_or(Error::TxKernelNotFound)?;`
//@   rewrite `if let Some(ref s) = stop_state {` => `if let Some(s) = &stop_state {`
//@   before `tx_kernels.push(kernel);`:
//@+    let ghost pre = tx_kernels@;
//@   after `tx_kernels.push(kernel);`:
//@+    proof {
//@+        assert forall|k: TxKernel| pre.contains(k) implies tx_kernels@.contains(k) by {
//@+            let i = choose|i: int| 0 <= i < pre.len() && pre[i] == k; assert(tx_kernels@[i] == k); }
//@+        assert(tx_kernels@[pre.len() as int] == kernel);
//@+        assert(covered(self.kernel_pmmr, n as int + 1, tx_kernels@));
//@+    }
//@   after `TxKernel::batch_sig_verify(&tx_kernels)?;`:
//@+    proof {
//@+        assert forall|k: TxKernel| tx_kernels@.contains(k) implies sp_sig_ok(k) by {
//@+            let i = choose|i: int| 0 <= i < tx_kernels@.len() && tx_kernels@[i] == k; assert(sp_sig_ok(tx_kernels@[i])); }
//@+        assert(covered(self.kernel_pmmr, n as int + 1, Seq::<TxKernel>::empty()));
//@+    }
//@   loop 1:
//@+    invariant
//@+        covered(self.kernel_pmmr, n as int, tx_kernels@),
//@+        n >= self.kernel_pmmr.size() ==> tx_kernels@.len() == 0,
//@+        kern_count as nat + tx_kernels@.len() <= n,
//@   ensures:
//@+    r.is_ok() ==> (stop_state.is_some() && sp_stop_requested()) || forall|p: u64| 0 <= p < self.kernel_pmmr.size() && sp_is_leaf(p) ==>
//@+        (#[trigger] self.kernel_pmmr.data(p)).is_some() && sp_sig_ok(self.kernel_pmmr.data(p).unwrap()),
//@ end
}
//@ canary verify_kernel_signatures: r.is_err()
