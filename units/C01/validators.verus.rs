//@ assume: the validators are verified as CONJUNCTIONS OF CHECKS: every callee (weight, NRD-duplicate, sorting, cut-through, feature, range-proof batch, signature batch, lock-height, coinbase and kernel-sum checks, overage and offset computations) is an external_body function whose meaning is an uninterpreted predicate/function of its arguments; the contract states which checks run and with which arguments (fee as overage for a transaction, minus the subsidy for a block, the block's own offset = total - previous), not that the callees are right
//@ assume: the callees that are pure Rust are covered elsewhere where possible (verify_weight: C14, verify_kernel_lock_heights / NRD rule: C13, header overage: C01/scalars); kernel-sum / range-proof / signature verification are libsecp256k1 behind FFI (assumed)
//@ assume: decided here: Transaction::validate, TransactionBody::validate_read, TransactionBody::verify_features and Block::validate return Ok only if every rule of the property statement was checked with the right operands; the 'after any accepted history' clause (stored sums across reorgs) is a history property outside this family (DESIGN 6 C01)
//@ assumed_items: 24
//@ fns: Transaction::validate, TransactionBody::validate_read, TransactionBody::verify_features, Block::validate

#[verifier::external_body]
pub struct BlindingFactor { _p: u8 }
#[verifier::external_body]
pub struct TransactionBody { _p: u8 }
#[verifier::external_body]
pub struct BlockHeader { _p: u8 }
#[verifier::external_body]
pub struct Commitment { _p: u8 }
pub enum Weighting { AsTransaction, AsLimitedTransaction(u64), AsBlock, NoLimit }
pub enum Error { Invalid }
pub struct Transaction { pub offset: BlindingFactor, pub body: TransactionBody }
pub struct Block { pub header: BlockHeader, pub body: TransactionBody }

pub uninterp spec fn sp_weight_ok(b: TransactionBody, w: Weighting) -> bool;
pub uninterp spec fn sp_no_nrd_dup(b: TransactionBody) -> bool;
pub uninterp spec fn sp_sorted_unique(b: TransactionBody) -> bool;
pub uninterp spec fn sp_no_cut_through(b: TransactionBody) -> bool;
pub uninterp spec fn sp_out_features_ok(b: TransactionBody) -> bool;
pub uninterp spec fn sp_kern_features_ok(b: TransactionBody) -> bool;
pub uninterp spec fn sp_body_valid(b: TransactionBody, w: Weighting) -> bool;   // validate_read + all range proofs + all kernel signatures
pub uninterp spec fn sp_sums_ok(b: TransactionBody, overage: i64, offset: BlindingFactor) -> bool; // outputs - inputs + overage*H == kernels + offset*G
pub uninterp spec fn sp_tx_overage(b: TransactionBody) -> i64;                 // the fee
pub uninterp spec fn sp_header_overage(h: BlockHeader) -> i64;                 // minus the subsidy
pub uninterp spec fn sp_block_offset(h: BlockHeader, prev: BlindingFactor) -> Option<BlindingFactor>; // total offset - previous total
pub uninterp spec fn sp_lock_heights_ok(h: BlockHeader, b: TransactionBody) -> bool;
pub uninterp spec fn sp_nrd_version_ok(h: BlockHeader, b: TransactionBody) -> bool;
pub uninterp spec fn sp_coinbase_ok(b: TransactionBody) -> bool;

impl BlindingFactor {
    #[verifier::external_body]
    pub fn clone(&self) -> (r: BlindingFactor) ensures r == *self { unimplemented!() }
}
impl BlockHeader {
    #[verifier::external_body]
    pub fn overage(&self) -> (r: i64) ensures r == sp_header_overage(*self) { unimplemented!() }
}
impl TransactionBody {
    #[verifier::external_body]
    fn verify_weight(&self, weighting: Weighting) -> (r: Result<(), Error>) ensures r.is_ok() ==> sp_weight_ok(*self, weighting) { unimplemented!() }
    #[verifier::external_body]
    fn verify_no_nrd_duplicates(&self) -> (r: Result<(), Error>) ensures r.is_ok() ==> sp_no_nrd_dup(*self) { unimplemented!() }
    #[verifier::external_body]
    fn verify_sorted(&self) -> (r: Result<(), Error>) ensures r.is_ok() ==> sp_sorted_unique(*self) { unimplemented!() }
    #[verifier::external_body]
    fn verify_cut_through(&self) -> (r: Result<(), Error>) ensures r.is_ok() ==> sp_no_cut_through(*self) { unimplemented!() }
    #[verifier::external_body]
    fn verify_output_features(&self) -> (r: Result<(), Error>) ensures r.is_ok() ==> sp_out_features_ok(*self) { unimplemented!() }
    #[verifier::external_body]
    fn verify_kernel_features(&self) -> (r: Result<(), Error>) ensures r.is_ok() ==> sp_kern_features_ok(*self) { unimplemented!() }
    #[verifier::external_body]
    pub fn validate(&self, weighting: Weighting) -> (r: Result<(), Error>) ensures r.is_ok() ==> sp_body_valid(*self, weighting) { unimplemented!() }

//@ extract core/src/core/transaction.rs :: impl TransactionBody::validate_read
//@   ensures:
//@+    r.is_ok() ==> sp_weight_ok(*self, weighting) && sp_no_nrd_dup(*self) && sp_sorted_unique(*self) && sp_no_cut_through(*self),
//@ end

//@ extract core/src/core/transaction.rs :: impl TransactionBody::verify_features
//@   ensures:
//@+    r.is_ok() ==> sp_out_features_ok(*self) && sp_kern_features_ok(*self),
//@ end
}

#[verifier::external_body]
pub struct TxKernel { _p: u8 }
#[verifier::external_body]
pub struct Output { _p: u8 }
impl Transaction {
    /// accessors of the real API (abstract element types), offered so that a change that consults them is decided, not undecided
    #[verifier::external_body]
    pub fn kernels(&self) -> (r: &[TxKernel]) { unimplemented!() }
    #[verifier::external_body]
    pub fn outputs(&self) -> (r: &[Output]) { unimplemented!() }
    #[verifier::external_body]
    pub fn overage(&self) -> (r: i64) ensures r == sp_tx_overage(self.body) { unimplemented!() }
    #[verifier::external_body]
    fn verify_kernel_sums(&self, overage: i64, kernel_offset: BlindingFactor) -> (r: Result<(Commitment, Commitment), Error>)
        ensures r.is_ok() ==> sp_sums_ok(self.body, overage, kernel_offset) { unimplemented!() }

//@ extract core/src/core/transaction.rs :: impl Transaction::validate
//@   ensures:
//@+    r.is_ok() ==> sp_out_features_ok(self.body) && sp_kern_features_ok(self.body)
//@+               && sp_body_valid(self.body, weighting)
//@+               && sp_sums_ok(self.body, sp_tx_overage(self.body), self.offset),
//@ end
}

impl Block {
    #[verifier::external_body]
    fn verify_kernel_lock_heights(&self) -> (r: Result<(), Error>) ensures r.is_ok() ==> sp_lock_heights_ok(self.header, self.body) { unimplemented!() }
    #[verifier::external_body]
    fn verify_nrd_kernels_for_header_version(&self) -> (r: Result<(), Error>) ensures r.is_ok() ==> sp_nrd_version_ok(self.header, self.body) { unimplemented!() }
    #[verifier::external_body]
    pub fn verify_coinbase(&self) -> (r: Result<(), Error>) ensures r.is_ok() ==> sp_coinbase_ok(self.body) { unimplemented!() }
    #[verifier::external_body]
    pub fn block_kernel_offset(&self, prev_kernel_offset: BlindingFactor) -> (r: Result<BlindingFactor, Error>)
        ensures r matches Ok(o) ==> sp_block_offset(self.header, prev_kernel_offset) == Some(o) { unimplemented!() }
    #[verifier::external_body]
    fn verify_kernel_sums(&self, overage: i64, kernel_offset: BlindingFactor) -> (r: Result<(Commitment, Commitment), Error>)
        ensures r.is_ok() ==> sp_sums_ok(self.body, overage, kernel_offset) { unimplemented!() }

//@ extract core/src/core/block.rs :: impl Block::validate
//@   ensures:
//@+    r.is_ok() ==> sp_body_valid(self.body, Weighting::AsBlock)
//@+               && sp_lock_heights_ok(self.header, self.body)
//@+               && sp_nrd_version_ok(self.header, self.body)
//@+               && sp_coinbase_ok(self.body)
//@+               && sp_block_offset(self.header, *prev_kernel_offset).is_some()
//@+               && sp_sums_ok(self.body, sp_header_overage(self.header), sp_block_offset(self.header, *prev_kernel_offset).unwrap()),
//@ end
}
//@ canary validate: r.is_err()
