//@ assume: ABSTRACT ADDITIVE GROUP: every Pedersen commitment c has a value val(c) in an abelian group, modelled by the integers (only abelian-group identities are used); assumed contracts of libsecp256k1 (C, behind FFI): commit_sum(pos, neg) = sum val(pos) - sum val(neg), commit_value(v) = v*H, commit(0, k) = k*G, the zero-value commitment has val 0, equality of commitments is equality of val (binding), commit_value/secret_key never fail on these inputs
//@ assume: T6 rewrites (complete list in the extract blocks): `positive.retain(|x| *x != zero_commit)` => retain_nonzero helper (assumed: removes only zero-valued elements), `overage.checked_abs().ok_or_else(|| Error::InvalidValue)?` => checked_abs_or_invalid(overage)?, `vec![..]` literals => Vec::new()/push, `!=` on Commitment/BlindingFactor => named helpers, trait default methods extracted as free functions over an abstract `Committed` value (T5)
//@ assume: decided here: grin's Rust code assembles the balance equation as stated -- sum_commitments(overage) = outputs - inputs + overage*H for BOTH signs of the overage (fee for a transaction, minus the subsidy for a block) and fails on i64::MIN; sum_kernel_excesses = (kernels, kernels + offset*G); verify_kernel_sums accepts iff outputs - inputs + overage*H == kernels + offset*G. That libsecp256k1 implements this group, that range proofs bound values and signatures prove knowledge of the excess are cryptographic assumptions.
//@ assumed_items: 19
//@ fns: committed::sum_commits, Committed::sum_commitments, Committed::sum_kernel_excesses, Committed::verify_kernel_sums

#[verifier::external_body]
#[derive(Clone, Copy)]
pub struct Commitment { _p: u8 }
#[verifier::external_body]
#[derive(Clone, Copy)]
pub struct BlindingFactor { _p: u8 }
#[verifier::external_body]
pub struct SecretKey { _p: u8 }
#[derive(Debug)]
pub enum Error { InvalidValue, KernelSumMismatch, Secp }

pub uninterp spec fn val(c: Commitment) -> int;      // value of a commitment in the group
pub uninterp spec fn h_gen() -> int;                 // generator H (values)
pub uninterp spec fn g_mul(k: BlindingFactor) -> int; // k*G
pub uninterp spec fn bf_is_zero(k: BlindingFactor) -> bool;
pub open spec fn sumv(s: Seq<Commitment>) -> int
    decreases s.len()
{ if s.len() == 0 { 0 } else { sumv(s.drop_last()) + val(s.last()) } }

proof fn lemma_sum_push(s: Seq<Commitment>, c: Commitment)
    ensures sumv(s.push(c)) == sumv(s) + val(c)
{ assert(s.push(c).drop_last() =~= s); }

#[verifier::external_body]
pub struct Secp { _p: u8 }
#[verifier::external_body]
pub struct SecpHandle { _p: u8 }
#[verifier::external_body]
fn static_secp_instance() -> (r: SecpHandle) { unimplemented!() }
impl SecpHandle {
    #[verifier::external_body]
    pub fn lock(&self) -> (r: Secp) { unimplemented!() }
}
impl Secp {
    #[verifier::external_body]
    pub fn commit_sum(&self, positive: Vec<Commitment>, negative: Vec<Commitment>) -> (r: Result<Commitment, Error>)
        ensures r matches Ok(c) ==> val(c) == sumv(positive@) - sumv(negative@) { unimplemented!() }
    #[verifier::external_body]
    pub fn commit_value(&self, v: u64) -> (r: Result<Commitment, Error>)
        ensures r matches Ok(c) && val(c) == v as int * h_gen() { unimplemented!() }
    #[verifier::external_body]
    pub fn commit(&self, v: u64, k: SecretKey) -> (r: Result<Commitment, Error>)
        ensures r matches Ok(c) ==> val(c) == v as int * h_gen() + sk_mul(k) { unimplemented!() }
}
pub uninterp spec fn sk_mul(k: SecretKey) -> int;
impl BlindingFactor {
    #[verifier::external_body]
    pub fn secret_key(&self, secp: &Secp) -> (r: Result<SecretKey, Error>)
        ensures r matches Ok(k) ==> sk_mul(k) == g_mul(*self) { unimplemented!() }
}
#[verifier::external_body]
fn commit_to_zero_value() -> (r: Commitment) ensures val(r) == 0 { unimplemented!() }
#[verifier::external_body]
fn retain_nonzero(v: &mut Vec<Commitment>, zero: Commitment)
    requires val(zero) == 0
    ensures sumv(final(v)@) == sumv(old(v)@)
{ unimplemented!() }
#[verifier::external_body]
fn commit_ne(a: &Commitment, b: &Commitment) -> (r: bool) ensures r == (val(*a) != val(*b)) { unimplemented!() }
#[verifier::external_body]
fn bf_nonzero(k: &BlindingFactor) -> (r: bool) ensures r == !bf_is_zero(*k), bf_is_zero(*k) ==> g_mul(*k) == 0 { unimplemented!() }
fn checked_abs_or_invalid(overage: i64) -> (r: Result<u64, Error>)
    ensures overage == i64::MIN ==> r.is_err(),
            overage != i64::MIN ==> r == Ok::<u64, Error>((if overage < 0 { -overage } else { overage as int }) as u64)
{ if overage == i64::MIN { Err(Error::InvalidValue) } else if overage < 0 { Ok((-overage) as u64) } else { Ok(overage as u64) } }

/// the object holding inputs, outputs and kernels (Transaction, Block, TransactionBody, or the running sums + block)
#[verifier::external_body]
pub struct CommittedObj { _p: u8 }
impl CommittedObj {
    pub uninterp spec fn ins(&self) -> Seq<Commitment>;
    pub uninterp spec fn outs(&self) -> Seq<Commitment>;
    pub uninterp spec fn kerns(&self) -> Seq<Commitment>;
    #[verifier::external_body]
    pub fn inputs_committed(&self) -> (r: Vec<Commitment>) ensures r@ == self.ins() { unimplemented!() }
    #[verifier::external_body]
    pub fn outputs_committed(&self) -> (r: Vec<Commitment>) ensures r@ == self.outs() { unimplemented!() }
    #[verifier::external_body]
    pub fn kernels_committed(&self) -> (r: Vec<Commitment>) ensures r@ == self.kerns() { unimplemented!() }

//@ extract core/src/core/committed.rs :: trait Committed::sum_commitments
//@   rewrite `let overage_abs = overage.checked_abs().ok_or_else(|| Error::InvalidValue)? as u64;` => `let overage_abs = checked_abs_or_invalid(overage)?;`
//@   ensures:
//@+    overage == i64::MIN ==> r.is_err(),
//@+    r matches Ok(c) ==> val(c) == sumv(self.outs()) - sumv(self.ins()) + overage as int * h_gen(),
//@   after `let mut output_commits = self.outputs_committed();`:
//@+    let ghost in0 = input_commits@;
//@+    let ghost out0 = output_commits@;
//@+    proof {
//@+        assert forall|c: Commitment| #[trigger] sumv(in0.push(c)) == sumv(in0) + val(c) by { lemma_sum_push(in0, c); }
//@+        assert forall|c: Commitment| #[trigger] sumv(out0.push(c)) == sumv(out0) + val(c) by { lemma_sum_push(out0, c); }
//@+        assert((-(overage as int)) * h_gen() == -(overage as int * h_gen())) by(nonlinear_arith);
//@+    }
//@ end

//@ extract core/src/core/committed.rs :: trait Committed::sum_kernel_excesses
//@   rewrite `sum_commits(kernel_commits, vec![])?` => `sum_commits(kernel_commits, Vec::new())?`
//@   rewrite `let mut commits = vec![kernel_sum];` => `let mut commits = Vec::new();\n\t\t\tcommits.push(kernel_sum);`
//@   rewrite `if *offset != BlindingFactor::zero() {` => `if bf_nonzero(offset) {`
//@   rewrite `secp.commit_sum(commits, vec![])?` => `secp.commit_sum(commits, Vec::new())?`
//@   ensures:
//@+    r matches Ok(p) ==> val(p.0) == sumv(self.kerns()) && val(p.1) == sumv(self.kerns()) + g_mul(*offset),
//@   before `let mut commits = Vec::new();`:
//@+    proof { lemma_sum_push(Seq::<Commitment>::empty(), kernel_sum); }
//@   before `commits.push(offset_commit);`:
//@+    proof { lemma_sum_push(commits@, offset_commit); }
//@ end

//@ extract core/src/core/committed.rs :: trait Committed::verify_kernel_sums
//@   rewrite `if utxo_sum != kernel_sum_plus_offset {` => `if commit_ne(&utxo_sum, &kernel_sum_plus_offset) {`
//@   ensures:
//@+    r matches Ok(p) ==> val(p.0) == sumv(self.outs()) - sumv(self.ins()) + overage as int * h_gen()
//@+        && val(p.1) == sumv(self.kerns())
//@+        && sumv(self.outs()) - sumv(self.ins()) + overage as int * h_gen() == sumv(self.kerns()) + g_mul(kernel_offset),
//@ end
}

//@ extract core/src/core/committed.rs :: fn sum_commits
//@   rewrite `let zero_commit = secp_static::commit_to_zero_value();` => `let zero_commit = commit_to_zero_value();`
//@   rewrite `positive.retain(|x| *x != zero_commit);` => `retain_nonzero(&mut positive, zero_commit);`
//@   rewrite `negative.retain(|x| *x != zero_commit);` => `retain_nonzero(&mut negative, zero_commit);`
//@   ensures:
//@+    r matches Ok(c) ==> val(c) == sumv(positive@) - sumv(negative@),
//@ end
//@ canary verify_kernel_sums: r.is_err()
