//@ assume: libsecp256k1 (aggsig single / batch verification, bulletproof batch verification, commitment -> public key) is MODELLED by uninterpreted predicates of ALL the arguments handed to it (as in C20/aggsig); KernelFeatures::kernel_sig_msg (the hash of features, fee and lock / relative height: blake2b, outside) is an uninterpreted function of the kernel's features; static_secp_instance / lock are abstract
//@ assume: T6: `for tx_kernel in tx_kernels {` => iteration over the slice's elements; `Vec::with_capacity(len)` => typed empty vectors; `commits.to_vec()` / `proofs.to_vec()` => copies; T5: `secp.lock().verify_bullet_proof_multi(..)` => the abstract Secp method
//@ assume: decided here (C01 'every kernel is signed under its own excess', 'every output carries a valid range proof', at the level of WHAT IS HANDED TO libsecp): TxKernel::verify checks THIS kernel's signature over THIS kernel's message under the public key of THIS kernel's excess, STRICTLY (not as a partial signature), with that key also as the key sum; TxKernel::batch_sig_verify hands the batch verifier, for EVERY kernel of the slice and in the same order, its own signature, its own message and the public key of its own excess -- Ok only if the batch verified (any kernel whose excess is not a valid key or whose message cannot be built is an error); Output::batch_verify_proofs hands the bulletproof batch verifier EXACTLY the commitments and proofs given, in order
//@ assumed_items: 11
//@ fns: TxKernel::verify, TxKernel::batch_sig_verify, TxKernel::msg_to_sign, Output::batch_verify_proofs
#[verifier::external_body]
pub struct Secp { _p: u8 }
#[verifier::external_body]
pub struct SecpHandle { _p: u8 }
#[verifier::external_body]
fn static_secp_instance() -> (r: SecpHandle) { unimplemented!() }
impl SecpHandle { #[verifier::external_body] pub fn lock(&self) -> (r: Secp) { unimplemented!() } }
#[derive(Clone, Copy, PartialEq, Eq)]
pub struct Signature { pub v: u64 }
#[derive(Clone, Copy, PartialEq, Eq)]
pub struct PublicKey { pub v: u64 }
#[derive(Clone, Copy, PartialEq, Eq)]
pub struct Commitment { pub v: u64 }
#[derive(Clone, Copy, PartialEq, Eq)]
pub struct RangeProof { pub v: u64 }
#[derive(Clone, Copy, PartialEq, Eq)]
pub struct KernelFeatures { pub v: u64 }
pub mod secp { #[derive(Clone, Copy, PartialEq, Eq)] pub struct Message { pub v: u64 } }
pub enum Error { IncorrectSignature, Secp, RangeProof }
pub uninterp spec fn sp_to_pubkey(c: Commitment) -> Result<PublicKey, Error>;
pub uninterp spec fn sp_msg(f: KernelFeatures) -> Result<secp::Message, Error>;
pub uninterp spec fn sp_verify(s: Signature, m: secp::Message, pubnonce: Option<PublicKey>, pk: PublicKey, pk_total: Option<PublicKey>, partial: bool) -> bool;
pub uninterp spec fn sp_batch(sigs: Seq<Signature>, msgs: Seq<secp::Message>, pks: Seq<PublicKey>) -> bool;
pub uninterp spec fn sp_bp_batch(cs: Seq<Commitment>, ps: Seq<RangeProof>) -> bool;
pub open spec fn deref_opt<T>(o: Option<&T>) -> Option<T> { match o { Some(x) => Some(*x), None => None } }
impl Commitment {
    #[verifier::external_body]
    pub fn to_pubkey(&self, secp: &Secp) -> (r: Result<PublicKey, Error>) ensures r == sp_to_pubkey(*self) { unimplemented!() }
}
impl KernelFeatures {
    #[verifier::external_body]
    pub fn kernel_sig_msg(&self) -> (r: Result<secp::Message, Error>) ensures r == sp_msg(*self) { unimplemented!() }
}
pub mod aggsig { use super::*;
    #[verifier::external_body]
    pub fn verify_single(secp: &Secp, sig: &Signature, msg: &secp::Message, pubnonce: Option<&PublicKey>, pubkey: &PublicKey, pubkey_sum: Option<&PublicKey>, is_partial: bool) -> (r: bool)
        ensures r == sp_verify(*sig, *msg, deref_opt(pubnonce), *pubkey, deref_opt(pubkey_sum), is_partial) { unimplemented!() }
    #[verifier::external_body]
    pub fn verify_batch(secp: &Secp, sigs: &Vec<Signature>, msgs: &Vec<secp::Message>, pubkeys: &Vec<PublicKey>) -> (r: bool)
        ensures r == sp_batch(sigs@, msgs@, pubkeys@) { unimplemented!() }
}
impl Secp {
    #[verifier::external_body]
    pub fn verify_bullet_proof_multi(&self, commits: Vec<Commitment>, proofs: Vec<RangeProof>, extra: Option<u8>) -> (r: Result<(), Error>)
        ensures r is Ok ==> sp_bp_batch(commits@, proofs@) { unimplemented!() }
}
#[verifier::external_body]
pub fn commits_to_vec(s: &[Commitment]) -> (r: Vec<Commitment>) ensures r@ == s@ { unimplemented!() }
#[verifier::external_body]
pub fn proofs_to_vec(s: &[RangeProof]) -> (r: Vec<RangeProof>) ensures r@ == s@ { unimplemented!() }
#[derive(Clone, Copy, PartialEq, Eq)]
pub struct TxKernel { pub features: KernelFeatures, pub excess: Commitment, pub excess_sig: Signature }
pub open spec fn sigs_of(ks: Seq<TxKernel>) -> Seq<Signature> { ks.map_values(|k: TxKernel| k.excess_sig) }
pub open spec fn all_keys_ok(ks: Seq<TxKernel>) -> bool { forall|i: int| 0 <= i < ks.len() ==> sp_to_pubkey(#[trigger] ks[i].excess) is Ok && sp_msg(ks[i].features) is Ok }
pub open spec fn keys_of(ks: Seq<TxKernel>) -> Seq<PublicKey> { ks.map_values(|k: TxKernel| sp_to_pubkey(k.excess)->Ok_0) }
pub open spec fn msgs_of(ks: Seq<TxKernel>) -> Seq<secp::Message> { ks.map_values(|k: TxKernel| sp_msg(k.features)->Ok_0) }
impl TxKernel {
//@ extract core/src/core/transaction.rs :: impl TxKernel::msg_to_sign
//@   ensures:
//@+    r == sp_msg(self.features),
//@ end
//@ extract core/src/core/transaction.rs :: impl TxKernel::verify
//@   ensures:
//@+    r is Ok ==> (sp_to_pubkey(self.excess) matches Ok(pk) && sp_msg(self.features) matches Ok(m) && sp_verify(self.excess_sig, m, None, pk, Some(pk), false)),
//@ end
//@ extract core/src/core/transaction.rs :: impl TxKernel::batch_sig_verify
//@   rewrite `let mut sigs = Vec::with_capacity(len);` => `let mut sigs: Vec<Signature> = Vec::new();`
//@   rewrite `let mut pubkeys = Vec::with_capacity(len);` => `let mut pubkeys: Vec<PublicKey> = Vec::new();`
//@   rewrite `let mut msgs = Vec::with_capacity(len);` => `let mut msgs: Vec<secp::Message> = Vec::new();`
//@   rewrite `for tx_kernel in tx_kernels {` => `for tx_kernel in it: tx_kernels.iter() {`
//@   ensures:
//@+    r is Ok ==> all_keys_ok(tx_kernels@) && sp_batch(sigs_of(tx_kernels@), msgs_of(tx_kernels@), keys_of(tx_kernels@)),
//@   loop 1:
//@+    invariant
//@+        all_keys_ok(tx_kernels@.take(it.index@)),
//@+        sigs@ =~= sigs_of(tx_kernels@.take(it.index@)), pubkeys@ =~= keys_of(tx_kernels@.take(it.index@)), msgs@ =~= msgs_of(tx_kernels@.take(it.index@)),
//@   after `msgs.push(tx_kernel.msg_to_sign()?);`:
//@+    proof { assert(tx_kernels@.take(it.index@ + 1) =~= tx_kernels@.take(it.index@).push(*tx_kernel)); }
//@   before `if !aggsig::verify_batch(`:
//@+    proof { assert(tx_kernels@.take(tx_kernels@.len() as int) =~= tx_kernels@); }
//@ end
}
pub struct Output { pub _p: u8 }
impl Output {
//@ extract core/src/core/transaction.rs :: impl Output::batch_verify_proofs
//@   rewrite `secp.lock()\n\t\t\t.verify_bullet_proof_multi(commits.to_vec(), proofs.to_vec(), None)?;` => `secp.lock().verify_bullet_proof_multi(commits_to_vec(commits), proofs_to_vec(proofs), None)?;`
//@   ensures:
//@+    r is Ok ==> sp_bp_batch(commits@, proofs@),
//@ end
}
//@ canary verify: r is Err
//@ canary batch_sig_verify: r is Err
