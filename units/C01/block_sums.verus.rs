//@ assume: Batch (LMDB), BlockSums storage, header accessors and the kernel-sum verification over (previous sums + block) are abstract: external functions with uninterpreted results; the contract states which values pipe::verify_block_sums combines and what it stores
//@ assume: T6 rewrites: `(block_sums, b as &dyn Committed).verify_kernel_sums(overage, offset)?` => `verify_kernel_sums_pair(&block_sums, b, overage, offset)?` (the tuple impl of Committed: previous running sums extended by the block), `batch: &mut store::Batch<'_>` / `ctx: &mut BlockContext<'_>` lifetimes dropped
//@ assume: decided here: the running sums stored for a block are exactly the sums verified over (previous block's stored sums + this block) with the header's own overage (minus the subsidy) and total kernel offset, and validate_block validates the block against its parent's total offset; that the stored sums equal sums recomputed from the full state after any history is a history property (DESIGN 6 C01)
//@ assumed_items: 11
//@ fns: pipe::verify_block_sums, pipe::validate_block

#[verifier::external_body]
#[derive(Clone, Copy)]
pub struct Hash { _p: u8 }
#[verifier::external_body]
#[derive(Clone, Copy)]
pub struct Commitment { _p: u8 }
#[verifier::external_body]
#[derive(Clone, Copy)]
pub struct BlindingFactor { _p: u8 }
pub struct BlockSums { pub utxo_sum: Commitment, pub kernel_sum: Commitment }
pub struct BlockHeader { pub prev_hash: Hash, pub total_kernel_offset: BlindingFactor, pub id: Ghost<int> }
pub struct Block { pub header: BlockHeader, pub body_id: Ghost<int> }
#[verifier::external_body]
pub struct Batch { _p: u8 }
pub struct BlockContext { pub batch: Batch }
pub enum Error { Store, Sums, Invalid }

pub uninterp spec fn sp_overage(h: BlockHeader) -> i64;
pub uninterp spec fn sp_block_hash(b: Block) -> Hash;
pub uninterp spec fn sp_pair_sums(prev: BlockSums, b: Block, overage: i64, offset: BlindingFactor) -> Option<(Commitment, Commitment)>;
pub uninterp spec fn sp_block_valid(b: Block, prev_offset: BlindingFactor) -> bool;
pub uninterp spec fn sp_prev_header(batch: Batch, h: BlockHeader) -> Option<BlockHeader>;

impl Batch {
    pub uninterp spec fn sums(&self, h: Hash) -> Option<BlockSums>;
    #[verifier::external_body]
    pub fn get_block_sums(&self, h: &Hash) -> (r: Result<BlockSums, Error>)
        ensures r matches Ok(s) ==> self.sums(*h) == Some(s) { unimplemented!() }
    #[verifier::external_body]
    pub fn save_block_sums(&mut self, h: &Hash, sums: BlockSums) -> (r: Result<(), Error>)
        ensures r.is_ok() ==> final(self).sums(*h) == Some(sums) { unimplemented!() }
    #[verifier::external_body]
    pub fn get_previous_header(&self, h: &BlockHeader) -> (r: Result<BlockHeader, Error>)
        ensures r matches Ok(p) ==> sp_prev_header(*self, *h) == Some(p) { unimplemented!() }
}
impl BlockHeader {
    #[verifier::external_body]
    pub fn overage(&self) -> (r: i64) ensures r == sp_overage(*self) { unimplemented!() }
    pub fn total_kernel_offset(&self) -> (r: BlindingFactor) ensures r == self.total_kernel_offset { self.total_kernel_offset }
}
impl Block {
    #[verifier::external_body]
    pub fn hash(&self) -> (r: Hash) ensures r == sp_block_hash(*self) { unimplemented!() }
    #[verifier::external_body]
    pub fn validate(&self, prev_kernel_offset: &BlindingFactor) -> (r: Result<(), Error>)
        ensures r.is_ok() ==> sp_block_valid(*self, *prev_kernel_offset) { unimplemented!() }
}
#[verifier::external_body]
fn verify_kernel_sums_pair(prev: &BlockSums, b: &Block, overage: i64, offset: BlindingFactor) -> (r: Result<(Commitment, Commitment), Error>)
    ensures r matches Ok(p) ==> sp_pair_sums(*prev, *b, overage, offset) == Some(p)
{ unimplemented!() }

//@ extract chain/src/pipe.rs :: fn verify_block_sums
//@   sigrewrite `batch: &mut store::Batch<'_>` => `batch: &mut Batch`
//@   rewrite `(block_sums, b as &dyn Committed).verify_kernel_sums(overage, offset)?` => `verify_kernel_sums_pair(&block_sums, b, overage, offset)?`
//@   ensures:
//@+    r.is_ok() ==> (old(batch).sums(b.header.prev_hash) matches Some(prev)
//@+        && sp_pair_sums(prev, *b, sp_overage(b.header), b.header.total_kernel_offset) matches Some(p)
//@+        && final(batch).sums(sp_block_hash(*b)) == Some(BlockSums { utxo_sum: p.0, kernel_sum: p.1 })),
//@ end

//@ extract chain/src/pipe.rs :: fn validate_block
//@   sigrewrite `ctx: &mut BlockContext<'_>` => `ctx: &mut BlockContext`
//@   ensures:
//@+    r.is_ok() ==> (sp_prev_header(old(ctx).batch, block.header) matches Some(prev) && sp_block_valid(*block, prev.total_kernel_offset)),
//@ end
//@ canary verify_block_sums: r.is_err()
