//@ crate: grin_core
//@ target: core/src/core/transaction.rs
//@ assume: decided here, through the real private function and refactor-robust (no anchors): TransactionBody::verify_cut_through returns Ok only if the commitments of all inputs and all outputs together are pairwise distinct -- including ONE commitment listed by TWO inputs under different feature flags (which the (features, commitment) hash order regards as different entries) and an output spent inside the same body. BOUNDED: two harnesses -- two inputs in the features-and-commitment form (features symbolic) and no output; one input and one output -- commitments symbolic in their first byte (the other 32 bytes fixed), so both equal / distinct patterns are covered in each shape (three entries at once exceeded the 10 GB CBMC cap: the generic sort); the unbounded statement is C01/no_cut_through (Verus).
//@ harness c01_cut_through_two_inputs kind=bounded tier=quick fns=TransactionBody::verify_cut_through,TransactionBody::inputs_outputs_committed bound=2_inputs_0_outputs,_commitments_symbolic_in_one_byte
//@ harness c01_cut_through_input_output kind=bounded tier=quick fns=TransactionBody::verify_cut_through,TransactionBody::inputs_outputs_committed bound=1_input_1_output,_commitments_symbolic_in_one_byte
use crate::verif_kani_support::*;

fn c01_commit(b: u8) -> Commitment {
	let mut c = [7u8; 33];
	c[0] = b;
	Commitment(c)
}
fn c01_features(b: bool) -> OutputFeatures {
	if b {
		OutputFeatures::Coinbase
	} else {
		OutputFeatures::Plain
	}
}

#[kani::proof]
#[kani::unwind(36)]
#[kani::stub(alloc::fmt::format, stub_format)]
fn c01_cut_through_two_inputs() {
	let (a, b): (u8, u8) = (kani::any(), kani::any());
	kani::assume(a < 2 && b < 2);
	let i1 = Input { features: c01_features(kani::any()), commit: c01_commit(a) };
	let i2 = Input { features: c01_features(kani::any()), commit: c01_commit(b) };
	let mut body = TransactionBody::empty();
	body.inputs = Inputs::FeaturesAndCommit(vec![i1, i2]);
	let r = body.verify_cut_through();
	assert!(r.is_ok() == (a != b), "C01: one commitment spent by two inputs (under any feature flags) is refused, distinct ones pass");
}

#[kani::proof]
#[kani::unwind(36)]
#[kani::stub(alloc::fmt::format, stub_format)]
fn c01_cut_through_input_output() {
	let (a, c): (u8, u8) = (kani::any(), kani::any());
	kani::assume(a < 2 && c < 2);
	let i1 = Input { features: c01_features(kani::any()), commit: c01_commit(a) };
	let out = Output {
		identifier: OutputIdentifier { features: OutputFeatures::Plain, commit: c01_commit(c) },
		proof: unsafe { core::mem::zeroed() },
	};
	let mut body = TransactionBody::empty();
	body.inputs = Inputs::FeaturesAndCommit(vec![i1]);
	body.outputs = vec![out];
	let r = body.verify_cut_through();
	assert!(r.is_ok() == (a != c), "C01: an output spent inside the same body is refused, distinct ones pass");
}
