//@ assume: ProofMessage, Identifier, PublicKey, Commitment, Secp256k1, BIP32GrinHasher are abstract; ViewKey is reduced to depth / child_number / is_test plus an opaque key identity; ckd_pub (public child derivation) and commit / to_pubkey are libsecp256k1 behind FFI, modelled as uninterpreted functions; Identifier::from_serialized_path + to_path yield a path whose depth is the given depth (<= 4) -- the inverse pair proved by Kani in C20/paths
//@ assume: T6 rewrites: `msg[..2] != exp` => helper prefix comparison; `u8::min` => local min; `Identifier::from_serialized_path(depth, &msg[4..])` => helper over the same bytes; `!=` / `==` on ChildNumber / PublicKey => helper equality (derived PartialEq assumed structural); `self.clone()` => helper clone; `SwitchCommitmentType::try_from` is the real text (trait impl method extracted as an inherent fn)
//@ assume: decided here: the view key recognises EXACTLY its own outputs -- <ViewKey as ProofBuild>::check_output returns Ok(None) ONLY for one of the listed reasons (malformed message, unknown switch byte, the output's path is SHORTER than the view key's depth, the child number at the key's depth differs, a hardened step below the view key, or the derived public key does not match the commitment) and returns Some((id, switch)) only with the identifier and switch mode encoded in the message and a matching derived key; in particular an output at the SAME depth as the view key (depth 0 with the root view key) is not refused
//@ assumed_items: 16
//@ fns: <ViewKey as ProofBuild>::check_output, SwitchCommitmentType::try_from, ChildNumber::is_hardened
global size_of usize == 8;
#[verifier::external_body]
pub struct Secp256k1 { _p: u8 }
#[verifier::external_body]
pub struct BIP32GrinHasher { _p: u8 }
impl BIP32GrinHasher {
    #[verifier::external_body]
    pub fn new(is_test: bool) -> (r: BIP32GrinHasher) { unimplemented!() }
}
#[verifier::external_body]
#[derive(Clone, Copy)]
pub struct PublicKey { _p: u8 }
#[verifier::external_body]
pub struct Commitment { _p: u8 }
pub enum Error { Secp, Other }
#[derive(Clone, Copy, PartialEq, Eq)]
//@ extract keychain/src/types.rs :: enum SwitchCommitmentType
//@   strip_attrs
//@ end
#[derive(Clone, Copy, PartialEq, Eq)]
//@ extract keychain/src/extkey_bip32.rs :: enum ChildNumber
//@   strip_attrs
//@ end
impl SwitchCommitmentType {
//@ extract keychain/src/types.rs :: impl TryFrom for SwitchCommitmentType::try_from
//@   sigrewrite `fn try_from(value: u8) -> Result<Self, Self::Error>` => `pub fn try_from(value: u8) -> Result<Self, ()>`
//@   ensures:
//@+    r == sp_switch(value),
//@ end
}
pub open spec fn sp_switch(b: u8) -> Result<SwitchCommitmentType, ()> {
    if b == 0 { Ok(SwitchCommitmentType::None) } else if b == 1 { Ok(SwitchCommitmentType::Regular) } else { Err(()) }
}
impl ChildNumber {
//@ extract keychain/src/extkey_bip32.rs :: impl ChildNumber::is_hardened
//@   ensures:
//@+    r == (self is Hardened),
//@ end
}
pub struct ExtKeychainPath { pub depth: u8, pub path: [ChildNumber; 4] }
#[derive(Clone, Copy)]
pub struct Identifier { pub tag: u64 }
pub uninterp spec fn sp_ident(depth: u8, msg: Seq<u8>) -> Identifier;
pub uninterp spec fn sp_path(id: Identifier) -> ExtKeychainPath;
impl Identifier {
    #[verifier::external_body]
    pub fn to_path(&self) -> (r: ExtKeychainPath) ensures r == sp_path(*self) { unimplemented!() }
}
#[verifier::external_body]
fn ident_from(depth: u8, msg: &[u8]) -> (r: Identifier)
    requires depth <= 4, msg@.len() == 20
    ensures r == sp_ident(depth, msg@), sp_path(r).depth == depth { unimplemented!() }
#[verifier::external_body]
pub struct ProofMessage { _p: u8 }
impl ProofMessage {
    pub uninterp spec fn bytes(&self) -> Seq<u8>;
    #[verifier::external_body]
    pub fn len(&self) -> (r: usize) ensures r == self.bytes().len() { unimplemented!() }
    #[verifier::external_body]
    pub fn as_bytes(&self) -> (r: &[u8]) ensures r@ == self.bytes() { unimplemented!() }
}
fn min_u8(a: u8, b: u8) -> (r: u8) ensures r == (if a <= b { a } else { b }) { if a <= b { a } else { b } }
#[verifier::external_body]
fn prefix2_differs(msg: &[u8], exp: &[u8; 2]) -> (r: bool) requires msg@.len() >= 2 ensures r == !(msg@[0] == exp@[0] && msg@[1] == exp@[1]) { unimplemented!() }
#[verifier::external_body]
fn cn_ne(a: ChildNumber, b: ChildNumber) -> (r: bool) ensures r == (a != b) { a != b }

pub uninterp spec fn sp_ckd(k: ViewKey, c: ChildNumber) -> ViewKey;
pub uninterp spec fn sp_pub(k: ViewKey, amount: u64, sw: SwitchCommitmentType) -> PublicKey;
pub uninterp spec fn sp_commit_pub(c: Commitment) -> PublicKey;
#[derive(Clone, Copy)]
pub struct ViewKey { pub is_test: bool, pub depth: u8, pub child_number: ChildNumber, pub key_id: u64 }
impl Commitment {
    #[verifier::external_body]
    pub fn to_pubkey(&self, secp: &Secp256k1) -> (r: Result<PublicKey, Error>) ensures r matches Ok(p) ==> p == sp_commit_pub(*self) { unimplemented!() }
}
#[verifier::external_body]
fn pk_eq(a: PublicKey, b: PublicKey) -> (r: bool) ensures r == (a == b) { unimplemented!() }
impl ViewKey {
    pub fn clone_key(&self) -> (r: ViewKey) ensures r == *self { *self }
    #[verifier::external_body]
    pub fn ckd_pub(&self, secp: &Secp256k1, hasher: &mut BIP32GrinHasher, c: ChildNumber) -> (r: Result<ViewKey, Error>) ensures r matches Ok(k) ==> k == sp_ckd(*self, c) { unimplemented!() }
    #[verifier::external_body]
    pub fn commit(&self, secp: &Secp256k1, amount: u64, sw: SwitchCommitmentType) -> (r: Result<PublicKey, Error>) ensures r matches Ok(p) ==> p == sp_pub(*self, amount, sw) { unimplemented!() }
}
/// the view key derived along path[from..upto)
pub open spec fn derive(k: ViewKey, p: ExtKeychainPath, from: int, upto: int) -> ViewKey decreases upto - from {
    if upto <= from { k } else { sp_ckd(derive(k, p, from, upto - 1), p.path@[upto - 1]) }
}
pub open spec fn parsed(k: ViewKey, m: ProofMessage) -> bool { m.bytes().len() == 20 && m.bytes()[0] == 0 && m.bytes()[1] == 0 && sp_switch(m.bytes()[2]).is_ok() }
pub open spec fn msg_id(m: ProofMessage) -> Identifier { sp_ident(if m.bytes()[3] <= 4 { m.bytes()[3] } else { 4 }, m.bytes()) }
pub open spec fn no_hardened(p: ExtKeychainPath, from: int, upto: int) -> bool { forall|i: int| from <= i < upto ==> !((#[trigger] p.path@[i]) is Hardened) }

impl ViewKey {
//@ extract core/src/libtx/proof.rs :: impl ProofBuild for ViewKey::check_output
//@   sigrewrite `fn check_output(` => `pub fn check_output(`
//@   rewrite `if msg[..2] != exp {` => `if prefix2_differs(msg, &exp) {`
//@   rewrite `u8::min(msg[3], 4)` => `min_u8(msg[3], 4)`
//@   rewrite `Identifier::from_serialized_path(depth, &msg[4..])` => `ident_from(depth, msg)`
//@   rewrite `&& self.child_number != path.path[self.depth as usize - 1]` => `&& cn_ne(self.child_number, path.path[self.depth as usize - 1])`
//@   rewrite `let mut key = self.clone();` => `let mut key = self.clone_key();`
//@   rewrite `for i in self.depth..path.depth {` => `for i in iter: self.depth..path.depth {`
//@   rewrite `if commit.to_pubkey(&secp)? == pub_key {` => `if pk_eq(commit.to_pubkey(&secp)?, pub_key) {`
//@   loop 1:
//@+    invariant
//@+        self.depth <= path.depth <= 4, path == sp_path(id),
//@+        key == derive(*self, path, self.depth as int, i as int),
//@+        no_hardened(path, self.depth as int, i as int),
//@+        parsed(*self, message), id == msg_id(message), sp_switch(message.bytes()[2]) == Ok::<SwitchCommitmentType, ()>(switch),
//@   after `if child_number.is_hardened() {`:
//@+    proof { assert(path.path@[i as int] is Hardened); }
//@   ensures:
//@+    r matches Ok(Some(found)) ==> parsed(*self, message) && found.0 == msg_id(message) && Ok::<SwitchCommitmentType, ()>(found.1) == sp_switch(message.bytes()[2])
//@+        && self.depth <= sp_path(found.0).depth && no_hardened(sp_path(found.0), self.depth as int, sp_path(found.0).depth as int)
//@+        && sp_commit_pub(*commit) == sp_pub(derive(*self, sp_path(found.0), self.depth as int, sp_path(found.0).depth as int), amount, found.1),
//@+    r matches Ok(None) ==> !parsed(*self, message) || ({
//@+        let p = sp_path(msg_id(message));
//@+        ||| self.depth > p.depth
//@+        ||| (self.depth > 0 && p.depth > 0 && self.child_number != p.path@[self.depth as int - 1])
//@+        ||| !no_hardened(p, self.depth as int, p.depth as int)
//@+        ||| sp_commit_pub(*commit) != sp_pub(derive(*self, p, self.depth as int, p.depth as int), amount, sp_switch(message.bytes()[2]).unwrap()) }),
//@ end
}
//@ canary check_output: r.is_err()
