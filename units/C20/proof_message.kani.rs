//@ crate: grin_core
//@ target: core/src/libtx/proof.rs
//@ assume: the Keychain is a mock whose `commit` packs (identifier bytes, switch, amount) injectively into the 33 commitment bytes and whose other methods are unreachable; libsecp256k1 (real commitments, BIP32 derivation) is FFI and outside Kani -- what is decided is the MESSAGE layer: what the proof message carries and how check_output parses and matches it
//@ assume: ProofBuilder / LegacyProofBuilder are built with empty nonce hashes (ProofBuilder::new derives them through libsecp256k1); the hashes play no role in proof_message / check_output
//@ harness c20_proof_message_roundtrip kind=complete tier=quick fns=ProofBuilder::proof_message,ProofBuilder::check_output,SwitchCommitmentType::try_from,Identifier::from_serialized_path,Identifier::to_bytes bound=-
//@ harness c20_proof_message_foreign kind=complete tier=quick fns=ProofBuilder::check_output bound=-
//@ harness c20_legacy_proof_message_roundtrip kind=complete tier=quick fns=LegacyProofBuilder::proof_message,LegacyProofBuilder::check_output,Identifier::serialize_path,Identifier::from_serialized_path bound=-
use crate::verif_kani_support::*;
use keychain::{BlindSum, BlindingFactor, Error as KcError};
use util::secp::key::PublicKey;
use util::secp::{Message, Signature};

#[derive(Clone)]
struct KMock;
impl Keychain for KMock {
	fn from_seed(_: &[u8], _: bool) -> Result<Self, KcError> { unreachable!() }
	fn from_mnemonic(_: &str, _: &str, _: bool) -> Result<Self, KcError> { unreachable!() }
	fn from_random_seed(_: bool) -> Result<Self, KcError> { unreachable!() }
	fn mask_master_key(&mut self, _: &SecretKey) -> Result<(), KcError> { unreachable!() }
	fn root_key_id() -> Identifier { unreachable!() }
	fn derive_key_id(_: u8, _: u32, _: u32, _: u32, _: u32) -> Identifier { unreachable!() }
	fn public_root_key(&self) -> PublicKey { unreachable!() }
	fn derive_key(&self, _: u64, _: &Identifier, _: SwitchCommitmentType) -> Result<SecretKey, KcError> { unreachable!() }
	/// injective stand-in for the Pedersen commitment: bytes 0..17 identifier, 17 switch, 18..26 amount
	fn commit(&self, amount: u64, id: &Identifier, switch: SwitchCommitmentType) -> Result<Commitment, KcError> {
		let mut c = [0u8; 33];
		let b = id.to_bytes();
		let mut i = 0;
		while i < 17 {
			c[i] = b[i];
			i += 1;
		}
		c[17] = switch as u8;
		let a = amount.to_be_bytes();
		let mut j = 0;
		while j < 8 {
			c[18 + j] = a[j];
			j += 1;
		}
		Ok(Commitment(c))
	}
	fn blind_sum(&self, _: &BlindSum) -> Result<BlindingFactor, KcError> { unreachable!() }
	fn sign(&self, _: &Message, _: u64, _: &Identifier, _: SwitchCommitmentType) -> Result<Signature, KcError> { unreachable!() }
	fn sign_with_blinding(&self, _: &Message, _: &BlindingFactor) -> Result<Signature, KcError> { unreachable!() }
	fn secp(&self) -> &Secp256k1 { unreachable!() }
}

fn any_switch() -> SwitchCommitmentType {
	if kani::any() { SwitchCommitmentType::None } else { SwitchCommitmentType::Regular }
}
fn no_secp() -> &'static Secp256k1 {
	// never used: proof_message / check_output of the two builders ignore their secp argument.
	// A zeroed context that is leaked (its Drop would call into libsecp256k1).
	let b: Box<Secp256k1> = Box::new(unsafe { core::mem::zeroed() });
	Box::leak(b)
}

/// Same seed: the message created for (id, switch) makes check_output recover EXACTLY (id, switch)
/// for every identifier with a documented depth (0..=4), both modes, every amount.
#[kani::proof]
#[kani::unwind(36)]
#[kani::stub(alloc::fmt::format, stub_format)]
fn c20_proof_message_roundtrip() {
	let k = KMock;
	let b = ProofBuilder { keychain: &k, rewind_hash: Vec::new(), private_hash: Vec::new() };
	let raw: [u8; 17] = kani::any();
	kani::assume(raw[0] <= 4);
	let id = Identifier::from_bytes(&raw);
	let sw = any_switch();
	let amount: u64 = kani::any();
	let msg = b.proof_message(no_secp(), &id, sw).unwrap();
	let bytes = msg.as_bytes();
	assert!(msg.len() == 20 && bytes[0] == 0 && bytes[1] == 0 && bytes[2] == sw as u8 && bytes[3] == raw[0]);
	let commit = k.commit(amount, &id, sw).unwrap();
	let r = b.check_output(no_secp(), &commit, amount, msg).unwrap();
	match r {
		Some((id2, sw2)) => assert!(id2.to_bytes() == raw && sw2 == sw, "C20: rewind recovers exactly the path and mode"),
		None => assert!(false, "C20: the builder's own message must be recognised"),
	}
	// a different amount is not recognised
	let other: u64 = kani::any();
	kani::assume(other != amount);
	let msg2 = b.proof_message(no_secp(), &id, sw).unwrap();
	assert!(b.check_output(no_secp(), &commit, other, msg2).unwrap().is_none());
	core::mem::forget(b); // Drop zeroizes with volatile writes
}

/// Arbitrary 20-byte messages: whatever check_output accepts is what the message encodes, and a
/// message with a non-zero prefix or an unknown switch byte is never accepted.
#[kani::proof]
#[kani::unwind(36)]
#[kani::stub(alloc::fmt::format, stub_format)]
fn c20_proof_message_foreign() {
	let k = KMock;
	let b = ProofBuilder { keychain: &k, rewind_hash: Vec::new(), private_hash: Vec::new() };
	let m: [u8; 20] = kani::any();
	let msg = ProofMessage::from_bytes(&m);
	let commit = Commitment(kani::any());
	let amount: u64 = kani::any();
	if let Some((id, sw)) = b.check_output(no_secp(), &commit, amount, msg).unwrap() {
		assert!(m[0] == 0 && m[1] == 0 && m[2] <= 1 && sw as u8 == m[2]);
		let ib = id.to_bytes();
		assert!(ib[0] == core::cmp::min(m[3], 4));
		assert!(commit.0 == k.commit(amount, &id, sw).unwrap().0, "C20: accepted only when the commitment matches");
	}
	core::mem::forget(b);
}

/// Legacy builder (pre-HF1 outputs): depth-3 paths, regular switch commitments.
#[kani::proof]
#[kani::unwind(36)]
#[kani::stub(alloc::fmt::format, stub_format)]
fn c20_legacy_proof_message_roundtrip() {
	let k = KMock;
	let b = LegacyProofBuilder { keychain: &k, root_hash: Vec::new() };
	let mut raw: [u8; 17] = kani::any();
	raw[0] = 3;
	let id = Identifier::from_bytes(&raw);
	let amount: u64 = kani::any();
	let msg = b.proof_message(no_secp(), &id, SwitchCommitmentType::Regular).unwrap();
	let commit = k.commit(amount, &id, SwitchCommitmentType::Regular).unwrap();
	match b.check_output(no_secp(), &commit, amount, msg).unwrap() {
		Some((id2, sw2)) => assert!(id2.to_bytes() == raw && sw2 == SwitchCommitmentType::Regular),
		None => assert!(false, "C20: the legacy builder's own message must be recognised"),
	}
	core::mem::forget(b);
}
