//@ assume: libsecp256k1 (FFI) is abstract: Secp256k1::blind_sum(pos, neg) returns sp_sum(pos, neg), an uninterpreted function of the two key lists; BlindingFactor::secret_key returns sp_bf_key(b) (its zero-key special case is not decided here); BlindingFactor::from_secret_key is an uninterpreted function; one Error type
//@ assume: decided here (C20): BlindingFactor::split(self, blind_1) returns EXACTLY from_secret_key(secp_sum([key(self)], [key(blind_1)])) -- i.e. it asks secp for `self - blind_1`, with the operands on the right sides and nothing else in the sum -- and fails exactly when one of the two conversions or the sum fails. That `blind_1 + (self - blind_1) == self` is group arithmetic inside libsecp256k1 and is not decided.
//@ assumed_items: 4
//@ fns: BlindingFactor::split
#[verifier::external_body]
pub struct Secp256k1 { _p: u8 }
#[derive(Clone, Copy, PartialEq, Eq)]
pub struct SecretKey { pub k: u64 }
#[derive(Clone, Copy, PartialEq, Eq)]
pub struct BlindingFactor { pub b: u64 }
#[derive(Clone, Copy, PartialEq, Eq)]
pub enum Error { Secp, Other }
pub uninterp spec fn sp_sum(pos: Seq<SecretKey>, neg: Seq<SecretKey>) -> Result<SecretKey, Error>;
pub uninterp spec fn sp_bf_key(b: BlindingFactor) -> Result<SecretKey, Error>;
pub uninterp spec fn sp_from_sk(k: SecretKey) -> BlindingFactor;
impl Secp256k1 {
    #[verifier::external_body]
    pub fn blind_sum(&self, pos: Vec<SecretKey>, neg: Vec<SecretKey>) -> (r: Result<SecretKey, Error>) ensures r == sp_sum(pos@, neg@) { unimplemented!() }
}
pub open spec fn sp_split(a: BlindingFactor, b1: BlindingFactor) -> Result<BlindingFactor, Error> {
    match sp_bf_key(a) { Err(e) => Err(e), Ok(k) => match sp_bf_key(b1) { Err(e) => Err(e), Ok(k1) =>
        match sp_sum(seq![k], seq![k1]) { Err(e) => Err(e), Ok(k2) => Ok(sp_from_sk(k2)) } } }
}
impl BlindingFactor {
    #[verifier::external_body]
    pub fn from_secret_key(k: SecretKey) -> (r: BlindingFactor) ensures r == sp_from_sk(k) { unimplemented!() }
    #[verifier::external_body]
    pub fn secret_key(&self, secp: &Secp256k1) -> (r: Result<SecretKey, Error>) ensures r == sp_bf_key(*self) { unimplemented!() }
//@ extract keychain/src/types.rs :: impl BlindingFactor::split
//@   ensures:
//@+    r == sp_split(*self, *blind_1),
//@   before `let skey_2`:
//@+    proof { assert([skey]@ =~= seq![skey]); assert([skey_1]@ =~= seq![skey_1]); }
//@ end
}
//@ canary split: r.is_ok()
