//@ crate: grin_keychain
//@ target: keychain/src/types.rs
//@ assume: decided here: derivation-path <-> identifier encodings are exact inverses for every depth and every u32 path element; BIP32 derivation, commitments, range proofs and blinding arithmetic are libsecp256k1 (C, FFI) and outside this family (DESIGN 6 C20)
//@ harness c20_path_identifier_roundtrip kind=complete tier=quick fns=ExtKeychainPath::new,ExtKeychainPath::to_identifier,ExtKeychainPath::from_identifier,Identifier::from_path,Identifier::to_path,Identifier::to_bytes,Identifier::from_bytes bound=-
//@ harness c20_serialized_path_roundtrip kind=complete tier=quick fns=Identifier::serialize_path,Identifier::from_serialized_path bound=-
//@ harness c20_parent_and_last_index kind=complete tier=quick fns=Identifier::parent_path,ExtKeychainPath::last_path_index bound=depth_0..=4_(the_depths_the_type_documents)

#[kani::proof]
#[kani::unwind(20)]
fn c20_path_identifier_roundtrip() {
	let depth: u8 = kani::any();
	let d: [u32; 4] = kani::any();
	let p = ExtKeychainPath::new(depth, d[0], d[1], d[2], d[3]);
	let id = p.to_identifier();
	let b = id.to_bytes();
	assert!(b[0] == depth);
	let mut i = 0;
	while i < 4 {
		assert!(u32::from_be_bytes([b[1 + 4 * i], b[2 + 4 * i], b[3 + 4 * i], b[4 + 4 * i]]) == d[i]);
		i += 1;
	}
	let back = ExtKeychainPath::from_identifier(&id);
	assert!(back == p, "C20: path -> identifier -> path is the identity");
	assert!(Identifier::from_path(&p).to_path() == p);
	// and the other direction, from arbitrary identifier bytes
	let raw: [u8; 17] = kani::any();
	let id2 = Identifier::from_bytes(&raw);
	assert!(id2.to_bytes() == raw);
	assert!(id2.to_path().to_identifier().to_bytes() == raw, "C20: identifier -> path -> identifier is the identity");
}

#[kani::proof]
#[kani::unwind(20)]
fn c20_serialized_path_roundtrip() {
	let raw: [u8; 17] = kani::any();
	let id = Identifier::from_bytes(&raw);
	let sp = id.serialize_path();
	let back = Identifier::from_serialized_path(raw[0], &sp);
	assert!(back == id, "C20: serialize_path / from_serialized_path are inverse");
}

#[kani::proof]
#[kani::unwind(20)]
fn c20_parent_and_last_index() {
	let depth: u8 = kani::any();
	kani::assume(depth <= 4);
	let d: [u32; 4] = kani::any();
	let p = ExtKeychainPath::new(depth, d[0], d[1], d[2], d[3]);
	let last = p.last_path_index();
	assert!(last == if depth == 0 { 0 } else { d[depth as usize - 1] });
	let parent = p.to_identifier().parent_path().to_path();
	if depth == 0 {
		assert!(parent == p);
	} else {
		assert!(parent.depth == depth - 1);
		let mut i = 0;
		while i < 4 {
			let want = if i == depth as usize - 1 { 0 } else { d[i] };
			assert!(<u32>::from(parent.path[i]) == want);
			i += 1;
		}
	}
}
