//@ assume: libsecp256k1 (commit, blind_switch) and BIP32 child derivation (ExtendedPrivKey::ckd_priv) are uninterpreted functions; Identifier::to_path is an uninterpreted function (its byte layout is decided by Kani in C20/paths); the hasher is an opaque scratch object; one error type
//@ assume: NO precondition on the identifier: an identifier whose depth byte exceeds the four path elements (accepted by Identifier::from_hex / from_bytes) has no key -- derive_key answers an error for it, it does not index past the path (found violated on the pinned tree: finding F24, repaired); T3: format! payload replaced; `Error::Transaction(..)` is one more error
//@ assume: decided here (C20, 'key derivation and the resulting commitment are deterministic'): ExtKeychain::derive_key(amount, id, switch) is the master key pushed through ckd_priv along EXACTLY the first `depth` elements of id's path, in order, then blind-switched with the amount iff switch is Regular (returned as is for None); ExtKeychain::commit(amount, id, switch) is secp.commit(amount, that key): both are functions of (master key, id, amount, switch) alone and fail only if one of those steps fails
//@ assumed_items: 7
//@ fns: ExtKeychain::derive_key, ExtKeychain::commit
#[verifier::external_body]
pub struct Secp256k1 { _p: u8 }
#[derive(Clone, Copy, PartialEq, Eq)]
pub struct SecretKey { pub k: u64 }
#[derive(Clone, Copy, PartialEq, Eq)]
pub struct Commitment { pub c: u64 }
#[derive(Clone, Copy, PartialEq, Eq)]
pub struct ChildNumber { pub n: u32 }
#[derive(Clone, Copy, PartialEq, Eq)]
pub enum SwitchCommitmentType { None, Regular }
#[derive(Clone, Copy)]
pub enum Error { Secp, Other, Transaction(Msg) }
#[derive(Clone, Copy, PartialEq, Eq)]
pub struct Msg;
pub fn fmtmsg() -> Msg { Msg }
#[derive(Clone, Copy)]
pub struct Identifier { pub i: u64 }
pub struct ExtKeychainPath { pub depth: u8, pub path: [ChildNumber; 4] }
pub uninterp spec fn sp_path(id: Identifier) -> ExtKeychainPath;
impl Identifier { #[verifier::external_body] pub fn to_path(&self) -> (r: ExtKeychainPath) ensures r == sp_path(*self) { unimplemented!() } }
#[verifier::external_body]
pub struct BIP32GrinHasher { _p: u8 }
impl BIP32GrinHasher { #[verifier::external_body] pub fn clone(&self) -> (r: BIP32GrinHasher) { unimplemented!() } }
#[derive(Clone, Copy)]
pub struct ExtendedPrivKey { pub secret_key: SecretKey, pub chain: u64 }
pub uninterp spec fn sp_ckd(k: ExtendedPrivKey, c: ChildNumber) -> Result<ExtendedPrivKey, Error>;
pub uninterp spec fn sp_blind_switch(amount: u64, k: SecretKey) -> Result<SecretKey, Error>;
pub uninterp spec fn sp_commit(amount: u64, k: SecretKey) -> Result<Commitment, Error>;
impl ExtendedPrivKey {
    pub fn clone(&self) -> (r: ExtendedPrivKey) ensures r == *self { *self }
    #[verifier::external_body]
    pub fn ckd_priv(&self, secp: &Secp256k1, h: &mut BIP32GrinHasher, c: ChildNumber) -> (r: Result<ExtendedPrivKey, Error>) ensures r == sp_ckd(*self, c) { unimplemented!() }
}
impl Secp256k1 {
    #[verifier::external_body]
    pub fn blind_switch(&self, amount: u64, k: SecretKey) -> (r: Result<SecretKey, Error>) ensures r == sp_blind_switch(amount, k) { unimplemented!() }
    #[verifier::external_body]
    pub fn commit(&self, amount: u64, k: SecretKey) -> (r: Result<Commitment, Error>) ensures r == sp_commit(amount, k) { unimplemented!() }
}
/// the key reached after the first n path elements (None if a derivation step fails)
pub open spec fn derived(master: ExtendedPrivKey, p: ExtKeychainPath, n: int) -> Option<ExtendedPrivKey> decreases n {
    if n <= 0 { Some(master) } else { match derived(master, p, n - 1) { Some(k) => match sp_ckd(k, p.path@[n - 1]) { Ok(k2) => Some(k2), Err(_) => None }, None => None } }
}
proof fn lemma_none_stays(master: ExtendedPrivKey, p: ExtKeychainPath, n: int, m: int)
    requires derived(master, p, n).is_none(), n <= m
    ensures derived(master, p, m).is_none()
    decreases m - n
{ if n < m { lemma_none_stays(master, p, n, m - 1); } }
pub open spec fn sp_derive_key(master: ExtendedPrivKey, amount: u64, id: Identifier, sw: SwitchCommitmentType) -> Option<SecretKey> {
    if sp_path(id).depth > 4 { None } else { match derived(master, sp_path(id), sp_path(id).depth as int) { None => None, Some(k) => match sw {
        SwitchCommitmentType::None => Some(k.secret_key),
        SwitchCommitmentType::Regular => match sp_blind_switch(amount, k.secret_key) { Ok(s) => Some(s), Err(_) => None } } } }
}
pub struct ExtKeychain { pub secp: Secp256k1, pub master: ExtendedPrivKey, pub hasher: BIP32GrinHasher }
impl ExtKeychain {
//@ extract keychain/src/keychain.rs :: impl Keychain for ExtKeychain::derive_key
//@   format_as `fmtmsg()`
//@   ensures:
//@+    r matches Ok(k) ==> sp_derive_key(self.master, amount, *id, switch) == Some(k),
//@+    r.is_err() ==> sp_derive_key(self.master, amount, *id, switch).is_none(),
//@   loop 1:
//@+    invariant
//@+        p == sp_path(*id), p.depth <= 4, derived(self.master, p, i as int) == Some(ext_key),
//@   before `ext_key = ext_key.ckd_priv(`:
//@+    proof { if sp_ckd(ext_key, p.path@[i as int]).is_err() { lemma_none_stays(self.master, p, i + 1, p.depth as int); } }
//@ end
//@ extract keychain/src/keychain.rs :: impl Keychain for ExtKeychain::commit
//@   ensures:
//@+    r matches Ok(c) ==> (sp_derive_key(self.master, amount, *id, switch) matches Some(k) && sp_commit(amount, k) == Ok::<Commitment, Error>(c)),
//@ end
}
//@ canary derive_key: r.is_err()
