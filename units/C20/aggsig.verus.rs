//@ assume: libsecp256k1-zkp's aggsig module (C, behind FFI) is MODELLED, from its documented behaviour, by uninterpreted predicates: sign_single(msg, sk, secnonce, extra, pubnonce, pubkey_for_e, final_nonce_sum) returns a Schnorr share over the challenge e(msg, pubnonce, pubkey_for_e) under sk (sp_share) -- with the signer's own nonce SIGN-NORMALISED AGAINST final_nonce_sum when one is given (sp_norm_to: needed for the shares of several signers to add up to a signature that the STRICT verification of a kernel accepts), otherwise against its own nonce only; verify_single(sig, msg, pubnonce, pubkey, pubkey_total, extra, is_partial) is an uninterpreted predicate of ALL its arguments; add_signatures_single(parts, nonce_sum) an uninterpreted function of both. Nothing cryptographic is decided.
//@ assume: T5: the generic `K: Keychain` of sign_from_key_id => one abstract keychain; `Error::Signature("..".to_string())` => Error::Signature(sigmsg()); `?` on secp / keychain errors goes through abstract callees that already return the final error type
//@ assume: decided here (C20, 'a transaction assembled through the builder always validates and its kernel signature verifies', at the level of WHAT IS HANDED TO libsecp): calculate_partial_sig produces a share over the challenge built from the NONCE SUM and the given public-key sum, under the given key and nonce, normalised against the nonce sum; verify_partial_sig / verify_completed_sig / verify_single_from_commit return Ok exactly when the library's verification of exactly (sig, msg, that nonce sum or none, that key, that key sum, partial or strict as documented) succeeds -- verify_single_from_commit STRICTLY, with the commitment's own public key as key and as key sum; sign_from_key_id signs with the key derived for (value, key_id, Regular); sign_with_blinding with the blinding factor's secret key; add_signatures adds exactly the given shares under the given nonce sum
//@ assumed_items: 9
//@ fns: aggsig::calculate_partial_sig, aggsig::verify_partial_sig, aggsig::sign_from_key_id, aggsig::verify_single_from_commit, aggsig::verify_completed_sig, aggsig::add_signatures, aggsig::sign_single, aggsig::verify_single, aggsig::verify_batch, aggsig::sign_with_blinding
#[verifier::external_body]
pub struct Secp256k1 { _p: u8 }
#[derive(Clone, Copy)]
pub struct SecretKey { pub v: u64 }
#[derive(Clone, Copy)]
pub struct PublicKey { pub v: u64 }
#[derive(Clone, Copy)]
pub struct Signature { pub v: u64 }
#[derive(Clone, Copy)]
pub struct Message { pub v: u64 }
#[derive(Clone, Copy)]
pub struct Commitment { pub v: u64 }
#[derive(Clone, Copy)]
pub struct Identifier { pub v: u64 }
#[derive(Clone, Copy)]
pub struct BlindingFactor { pub v: u64 }
pub struct Msg;
pub fn sigmsg() -> Msg { Msg }
pub enum Error { Signature(Msg), Secp, Keychain }
pub enum SwitchCommitmentType { None, Regular }
pub mod secp { pub use super::Message; }
pub uninterp spec fn sp_share(s: Signature, m: Message, sk: SecretKey, secnonce: Option<SecretKey>, extra: Option<SecretKey>, e_nonce: Option<PublicKey>, e_pubkey: Option<PublicKey>) -> bool;
pub uninterp spec fn sp_norm_to(s: Signature, total_nonce: Option<PublicKey>) -> bool;
pub uninterp spec fn sp_verify(s: Signature, m: Message, pubnonce: Option<PublicKey>, pk: PublicKey, pk_total: Option<PublicKey>, extra: Option<PublicKey>, partial: bool) -> bool;
pub uninterp spec fn sp_add(parts: Seq<Signature>, nonce_sum: PublicKey) -> Signature;
pub uninterp spec fn sp_batch(sigs: Seq<Signature>, msgs: Seq<Message>, pks: Seq<PublicKey>) -> bool;
pub open spec fn deref_opt<T>(o: Option<&T>) -> Option<T> { match o { Some(x) => Some(*x), None => None } }
pub open spec fn deref_seq(v: Seq<&Signature>) -> Seq<Signature> { v.map_values(|x: &Signature| *x) }
pub mod aggsig { use super::*;
    #[verifier::external_body]
    pub fn sign_single(secp: &Secp256k1, msg: &Message, seckey: &SecretKey, secnonce: Option<&SecretKey>, extra: Option<&SecretKey>, pubnonce: Option<&PublicKey>, pubkey_for_e: Option<&PublicKey>, final_nonce_sum: Option<&PublicKey>) -> (r: Result<Signature, Error>)
        ensures r matches Ok(s) ==> sp_share(s, *msg, *seckey, deref_opt(secnonce), deref_opt(extra), deref_opt(pubnonce), deref_opt(pubkey_for_e)) && sp_norm_to(s, deref_opt(final_nonce_sum)),
            r matches Err(e) ==> e is Secp { unimplemented!() }
    #[verifier::external_body]
    pub fn verify_single(secp: &Secp256k1, sig: &Signature, msg: &Message, pubnonce: Option<&PublicKey>, pubkey: &PublicKey, pubkey_total: Option<&PublicKey>, extra_pubkey: Option<&PublicKey>, is_partial: bool) -> (r: bool)
        ensures r == sp_verify(*sig, *msg, deref_opt(pubnonce), *pubkey, deref_opt(pubkey_total), deref_opt(extra_pubkey), is_partial) { unimplemented!() }
    #[verifier::external_body]
    pub fn verify_batch(secp: &Secp256k1, sigs: &Vec<Signature>, msgs: &Vec<Message>, pubkeys: &Vec<PublicKey>) -> (r: bool)
        ensures r == sp_batch(sigs@, msgs@, pubkeys@) { unimplemented!() }
    #[verifier::external_body]
    pub fn add_signatures_single(secp: &Secp256k1, sigs: Vec<&Signature>, pubnonce_total: &PublicKey) -> (r: Result<Signature, Error>)
        ensures r matches Ok(s) ==> s == sp_add(deref_seq(sigs@), *pubnonce_total), r matches Err(e) ==> e is Secp { unimplemented!() }
}
pub uninterp spec fn sp_to_pubkey(c: Commitment) -> PublicKey;
impl Commitment {
    #[verifier::external_body]
    pub fn to_pubkey(&self, secp: &Secp256k1) -> (r: Result<PublicKey, Error>) ensures r matches Ok(p) ==> p == sp_to_pubkey(*self), r matches Err(e) ==> e is Secp { unimplemented!() }
}
pub uninterp spec fn sp_bf_key(b: BlindingFactor) -> SecretKey;
impl BlindingFactor {
    #[verifier::external_body]
    pub fn secret_key(&self, secp: &Secp256k1) -> (r: Result<SecretKey, Error>) ensures r matches Ok(k) ==> k == sp_bf_key(*self), r matches Err(e) ==> e is Secp { unimplemented!() }
}
#[verifier::external_body]
pub struct KeychainObj { _p: u8 }
pub uninterp spec fn sp_derive(k: &KeychainObj, value: u64, id: Identifier, regular: bool) -> SecretKey;
impl KeychainObj {
    #[verifier::external_body]
    pub fn derive_key(&self, value: u64, id: &Identifier, switch: SwitchCommitmentType) -> (r: Result<SecretKey, Error>)
        ensures r matches Ok(k) ==> k == sp_derive(self, value, *id, switch is Regular), r matches Err(e) ==> e is Keychain { unimplemented!() }
}
//@ extract core/src/libtx/aggsig.rs :: fn calculate_partial_sig
//@   ensures:
//@+    r matches Ok(s) ==> sp_share(s, *msg, *sec_key, Some(*sec_nonce), None, Some(*nonce_sum), deref_opt(pubkey_sum)) && sp_norm_to(s, Some(*nonce_sum)),
//@ end
//@ extract core/src/libtx/aggsig.rs :: fn verify_single
//@   ensures:
//@+    r == sp_verify(*sig, *msg, deref_opt(pubnonce), *pubkey, deref_opt(pubkey_sum), None, is_partial),
//@ end
//@ extract core/src/libtx/aggsig.rs :: fn verify_partial_sig
//@   rewrite `Error::Signature("Signature validation error".to_string())` => `Error::Signature(sigmsg())`
//@   ensures:
//@+    r is Ok <==> sp_verify(*sig, *msg, Some(*pub_nonce_sum), *pubkey, deref_opt(pubkey_sum), None, true),
//@ end
//@ extract core/src/libtx/aggsig.rs :: fn verify_completed_sig
//@   rewrite `Error::Signature("Signature validation error".to_string())` => `Error::Signature(sigmsg())`
//@   ensures:
//@+    r is Ok <==> sp_verify(*sig, *msg, None, *pubkey, deref_opt(pubkey_sum), None, true),
//@ end
//@ extract core/src/libtx/aggsig.rs :: fn verify_single_from_commit
//@   rewrite `Error::Signature("Signature validation error".to_string())` => `Error::Signature(sigmsg())`
//@   ensures:
//@+    r is Ok ==> sp_verify(*sig, *msg, None, sp_to_pubkey(*commit), Some(sp_to_pubkey(*commit)), None, false),
//@+    (r matches Err(e) && e is Signature) ==> !sp_verify(*sig, *msg, None, sp_to_pubkey(*commit), Some(sp_to_pubkey(*commit)), None, false),
//@ end
//@ extract core/src/libtx/aggsig.rs :: fn sign_from_key_id
//@   sigrewrite `pub fn sign_from_key_id<K>(` => `pub fn sign_from_key_id(`
//@   sigrewrite `k: &K,` => `k: &KeychainObj,`
//@   sigrewrite `\nwhere\n\tK: Keychain,` => ``
//@   ensures:
//@+    r matches Ok(s) ==> sp_share(s, *msg, sp_derive(k, value, *key_id, true), deref_opt(s_nonce), None, None, deref_opt(blind_sum)) && sp_norm_to(s, None),
//@ end
//@ extract core/src/libtx/aggsig.rs :: fn add_signatures
//@   ensures:
//@+    r matches Ok(s) ==> s == sp_add(deref_seq(part_sigs@), *nonce_sum),
//@ end
//@ extract core/src/libtx/aggsig.rs :: fn sign_single
//@   ensures:
//@+    r matches Ok(s) ==> sp_share(s, *msg, *skey, deref_opt(snonce), None, None, deref_opt(pubkey_sum)) && sp_norm_to(s, None),
//@ end
//@ extract core/src/libtx/aggsig.rs :: fn verify_batch
//@   ensures:
//@+    r == sp_batch(sigs@, msgs@, pubkeys@),
//@ end
//@ extract core/src/libtx/aggsig.rs :: fn sign_with_blinding
//@   ensures:
//@+    r matches Ok(s) ==> sp_share(s, *msg, sp_bf_key(*blinding), None, None, None, deref_opt(pubkey_sum)) && sp_norm_to(s, None),
//@ end
//@ canary calculate_partial_sig: r is Err
//@ canary verify_single_from_commit: r is Err
