//@ assume: libsecp256k1 (public keys, scalar multiplication, point addition, from_combination) and BIP32 (ExtendedPubKey::from_private, the hasher, fingerprints) are abstract with uninterpreted results; blake2b in rewind_hash is an uninterpreted function of the serialized key; `PublicKey(ffi::PublicKey(GENERATOR_PUB_J_RAW))` => generator_j() (T6); `vec![p, &j]` => pair(p, &j)
//@ assume: decided here (C20, 'a view-only key recognises the wallet's outputs': rewinding needs the nonce derived from rewind_hash): ViewKey::create derives the rewind hash from the KEYCHAIN'S PUBLIC ROOT KEY -- the same value for the master view key and for a view key created from any account-level extended private key of that wallet, and therefore equal to what ckd_pub children inherit -- takes depth / parent fingerprint / child number / public key / chain code from the public image of exactly the extended private key given, and the switch public key J * that key's secret; ViewKey::ckd_pub copies the parent's rewind hash and test flag, increments the depth, records the child number and tweaks both public keys with the same derived scalar.
//@ assumed_items: 13
//@ fns: ViewKey::create, ViewKey::rewind_hash, ViewKey::ckd_pub
pub enum Error { Secp, Bip32, Other }
#[verifier::external_body]
pub struct Secp256k1 { _p: u8 }
#[derive(Clone, Copy)]
pub struct PublicKey { pub id: u64 }
#[derive(Clone, Copy)]
pub struct SecretKey { pub id: u64 }
#[derive(Clone, Copy)]
pub struct ChainCode { pub id: u64 }
#[derive(Clone, Copy)]
pub struct Fingerprint { pub id: u64 }
#[derive(Clone, Copy)]
pub struct ChildNumber { pub id: u64 }
pub uninterp spec fn sp_mul(p: PublicKey, k: SecretKey) -> PublicKey;      // k * P
pub uninterp spec fn sp_add_exp(p: PublicKey, k: SecretKey) -> PublicKey;  // P + k * G
pub uninterp spec fn sp_combine(a: PublicKey, b: PublicKey) -> PublicKey;
pub uninterp spec fn sp_j() -> PublicKey;
pub uninterp spec fn sp_hash_of_key(p: PublicKey) -> Seq<u8>;
impl PublicKey {
    #[verifier::external_body]
    pub fn mul_assign(&mut self, secp: &Secp256k1, k: &SecretKey) -> (r: Result<(), Error>) ensures r.is_ok() ==> *final(self) == sp_mul(*old(self), *k) { unimplemented!() }
    #[verifier::external_body]
    pub fn add_exp_assign(&mut self, secp: &Secp256k1, k: &SecretKey) -> (r: Result<(), Error>) ensures r.is_ok() ==> *final(self) == sp_add_exp(*old(self), *k) { unimplemented!() }
    #[verifier::external_body]
    pub fn from_combination(secp: &Secp256k1, v: (&PublicKey, &PublicKey)) -> (r: Result<PublicKey, Error>) ensures r matches Ok(p) ==> p == sp_combine(*v.0, *v.1) { unimplemented!() }
    #[verifier::external_body]
    pub fn serialize_vec(&self, secp: &Secp256k1, compressed: bool) -> (r: SerKey) ensures r.of@ == *self { unimplemented!() }
}
pub struct SerKey { pub of: Ghost<PublicKey> }
#[verifier::external_body]
pub fn blake2b_vec(ser: &SerKey) -> (r: Vec<u8>) ensures r@ == sp_hash_of_key(ser.of@) { unimplemented!() }
#[verifier::external_body]
pub fn generator_j() -> (r: PublicKey) ensures r == sp_j() { unimplemented!() }
pub fn pair<'a>(a: &'a PublicKey, b: &'a PublicKey) -> (r: (&'a PublicKey, &'a PublicKey)) ensures r.0 == a, r.1 == b { (a, b) }
pub struct ExtendedPrivKey { pub secret_key: SecretKey, pub id: u64 }
pub struct ExtendedPubKey { pub network: [u8; 4], pub depth: u8, pub parent_fingerprint: Fingerprint, pub child_number: ChildNumber, pub public_key: PublicKey, pub chain_code: ChainCode }
pub uninterp spec fn sp_pub_image(k: ExtendedPrivKey) -> ExtendedPubKey;
#[verifier::external_body]
pub struct Hasher { _p: u8 }
impl ExtendedPubKey {
    #[verifier::external_body]
    pub fn from_private(secp: &Secp256k1, k: &ExtendedPrivKey, hasher: &mut Hasher) -> (r: ExtendedPubKey) ensures r == sp_pub_image(*k) { unimplemented!() }
}
pub struct Keychain { pub root: PublicKey }
impl Keychain {
    #[verifier::external_body]
    pub fn secp(&self) -> (r: &Secp256k1) { unimplemented!() }
    pub fn public_root_key(&self) -> (r: PublicKey) ensures r == self.root { self.root }
}
pub uninterp spec fn sp_tweak(v: ViewKey, i: ChildNumber) -> (SecretKey, ChainCode);
pub uninterp spec fn sp_fingerprint(v: ViewKey) -> Fingerprint;
pub struct ViewKey { pub is_test: bool, pub depth: u8, pub parent_fingerprint: Fingerprint, pub child_number: ChildNumber, pub public_key: PublicKey,
    pub switch_public_key: Option<PublicKey>, pub chain_code: ChainCode, pub rewind_hash: Vec<u8> }
#[verifier::external_body]
pub fn clone_bytes(v: &Vec<u8>) -> (r: Vec<u8>) ensures r@ == v@ { unimplemented!() }
impl ViewKey {
    #[verifier::external_body]
    fn ckd_pub_tweak(&self, secp: &Secp256k1, hasher: &mut Hasher, i: ChildNumber) -> (r: Result<(SecretKey, ChainCode), Error>) ensures r matches Ok(t) ==> t == sp_tweak(*self, i) { unimplemented!() }
    #[verifier::external_body]
    fn fingerprint(&self, secp: &Secp256k1, hasher: &mut Hasher) -> (r: Fingerprint) ensures r == sp_fingerprint(*self) { unimplemented!() }
//@ extract keychain/src/view_key.rs :: impl ViewKey::rewind_hash
//@   rewrite `blake2b(32, &[], &ser[..]).as_bytes().to_vec()` => `blake2b_vec(&ser)` x?
//@   ensures:
//@+    r@ == sp_hash_of_key(public_root_key),
//@ end
//@ extract keychain/src/view_key.rs :: impl ViewKey::create
//@   sigrewrite `pub fn create<K, H>(` => `pub fn create(`
//@   sigrewrite `keychain: &K,` => `keychain: &Keychain,`
//@   sigrewrite `hasher: &mut H,` => `hasher: &mut Hasher,`
//@   sigrewrite `\tK: Keychain,\n\t\tH: BIP32Hasher,\n` => ``
//@   rewrite `PublicKey(ffi::PublicKey(GENERATOR_PUB_J_RAW))` => `generator_j()` x?
//@   ensures:
//@+    r matches Ok(v) ==> ({ let p = sp_pub_image(ext_key);
//@+        // the nonce source is the WALLET's public root key, whatever key the view key itself is made from
//@+        &&& v.rewind_hash@ == sp_hash_of_key(keychain.root)
//@+        &&& v.depth == p.depth && v.parent_fingerprint == p.parent_fingerprint && v.child_number == p.child_number && v.public_key == p.public_key && v.chain_code == p.chain_code
//@+        &&& v.switch_public_key == Some(sp_mul(sp_j(), ext_key.secret_key))
//@+        &&& v.is_test == is_test }),
//@ end
//@ extract keychain/src/view_key.rs :: impl ViewKey::ckd_pub
//@   sigrewrite `pub fn ckd_pub<H>(` => `pub fn ckd_pub(`
//@   sigrewrite `hasher: &mut H,` => `hasher: &mut Hasher,`
//@   sigrewrite `\tH: BIP32Hasher,\n` => ``
//@   rewrite `PublicKey(ffi::PublicKey(GENERATOR_PUB_J_RAW))` => `generator_j()` x?
//@   rewrite `vec![p, &j]` => `pair(p, &j)` x?
//@   rewrite `self.rewind_hash.clone()` => `clone_bytes(&self.rewind_hash)` x?
//@   requires:
//@+    self.depth < 255,
//@   ensures:
//@+    r matches Ok(c) ==> ({ let t = sp_tweak(*self, i);
//@+        &&& c.rewind_hash@ == self.rewind_hash@ && c.is_test == self.is_test && c.depth == self.depth + 1 && c.child_number == i
//@+        &&& c.public_key == sp_add_exp(self.public_key, t.0) && c.chain_code == t.1 && c.parent_fingerprint == sp_fingerprint(*self)
//@+        &&& c.switch_public_key == (match self.switch_public_key { Some(p) => Some(sp_combine(p, sp_mul(sp_j(), t.0))), None => None }) }),
//@ end
}
//@ canary create: r.is_err()
