//@ assume: libsecp256k1 (FFI) is abstract: Secp256k1::blind_sum(pos, neg) returns sp_sum(pos, neg); BlindingFactor::secret_key returns sp_bf_key(b); is_zero / zero / from_secret_key are uninterpreted; one Error type
//@ assume: T5: `vec![self, other].into_iter().filter(f).filter_map(g).collect::<Vec<_>>()` => abstract BfPair / BfIter / KeyIter stand-ins whose contracts say exactly: filter keeps the elements with f in order, filter_map the `Some` results of g in order; BOTH closures are the REAL closure texts, verified as lifted functions (T7). T6: `vec![self, other]` => bf_pair(self, other); `secp.blind_sum(keys, vec![])` => `secp.blind_sum(keys, Vec::new())`
//@ assume: decided here (C20, 'adding is consistent'): BlindingFactor::add(self, other) asks secp for the sum of exactly the NON-ZERO operands' secret keys, self first, with nothing subtracted; it returns the zero blinding factor iff neither operand contributes a key, and otherwise from_secret_key(that sum); it fails exactly when secp fails
//@ assumed_items: 11
//@ fns: BlindingFactor::add, 2 closures in BlindingFactor::add
#[verifier::external_body]
pub struct Secp256k1 { _p: u8 }
#[derive(Clone, Copy, PartialEq, Eq)]
pub struct SecretKey { pub k: u64 }
#[derive(Clone, Copy, PartialEq, Eq)]
pub struct BlindingFactor { pub b: u64 }
#[derive(Clone, Copy, PartialEq, Eq)]
pub enum Error { Secp, Other }
pub uninterp spec fn sp_sum(pos: Seq<SecretKey>, neg: Seq<SecretKey>) -> Result<SecretKey, Error>;
pub uninterp spec fn sp_bf_key(b: BlindingFactor) -> Result<SecretKey, Error>;
pub uninterp spec fn sp_from_sk(k: SecretKey) -> BlindingFactor;
pub uninterp spec fn sp_zero() -> BlindingFactor;
pub uninterp spec fn sp_is_zero(b: BlindingFactor) -> bool;
impl Secp256k1 {
    #[verifier::external_body]
    pub fn blind_sum(&self, pos: Vec<SecretKey>, neg: Vec<SecretKey>) -> (r: Result<SecretKey, Error>) ensures r == sp_sum(pos@, neg@) { unimplemented!() }
}
/// what the two closures must compute
pub open spec fn sp_keep(b: BlindingFactor) -> bool { !sp_is_zero(b) }
pub open spec fn sp_key_opt(b: BlindingFactor) -> Option<SecretKey> { match sp_bf_key(b) { Ok(k) => Some(k), Err(_) => None } }
/// the keys `add` hands to secp: non-zero operands that convert, in order
pub open spec fn keys_of(s: Seq<BlindingFactor>) -> Seq<SecretKey> decreases s.len() {
    if s.len() == 0 { Seq::empty() } else { let r = keys_of(s.drop_last()); if sp_keep(s.last()) { match sp_key_opt(s.last()) { Some(k) => r.push(k), None => r } } else { r } }
}
pub struct BfPair { pub items: Ghost<Seq<BlindingFactor>> }
pub struct BfIter { pub items: Ghost<Seq<BlindingFactor>>, pub filtered: Ghost<bool> }
pub struct KeyIter { pub items: Ghost<Seq<SecretKey>> }
pub struct NonZero {}
pub struct KeyOf<'a> { pub secp: &'a Secp256k1 }
#[verifier::external_body]
fn bf_pair(a: &BlindingFactor, b: &BlindingFactor) -> (r: BfPair) ensures r.items@ == seq![*a, *b] { unimplemented!() }
impl BfPair { #[verifier::external_body] pub fn into_iter(self) -> (r: BfIter) ensures r.items@ == self.items@, !r.filtered@ { unimplemented!() } }
impl BfIter {
    #[verifier::external_body]
    pub fn filter(self, f: NonZero) -> (r: BfIter) requires !self.filtered@ ensures r.items@ == self.items@, r.filtered@ { unimplemented!() }
    /// filter_map after the filter: the keys of the kept elements
    #[verifier::external_body]
    pub fn filter_map(self, g: KeyOf) -> (r: KeyIter) requires self.filtered@ ensures r.items@ == keys_of(self.items@) { unimplemented!() }
}
impl KeyIter { #[verifier::external_body] pub fn collect(self) -> (r: Vec<SecretKey>) ensures r@ == self.items@ { unimplemented!() } }
impl BlindingFactor {
    #[verifier::external_body]
    pub fn zero() -> (r: BlindingFactor) ensures r == sp_zero() { unimplemented!() }
    #[verifier::external_body]
    pub fn is_zero(&self) -> (r: bool) ensures r == sp_is_zero(*self) { unimplemented!() }
    #[verifier::external_body]
    pub fn from_secret_key(k: SecretKey) -> (r: BlindingFactor) ensures r == sp_from_sk(k) { unimplemented!() }
    #[verifier::external_body]
    pub fn secret_key(&self, secp: &Secp256k1) -> (r: Result<SecretKey, Error>) ensures r == sp_bf_key(*self) { unimplemented!() }
//@ extract keychain/src/types.rs :: impl BlindingFactor::add
//@   eclosure 1 replaced_by `NonZero {}`
//@   eclosure 2 replaced_by `KeyOf { secp }`
//@   rewrite `vec![self, other]` => `bf_pair(self, other)`
//@   rewrite `.collect::<Vec<_>>();` => `.collect();`
//@   rewrite `secp.blind_sum(keys, vec![])?` => `secp.blind_sum(keys, Vec::new())?`
//@   rewrite `let keys = bf_pair(self, other)` => `let keys: Vec<SecretKey> = bf_pair(self, other)`
//@   ensures:
//@+    r == ({ let ks = keys_of(seq![*self, *other]);
//@+            if ks.len() == 0 { Ok::<BlindingFactor, Error>(sp_zero()) } else { match sp_sum(ks, Seq::<SecretKey>::empty()) { Ok(k) => Ok::<BlindingFactor, Error>(sp_from_sk(k)), Err(e) => Err::<BlindingFactor, Error>(e) } } }),
//@ end
}
//@ extract keychain/src/types.rs :: impl BlindingFactor::add
//@   eclosure 1 lifted_as `fn keep(x: &&BlindingFactor) -> bool`
//@   ensures:
//@+    r == sp_keep(**x),
//@ end
//@ extract keychain/src/types.rs :: impl BlindingFactor::add
//@   eclosure 2 lifted_as `fn key_of(x: &BlindingFactor, secp: &Secp256k1) -> Option<SecretKey>`
//@   ensures:
//@+    r == sp_key_opt(*x),
//@ end
//@ canary add: r.is_err()
