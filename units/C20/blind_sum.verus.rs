//@ assume: libsecp256k1 (FFI) is abstract: Secp256k1::blind_sum(pos, neg) returns sp_sum(pos, neg) -- an uninterpreted function of the two key lists; ExtKeychain::derive_key returns sp_derive(keychain, amount, id, switch); BlindingFactor::secret_key returns sp_bf_key(b); Identifier::from_path and BlindingFactor::from_secret_key are uninterpreted functions; the secp error conversion performed by `?` is abstracted (one Error type)
//@ assume: T5: the std iterator adaptors `slice.iter().filter_map(f).collect::<Vec<SecretKey>>()` are stood in for by abstract IdVec/IdIter and BfVec/BfIter types whose contracts say exactly: the collected vector is, in order, the `Some` results of f over the elements; the four closures `f` are the REAL closure texts, verified as lifted methods (T7). T6: `.collect::<Vec<SecretKey>>()` => `.collect()`, `v.extend(keys)` => `vec_extend(&mut v, keys)` (helper: appends)
//@ assume: decided here (C20, blinding-factor arithmetic): ExtKeychain::blind_sum returns EXACTLY from_secret_key(secp_sum(P, N)) where P = the derived keys of the positive key ids followed by the secret keys of the positive blinding factors and N likewise for the negative ones (entries whose derivation / conversion fails are skipped, as the code does); it never returns a value without asking secp for that sum, never swaps or drops a side, and fails exactly when secp fails. The group-arithmetic facts (order independence, add-then-subtract) live inside libsecp256k1 and are not decided.
//@ assumed_items: 13
//@ fns: ExtKeychain::blind_sum, 4 closures in ExtKeychain::blind_sum
#[verifier::external_body]
pub struct Secp256k1 { _p: u8 }
#[derive(Clone, Copy, PartialEq, Eq)]
pub struct SecretKey { pub k: u64 }
#[derive(Clone, Copy, PartialEq, Eq)]
pub struct BlindingFactor { pub b: u64 }
#[derive(Clone, Copy, PartialEq, Eq)]
pub struct Identifier { pub i: u64 }
#[derive(Clone, Copy, PartialEq, Eq)]
pub struct ExtKeychainPath { pub p: u64 }
#[derive(Clone, Copy, PartialEq, Eq)]
pub enum SwitchCommitmentType { None, Regular }
#[derive(Clone, Copy, PartialEq, Eq)]
pub enum Error { Secp, Other }
pub uninterp spec fn sp_sum(pos: Seq<SecretKey>, neg: Seq<SecretKey>) -> Result<SecretKey, Error>;
pub uninterp spec fn sp_derive(kc: ExtKeychain, amount: u64, id: Identifier, sw: SwitchCommitmentType) -> Result<SecretKey, Error>;
pub uninterp spec fn sp_bf_key(b: BlindingFactor) -> Result<SecretKey, Error>;
pub uninterp spec fn sp_from_path(p: ExtKeychainPath) -> Identifier;
pub uninterp spec fn sp_from_sk(k: SecretKey) -> BlindingFactor;
pub uninterp spec fn sp_zero() -> BlindingFactor;
impl Secp256k1 {
    #[verifier::external_body]
    pub fn blind_sum(&self, pos: Vec<SecretKey>, neg: Vec<SecretKey>) -> (r: Result<SecretKey, Error>) ensures r == sp_sum(pos@, neg@) { unimplemented!() }
}
impl Identifier {
    #[verifier::external_body]
    pub fn from_path(p: &ExtKeychainPath) -> (r: Identifier) ensures r == sp_from_path(*p) { unimplemented!() }
}
impl BlindingFactor {
    #[verifier::external_body]
    pub fn zero() -> (r: BlindingFactor) ensures r == sp_zero() { unimplemented!() }
    #[verifier::external_body]
    pub fn from_secret_key(k: SecretKey) -> (r: BlindingFactor) ensures r == sp_from_sk(k) { unimplemented!() }
    #[verifier::external_body]
    pub fn secret_key(&self, secp: &Secp256k1) -> (r: Result<SecretKey, Error>) ensures r == sp_bf_key(*self) { unimplemented!() }
}
/// what each closure must return
pub open spec fn sp_id_key(kc: ExtKeychain, k: ValueExtKeychainPath) -> Option<SecretKey> {
    match sp_derive(kc, k.value, sp_from_path(k.ext_keychain_path), k.switch) { Ok(s) => Some(s), Err(_) => None }
}
pub open spec fn sp_bf_opt(b: BlindingFactor) -> Option<SecretKey> { match sp_bf_key(b) { Ok(s) => Some(s), Err(_) => None } }
/// filter_map over a sequence
pub open spec fn keys_of_ids(kc: ExtKeychain, s: Seq<ValueExtKeychainPath>) -> Seq<SecretKey> decreases s.len() {
    if s.len() == 0 { Seq::empty() } else {
        let rest = keys_of_ids(kc, s.drop_last());
        match sp_id_key(kc, s.last()) { Some(k) => rest.push(k), None => rest }
    }
}
pub open spec fn keys_of_bfs(s: Seq<BlindingFactor>) -> Seq<SecretKey> decreases s.len() {
    if s.len() == 0 { Seq::empty() } else {
        let rest = keys_of_bfs(s.drop_last());
        match sp_bf_opt(s.last()) { Some(k) => rest.push(k), None => rest }
    }
}
/// stand-ins for Vec<ValueExtKeychainPath> / Vec<BlindingFactor> and their `iter().filter_map(f).collect()`
pub struct IdVec { pub v: Vec<ValueExtKeychainPath> }
pub struct BfVec { pub v: Vec<BlindingFactor> }
pub struct IdIter { pub items: Ghost<Seq<ValueExtKeychainPath>> }
pub struct BfIter { pub items: Ghost<Seq<BlindingFactor>> }
pub struct KeyIter { pub items: Ghost<Seq<SecretKey>> }
/// the closure values (each captures `self`)
pub struct IdClosure<'a> { pub kc: &'a ExtKeychain }
pub struct BfClosure<'a> { pub kc: &'a ExtKeychain }
impl IdVec { #[verifier::external_body] pub fn iter(&self) -> (r: IdIter) ensures r.items@ == self.v@ { unimplemented!() } }
impl BfVec { #[verifier::external_body] pub fn iter(&self) -> (r: BfIter) ensures r.items@ == self.v@ { unimplemented!() } }
impl IdIter {
    /// Iterator::filter_map with a closure that (by its verified contract) returns sp_id_key(kc, element)
    #[verifier::external_body]
    pub fn filter_map(self, f: IdClosure) -> (r: KeyIter) ensures r.items@ == keys_of_ids(*f.kc, self.items@) { unimplemented!() }
}
impl BfIter {
    #[verifier::external_body]
    pub fn filter_map(self, f: BfClosure) -> (r: KeyIter) ensures r.items@ == keys_of_bfs(self.items@) { unimplemented!() }
}
impl KeyIter { #[verifier::external_body] pub fn collect(self) -> (r: Vec<SecretKey>) ensures r@ == self.items@ { unimplemented!() } }
#[verifier::external_body]
fn vec_extend(v: &mut Vec<SecretKey>, more: Vec<SecretKey>) ensures final(v)@ == old(v)@ + more@ { unimplemented!() }
pub struct BlindSum {
    pub positive_key_ids: IdVec,
    pub negative_key_ids: IdVec,
    pub positive_blinding_factors: BfVec,
    pub negative_blinding_factors: BfVec,
}
pub struct ExtKeychain { pub secp: Secp256k1, pub master: u64 }
pub open spec fn sp_pos(kc: ExtKeychain, b: BlindSum) -> Seq<SecretKey> { keys_of_ids(kc, b.positive_key_ids.v@) + keys_of_bfs(b.positive_blinding_factors.v@) }
pub open spec fn sp_neg(kc: ExtKeychain, b: BlindSum) -> Seq<SecretKey> { keys_of_ids(kc, b.negative_key_ids.v@) + keys_of_bfs(b.negative_blinding_factors.v@) }
impl ExtKeychain {
    #[verifier::external_body]
    fn derive_key(&self, amount: u64, id: &Identifier, switch: SwitchCommitmentType) -> (r: Result<SecretKey, Error>) ensures r == sp_derive(*self, amount, *id, switch) { unimplemented!() }
//@ extract keychain/src/keychain.rs :: impl Keychain for ExtKeychain::blind_sum
//@   closure 1 replaced_by `IdClosure { kc: self }`
//@   closure 2 replaced_by `IdClosure { kc: self }`
//@   eclosure 1 replaced_by `BfClosure { kc: self }`
//@   eclosure 2 replaced_by `BfClosure { kc: self }`
//@   rewrite `.collect::<Vec<SecretKey>>()` => `.collect()` x2
//@   rewrite `pos_keys.extend(keys);` => `vec_extend(&mut pos_keys, keys);`
//@   rewrite `neg_keys.extend(keys);` => `vec_extend(&mut neg_keys, keys);`
//@   ensures:
//@+    r == (match sp_sum(sp_pos(*self, *blind_sum), sp_neg(*self, *blind_sum)) { Ok(k) => Ok::<BlindingFactor, Error>(sp_from_sk(k)), Err(e) => Err::<BlindingFactor, Error>(e) }),
//@ end
//@ extract keychain/src/keychain.rs :: impl Keychain for ExtKeychain::blind_sum
//@   closure 1 lifted_as `fn cl_pos_id(&self, k: &ValueExtKeychainPath) -> Option<SecretKey>`
//@   ensures:
//@+    r == sp_id_key(*self, *k),
//@ end
//@ extract keychain/src/keychain.rs :: impl Keychain for ExtKeychain::blind_sum
//@   closure 2 lifted_as `fn cl_neg_id(&self, k: &ValueExtKeychainPath) -> Option<SecretKey>`
//@   ensures:
//@+    r == sp_id_key(*self, *k),
//@ end
//@ extract keychain/src/keychain.rs :: impl Keychain for ExtKeychain::blind_sum
//@   eclosure 1 lifted_as `fn cl_pos_bf(&self, b: &BlindingFactor) -> Option<SecretKey>`
//@   ensures:
//@+    r == sp_bf_opt(*b),
//@ end
//@ extract keychain/src/keychain.rs :: impl Keychain for ExtKeychain::blind_sum
//@   eclosure 2 lifted_as `fn cl_neg_bf(&self, b: &BlindingFactor) -> Option<SecretKey>`
//@   ensures:
//@+    r == sp_bf_opt(*b),
//@ end
}
//@ extract keychain/src/types.rs :: struct ValueExtKeychainPath
//@   strip_attrs
//@ end
//@ canary blind_sum: r.is_ok()
