//@ assume: the per-environment gate state (ENV_MAP entry: resize_checking / resizing flags, open_txs_count) is a ghost `Gate` value threaded through Store::maybe_resize as an extra `g: &mut Gate` parameter (T6: `self.start_resize_checking()` => `self.start_resize_checking(g)`, likewise finish_resize_checking, set_resizing, open_txs_count); the atomics are read and written SEQUENTIALLY here -- interleavings with other threads are NOT decided; `needs_resize` (floating-point threshold) is an uninterpreted decision; `unsafe { match env.resize(new_size) { .. } }` => `resize_env(&env, new_size, g)` whose assumed PRECONDITION is LMDB's own rule: no transaction of this process is open and the resizing flag is up (so that enter_tx keeps new ones out); `thread::spawn(move || { .. })` => `spawn_resizer(g, ())`: the spawned thread's body (wait until the count is zero, resize, clear both flags) is replaced by an opaque value and is NOT decided -- handing over is recorded in the ghost state
//@ assume: T6 also: `self.env_path.clone()` / `self.env.clone()` are plain copies of abstract values; log macros removed (T3)
//@ assume: decided here (C18, 'no operation fails for lack of space' needs a resize check that cannot get stuck; 'no committed write is lost' needs the map never to be resized under an open transaction), sequentially: Store::maybe_resize (run by Store::batch before every batch) -- if it acquired the resize-check guard, then on EVERY return path the guard is released again or has been handed to the resizer thread together with the raised resizing flag (never left set with nobody to clear it, which would switch automatic growth off for good); the resizing flag is left raised only when handed over; env.resize is called directly ONLY after the resizing flag was raised AND the open-transaction count was read as zero; when another thread holds the guard nothing is touched.
//@ assumed_items: 10
//@ fns: Store::maybe_resize
#[verifier::external_body]
#[derive(Clone, Copy)]
pub struct Env { _p: u8 }
impl Env { pub fn clone(&self) -> (r: Env) ensures r == *self { *self } }
#[verifier::external_body]
#[derive(Clone, Copy)]
pub struct PathStr { _p: u8 }
impl PathStr { pub fn clone(&self) -> (r: PathStr) ensures r == *self { *self } }
pub struct Gate { pub checking: Ghost<bool>, pub resizing: Ghost<bool>, pub open_txs: Ghost<nat>, pub handed_over: Ghost<bool>, pub resized: Ghost<bool>,
    /// the count was read as zero after the resizing flag went up
    pub quiesced: Ghost<bool> }
#[verifier::external_body]
pub fn needs_resize(env: &Env, chunk: usize) -> (r: (bool, usize)) { unimplemented!() }
/// LMDB: mdb_env_set_mapsize may only be called when no transaction of this process is open
#[verifier::external_body]
pub fn resize_env(env: &Env, new_size: usize, g: &mut Gate)
    requires old(g).resizing@ && old(g).quiesced@ && old(g).checking@
    ensures final(g).resized@, final(g).checking == old(g).checking, final(g).resizing == old(g).resizing, final(g).handed_over == old(g).handed_over { unimplemented!() }
/// thread::spawn of the waiting resizer: it owns the guard and the resizing flag from now on and clears both when done
#[verifier::external_body]
pub fn spawn_resizer(g: &mut Gate, body: ())
    requires old(g).resizing@ && old(g).checking@
    ensures final(g).handed_over@, final(g).checking == old(g).checking, final(g).resizing == old(g).resizing, final(g).resized == old(g).resized { unimplemented!() }
pub struct Store { pub env: Env, pub env_path: PathStr, pub alloc_chunk_size: usize }
impl Store {
    /// does the calling thread hold a transaction on this environment (THREAD_TX_COUNTS)? -- offered for variants that look at it
    #[verifier::external_body]
    fn thread_holds_tx(&self) -> (r: bool) { unimplemented!() }
    /// compare_exchange(false, true) on resize_checking
    #[verifier::external_body]
    fn start_resize_checking(&self, g: &mut Gate) -> (r: bool)
        ensures r == !old(g).checking@, r ==> final(g).checking@ && final(g).resizing == old(g).resizing && final(g).handed_over == old(g).handed_over && final(g).resized == old(g).resized && !final(g).quiesced@,
            !r ==> *final(g) == *old(g) { unimplemented!() }
    #[verifier::external_body]
    fn finish_resize_checking(&self, g: &mut Gate)
        ensures !final(g).checking@, final(g).resizing == old(g).resizing, final(g).handed_over == old(g).handed_over, final(g).resized == old(g).resized { unimplemented!() }
    #[verifier::external_body]
    fn set_resizing(&self, resizing: bool, g: &mut Gate)
        ensures final(g).resizing@ == resizing, final(g).checking == old(g).checking, final(g).handed_over == old(g).handed_over, final(g).resized == old(g).resized, !final(g).quiesced@ { unimplemented!() }
    #[verifier::external_body]
    fn open_txs_count(&self, g: &mut Gate) -> (r: u32)
        ensures final(g).checking == old(g).checking, final(g).resizing == old(g).resizing, final(g).handed_over == old(g).handed_over, final(g).resized == old(g).resized,
            r == 0 ==> final(g).quiesced@ == old(g).resizing@, r != 0 ==> final(g).quiesced == old(g).quiesced { unimplemented!() }
//@ extract store/src/lmdb.rs :: impl Store::maybe_resize
//@   strip_logs
//@   sigrewrite `fn maybe_resize(&self)` => `fn maybe_resize(&self, g: &mut Gate)`
//@   closure 1 replaced_by `()`
//@   rewrite `self.start_resize_checking()` => `self.start_resize_checking(g)` x?
//@   rewrite `self.finish_resize_checking()` => `self.finish_resize_checking(g)` x?
//@   rewrite `self.set_resizing(true)` => `self.set_resizing(true, g)` x?
//@   rewrite `self.set_resizing(false)` => `self.set_resizing(false, g)` x?
//@   rewrite `self.open_txs_count()` => `self.open_txs_count(g)` x?
//@   rewrite `thread::spawn(move ())` => `spawn_resizer(g, ())` x?
//@   rewrite `unsafe {\n\t\t\t\tmatch env.resize(new_size) {\n\t\t\t\t\tOk(_) => /* T3: log macro removed */,\n\t\t\t\t\tErr(e) => /* T3: log macro removed */,\n\t\t\t\t}\n\t\t\t}` => `resize_env(&env, new_size, g);` x?
//@   requires:
//@+    !old(g).handed_over@, !old(g).resizing@,
//@   ensures:
//@+    // another thread holds the guard: nothing is touched
//@+    old(g).checking@ ==> *final(g) == *old(g),
//@+    // we took the guard: it is released again, or the resizer thread owns it (and then the resizing flag is up)
//@+    !old(g).checking@ ==> ((!final(g).checking@ && !final(g).resizing@ && !final(g).handed_over@) || (final(g).handed_over@ && final(g).checking@ && final(g).resizing@)),
//@ end
}
//@ canary maybe_resize: final(g).resized@
