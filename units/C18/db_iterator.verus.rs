//@ assume: heed (LMDB behind FFI) is abstract: a read transaction `RoTxn` fixes a SNAPSHOT of a database -- a ghost sequence of (key, value) pairs in key order, `sp_snap(db, read)` -- for as long as it lives (LMDB's MVCC guarantee, assumed); `db.get(read, k)` returns the value stored under k in that snapshot; `db.iter(read)?.move_between_keys()` enumerates the snapshot in order and `.skip(n)` / `.take(n)` are the std adaptors (drop the first n / keep the first n); the final `.map(|kv| kv.map(|(k, _)| k.to_vec()).map_err(Error::from)).collect::<Result<Vec<Vec<u8>>, Error>>()` is an abstract stand-in `collect_keys()`: the keys of the remaining entries, in order, or an error
//@ assume: T5: the generic struct `DatabaseIterator<'a, F, T>` is re-declared with the same fields (Arc<..> fields held directly; `tx_counter` an opaque token); T6: `self.keys.iter().skip(self.skip_cur).next()` => `vec_nth(&self.keys, self.skip_cur)` (assumed: the element at that index, if any); `Error::from(e)` => `err_from(e)`; log macros removed (T3). Nothing else is rewritten; the loop, the counters and the paging arithmetic are the real text.
//@ assume: decided here (C18, 'no reader or iterator observes part of a batch / iteration yields what the snapshot holds', sequential half): over the snapshot S fixed by its read transaction, a DatabaseIterator yields deserialize(S[0]), deserialize(S[1]), ... in order, each entry exactly once, across page boundaries of any size (the 10 000-key paging), and returns None only when every entry has been yielded (or after it has reported an error): `next` either yields entry number `skip_total` and advances by exactly one, or ends. That LMDB really isolates the snapshot from concurrent writers is assumed, not proved.
//@ assumed_items: 14
//@ fns: DatabaseIterator::next, DatabaseIterator::new, DatabaseIterator::load_next_keys, DatabaseIterator::read_key_page
pub struct Error { pub k: u8 }
#[verifier::external_body]
pub struct HeedError { _p: u8 }
pub trait ToErr: Sized { fn to_err(self) -> (r: Error); }
impl ToErr for Error { fn to_err(self) -> (r: Error) { self } }
impl ToErr for HeedError { #[verifier::external_body] fn to_err(self) -> (r: Error) { unimplemented!() } }
pub fn err_from<E: ToErr>(e: E) -> (r: Error) { e.to_err() }
pub struct Bytes;
pub struct WithoutTls;
#[verifier::external_body]
#[verifier::reject_recursive_types(K)]
#[verifier::reject_recursive_types(V)]
pub struct Database<K, V> { _p: core::marker::PhantomData<(K, V)> }
#[verifier::external_body]
#[verifier::reject_recursive_types(T)]
pub struct RoTxn<'a, T> { _p: core::marker::PhantomData<&'a T> }
#[verifier::external_body]
pub struct TxCounter { _p: u8 }
/// the snapshot of `db` seen by the read transaction: (key, value) pairs in key order
pub uninterp spec fn sp_snap<'a>(db: Database<Bytes, Bytes>, read: RoTxn<'a, WithoutTls>) -> Seq<(Seq<u8>, Seq<u8>)>;
pub open spec fn sp_keys(s: Seq<(Seq<u8>, Seq<u8>)>) -> Seq<Seq<u8>> { s.map(|i: int, kv: (Seq<u8>, Seq<u8>)| kv.0) }
/// keys are distinct in a snapshot (it is a map)
pub open spec fn sp_distinct(s: Seq<(Seq<u8>, Seq<u8>)>) -> bool { forall|i: int, j: int| 0 <= i < s.len() && 0 <= j < s.len() && s[i].0 == s[j].0 ==> i == j }
#[verifier::external_body]
pub proof fn axiom_snap_distinct<'a>(db: Database<Bytes, Bytes>, read: RoTxn<'a, WithoutTls>) ensures sp_distinct(sp_snap(db, read)), sp_snap(db, read).len() <= usize::MAX { }
/// the abstract cursor returned by db.iter(read): what is still to come
pub struct RoIter { pub rest: Ghost<Seq<(Seq<u8>, Seq<u8>)>> }
impl<K, V> Database<K, V> {
    #[verifier::external_body]
    pub fn get<'a, 'b>(&self, read: &'b RoTxn<'a, WithoutTls>, k: &Vec<u8>) -> (r: Result<Option<&'b [u8]>, HeedError>)
        where K: 'b
        ensures r matches Ok(o) ==> (match o {
            Some(v) => exists|i: int| 0 <= i < sp_snap(sp_db(*self), *read).len() && #[trigger] sp_snap(sp_db(*self), *read)[i].0 == k@ && sp_snap(sp_db(*self), *read)[i].1 == v@,
            None => forall|i: int| 0 <= i < sp_snap(sp_db(*self), *read).len() ==> #[trigger] sp_snap(sp_db(*self), *read)[i].0 != k@,
        }) { unimplemented!() }
    #[verifier::external_body]
    pub fn iter<'a>(&self, read: &RoTxn<'a, WithoutTls>) -> (r: Result<RoIter, HeedError>)
        ensures r matches Ok(it) ==> it.rest@ == sp_snap(sp_db(*self), *read) { unimplemented!() }
}
/// Database<K, V> seen as Database<Bytes, Bytes> (the only instantiation)
pub uninterp spec fn sp_db<K, V>(d: Database<K, V>) -> Database<Bytes, Bytes>;
#[verifier::external_body]
pub proof fn axiom_sp_db_id(d: Database<Bytes, Bytes>) ensures sp_db(d) == d { }
impl RoIter {
    #[verifier::external_body]
    pub fn move_between_keys(self) -> (r: RoIter) ensures r.rest@ == self.rest@ { unimplemented!() }
    #[verifier::external_body]
    pub fn skip(self, n: usize) -> (r: RoIter) ensures r.rest@ == (if n as int <= self.rest@.len() { self.rest@.skip(n as int) } else { Seq::empty() }) { unimplemented!() }
    #[verifier::external_body]
    pub fn take(self, n: usize) -> (r: RoIter) ensures r.rest@ == (if n as int <= self.rest@.len() { self.rest@.take(n as int) } else { self.rest@ }) { unimplemented!() }
    #[verifier::external_body]
    pub fn collect_keys(self) -> (r: Result<Vec<Vec<u8>>, Error>)
        ensures r matches Ok(v) ==> v@.len() == self.rest@.len() && forall|i: int| 0 <= i < v@.len() ==> #[trigger] v@[i]@ == self.rest@[i].0 { unimplemented!() }
}
#[verifier::external_body]
pub fn vec_nth<'x>(v: &'x Vec<Vec<u8>>, n: usize) -> (r: Option<&'x Vec<u8>>)
    ensures (n as int) < v@.len() ==> r == Some(&v@[n as int]), (n as int) >= v@.len() ==> r is None { unimplemented!() }

pub struct DatabaseIterator<'a, F> {
    pub db: Database<Bytes, Bytes>,
    pub read: RoTxn<'a, WithoutTls>,
    pub keys: Vec<Vec<u8>>,
    pub skip_cur: usize,
    pub skip_total: usize,
    pub done: bool,
    pub deserialize: F,
    pub tx_counter: Option<TxCounter>,
}
/// the page held in `keys` is the part of the snapshot it was loaded from; skip_total counts the entries consumed
pub open spec fn page_ok(keys: Seq<Vec<u8>>, skip_cur: int, skip_total: int, snap: Seq<(Seq<u8>, Seq<u8>)>) -> bool {
    let start = skip_total - skip_cur;
    &&& 0 <= skip_cur <= keys.len()
    &&& 0 <= start
    &&& start + keys.len() <= snap.len()
    &&& forall|i: int| 0 <= i < keys.len() ==> #[trigger] keys[i]@ == snap[start + i].0
    // an empty page means the end of the snapshot (whatever the page size)
    &&& (keys.len() == 0 ==> start == snap.len())
}
impl<'a, F> DatabaseIterator<'a, F> {
    pub open spec fn snap(&self) -> Seq<(Seq<u8>, Seq<u8>)> { sp_snap(self.db, self.read) }
    pub open spec fn wf(&self) -> bool { page_ok(self.keys@, self.skip_cur as int, self.skip_total as int, self.snap()) && sp_distinct(self.snap()) && self.snap().len() <= usize::MAX }
    /// `done` is raised only at the end of the snapshot (holds until an error has been reported)
    pub open spec fn live(&self) -> bool { self.done ==> self.skip_total as int >= self.snap().len() }
}
impl<'a, F, T> DatabaseIterator<'a, F> where F: Fn(&[u8], &[u8]) -> Result<T, Error> {
//@ extract store/src/lmdb.rs :: impl DatabaseIterator::read_key_page
//@   sigrewrite `db: &Database<Bytes, Bytes>,` => `db: &Database<Bytes, Bytes>,`
//@   rewrite `.map(|kv| kv.map(|(k, _)| k.to_vec()).map_err(Error::from))\n\t\t\t.collect::<Result<Vec<Vec<u8>>, Error>>()` => `.collect_keys()`
//@   rewrite `db.iter(read)?` => `match db.iter(read) { Ok(i) => i, Err(e) => { return Err(err_from(e)); } }`
//@   at_start:
//@+    proof { axiom_sp_db_id(*db); axiom_snap_distinct(*db, *read); }
//@   ensures:
//@+    r matches Ok(v) ==> ({
//@+        let snap = sp_snap(*db, *read);
//@+        &&& (skip as int <= snap.len() ==> page_ok(v@, 0, skip as int, snap))
//@+        &&& (skip as int > snap.len() ==> v@.len() == 0)
//@+    }),
//@ end
//@ extract store/src/lmdb.rs :: impl DatabaseIterator::load_next_keys
//@   requires:
//@+    old(self).wf(), old(self).skip_cur as int == old(self).keys@.len(),
//@   ensures:
//@+    final(self).db == old(self).db, final(self).read == old(self).read, final(self).skip_total == old(self).skip_total, final(self).deserialize == old(self).deserialize,
//@+    r.is_ok() ==> final(self).wf() && final(self).skip_cur == 0 && final(self).done == (final(self).keys@.len() == 0)
//@+        && (final(self).done ==> final(self).skip_total as int >= final(self).snap().len()),
//@+    r.is_err() ==> final(self).keys == old(self).keys && final(self).skip_cur == old(self).skip_cur && final(self).done == old(self).done,
//@ end
//@ extract store/src/lmdb.rs :: impl DatabaseIterator::new
//@   sigrewrite `db: Arc<Database<Bytes, Bytes>>,` => `db: Database<Bytes, Bytes>,`
//@   sigrewrite `) -> Result<DatabaseIterator<'a, F, T>, Error>` => `) -> Result<DatabaseIterator<'a, F>, Error>`
//@   rewrite `read: Arc::new(read),` => `read: read,`
//@   at_start:
//@+    proof { axiom_snap_distinct(db, read); }
//@   ensures:
//@+    r matches Ok(it) ==> it.wf() && it.live() && it.skip_total == 0 && it.db == db && it.read == read,
//@ end
}
/// the Iterator impl (T5: as an inherent method with the same body)
impl<'a, F, T> DatabaseIterator<'a, F> where F: Fn(&[u8], &[u8]) -> Result<T, Error> {
//@ extract store/src/lmdb.rs :: impl Iterator for DatabaseIterator::next
//@   strip_logs
//@   sigrewrite `fn next(&mut self) -> Option<Self::Item>` => `fn next(&mut self) -> Option<Result<T, Error>>`
//@   rewrite `self.keys.iter().skip(self.skip_cur).next()` => `vec_nth(&self.keys, self.skip_cur)`
//@   rewrite `Error::from(e)` => `err_from(e)` x?
//@   at_start:
//@+    proof { axiom_sp_db_id(self.db); }
//@   before `match self.db.get(`:
//@+    proof { axiom_sp_db_id(self.db); assert(k@ == self.snap()[old(self).skip_total as int].0); }
//@   requires:
//@+    old(self).wf(),
//@+    forall|k: &[u8], v: &[u8]| old(self).deserialize.requires((k, v)),
//@   ensures:
//@+    final(self).wf(), final(self).db == old(self).db, final(self).read == old(self).read, final(self).deserialize == old(self).deserialize,
//@+    final(self).skip_total >= old(self).skip_total,
//@+    // an entry is yielded: it is entry number old.skip_total of the snapshot, deserialized by the caller's function, and the cursor moved by exactly one
//@+    (r matches Some(Ok(t)) ==> (old(self).skip_total as int) < old(self).snap().len() && final(self).skip_total == old(self).skip_total + 1
//@+        && exists|k: &[u8], v: &[u8]| k@ == old(self).snap()[old(self).skip_total as int].0 && v@ == old(self).snap()[old(self).skip_total as int].1
//@+            && #[trigger] old(self).deserialize.ensures((k, v), Ok(t))),
//@+    // the end is reported only at the end (as long as no error has been reported before)
//@+    (r is None && old(self).live() ==> old(self).skip_total as int >= old(self).snap().len()),
//@+    (old(self).live() && !(r matches Some(Err(_))) ==> final(self).live()),
//@+    // an error moves the cursor by at most one entry
//@+    (r matches Some(Err(_)) ==> final(self).skip_total <= old(self).skip_total + 1),
//@   loop 1:
//@+    invariant
//@+        self.wf(), self.db == old(self).db, self.read == old(self).read, self.deserialize == old(self).deserialize,
//@+        forall|k: &[u8], v: &[u8]| self.deserialize.requires((k, v)),
//@+        self.skip_total == old(self).skip_total,
//@+        old(self).live() ==> self.live(),
//@+    decreases (if self.done { 0int } else if (self.skip_cur as int) < self.keys@.len() { 1 } else { 2 }),
//@ end
}
//@ canary next: r is None
