//@ assume: the LMDB store / batch is a ghost map from (table prefix or None, key bytes) to a typed value (tip, header, block, output position, block sums, spent index); assumed contracts of store::Store / store::Batch (C18/lmdb_batch decides the batch layer): get_ser answers the stored value of exactly that slot decoded as the requested type (a value of another type does not decode), put_ser stores exactly the value at exactly the slot, delete removes exactly the slot, exists tells whether the slot is there; each leaves every other slot alone and a failed call changes nothing. Deserialisation mode SkipPow yields the same header without its proof: treated as the same value here
//@ assume: key bytes: Hash::as_ref / Commitment::as_ref are the 32 / 33 bytes of the value (uninterpreted, injective is not needed here); `&[HEAD_PREFIX]` is the one-byte key holding that constant; Block::hash / BlockHeader::hash are uninterpreted; T6: `|| { "HEAD".to_owned() }` / `|| format!(..)` => a message value (option_to_not_found's `field_name()` => `field_name`); T3: log macros removed; the constants are extracted from the file (made `pub` so contracts can name them)
//@ assume: range: output positions stored in the index are 1-based (get_output_pos subtracts one)
//@ assume: decided here (what C02 / C03 / C06 / C09 / C13 / C18 units ASSUME of the chain store): every getter of chain/src/store.rs reads exactly the slot its saver writes -- head / tail / header head / PIBD head under no prefix with their own one-byte keys, headers, blocks, block sums, spent indices by block hash under four different prefixes, output positions by commitment -- and the eleven table prefixes are pairwise different (so no table can alias another); head_header is the header stored under the BODY head's last block hash (not the header head's); get_previous_header reads the header stored under prev_hash; delete_block removes the block and, best effort, its block sums and spent index and touches nothing else; get_output_pos is the stored position minus one
//@ assumed_items: 11
//@ fns: option_to_not_found, Batch::{head, tail, header_head, head_header, save_body_head, save_body_tail, save_header_head, save_pibd_head, get_block, block_exists, save_block, save_spent_index, delete_block, save_block_header, save_output_pos_height, delete_output_pos_height, get_output_pos, get_output_pos_height, get_previous_header, get_block_header, get_block_header_skip_proof, delete_spent_index, save_block_sums, get_block_sums, delete_block_sums, get_spent_index}, ChainStore::{pibd_head, head, header_head, tail, head_header, get_block, block_exists, get_block_sums, get_previous_header, get_block_header, get_output_pos, get_output_pos_height}
global size_of usize == 8;
//@ extract chain/src/store.rs :: const BLOCK_HEADER_PREFIX
//@   rewrite `const BLOCK_HEADER_PREFIX` => `pub const BLOCK_HEADER_PREFIX`
//@ end
//@ extract chain/src/store.rs :: const BLOCK_PREFIX
//@   rewrite `const BLOCK_PREFIX` => `pub const BLOCK_PREFIX`
//@ end
//@ extract chain/src/store.rs :: const HEAD_PREFIX
//@   rewrite `const HEAD_PREFIX` => `pub const HEAD_PREFIX`
//@ end
//@ extract chain/src/store.rs :: const TAIL_PREFIX
//@   rewrite `const TAIL_PREFIX` => `pub const TAIL_PREFIX`
//@ end
//@ extract chain/src/store.rs :: const PIBD_HEAD_PREFIX
//@   rewrite `const PIBD_HEAD_PREFIX` => `pub const PIBD_HEAD_PREFIX`
//@ end
//@ extract chain/src/store.rs :: const HEADER_HEAD_PREFIX
//@   rewrite `const HEADER_HEAD_PREFIX` => `pub const HEADER_HEAD_PREFIX`
//@ end
//@ extract chain/src/store.rs :: const OUTPUT_POS_PREFIX
//@ end
//@ extract chain/src/store.rs :: const NRD_KERNEL_LIST_PREFIX
//@ end
//@ extract chain/src/store.rs :: const NRD_KERNEL_ENTRY_PREFIX
//@ end
//@ extract chain/src/store.rs :: const BLOCK_SUMS_PREFIX
//@   rewrite `const BLOCK_SUMS_PREFIX` => `pub const BLOCK_SUMS_PREFIX`
//@ end
//@ extract chain/src/store.rs :: const BLOCK_SPENT_PREFIX
//@   rewrite `const BLOCK_SPENT_PREFIX` => `pub const BLOCK_SPENT_PREFIX`
//@ end
pub proof fn lemma_prefixes_distinct()
    ensures ({ let p = seq![BLOCK_HEADER_PREFIX, BLOCK_PREFIX, HEAD_PREFIX, TAIL_PREFIX, PIBD_HEAD_PREFIX, HEADER_HEAD_PREFIX, OUTPUT_POS_PREFIX, NRD_KERNEL_LIST_PREFIX, NRD_KERNEL_ENTRY_PREFIX, BLOCK_SUMS_PREFIX, BLOCK_SPENT_PREFIX];
        forall|i: int, j: int| 0 <= i < j < 11 ==> p[i] != p[j] })
{ }
#[derive(Clone, Copy, PartialEq, Eq, Structural)]
pub struct Hash { pub v: u64 }
pub struct HashBytes { pub v: u64 }
pub uninterp spec fn sp_hash_bytes(v: u64) -> Seq<u8>;
impl Hash { #[verifier::external_body] pub fn as_ref(&self) -> (r: &HashBytes) ensures r.v == self.v { unimplemented!() } }
#[derive(Clone, Copy, PartialEq, Eq, Structural)]
pub struct Commitment { pub id: u64 }
pub struct CommitBytes { pub id: u64 }
pub uninterp spec fn sp_commit_bytes(id: u64) -> Seq<u8>;
impl Commitment { #[verifier::external_body] pub fn as_ref(&self) -> (r: &CommitBytes) ensures r.id == self.id { unimplemented!() } }
pub trait KeyLike { spec fn bytes(&self) -> Seq<u8>; }
impl KeyLike for [u8; 1] { open spec fn bytes(&self) -> Seq<u8> { seq![self@[0]] } }
impl KeyLike for HashBytes { open spec fn bytes(&self) -> Seq<u8> { sp_hash_bytes(self.v) } }
impl KeyLike for CommitBytes { open spec fn bytes(&self) -> Seq<u8> { sp_commit_bytes(self.id) } }
#[derive(Clone, Copy, PartialEq, Eq, Structural)]
pub struct Tip { pub height: u64, pub last_block_h: Hash, pub prev_block_h: Hash, pub total_difficulty: u64 }
#[derive(Clone, Copy, PartialEq, Eq, Structural)]
pub struct BlockHeader { pub id: u64, pub prev_hash: Hash }
pub uninterp spec fn sp_header_hash(h: BlockHeader) -> Hash;
impl BlockHeader { #[verifier::external_body] pub fn hash(&self) -> (r: Hash) ensures r == sp_header_hash(*self) { unimplemented!() } }
#[derive(Clone, Copy, PartialEq, Eq, Structural)]
pub struct Block { pub header: BlockHeader, pub body: u64 }
pub uninterp spec fn sp_block_hash(b: Block) -> Hash;
impl Block { #[verifier::external_body] pub fn hash(&self) -> (r: Hash) ensures r == sp_block_hash(*self) { unimplemented!() } }
#[derive(Clone, Copy, PartialEq, Eq, Structural)]
pub struct CommitPos { pub pos: u64, pub height: u64 }
#[derive(Clone, Copy, PartialEq, Eq, Structural)]
pub struct BlockSums { pub v: u64 }
pub enum Value { Tip(Tip), Header(BlockHeader), Block(Block), Pos(CommitPos), Sums(BlockSums), Spent(Seq<CommitPos>) }
pub trait Storable: Sized { spec fn to_value(&self) -> Value; spec fn from_value(v: Value) -> Option<Self>; }
impl Storable for Tip { open spec fn to_value(&self) -> Value { Value::Tip(*self) } open spec fn from_value(v: Value) -> Option<Self> { match v { Value::Tip(t) => Some(t), _ => None } } }
impl Storable for BlockHeader { open spec fn to_value(&self) -> Value { Value::Header(*self) } open spec fn from_value(v: Value) -> Option<Self> { match v { Value::Header(t) => Some(t), _ => None } } }
impl Storable for Block { open spec fn to_value(&self) -> Value { Value::Block(*self) } open spec fn from_value(v: Value) -> Option<Self> { match v { Value::Block(t) => Some(t), _ => None } } }
impl Storable for CommitPos { open spec fn to_value(&self) -> Value { Value::Pos(*self) } open spec fn from_value(v: Value) -> Option<Self> { match v { Value::Pos(t) => Some(t), _ => None } } }
impl Storable for BlockSums { open spec fn to_value(&self) -> Value { Value::Sums(*self) } open spec fn from_value(v: Value) -> Option<Self> { match v { Value::Sums(t) => Some(t), _ => None } } }
pub struct SpentVec { pub v: Vec<CommitPos> }
impl Storable for SpentVec { open spec fn to_value(&self) -> Value { Value::Spent(self.v@) } open spec fn from_value(v: Value) -> Option<Self> { None } }
pub enum DeserializationMode { Full, SkipPow }
pub struct Msg { pub _p: u8 }
pub fn fmtmsg() -> Msg { Msg { _p: 0 } }
pub enum Error { NotFoundErr(Msg), LmdbErr, SerErr, OtherErr }
pub type DbMap = Map<(Option<u8>, Seq<u8>), Value>;
/// the slot read as a value of type V
pub open spec fn sp_read<V: Storable>(m: DbMap, prefix: Option<u8>, key: Seq<u8>) -> Option<V> { match m.get((prefix, key)) { Some(v) => V::from_value(v), None => None } }
pub struct Db { pub m: Ghost<DbMap> }
impl Db {
    #[verifier::external_body]
    pub fn get_ser<V: Storable, K: KeyLike>(&self, prefix: Option<u8>, key: &K, mode: Option<DeserializationMode>) -> (r: Result<Option<V>, Error>)
        ensures r matches Ok(o) ==> (match self.m@.get((prefix, key.bytes())) { Some(v) => V::from_value(v) is Some && o == V::from_value(v), None => o is None }) { unimplemented!() }
    /// the spent index is stored as a Vec<CommitPos>
    #[verifier::external_body]
    pub fn get_ser_spent<K: KeyLike>(&self, prefix: Option<u8>, key: &K, mode: Option<DeserializationMode>) -> (r: Result<Option<Vec<CommitPos>>, Error>)
        ensures r matches Ok(o) ==> (match self.m@.get((prefix, key.bytes())) { Some(Value::Spent(s)) => o matches Some(x) && x@ == s, Some(_) => false, None => o is None }) { unimplemented!() }
    #[verifier::external_body]
    pub fn put_ser<V: Storable, K: KeyLike>(&mut self, prefix: Option<u8>, key: &K, v: &V) -> (r: Result<(), Error>)
        ensures r.is_ok() ==> final(self).m@ == old(self).m@.insert((prefix, key.bytes()), v.to_value()), r.is_err() ==> final(self).m@ == old(self).m@ { unimplemented!() }
    #[verifier::external_body]
    pub fn delete<K: KeyLike>(&mut self, prefix: Option<u8>, key: &K) -> (r: Result<(), Error>)
        ensures r.is_ok() ==> final(self).m@ == old(self).m@.remove((prefix, key.bytes())), r.is_err() ==> final(self).m@ == old(self).m@ { unimplemented!() }
    #[verifier::external_body]
    pub fn exists<K: KeyLike>(&self, prefix: Option<u8>, key: &K) -> (r: Result<bool, Error>)
        ensures r matches Ok(b) ==> b == self.m@.contains_key((prefix, key.bytes())) { unimplemented!() }
}
//@ extract store/src/lmdb.rs :: fn option_to_not_found
//@   sigrewrite `pub fn option_to_not_found<T, F>(res: Result<Option<T>, Error>, field_name: F) -> Result<T, Error>` => `pub fn option_to_not_found<T>(res: Result<Option<T>, Error>, field_name: Msg) -> Result<T, Error>`
//@   sigrewrite `where\n\tF: Fn() -> String,\n` => ``
//@   rewrite `field_name()` => `field_name`
//@   ensures:
//@+    r matches Ok(x) ==> res == Ok::<Option<T>, Error>(Some(x)),
//@+    (res matches Ok(None)) ==> r matches Err(Error::NotFoundErr(_)),
//@+    res is Err ==> r is Err,
//@ end

pub struct Batch { pub db: Db }
impl Batch {
//@ extract chain/src/store.rs :: impl Batch::head
//@   format_as `fmtmsg()`
//@   rewrite `|| fmtmsg()` => `fmtmsg()` x?
//@   rewrite `|| {\n\t\t\t"HEAD".to_owned()\n\t\t}` => `fmtmsg()` x?
//@   rewrite `|| {\n\t\t\t"TAIL".to_owned()\n\t\t}` => `fmtmsg()` x?
//@   rewrite `|| {\n\t\t\t"HEADER_HEAD".to_owned()\n\t\t}` => `fmtmsg()` x?
//@   rewrite `|| {\n\t\t\t"PIBD_HEAD".to_owned()\n\t\t}` => `fmtmsg()` x?
//@   ensures:
//@+    r matches Ok(x) ==> sp_read::<Tip>(self.db.m@, None::<u8>, seq![HEAD_PREFIX]) == Some(x),
//@ end
//@ extract chain/src/store.rs :: impl Batch::tail
//@   format_as `fmtmsg()`
//@   rewrite `|| fmtmsg()` => `fmtmsg()` x?
//@   rewrite `|| {\n\t\t\t"HEAD".to_owned()\n\t\t}` => `fmtmsg()` x?
//@   rewrite `|| {\n\t\t\t"TAIL".to_owned()\n\t\t}` => `fmtmsg()` x?
//@   rewrite `|| {\n\t\t\t"HEADER_HEAD".to_owned()\n\t\t}` => `fmtmsg()` x?
//@   rewrite `|| {\n\t\t\t"PIBD_HEAD".to_owned()\n\t\t}` => `fmtmsg()` x?
//@   ensures:
//@+    r matches Ok(x) ==> sp_read::<Tip>(self.db.m@, None::<u8>, seq![TAIL_PREFIX]) == Some(x),
//@ end
//@ extract chain/src/store.rs :: impl Batch::header_head
//@   format_as `fmtmsg()`
//@   rewrite `|| fmtmsg()` => `fmtmsg()` x?
//@   rewrite `|| {\n\t\t\t"HEAD".to_owned()\n\t\t}` => `fmtmsg()` x?
//@   rewrite `|| {\n\t\t\t"TAIL".to_owned()\n\t\t}` => `fmtmsg()` x?
//@   rewrite `|| {\n\t\t\t"HEADER_HEAD".to_owned()\n\t\t}` => `fmtmsg()` x?
//@   rewrite `|| {\n\t\t\t"PIBD_HEAD".to_owned()\n\t\t}` => `fmtmsg()` x?
//@   ensures:
//@+    r matches Ok(x) ==> sp_read::<Tip>(self.db.m@, None::<u8>, seq![HEADER_HEAD_PREFIX]) == Some(x),
//@ end
//@ extract chain/src/store.rs :: impl Batch::get_block_header
//@   format_as `fmtmsg()`
//@   rewrite `|| fmtmsg()` => `fmtmsg()` x?
//@   rewrite `|| {\n\t\t\t"HEAD".to_owned()\n\t\t}` => `fmtmsg()` x?
//@   rewrite `|| {\n\t\t\t"TAIL".to_owned()\n\t\t}` => `fmtmsg()` x?
//@   rewrite `|| {\n\t\t\t"HEADER_HEAD".to_owned()\n\t\t}` => `fmtmsg()` x?
//@   rewrite `|| {\n\t\t\t"PIBD_HEAD".to_owned()\n\t\t}` => `fmtmsg()` x?
//@   ensures:
//@+    r matches Ok(x) ==> sp_read::<BlockHeader>(self.db.m@, Some(BLOCK_HEADER_PREFIX), sp_hash_bytes(h.v)) == Some(x),
//@ end
//@ extract chain/src/store.rs :: impl Batch::head_header
//@   ensures:
//@+    // the header stored under the BODY head's last block hash
//@+    r matches Ok(x) ==> (sp_read::<Tip>(self.db.m@, None::<u8>, seq![HEAD_PREFIX]) matches Some(t) && sp_read::<BlockHeader>(self.db.m@, Some(BLOCK_HEADER_PREFIX), sp_hash_bytes(t.last_block_h.v)) == Some(x)),
//@ end
//@ extract chain/src/store.rs :: impl Batch::get_previous_header
//@   ensures:
//@+    r matches Ok(x) ==> sp_read::<BlockHeader>(self.db.m@, Some(BLOCK_HEADER_PREFIX), sp_hash_bytes(header.prev_hash.v)) == Some(x),
//@ end
//@ extract chain/src/store.rs :: impl Batch::get_block
//@   format_as `fmtmsg()`
//@   rewrite `|| fmtmsg()` => `fmtmsg()` x?
//@   rewrite `|| {\n\t\t\t"HEAD".to_owned()\n\t\t}` => `fmtmsg()` x?
//@   rewrite `|| {\n\t\t\t"TAIL".to_owned()\n\t\t}` => `fmtmsg()` x?
//@   rewrite `|| {\n\t\t\t"HEADER_HEAD".to_owned()\n\t\t}` => `fmtmsg()` x?
//@   rewrite `|| {\n\t\t\t"PIBD_HEAD".to_owned()\n\t\t}` => `fmtmsg()` x?
//@   ensures:
//@+    r matches Ok(x) ==> sp_read::<Block>(self.db.m@, Some(BLOCK_PREFIX), sp_hash_bytes(h.v)) == Some(x),
//@ end
//@ extract chain/src/store.rs :: impl Batch::block_exists
//@   ensures:
//@+    r matches Ok(b) ==> b == self.db.m@.contains_key((Some(BLOCK_PREFIX), sp_hash_bytes(h.v))),
//@ end
//@ extract chain/src/store.rs :: impl Batch::get_block_sums
//@   format_as `fmtmsg()`
//@   rewrite `|| fmtmsg()` => `fmtmsg()` x?
//@   rewrite `|| {\n\t\t\t"HEAD".to_owned()\n\t\t}` => `fmtmsg()` x?
//@   rewrite `|| {\n\t\t\t"TAIL".to_owned()\n\t\t}` => `fmtmsg()` x?
//@   rewrite `|| {\n\t\t\t"HEADER_HEAD".to_owned()\n\t\t}` => `fmtmsg()` x?
//@   rewrite `|| {\n\t\t\t"PIBD_HEAD".to_owned()\n\t\t}` => `fmtmsg()` x?
//@   ensures:
//@+    r matches Ok(x) ==> sp_read::<BlockSums>(self.db.m@, Some(BLOCK_SUMS_PREFIX), sp_hash_bytes(h.v)) == Some(x),
//@ end
//@ extract chain/src/store.rs :: impl Batch::get_output_pos_height
//@   rewrite `self.db\n\t\t\t.get_ser(` => `self.db.get_ser(`
//@   ensures:
//@+    r matches Ok(o) ==> (match self.db.m@.get((Some(OUTPUT_POS_PREFIX), sp_commit_bytes(commit.id))) { Some(v) => o == CommitPos::from_value(v) && o is Some, None => o is None }),
//@ end
//@ extract chain/src/store.rs :: impl Batch::get_output_pos
//@   format_as `fmtmsg()`
//@   requires:
//@+    sp_read::<CommitPos>(self.db.m@, Some(OUTPUT_POS_PREFIX), sp_commit_bytes(commit.id)) matches Some(p) ==> p.pos >= 1,
//@   ensures:
//@+    r matches Ok(x) ==> (sp_read::<CommitPos>(self.db.m@, Some(OUTPUT_POS_PREFIX), sp_commit_bytes(commit.id)) matches Some(p) && x == p.pos - 1),
//@ end
//@ extract chain/src/store.rs :: impl Batch::get_block_header_skip_proof
//@   format_as `fmtmsg()`
//@   rewrite `|| fmtmsg()` => `fmtmsg()` x?
//@   rewrite `|| {\n\t\t\t"HEAD".to_owned()\n\t\t}` => `fmtmsg()` x?
//@   rewrite `|| {\n\t\t\t"TAIL".to_owned()\n\t\t}` => `fmtmsg()` x?
//@   rewrite `|| {\n\t\t\t"HEADER_HEAD".to_owned()\n\t\t}` => `fmtmsg()` x?
//@   rewrite `|| {\n\t\t\t"PIBD_HEAD".to_owned()\n\t\t}` => `fmtmsg()` x?
//@   ensures:
//@+    r matches Ok(x) ==> sp_read::<BlockHeader>(self.db.m@, Some(BLOCK_HEADER_PREFIX), sp_hash_bytes(h.v)) == Some(x),
//@ end
//@ extract chain/src/store.rs :: impl Batch::save_body_head
//@   strip_logs
//@   ensures:
//@+    r.is_ok() ==> final(self).db.m@ == old(self).db.m@.insert((None::<u8>, seq![HEAD_PREFIX]), Value::Tip(*t)), r.is_err() ==> final(self).db.m@ == old(self).db.m@,
//@ end
//@ extract chain/src/store.rs :: impl Batch::save_body_tail
//@   strip_logs
//@   ensures:
//@+    r.is_ok() ==> final(self).db.m@ == old(self).db.m@.insert((None::<u8>, seq![TAIL_PREFIX]), Value::Tip(*t)), r.is_err() ==> final(self).db.m@ == old(self).db.m@,
//@ end
//@ extract chain/src/store.rs :: impl Batch::save_header_head
//@   strip_logs
//@   ensures:
//@+    r.is_ok() ==> final(self).db.m@ == old(self).db.m@.insert((None::<u8>, seq![HEADER_HEAD_PREFIX]), Value::Tip(*t)), r.is_err() ==> final(self).db.m@ == old(self).db.m@,
//@ end
//@ extract chain/src/store.rs :: impl Batch::save_pibd_head
//@   strip_logs
//@   ensures:
//@+    r.is_ok() ==> final(self).db.m@ == old(self).db.m@.insert((None::<u8>, seq![PIBD_HEAD_PREFIX]), Value::Tip(*t)), r.is_err() ==> final(self).db.m@ == old(self).db.m@,
//@ end
//@ extract chain/src/store.rs :: impl Batch::save_block
//@   strip_logs
//@   ensures:
//@+    r.is_ok() ==> final(self).db.m@ == old(self).db.m@.insert((Some(BLOCK_PREFIX), sp_hash_bytes(sp_block_hash(*b).v)), Value::Block(*b)), r.is_err() ==> final(self).db.m@ == old(self).db.m@,
//@ end
//@ extract chain/src/store.rs :: impl Batch::save_block_header
//@   strip_logs
//@   ensures:
//@+    r.is_ok() ==> final(self).db.m@ == old(self).db.m@.insert((Some(BLOCK_HEADER_PREFIX), sp_hash_bytes(sp_header_hash(*header).v)), Value::Header(*header)), r.is_err() ==> final(self).db.m@ == old(self).db.m@,
//@ end
//@ extract chain/src/store.rs :: impl Batch::save_output_pos_height
//@   strip_logs
//@   rewrite `self.db\n\t\t\t.put_ser(` => `self.db.put_ser(`
//@   ensures:
//@+    r.is_ok() ==> final(self).db.m@ == old(self).db.m@.insert((Some(OUTPUT_POS_PREFIX), sp_commit_bytes(commit.id)), Value::Pos(pos)), r.is_err() ==> final(self).db.m@ == old(self).db.m@,
//@ end
//@ extract chain/src/store.rs :: impl Batch::save_block_sums
//@   strip_logs
//@   ensures:
//@+    r.is_ok() ==> final(self).db.m@ == old(self).db.m@.insert((Some(BLOCK_SUMS_PREFIX), sp_hash_bytes(h.v)), Value::Sums(sums)), r.is_err() ==> final(self).db.m@ == old(self).db.m@,
//@ end
//@ extract chain/src/store.rs :: impl Batch::save_spent_index
//@   strip_logs
//@   sigrewrite `spent: &[CommitPos]` => `spent: &Vec<CommitPos>`
//@   rewrite `self.db\n\t\t\t.put_ser(Some(BLOCK_SPENT_PREFIX), h.as_ref(), &spent.to_vec())?;` => `self.db.put_ser(Some(BLOCK_SPENT_PREFIX), h.as_ref(), &SpentVec { v: spent.clone() })?;`
//@   ensures:
//@+    r.is_ok() ==> final(self).db.m@ == old(self).db.m@.insert((Some(BLOCK_SPENT_PREFIX), sp_hash_bytes(h.v)), Value::Spent(spent@)), r.is_err() ==> final(self).db.m@ == old(self).db.m@,
//@ end
//@ extract chain/src/store.rs :: impl Batch::delete_output_pos_height
//@   ensures:
//@+    r.is_ok() ==> final(self).db.m@ == old(self).db.m@.remove((Some(OUTPUT_POS_PREFIX), sp_commit_bytes(commit.id))), r.is_err() ==> final(self).db.m@ == old(self).db.m@,
//@ end
//@ extract chain/src/store.rs :: impl Batch::delete_spent_index
//@   ensures:
//@+    r.is_ok() ==> final(self).db.m@ == old(self).db.m@.remove((Some(BLOCK_SPENT_PREFIX), sp_hash_bytes(bh.v))), r.is_err() ==> final(self).db.m@ == old(self).db.m@,
//@ end
//@ extract chain/src/store.rs :: impl Batch::delete_block_sums
//@   ensures:
//@+    r.is_ok() ==> final(self).db.m@ == old(self).db.m@.remove((Some(BLOCK_SUMS_PREFIX), sp_hash_bytes(bh.v))), r.is_err() ==> final(self).db.m@ == old(self).db.m@,
//@ end
//@ extract chain/src/store.rs :: impl Batch::get_spent_index
//@   format_as `fmtmsg()`
//@   rewrite `|| fmtmsg()` => `fmtmsg()`
//@   rewrite `self.db.get_ser(` => `self.db.get_ser_spent(`
//@   ensures:
//@+    r matches Ok(x) ==> self.db.m@.get((Some(BLOCK_SPENT_PREFIX), sp_hash_bytes(bh.v))) == Some(Value::Spent(x@)),
//@ end
//@ extract chain/src/store.rs :: impl Batch::delete_block
//@   ensures:
//@+    r.is_ok() ==> !final(self).db.m@.contains_key((Some(BLOCK_PREFIX), sp_hash_bytes(bh.v))),
//@+    // nothing but the block, its block sums and its spent index is touched
//@+    forall|k: (Option<u8>, Seq<u8>)| k != (Some(BLOCK_PREFIX), sp_hash_bytes(bh.v)) && k != (Some(BLOCK_SUMS_PREFIX), sp_hash_bytes(bh.v)) && k != (Some(BLOCK_SPENT_PREFIX), sp_hash_bytes(bh.v)) ==> final(self).db.m@.get(k) == old(self).db.m@.get(k),
//@+    r.is_err() ==> final(self).db.m@ == old(self).db.m@,
//@ end
}
pub uninterp spec fn sp_genesis_tip() -> Tip;
pub struct GenesisBlock { pub header: BlockHeader }
pub mod global {
    use super::*;
    #[verifier::external_body]
    pub fn get_genesis_block() -> (r: GenesisBlock) ensures Tip::sp_from_header(r.header) == sp_genesis_tip() { unimplemented!() }
}
impl Tip {
    pub uninterp spec fn sp_from_header(h: BlockHeader) -> Tip;
    #[verifier::external_body]
    pub fn from_header(h: &BlockHeader) -> (r: Tip) ensures r == Tip::sp_from_header(*h) { unimplemented!() }
}
pub struct ChainStore { pub db: Db }
impl ChainStore {
//@ extract chain/src/store.rs :: impl ChainStore::pibd_head
//@   rewrite `|| {\n\t\t\t"PIBD_HEAD".to_owned()\n\t\t}` => `fmtmsg()`
//@   ensures:
//@+    // the stored PIBD head, or -- when there is none or it cannot be read -- the tip of the genesis header; never an error
//@+    r matches Ok(t) && (sp_read::<Tip>(self.db.m@, None::<u8>, seq![PIBD_HEAD_PREFIX]) == Some(t) || t == sp_genesis_tip()),
//@ end
//@ extract chain/src/store.rs :: impl ChainStore::head
//@   format_as `fmtmsg()`
//@   rewrite `|| fmtmsg()` => `fmtmsg()` x?
//@   rewrite `|| {\n\t\t\t"HEAD".to_owned()\n\t\t}` => `fmtmsg()` x?
//@   rewrite `|| {\n\t\t\t"TAIL".to_owned()\n\t\t}` => `fmtmsg()` x?
//@   rewrite `|| {\n\t\t\t"HEADER_HEAD".to_owned()\n\t\t}` => `fmtmsg()` x?
//@   rewrite `|| {\n\t\t\t"PIBD_HEAD".to_owned()\n\t\t}` => `fmtmsg()` x?
//@   ensures:
//@+    r matches Ok(x) ==> sp_read::<Tip>(self.db.m@, None::<u8>, seq![HEAD_PREFIX]) == Some(x),
//@ end
//@ extract chain/src/store.rs :: impl ChainStore::tail
//@   format_as `fmtmsg()`
//@   rewrite `|| fmtmsg()` => `fmtmsg()` x?
//@   rewrite `|| {\n\t\t\t"HEAD".to_owned()\n\t\t}` => `fmtmsg()` x?
//@   rewrite `|| {\n\t\t\t"TAIL".to_owned()\n\t\t}` => `fmtmsg()` x?
//@   rewrite `|| {\n\t\t\t"HEADER_HEAD".to_owned()\n\t\t}` => `fmtmsg()` x?
//@   rewrite `|| {\n\t\t\t"PIBD_HEAD".to_owned()\n\t\t}` => `fmtmsg()` x?
//@   ensures:
//@+    r matches Ok(x) ==> sp_read::<Tip>(self.db.m@, None::<u8>, seq![TAIL_PREFIX]) == Some(x),
//@ end
//@ extract chain/src/store.rs :: impl ChainStore::header_head
//@   format_as `fmtmsg()`
//@   rewrite `|| fmtmsg()` => `fmtmsg()` x?
//@   rewrite `|| {\n\t\t\t"HEAD".to_owned()\n\t\t}` => `fmtmsg()` x?
//@   rewrite `|| {\n\t\t\t"TAIL".to_owned()\n\t\t}` => `fmtmsg()` x?
//@   rewrite `|| {\n\t\t\t"HEADER_HEAD".to_owned()\n\t\t}` => `fmtmsg()` x?
//@   rewrite `|| {\n\t\t\t"PIBD_HEAD".to_owned()\n\t\t}` => `fmtmsg()` x?
//@   ensures:
//@+    r matches Ok(x) ==> sp_read::<Tip>(self.db.m@, None::<u8>, seq![HEADER_HEAD_PREFIX]) == Some(x),
//@ end
//@ extract chain/src/store.rs :: impl ChainStore::get_block_header
//@   format_as `fmtmsg()`
//@   rewrite `|| fmtmsg()` => `fmtmsg()` x?
//@   rewrite `|| {\n\t\t\t"HEAD".to_owned()\n\t\t}` => `fmtmsg()` x?
//@   rewrite `|| {\n\t\t\t"TAIL".to_owned()\n\t\t}` => `fmtmsg()` x?
//@   rewrite `|| {\n\t\t\t"HEADER_HEAD".to_owned()\n\t\t}` => `fmtmsg()` x?
//@   rewrite `|| {\n\t\t\t"PIBD_HEAD".to_owned()\n\t\t}` => `fmtmsg()` x?
//@   ensures:
//@+    r matches Ok(x) ==> sp_read::<BlockHeader>(self.db.m@, Some(BLOCK_HEADER_PREFIX), sp_hash_bytes(h.v)) == Some(x),
//@ end
//@ extract chain/src/store.rs :: impl ChainStore::head_header
//@   ensures:
//@+    // the header stored under the BODY head's last block hash
//@+    r matches Ok(x) ==> (sp_read::<Tip>(self.db.m@, None::<u8>, seq![HEAD_PREFIX]) matches Some(t) && sp_read::<BlockHeader>(self.db.m@, Some(BLOCK_HEADER_PREFIX), sp_hash_bytes(t.last_block_h.v)) == Some(x)),
//@ end
//@ extract chain/src/store.rs :: impl ChainStore::get_previous_header
//@   ensures:
//@+    r matches Ok(x) ==> sp_read::<BlockHeader>(self.db.m@, Some(BLOCK_HEADER_PREFIX), sp_hash_bytes(header.prev_hash.v)) == Some(x),
//@ end
//@ extract chain/src/store.rs :: impl ChainStore::get_block
//@   format_as `fmtmsg()`
//@   rewrite `|| fmtmsg()` => `fmtmsg()` x?
//@   rewrite `|| {\n\t\t\t"HEAD".to_owned()\n\t\t}` => `fmtmsg()` x?
//@   rewrite `|| {\n\t\t\t"TAIL".to_owned()\n\t\t}` => `fmtmsg()` x?
//@   rewrite `|| {\n\t\t\t"HEADER_HEAD".to_owned()\n\t\t}` => `fmtmsg()` x?
//@   rewrite `|| {\n\t\t\t"PIBD_HEAD".to_owned()\n\t\t}` => `fmtmsg()` x?
//@   ensures:
//@+    r matches Ok(x) ==> sp_read::<Block>(self.db.m@, Some(BLOCK_PREFIX), sp_hash_bytes(h.v)) == Some(x),
//@ end
//@ extract chain/src/store.rs :: impl ChainStore::block_exists
//@   ensures:
//@+    r matches Ok(b) ==> b == self.db.m@.contains_key((Some(BLOCK_PREFIX), sp_hash_bytes(h.v))),
//@ end
//@ extract chain/src/store.rs :: impl ChainStore::get_block_sums
//@   format_as `fmtmsg()`
//@   rewrite `|| fmtmsg()` => `fmtmsg()` x?
//@   rewrite `|| {\n\t\t\t"HEAD".to_owned()\n\t\t}` => `fmtmsg()` x?
//@   rewrite `|| {\n\t\t\t"TAIL".to_owned()\n\t\t}` => `fmtmsg()` x?
//@   rewrite `|| {\n\t\t\t"HEADER_HEAD".to_owned()\n\t\t}` => `fmtmsg()` x?
//@   rewrite `|| {\n\t\t\t"PIBD_HEAD".to_owned()\n\t\t}` => `fmtmsg()` x?
//@   ensures:
//@+    r matches Ok(x) ==> sp_read::<BlockSums>(self.db.m@, Some(BLOCK_SUMS_PREFIX), sp_hash_bytes(h.v)) == Some(x),
//@ end
//@ extract chain/src/store.rs :: impl ChainStore::get_output_pos_height
//@   rewrite `self.db\n\t\t\t.get_ser(` => `self.db.get_ser(`
//@   ensures:
//@+    r matches Ok(o) ==> (match self.db.m@.get((Some(OUTPUT_POS_PREFIX), sp_commit_bytes(commit.id))) { Some(v) => o == CommitPos::from_value(v) && o is Some, None => o is None }),
//@ end
//@ extract chain/src/store.rs :: impl ChainStore::get_output_pos
//@   format_as `fmtmsg()`
//@   requires:
//@+    sp_read::<CommitPos>(self.db.m@, Some(OUTPUT_POS_PREFIX), sp_commit_bytes(commit.id)) matches Some(p) ==> p.pos >= 1,
//@   ensures:
//@+    r matches Ok(x) ==> (sp_read::<CommitPos>(self.db.m@, Some(OUTPUT_POS_PREFIX), sp_commit_bytes(commit.id)) matches Some(p) && x == p.pos - 1),
//@ end
}
//@ canary head: r is Err
//@ canary save_block: r.is_err()
