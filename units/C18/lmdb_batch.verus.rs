//@ assume: heed / LMDB (C behind FFI) is abstract. A transaction carries a ghost VIEW: a map from (database id, key bytes) to value bytes. Assumed heed contracts: `env.write_txn()` / `env.read_txn()` start from the committed state of the environment (`sp_committed(env)`); `env.nested_write_txn(&mut parent)` and `txn.nested_read_txn()` start from the PARENT's current view (LMDB nested transactions see their parent's uncommitted writes); `db.put / db.delete(&mut txn, ..)` change exactly that key of exactly that transaction's view; `db.get(&txn, k)` reads that transaction's view; `txn.commit()` returns the outcome `sp_commit_ok(txn)` of committing THAT transaction. That LMDB implements atomic, isolated, durable commits is assumed, not proved; concurrency, the resize gate and crash points are outside.
//@ assume: T5: `Database<Bytes, Bytes>` / `RoTxn<'_, WithoutTls>` / `RwTxn<'a>` / `Env<WithoutTls>` => abstract types of the same names; heed errors are converted by `?` in the real code: the abstract heed methods return the store's Error directly; `Arc<HashMap<u8, Database>>` => abstract `PreDbs` with `get`; T6: `"db for provided key not found".to_string()` => `msg()`; `deserialize(key, res).map(Some)` => `res_map_some(deserialize(key, res))` (verified helper). Nothing else is rewritten.
//@ assume: decided here (C18, sequential wrapper level): Batch::put / delete change exactly the addressed key of exactly the addressed database in THIS batch's write transaction (an unknown database key is an error and changes nothing); Batch::exists / get_with read THIS batch's own view -- writes made in the batch are visible inside it -- through a nested read transaction; Store::exists / get_with read through a transaction the caller supplies / a fresh read transaction over the COMMITTED state; Batch::child is a nested write transaction over this batch's view, holds no transaction counter of its own and refers to the same store; Batch::commit commits exactly this batch's transaction and reports its outcome; Batch::new opens its write transaction only after entering the transaction gate and keeps the counter for its lifetime; Store::batch runs the resize check before opening the batch.
//@ assume: Batch::get_ser: T6: the decoding closure `|_, mut data| match ser::deserialize(&mut data, self.protocol_version(), d) { Ok(res) => Ok(res), Err(e) => Err(From::from(e)) }` is re-written with typed parameters, the protocol version read before the call and a spliced contract saying what it must compute (the bytes it is handed, decoded with THAT version and mode); ser::deserialize over `&mut &[u8]` => deserialize_slice over the slice; `From::from(e)` => Error::SerErr(e). What is decided: the key / database handed to get_with, the store's version, and the DEFAULT mode (full) when none is asked for
//@ assumed_items: 17
//@ fns: Store::get_db, Store::get_ser, Store::get_with, Store::exists, Store::batch, Batch::new, Batch::put, Batch::put_ser_with_version, Batch::put_ser, Batch::get_ser, Batch::protocol_version, Batch::get_with, Batch::exists, Batch::delete, Batch::commit, Batch::child
pub enum Error { NotFoundErr(String), LmdbErr(String), SerErr(SerError), FileErr(String), OtherErr(String) }
#[verifier::external_body]
pub struct SerError { _p: u8 }
#[verifier::external_body]
pub fn msg() -> (r: String) { unimplemented!() }
pub type DbView = Map<(int, Seq<u8>), Seq<u8>>;
pub open spec fn sp_dbid(db_key: Option<u8>) -> int { match db_key { Some(k) => k as int, None => -1 } }
pub struct Database { pub id: Ghost<int> }
pub struct RoTxn { pub view: Ghost<DbView> }
pub struct RwTxn<'a> { pub view: Ghost<DbView>, pub env: Ghost<int>, pub _m: core::marker::PhantomData<&'a u8> }
pub struct Env { pub id: Ghost<int> }
/// the committed state of an environment at the moment a top-level transaction starts
pub uninterp spec fn sp_committed(env: Env) -> DbView;
/// the outcome of committing this transaction
pub uninterp spec fn sp_commit_ok(v: DbView, env: int) -> bool;
impl<'a> RwTxn<'a> {
    #[verifier::external_body]
    pub fn nested_read_txn(&self) -> (r: Result<RoTxn, Error>) ensures r matches Ok(t) ==> t.view@ == self.view@ { unimplemented!() }
    #[verifier::external_body]
    pub fn commit(self) -> (r: Result<(), Error>) ensures r.is_ok() == sp_commit_ok(self.view@, self.env@) { unimplemented!() }
}
impl Env {
    #[verifier::external_body]
    pub fn write_txn<'e>(&'e self) -> (r: Result<RwTxn<'e>, Error>) ensures r matches Ok(t) ==> t.view@ == sp_committed(*self) && t.env@ == self.id@ { unimplemented!() }
    #[verifier::external_body]
    pub fn read_txn(&self) -> (r: Result<RoTxn, Error>) ensures r matches Ok(t) ==> t.view@ == sp_committed(*self) { unimplemented!() }
    #[verifier::external_body]
    pub fn nested_write_txn<'p, 'q>(&self, parent: &'p mut RwTxn<'q>) -> (r: Result<RwTxn<'p>, Error>)
        ensures r matches Ok(t) ==> t.view@ == old(parent).view@ && t.env@ == old(parent).env@ { unimplemented!() }
}
impl Database {
    #[verifier::external_body]
    pub fn put(&self, w: &mut RwTxn, key: &[u8], value: &[u8]) -> (r: Result<(), Error>)
        ensures final(w).env@ == old(w).env@,
            r.is_ok() ==> final(w).view@ == old(w).view@.insert((self.id@, key@), value@),
            r.is_err() ==> final(w).view@ == old(w).view@ { unimplemented!() }
    #[verifier::external_body]
    pub fn delete(&self, w: &mut RwTxn, key: &[u8]) -> (r: Result<bool, Error>)
        ensures final(w).env@ == old(w).env@,
            r.is_ok() ==> final(w).view@ == old(w).view@.remove((self.id@, key@)),
            r.is_err() ==> final(w).view@ == old(w).view@ { unimplemented!() }
    #[verifier::external_body]
    pub fn get<'t>(&self, read: &'t RoTxn, key: &[u8]) -> (r: Result<Option<&'t [u8]>, Error>)
        ensures r matches Ok(o) ==> (match o {
            Some(v) => read.view@.contains_key((self.id@, key@)) && read.view@[(self.id@, key@)] == v@,
            None => !read.view@.contains_key((self.id@, key@)),
        }) { unimplemented!() }
}
pub struct PreDbs { pub ids: Ghost<Set<int>> }
impl PreDbs {
    #[verifier::external_body]
    pub fn get(&self, k: &u8) -> (r: Option<&Database>)
        ensures r matches Some(d) ==> d.id@ == *k as int && self.ids@.contains(*k as int), r is None ==> !self.ids@.contains(*k as int) { unimplemented!() }
}
#[derive(Clone, Copy)]
pub struct ProtocolVersion(pub u32);
#[verifier::external_body]
pub struct TxCounter { _p: u8 }
pub struct Store {
    pub env: Env,
    pub env_path: String,
    pub pre_dbs: PreDbs,
    pub def_db: Database,
    pub version: ProtocolVersion,
    pub alloc_chunk_size: usize,
}
pub open spec fn sp_store_ok(s: Store) -> bool { s.def_db.id@ == -1 }
pub fn res_map_some<T>(r: Result<T, Error>) -> (o: Result<Option<T>, Error>)
    ensures r matches Ok(v) ==> o == Ok::<Option<T>, Error>(Some(v)), r matches Err(e) ==> o == Err::<Option<T>, Error>(e),
        o matches Ok(Some(v)) ==> r == Ok::<T, Error>(v), !(o matches Ok(None)),
{ match r { Ok(v) => Ok(Some(v)), Err(e) => Err(e) } }
pub use ser::DeserializationMode;
pub mod ser {
    use super::*;
    use vstd::prelude::*;
    pub trait Writeable { spec fn sp_bytes(&self, v: ProtocolVersion) -> Seq<u8>; }
    #[derive(Clone, Copy, PartialEq, Eq)]
    pub enum DeserializationMode { Full, SkipPow }
    impl DeserializationMode { pub fn default() -> (r: DeserializationMode) ensures r == DeserializationMode::Full { DeserializationMode::Full } }
    /// what decoding `bytes` with a protocol version and a mode yields (uninterpreted: C10 / C11 decide the decoders)
    pub trait Readable: Sized { spec fn sp_decoded(bytes: Seq<u8>, v: ProtocolVersion, m: DeserializationMode, t: Self) -> bool; }
    /// stands in for `ser::deserialize(&mut data, version, mode)`: `data` is the byte slice handed to the closure
    #[verifier::external_body]
    pub fn deserialize_slice<T: Readable>(data: &[u8], version: ProtocolVersion, mode: DeserializationMode) -> (r: Result<T, SerError>)
        ensures r matches Ok(t) ==> T::sp_decoded(data@, version, mode, t) { unimplemented!() }
    #[verifier::external_body]
    pub fn ser_vec<W: Writeable>(value: &W, version: ProtocolVersion) -> (r: Result<Vec<u8>, SerError>)
        ensures r matches Ok(d) ==> d@ == value.sp_bytes(version) { unimplemented!() }
}
impl SerError {
    #[verifier::external_body]
    pub fn into(self) -> (r: Error) ensures r is SerErr { unimplemented!() }
}
/// ghost event log of the process-wide transaction gate: 1 = enter_tx, 2 = maybe_resize
pub struct Gate { pub log: Ghost<Seq<int>> }
impl Store {
    #[verifier::external_body]
    pub fn enter_tx(&self) -> (r: TxCounter) { unimplemented!() }
    #[verifier::external_body]
    pub fn maybe_resize(&self) { unimplemented!() }
    pub fn protocol_version(&self) -> (r: ProtocolVersion) ensures r == self.version { self.version }
//@ extract store/src/lmdb.rs :: impl Store::get_db
//@   sigrewrite `Result<&Database<Bytes, Bytes>, Error>` => `Result<&Database, Error>`
//@   rewrite `"db for provided key not found".to_string()` => `msg()` x?
//@   requires:
//@+    sp_store_ok(*self),
//@   ensures:
//@+    r matches Ok(d) ==> d.id@ == sp_dbid(db_key),
//@+    (db_key is None) ==> r.is_ok(),
//@+    (db_key matches Some(k) && !self.pre_dbs.ids@.contains(k as int)) ==> r.is_err(),
//@ end
//@ extract store/src/lmdb.rs :: impl Store::get_with
//@   rewrite `deserialize(key, res).map(Some)` => `res_map_some(deserialize(key, res))` x?
//@   requires:
//@+    sp_store_ok(*self),
//@+    forall|k: &[u8], v: &[u8]| deserialize.requires((k, v)),
//@   ensures:
//@+    // reads the view of the transaction it is GIVEN, in the addressed database
//@+    r matches Ok(None) ==> !read.view@.contains_key((sp_dbid(db_key), key@)),
//@+    r matches Ok(Some(t)) ==> read.view@.contains_key((sp_dbid(db_key), key@))
//@+        && exists|v: &[u8]| v@ == read.view@[(sp_dbid(db_key), key@)] && #[trigger] deserialize.ensures((key, v), Ok(t)),
//@ end
//@ extract store/src/lmdb.rs :: impl Store::get_ser
//@   rewrite `Ok(read) => self.get_with(db_key, key, &read, |_, mut data| {\n\t\t\t\t\tser::deserialize(&mut data, self.protocol_version(), d).map_err(From::from)\n\t\t\t\t}),` => `Ok(read) => { let pv = self.protocol_version(); self.get_with(db_key, key, &read, |_k: &[u8], data: &[u8]| -> (cr: Result<T, Error>) ensures cr matches Ok(t) ==> T::sp_decoded(data@, pv, d, t) {\n\t\t\t\t\tmatch ser::deserialize_slice(data, pv, d) { Ok(res) => Ok(res), Err(e) => Err(Error::SerErr(e)) }\n\t\t\t\t}) },`
//@   requires:
//@+    sp_store_ok(*self),
//@   ensures:
//@+    // a fresh read transaction: decodes the COMMITTED value of the key, with the store's protocol version and the mode asked for (default: full)
//@+    r matches Ok(None) ==> !sp_committed(self.env).contains_key((sp_dbid(db_key), key@)),
//@+    r matches Ok(Some(t)) ==> sp_committed(self.env).contains_key((sp_dbid(db_key), key@))
//@+        && T::sp_decoded(sp_committed(self.env)[(sp_dbid(db_key), key@)], self.version, (match deser_mode { Some(m) => m, None => ser::DeserializationMode::Full }), t),
//@ end
//@ extract store/src/lmdb.rs :: impl Store::exists
//@   requires:
//@+    sp_store_ok(*self),
//@   ensures:
//@+    // a fresh read transaction: the COMMITTED state
//@+    r matches Ok(b) ==> b == sp_committed(self.env).contains_key((sp_dbid(db_key), key@)),
//@ end
//@ extract store/src/lmdb.rs :: impl Store::batch
//@   ensures:
//@+    r matches Ok(b) ==> b.store == self && b.tx_counter is Some && b.write.view@ == sp_committed(self.env) && b.write.env@ == self.env.id@,
//@ end
}
//@ extract store/src/lmdb.rs :: struct Batch
//@   pub_fields
//@ end
impl<'a> Batch<'a> {
//@ extract store/src/lmdb.rs :: impl Batch::new
//@   ensures:
//@+    r matches Ok(b) ==> b.store == store && b.tx_counter is Some && b.write.view@ == sp_committed(store.env) && b.write.env@ == store.env.id@,
//@ end
//@ extract store/src/lmdb.rs :: impl Batch::put
//@   requires:
//@+    sp_store_ok(*old(self).store),
//@   ensures:
//@+    final(self).store == old(self).store, final(self).write.env@ == old(self).write.env@,
//@+    r.is_ok() ==> final(self).write.view@ == old(self).write.view@.insert((sp_dbid(db_key), key@), value@),
//@+    r.is_err() ==> final(self).write.view@ == old(self).write.view@,
//@+    (db_key matches Some(k) && !old(self).store.pre_dbs.ids@.contains(k as int)) ==> r.is_err(),
//@ end
//@ extract store/src/lmdb.rs :: impl Batch::put_ser_with_version
//@   requires:
//@+    sp_store_ok(*old(self).store),
//@   ensures:
//@+    final(self).store == old(self).store, final(self).write.env@ == old(self).write.env@,
//@+    r.is_ok() ==> final(self).write.view@ == old(self).write.view@.insert((sp_dbid(db_key), key@), value.sp_bytes(version)),
//@+    r.is_err() ==> final(self).write.view@ == old(self).write.view@,
//@ end
//@ extract store/src/lmdb.rs :: impl Batch::protocol_version
//@   ensures:
//@+    r == self.store.version,
//@ end
//@ extract store/src/lmdb.rs :: impl Batch::put_ser
//@   requires:
//@+    sp_store_ok(*old(self).store),
//@   ensures:
//@+    // the value is stored in the STORE's own protocol version (what every later get_ser decodes with)
//@+    final(self).store == old(self).store, final(self).write.env@ == old(self).write.env@,
//@+    r.is_ok() ==> final(self).write.view@ == old(self).write.view@.insert((sp_dbid(db_key), key@), value.sp_bytes(old(self).store.version)),
//@+    r.is_err() ==> final(self).write.view@ == old(self).write.view@,
//@ end
//@ extract store/src/lmdb.rs :: impl Batch::get_ser
//@   sigrewrite `pub fn get_ser<T: ser::Readable>(` => `pub fn get_ser<T: ser::Readable>(`
//@   rewrite `self.get_with(db_key, key, |_, mut data| {\n\t\t\tmatch ser::deserialize(&mut data, self.protocol_version(), d) {\n\t\t\t\tOk(res) => Ok(res),\n\t\t\t\tErr(e) => Err(From::from(e)),\n\t\t\t}\n\t\t})` => `let pv = self.protocol_version(); self.get_with(db_key, key, |_k: &[u8], data: &[u8]| -> (cr: Result<T, Error>) ensures cr matches Ok(t) ==> T::sp_decoded(data@, pv, d, t) {\n\t\t\tmatch ser::deserialize_slice(data, pv, d) {\n\t\t\t\tOk(res) => Ok(res),\n\t\t\t\tErr(e) => Err(Error::SerErr(e)),\n\t\t\t}\n\t\t})`
//@   requires:
//@+    sp_store_ok(*self.store),
//@   ensures:
//@+    // decodes THIS batch's own (uncommitted) value of the key, with the STORE's protocol version and the mode asked for (default: full)
//@+    r matches Ok(None) ==> !self.write.view@.contains_key((sp_dbid(db_key), key@)),
//@+    r matches Ok(Some(t)) ==> self.write.view@.contains_key((sp_dbid(db_key), key@))
//@+        && T::sp_decoded(self.write.view@[(sp_dbid(db_key), key@)], self.store.version, (match deser_mode { Some(m) => m, None => ser::DeserializationMode::Full }), t),
//@ end
//@ extract store/src/lmdb.rs :: impl Batch::get_with
//@   requires:
//@+    sp_store_ok(*self.store),
//@+    forall|k: &[u8], v: &[u8]| deserialize.requires((k, v)),
//@   ensures:
//@+    // reads THIS batch's own (uncommitted) view
//@+    r matches Ok(None) ==> !self.write.view@.contains_key((sp_dbid(db_key), key@)),
//@+    r matches Ok(Some(t)) ==> self.write.view@.contains_key((sp_dbid(db_key), key@))
//@+        && exists|v: &[u8]| v@ == self.write.view@[(sp_dbid(db_key), key@)] && #[trigger] deserialize.ensures((key, v), Ok(t)),
//@ end
//@ extract store/src/lmdb.rs :: impl Batch::exists
//@   requires:
//@+    sp_store_ok(*self.store),
//@   ensures:
//@+    r matches Ok(b) ==> b == self.write.view@.contains_key((sp_dbid(db_key), key@)),
//@ end
//@ extract store/src/lmdb.rs :: impl Batch::delete
//@   requires:
//@+    sp_store_ok(*old(self).store),
//@   ensures:
//@+    final(self).store == old(self).store, final(self).write.env@ == old(self).write.env@,
//@+    r.is_ok() ==> final(self).write.view@ == old(self).write.view@.remove((sp_dbid(db_key), key@)),
//@+    r.is_err() ==> final(self).write.view@ == old(self).write.view@,
//@ end
//@ extract store/src/lmdb.rs :: impl Batch::commit
//@   ensures:
//@+    r.is_ok() == sp_commit_ok(self.write.view@, self.write.env@),
//@ end
//@ extract store/src/lmdb.rs :: impl Batch::child
//@   ensures:
//@+    r matches Ok(c) ==> c.store == old(self).store && c.tx_counter is None && c.write.view@ == old(self).write.view@ && c.write.env@ == old(self).write.env@,
//@ end
}
//@ canary exists: r.is_err()
