//@ assume: heed's Env is abstract: info() gives map_size and last_page_number, stat() the page size (uninterpreted readings of one environment). Floating point is NOT modelled: the two f32 comparisons `a as f32 / b as f32 > c` are replaced (T6) by abstract predicates over the integer operands -- ratio_gt_threshold(a, b) for RESIZE_PERCENT and ratio_gt_target(a, b) for RESIZE_MIN_TARGET_PERCENT / 100 -- about which only this is ASSUMED: the target ratio is not exceeded once b >= 2 * a (a / b <= 0.5 < 0.65; needed for the growth loop to end). T3: trace!/debug! removed.
//@ assume: preconditions: alloc_chunk_size > 0 and used size, map size and chunk size at most usize::MAX / 8 (the sizes are bytes of a memory map; `tot += alloc_chunk_size` is unchecked usize arithmetic)
//@ assume: decided here (C18, 'while the database map is being enlarged automatically ... no operation fails for lack of space'; LMDB returns MAP_FULL when the data file's END reaches the end of the map, whatever is free inside it): the figure needs_resize compares with the map size is the data file's high-water mark, page_size * last_page_number; it asks for a resize exactly when that share exceeds the threshold or the map is smaller than one allocation chunk; the size it asks for is a multiple-of-chunk growth of the current map under which the high-water mark is within the target share (one chunk when the map was smaller than that); without a resize the size is unchanged
//@ assumed_items: 4
//@ fns: needs_resize, env_size, round_size_to_chunk
pub struct EnvInfo { pub map_size: usize, pub last_page_number: usize }
pub struct Stat { pub page_size: u32 }
pub struct WithoutTls;
pub struct Env<T> { pub _p: core::marker::PhantomData<T> }
pub uninterp spec fn sp_map_size<T>(e: Env<T>) -> usize;
pub uninterp spec fn sp_last_page<T>(e: Env<T>) -> usize;
pub uninterp spec fn sp_page_size<T>(e: Env<T>) -> u32;
impl<T> Env<T> {
    #[verifier::external_body]
    pub fn info(&self) -> (r: EnvInfo) ensures r.map_size == sp_map_size(*self), r.last_page_number == sp_last_page(*self) { unimplemented!() }
    #[verifier::external_body]
    pub fn stat(&self) -> (r: Stat) ensures r.page_size == sp_page_size(*self) { unimplemented!() }
}
pub uninterp spec fn sp_gt_threshold(a: usize, b: usize) -> bool;
pub uninterp spec fn sp_gt_target(a: usize, b: usize) -> bool;
#[verifier::external_body]
fn ratio_gt_threshold(a: usize, b: usize) -> (r: bool) ensures r == sp_gt_threshold(a, b) { unimplemented!() }
#[verifier::external_body]
fn ratio_gt_target(a: usize, b: usize) -> (r: bool) ensures r == sp_gt_target(a, b), b >= 2 * a ==> !r { unimplemented!() }
/// m - m % c is a multiple of c, at most m, and less than c below m
pub proof fn lemma_round_down(m: int, c: int)
    requires m >= 0, c > 0
    ensures (m - m % c) % c == 0, 0 <= m % c < c, m - m % c >= 0
{
    vstd::arithmetic::div_mod::lemma_fundamental_div_mod(m, c);
    vstd::arithmetic::div_mod::lemma_mod_multiples_basic(m / c, c);
    assert(m - m % c == (m / c) * c) by(nonlinear_arith) requires m == c * (m / c) + m % c;
    vstd::arithmetic::div_mod::lemma_mod_bound(m, c);
    vstd::arithmetic::div_mod::lemma_div_pos_is_pos(m, c);
    assert((m / c) * c >= 0) by(nonlinear_arith) requires m / c >= 0, c > 0;
}
pub open spec fn sp_high_water<T>(e: Env<T>) -> int { sp_page_size(e) as int * sp_last_page(e) as int }
//@ extract store/src/lmdb.rs :: fn env_size
//@   requires:
//@+    sp_high_water(*env) <= usize::MAX,
//@   ensures:
//@+    r == sp_high_water(*env),
//@ end
//@ extract store/src/lmdb.rs :: fn round_size_to_chunk
//@   requires:
//@+    chunk_size > 0, size as int + chunk_size <= usize::MAX,
//@   ensures:
//@+    r >= size, r < size + chunk_size, r % chunk_size == 0,
//@   at_start:
//@+    proof { lemma_round_down(size as int, chunk_size as int); vstd::arithmetic::div_mod::lemma_mod_add_multiples_vanish(size as int - size as int % chunk_size as int, chunk_size as int); }
//@ end
//@ extract store/src/lmdb.rs :: fn needs_resize
//@   strip_logs
//@   attr: #[verifier::loop_isolation(false)]
//@   rewrite `let resize_percent = RESIZE_PERCENT;\n` => ``
//@   rewrite `size_used as f32 / env_info.map_size as f32 > resize_percent` => `ratio_gt_threshold(size_used, env_info.map_size)`
//@   rewrite `size_used as f32 / tot as f32 > RESIZE_MIN_TARGET_PERCENT as f32 / 100.0` => `ratio_gt_target(size_used, tot)`
//@   requires:
//@+    alloc_chunk_size > 0, alloc_chunk_size <= usize::MAX / 8, sp_high_water(*env) <= usize::MAX / 8, sp_map_size(*env) <= usize::MAX / 8,
//@   loop 1:
//@+    invariant tot <= usize::MAX / 4 + usize::MAX / 8, tot % alloc_chunk_size == 0, tot + alloc_chunk_size > env_info.map_size,
//@+    decreases (if tot < 2 * size_used { 2 * size_used - tot } else { 0 }),
//@   at_start:
//@+    proof { lemma_round_down(sp_map_size(*env) as int, alloc_chunk_size as int); }
//@   after `tot += alloc_chunk_size;`:
//@+    proof { vstd::arithmetic::div_mod::lemma_mod_add_multiples_vanish((tot - alloc_chunk_size) as int, alloc_chunk_size as int); }
//@   ensures:
//@+    r.0 == (sp_gt_threshold(sp_high_water(*env) as usize, sp_map_size(*env)) || sp_map_size(*env) < alloc_chunk_size),
//@+    !r.0 ==> r.1 == sp_map_size(*env),
//@+    r.0 && sp_map_size(*env) < alloc_chunk_size ==> r.1 == alloc_chunk_size,
//@+    r.0 && sp_map_size(*env) >= alloc_chunk_size ==> r.1 % alloc_chunk_size == 0 && r.1 + alloc_chunk_size > sp_map_size(*env)
//@+        && !sp_gt_target(sp_high_water(*env) as usize, r.1),
//@ end
//@ canary needs_resize: r.0
