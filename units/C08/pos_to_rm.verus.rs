//@ assume: croaring::Bitmap (C code behind FFI) is an external type with abstract view Set<int>; assumed contracts: new is empty, add/contains change or read exactly one element, clone preserves the view, maximum is the greatest element, remove_range removes exactly the range, or_inplace is union, flip(range) inverts membership exactly inside the range, and is intersection, to_vec lists exactly the members (stands in for `.iter()`; the ORDER in which members are visited is not assumed); the std shell `(a..=b).filter(f).map(|x| x as u32).collect()` is stood in for by abstract iterator types (filter keeps exactly the elements on which the lifted, verified closure answers true; collect gathers them into a Bitmap); `removed.iter().filter(f).collect()` likewise
//@ assume: pmmr::family(pos0) = (parent0, sibling0), pmmr::is_leaf, PruneList::is_pruned / is_pruned_root are uninterpreted here (C07/pmmr_arith, C08/prune_list decide them); assumed of family: the parent lies above the child (termination of the climb), and -- positions being narrowed to u32 by the code -- the MMR has fewer than 2^32 - 1 nodes: a position at or below the bound `sp_bound()` whose sibling is at or below it has its parent at or below it, sibling-of-sibling is the position itself and siblings share their parent; cutoff, leaf set members and pruned roots lie at or below the bound
//@ assume: T6: the tail `(leaf_pos_to_rm, removed_excl_roots(&expanded))` is let-bound first; `a..=b` / `a..b` as bitmap ranges => RangeIncl / RangeExcl values; `for x in leaf_pos_to_rm.iter() {` => index loop over to_vec(); T7: closures lifted and verified, captured variables become parameters
//@ assume: decided here (C08 'compaction never changes what the MMR commits to', the selection of WHAT compaction deletes): LeafSet::removed_pre_cutoff returns EXACTLY the leaf positions 1..=cutoff that are not yet pruned, NOT in the leaf set (i.e. spent) and NOT in the rewind set (i.e. not needed to undo a block inside the horizon) -- never an unspent leaf, never a leaf past the cutoff, never a leaf a rewind would restore; PMMRBackend::pos_to_rm returns that set as the leaves removed, and as positions whose hash is deleted ONLY positions p such that p AND its parent are 'expanded', where every expanded position is one of those leaves, an already pruned root, or a parent BOTH of whose children are expanded: a hash is deleted only when everything below it is spent, and the root of every deleted subtree keeps its hash (what Merkle proofs and the MMR root still need); and the climb is COMPLETE whatever order the bitmap lists its members in: every leaf to remove is expanded, and wherever an expanded position's sibling is expanded or is an already pruned root, that sibling and the common parent are expanded too (so the hash file loses exactly what the new prune list will say is gone)
//@ assumed_items: 22
//@ fns: LeafSet::unpruned_pre_cutoff (+ closure), LeafSet::removed_pre_cutoff, PMMRBackend::pos_to_rm, PMMRBackend::is_pruned_root, removed_excl_roots (+ closure)
global size_of usize == 8;

#[verifier::external_body]
pub struct ExtPath;
#[verifier::external_body]
pub struct PathBuf;
#[verifier::external_body]
pub struct DataFile;
#[verifier::external_body]
pub struct Bitmap { _p: u8 }

pub struct RangeIncl { pub start: u32, pub end: u32 }
pub struct RangeExcl { pub start: u32, pub end: u32 }
pub trait U32Range { spec fn has(&self, x: int) -> bool; }
impl U32Range for RangeIncl { open spec fn has(&self, x: int) -> bool { self.start <= x && x <= self.end } }
impl U32Range for RangeExcl { open spec fn has(&self, x: int) -> bool { self.start <= x && x < self.end } }

pub uninterp spec fn sp_parent(pos0: u64) -> u64;
pub uninterp spec fn sp_sibling(pos0: u64) -> u64;
pub uninterp spec fn sp_is_leaf(pos0: u64) -> bool;
pub uninterp spec fn sp_pruned(pl: PruneList, pos0: u64) -> bool;
pub uninterp spec fn sp_pruned_root(pl: PruneList, pos0: u64) -> bool;
/// number of nodes the MMR may have (fewer than 2^32 - 1: see the second assumption)
pub uninterp spec fn sp_bound() -> u64;
#[verifier::external_body]
pub proof fn axiom_family(pos0: u64)
    ensures pos0 < sp_bound() ==> sp_parent(pos0) > pos0, sp_bound() < 0xffff_fffe,
        pos0 < sp_bound() ==> sp_sibling(pos0) < 0xffff_ffff && sp_parent(pos0) < 0xffff_ffff,
        pos0 < sp_bound() && sp_sibling(pos0) < sp_bound() ==> sp_parent(pos0) < sp_bound(),
        pos0 < sp_bound() ==> sp_sibling(sp_sibling(pos0)) == pos0 && sp_parent(sp_sibling(pos0)) == sp_parent(pos0) { }
#[verifier::external_body]
pub fn family(pos0: u64) -> (r: (u64, u64)) ensures r.0 == sp_parent(pos0), r.1 == sp_sibling(pos0) { unimplemented!() }
pub mod pmmr {
    use super::*;
    #[verifier::external_body]
    pub fn is_leaf(pos0: u64) -> (r: bool) ensures r == sp_is_leaf(pos0) { unimplemented!() }
}
pub struct PruneList { pub _p: u8 }
impl PruneList {
    #[verifier::external_body]
    pub fn is_pruned(&self, pos0: u64) -> (r: bool) ensures r == sp_pruned(*self, pos0) { unimplemented!() }
    #[verifier::external_body]
    pub fn is_pruned_root(&self, pos0: u64) -> (r: bool) ensures r == sp_pruned_root(*self, pos0), r ==> pos0 < sp_bound() { unimplemented!() }
}

/// the range / filter / map / collect shell over the lifted closure
pub struct UnprunedLeaf<'a> { pub pl: &'a PruneList }
pub struct RangeIter { pub lo: u64, pub hi: u64 }
pub struct FilteredRange<'a> { pub lo: u64, pub hi: u64, pub f: UnprunedLeaf<'a> }
pub struct AsU32 { pub _p: u8 }
pub fn range_incl(lo: u64, hi: u64) -> (r: RangeIter) ensures r.lo == lo, r.hi == hi { RangeIter { lo, hi } }
impl RangeIter {
    pub fn filter<'a>(self, f: UnprunedLeaf<'a>) -> (r: FilteredRange<'a>) ensures r.lo == self.lo, r.hi == self.hi, r.f == f { FilteredRange { lo: self.lo, hi: self.hi, f } }
}
impl<'a> FilteredRange<'a> {
    pub fn map(self, m: AsU32) -> (r: FilteredRange<'a>) ensures r == self { self }
    #[verifier::external_body]
    pub fn collect(self) -> (r: Bitmap)
        ensures forall|x: int| #![trigger r@.contains(x)] r@.contains(x) <==> (self.lo <= x <= self.hi && x <= u32::MAX && sp_unpruned_leaf(*self.f.pl, x as u64)) { unimplemented!() }
}
pub open spec fn sp_unpruned_leaf(pl: PruneList, x: u64) -> bool { x >= 1 && sp_is_leaf((x - 1) as u64) && !sp_pruned(pl, (x - 1) as u64) }
/// `removed.iter().filter(f).collect()`
pub struct ParentIn<'a> { pub removed: &'a Bitmap }
pub struct BitIter<'a> { pub of: &'a Bitmap }
pub struct FilteredBits<'a> { pub of: &'a Bitmap, pub f: ParentIn<'a> }
impl<'a> BitIter<'a> {
    pub fn filter(self, f: ParentIn<'a>) -> (r: FilteredBits<'a>) ensures r.of == self.of, r.f == f { FilteredBits { of: self.of, f } }
}
impl<'a> FilteredBits<'a> {
    #[verifier::external_body]
    pub fn collect(self) -> (r: Bitmap)
        ensures forall|x: int| #![trigger r@.contains(x)] #![trigger self.of@.contains(x)] r@.contains(x) <==> (self.of@.contains(x) && sp_parent_in(self.f.removed@, x)) { unimplemented!() }
}
pub open spec fn sp_parent_in(removed: Set<int>, x: int) -> bool { 1 <= x <= u32::MAX && removed.contains(1 + sp_parent((x - 1) as u64)) }

impl Bitmap {
    pub uninterp spec fn view(&self) -> Set<int>;
    #[verifier::external_body]
    pub fn new() -> (r: Bitmap) ensures r@ == Set::<int>::empty() { unimplemented!() }
    #[verifier::external_body]
    pub fn add(&mut self, x: u32) ensures final(self)@ == old(self)@.insert(x as int) { unimplemented!() }
    #[verifier::external_body]
    pub fn contains(&self, x: u32) -> (r: bool) ensures r == self@.contains(x as int) { unimplemented!() }
    #[verifier::external_body]
    pub fn maximum(&self) -> (r: Option<u32>)
        ensures r.is_none() ==> self@ =~= Set::empty(),
                r.is_some() ==> self@.contains(r.unwrap() as int) && (forall|x: int| self@.contains(x) ==> x <= r.unwrap()),
    { unimplemented!() }
    #[verifier::external_body]
    pub fn remove_range<R: U32Range>(&mut self, range: R) ensures forall|x: int| #![trigger final(self)@.contains(x)] #![trigger old(self)@.contains(x)] final(self)@.contains(x) <==> (old(self)@.contains(x) && !range.has(x)) { unimplemented!() }
    #[verifier::external_body]
    pub fn or_inplace(&mut self, other: &Bitmap) ensures final(self)@ == old(self)@.union(other@) { unimplemented!() }
    #[verifier::external_body]
    pub fn flip<R: U32Range>(&self, range: R) -> (r: Bitmap) ensures forall|x: int| #![trigger r@.contains(x)] #![trigger self@.contains(x)] r@.contains(x) <==> (if range.has(x) { !self@.contains(x) && 0 <= x <= u32::MAX } else { self@.contains(x) }) { unimplemented!() }
    #[verifier::external_body]
    pub fn and(&self, other: &Bitmap) -> (r: Bitmap) ensures r@ == self@.intersect(other@) { unimplemented!() }
    #[verifier::external_body]
    pub fn clone(&self) -> (r: Bitmap) ensures r@ == self@ { unimplemented!() }
    #[verifier::external_body]
    pub fn iter<'a>(&'a self) -> (r: BitIter<'a>) ensures r.of == self { unimplemented!() }
    /// members in SOME order, each a u32
    #[verifier::external_body]
    pub fn to_vec(&self) -> (r: Vec<u32>) ensures forall|x: int| self@.contains(x) <==> (exists|i: int| 0 <= i < r@.len() && r@[i] == x) { unimplemented!() }
}

//@ extract store/src/leaf_set.rs :: struct LeafSet
//@   rewrite `path: PathBuf,` => `path: ExtPath,`
//@   pub_fields
//@ end

/// the statement's reading of 'what compaction may delete among the leaves'
pub open spec fn sp_removable(ls: LeafSet, cutoff_pos: u64, rewind_rm: Set<int>, pl: PruneList, x: int) -> bool {
    1 <= x <= cutoff_pos && sp_unpruned_leaf(pl, x as u64) && !ls.bitmap@.contains(x) && !rewind_rm.contains(x)
}

impl LeafSet {
//@ extract store/src/leaf_set.rs :: impl LeafSet::unpruned_pre_cutoff
//@   eclosure 1 lifted_as `fn unpruned_leaf(x: u64, prune_list: &PruneList) -> bool`
//@   requires:
//@+    x >= 1,
//@   ensures:
//@+    r == sp_unpruned_leaf(*prune_list, x),
//@ end
//@ extract store/src/leaf_set.rs :: impl LeafSet::unpruned_pre_cutoff
//@   eclosure 1 replaced_by `UnprunedLeaf { pl: prune_list }`
//@   eclosure 2 replaced_by `AsU32 { _p: 0 }`
//@   rewrite `(1..=cutoff_pos)` => `range_incl(1, cutoff_pos)`
//@   requires:
//@+    cutoff_pos < 0xffff_ffffu64,
//@   ensures:
//@+    forall|x: int| r@.contains(x) <==> (1 <= x <= cutoff_pos && sp_unpruned_leaf(*prune_list, x as u64)),
//@ end

//@ extract store/src/leaf_set.rs :: impl LeafSet::removed_pre_cutoff
//@   rewrite `let to_remove = (` => `let to_remove = RangeIncl { start: (`
//@   rewrite `)..=bitmap.maximum().unwrap_or(0);` => `), end: bitmap.maximum().unwrap_or(0) };`
//@   rewrite `.flip(1u32..(` => `.flip(RangeExcl { start: 1u32, end: (`
//@   rewrite ` as u32)\n\t\t\t.and(` => ` as u32 })\n\t\t\t.and(`
//@   requires:
//@+    cutoff_pos < 0xffff_ffffu64,
//@+    forall|x: int| self.bitmap@.contains(x) ==> 0 <= x <= 0xffff_ffff,
//@+    forall|x: int| rewind_rm_pos@.contains(x) ==> 0 <= x <= 0xffff_ffff,
//@   ensures:
//@+    forall|x: int| r@.contains(x) <==> sp_removable(*self, cutoff_pos, rewind_rm_pos@, *prune_list, x),
//@ end
}

//@ extract store/src/pmmr.rs :: struct PMMRBackend
//@   rewrite `pub struct PMMRBackend<T: PMMRable> {` => `pub struct PMMRBackend {`
//@   rewrite `DataFile<Hash>` => `DataFile`
//@   rewrite `DataFile<T::E>` => `DataFile`
//@   pub_fields
//@ end

/// c and its sibling are both expanded and e is their parent
pub open spec fn sp_children_in(e_set: Set<int>, e: int, c: int) -> bool {
    1 <= c <= u32::MAX && e_set.contains(c) && e_set.contains(1 + sp_sibling((c - 1) as u64)) && e == 1 + sp_parent((c - 1) as u64)
}
/// why a position may be in the expanded set
pub open spec fn sp_justified(e_set: Set<int>, leaves: Set<int>, pl: PruneList, e: int) -> bool {
    1 <= e <= sp_bound() && (leaves.contains(e) || sp_pruned_root(pl, (e - 1) as u64) || exists|c: int| sp_children_in(e_set, e, c))
}
pub open spec fn sp_all_justified(e_set: Set<int>, leaves: Set<int>, pl: PruneList) -> bool {
    forall|e: int| e_set.contains(e) ==> sp_justified(e_set, leaves, pl, e)
}
/// the climb is complete at c: if c's sibling is expanded, or is an already pruned root, then the sibling AND the parent are expanded
pub open spec fn sp_closed_at(e_set: Set<int>, pl: PruneList, c: int) -> bool {
    (e_set.contains(1 + sp_sibling((c - 1) as u64)) || sp_pruned_root(pl, sp_sibling((c - 1) as u64)))
        ==> (e_set.contains(1 + sp_sibling((c - 1) as u64)) && e_set.contains(1 + sp_parent((c - 1) as u64)))
}
pub open spec fn sp_closed_except(e_set: Set<int>, pl: PruneList, ex1: int, ex2: int) -> bool {
    forall|c: int| e_set.contains(c) && c != ex1 && c != ex2 ==> sp_closed_at(e_set, pl, c)
}
pub proof fn lemma_closed_add(a: Set<int>, n: int, pl: PruneList, ex1: int, ex2: int)
    requires sp_closed_except(a, pl, ex1, ex2), forall|c: int| a.contains(c) ==> 1 <= c <= sp_bound(), 1 <= n <= sp_bound(),
    ensures forall|c: int| a.insert(n).contains(c) && c != ex1 && c != ex2 && c != n && c != 1 + sp_sibling((n - 1) as u64) ==> sp_closed_at(a.insert(n), pl, c),
{
    assert forall|c: int| a.insert(n).contains(c) && c != ex1 && c != ex2 && c != n && c != 1 + sp_sibling((n - 1) as u64) implies sp_closed_at(a.insert(n), pl, c) by {
        axiom_family((c - 1) as u64);
        axiom_family((n - 1) as u64);
        assert(sp_closed_at(a, pl, c));
    }
}
/// e_set explains the selection: every member is justified, every leaf to remove is a member, and the hashes deleted are exactly the members whose parent is a member too
pub open spec fn sp_selection(e_set: Set<int>, leaves: Set<int>, deleted: Set<int>, pl: PruneList) -> bool {
    sp_all_justified(e_set, leaves, pl) && leaves.subset_of(e_set) && sp_closed_except(e_set, pl, 0, 0) && (forall|x: int| #![trigger deleted.contains(x)] #![trigger e_set.contains(x)] deleted.contains(x) <==> (e_set.contains(x) && sp_parent_in(e_set, x)))
}
pub proof fn lemma_grow(a: Set<int>, b: Set<int>, leaves: Set<int>, pl: PruneList)
    requires sp_all_justified(a, leaves, pl), a.subset_of(b),
    ensures forall|e: int| a.contains(e) ==> sp_justified(b, leaves, pl, e),
{
    assert forall|e: int| a.contains(e) implies sp_justified(b, leaves, pl, e) by {
        assert(sp_justified(a, leaves, pl, e));
        if exists|c: int| sp_children_in(a, e, c) {
            let c = choose|c: int| sp_children_in(a, e, c);
            assert(sp_children_in(b, e, c));
        }
    }
}

//@ extract store/src/pmmr.rs :: fn removed_excl_roots
//@   closure 1 lifted_as `fn parent_in(pos: &u32, removed: &Bitmap) -> bool`
//@   at_start:
//@+    proof { axiom_family((*pos - 1) as u64); }
//@   requires:
//@+    1 <= *pos <= sp_bound(),
//@   ensures:
//@+    r == sp_parent_in(removed@, *pos as int),
//@ end

//@ extract store/src/pmmr.rs :: fn removed_excl_roots
//@   closure 1 replaced_by `ParentIn { removed: removed }`
//@   requires:
//@+    forall|x: int| removed@.contains(x) ==> 1 <= x <= sp_bound(),
//@   ensures:
//@+    forall|x: int| #![trigger r@.contains(x)] #![trigger removed@.contains(x)] r@.contains(x) <==> (removed@.contains(x) && sp_parent_in(removed@, x)),
//@ end

impl PMMRBackend {
//@ extract store/src/pmmr.rs :: impl PMMRBackend::is_pruned_root
//@   ensures:
//@+    r == sp_pruned_root(self.prune_list, pos0), r ==> pos0 < sp_bound(),
//@ end

//@ extract store/src/pmmr.rs :: impl PMMRBackend::pos_to_rm
//@   at_start:
//@+    proof { axiom_family(0); }
//@   rewrite `for x in leaf_pos_to_rm.iter() {` => `let items = leaf_pos_to_rm.to_vec(); let mut ix: usize = 0; while ix < items.len() { let x = items[ix]; ix += 1;`
//@   requires:
//@+    cutoff_pos < sp_bound(),
//@+    forall|x: int| self.leaf_set.bitmap@.contains(x) ==> 0 <= x <= 0xffff_ffff,
//@+    forall|x: int| rewind_rm_pos@.contains(x) ==> 0 <= x <= 0xffff_ffff,
//@   ensures:
//@+    forall|x: int| r.0@.contains(x) <==> sp_removable(self.leaf_set, cutoff_pos, rewind_rm_pos@, self.prune_list, x),
//@+    exists|e_set: Set<int>| #[trigger] sp_selection(e_set, r.0@, r.1@, self.prune_list),
//@   loop 1:
//@+    invariant
//@+        ix <= items@.len(), cutoff_pos < sp_bound(),
//@+        forall|i: int| 0 <= i < items@.len() ==> leaf_pos_to_rm@.contains(#[trigger] items@[i] as int),
//@+        forall|x: int| leaf_pos_to_rm@.contains(x) ==> (exists|i: int| 0 <= i < items@.len() && items@[i] == x),
//@+        forall|x: int| leaf_pos_to_rm@.contains(x) <==> sp_removable(self.leaf_set, cutoff_pos, rewind_rm_pos@, self.prune_list, x),
//@+        sp_all_justified(expanded@, leaf_pos_to_rm@, self.prune_list), sp_closed_except(expanded@, self.prune_list, 0, 0),
//@+        forall|i: int| 0 <= i < ix ==> expanded@.contains(#[trigger] items@[i] as int),
//@+    decreases items@.len() - ix,
//@   loop 2:
//@+    invariant_except_break
//@+        sp_closed_except(expanded@, self.prune_list, current as int, 1 + sp_sibling((current - 1) as u64)),
//@+    invariant
//@+        1 <= ix <= items@.len(), cutoff_pos < sp_bound(), 1 <= current <= sp_bound(), expanded@.contains(current as int),
//@+        sp_all_justified(expanded@, leaf_pos_to_rm@, self.prune_list),
//@+        forall|i: int| 0 <= i < ix ==> expanded@.contains(#[trigger] items@[i] as int),
//@+    ensures
//@+        sp_closed_except(expanded@, self.prune_list, 0, 0),
//@+    decreases sp_bound() - current,
//@   rewrite `\t\t(leaf_pos_to_rm, removed_excl_roots(&expanded))` => `\t\tlet excl = removed_excl_roots(&expanded);\n\t\tlet rr = (leaf_pos_to_rm, excl);\n\t\trr`
//@   after `let rr = (leaf_pos_to_rm, excl);`:
//@+    proof {
//@+        assert forall|x: int| rr.0@.contains(x) implies expanded@.contains(x) by {
//@+            let i = choose|i: int| 0 <= i < items@.len() && items@[i] == x;
//@+            assert(expanded@.contains(items@[i] as int));
//@+        }
//@+        assert(rr.0@.subset_of(expanded@));
//@+        assert(sp_selection(expanded@, rr.0@, rr.1@, self.prune_list));
//@+    }
//@   before `expanded.add(x);`:
//@+    let ghost ep = expanded@;
//@   after `expanded.add(x);`:
//@+    proof { lemma_grow(ep, expanded@, leaf_pos_to_rm@, self.prune_list); assert(leaf_pos_to_rm@.contains(x as int)); lemma_closed_add(ep, x as int, self.prune_list, 0, 0); }
//@   after `let (parent0, sibling0) = family(current - 1);`:
//@+    proof { axiom_family((current - 1) as u64); }
//@+    let ghost e0 = expanded@;
//@   after? `expanded.add(1 + sibling0 as u32);`:
//@+    proof { lemma_grow(e0, expanded@, leaf_pos_to_rm@, self.prune_list); lemma_closed_add(e0, 1 + sibling0, self.prune_list, current as int, 1 + sibling0); }
//@   before `expanded.add(1 + parent0 as u32);`:
//@+    let ghost e1 = expanded@;
//@+    assert(sp_all_justified(e1, leaf_pos_to_rm@, self.prune_list));
//@   after `expanded.add(1 + parent0 as u32);`:
//@+    proof { lemma_grow(e1, expanded@, leaf_pos_to_rm@, self.prune_list); assert(sp_children_in(expanded@, 1 + parent0, current as int));
//@+        lemma_closed_add(e1, 1 + parent0, self.prune_list, current as int, 1 + sibling0); axiom_family(sibling0); axiom_family(parent0);
//@+        assert(sp_closed_at(expanded@, self.prune_list, current as int)); assert(sp_closed_at(expanded@, self.prune_list, 1 + sibling0)); }
//@   before* `break;`:
//@+    proof { assert(sp_closed_at(expanded@, self.prune_list, current as int)); }
//@ end
}
//@ canary removed_pre_cutoff: r@ =~= Set::<int>::empty()
//@ canary pos_to_rm: r.1@ == r.0@
