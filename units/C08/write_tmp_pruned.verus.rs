//@ assume: the file system is abstract: a data file at a path is the sequence of elements a streaming reader decodes from it one after another (sp_elems_at; T::read answers the next element or, at the end / at undecodable bytes, an error), fewer than 2^64 of them; a BinWriter over a BufWriter over a freshly created file accumulates the elements written; what is flushed to the tmp path is handed out through a ghost out-parameter `tmp` (T6: `buf_writer.flush()?;` => `bin_writer.flush()?;` plus one proof line recording bin_writer's content in `tmp`; the `&mut buf_reader` / `&mut buf_writer` borrows held inside StreamingReader / BinWriter are passed by value)
//@ assume: T5: generic `AppendOnlyFile<T>` => abstract struct over one abstract element type `Elmt` (`T::read` => `Elmt::read`); T6: `.map_err(|e| io::Error::new(io::ErrorKind::Other, e))?` => `?` against a callee that already returns the io error; `[u64]::contains` has the assumed specification 'is a member'; T7: the closure `|x| x - 1` of DataFile::write_tmp_pruned is lifted and verified (its subtraction is an obligation: positions are 1-based), the `.iter().map(f).collect()` shell over it is abstract (maps each element through the lifted function's result)
//@ assume: range (precondition, as the code's comment demands: 'prune_pos must be ordered'): prune positions strictly increasing
//@ assume: decided here (C08 'compacting the data files never changes the data of an unspent leaf'): AppendOnlyFile::write_tmp_pruned writes to the tmp file EXACTLY the elements of the data file whose 0-based index is not a prune position, in their original order -- nothing else dropped, nothing duplicated or reordered, for ANY file length and ANY strictly increasing prune list (the loop consumes the prune list from the front: that is only right because each match is the front element, which is proved); DataFile::write_tmp_pruned hands it the 1-based positions it was given, each minus one
//@ assumed_items: 11
//@ fns: AppendOnlyFile::write_tmp_pruned, DataFile::write_tmp_pruned (+ closure)
global size_of usize == 8;
pub struct IoError { pub k: u8 }
pub mod io { pub type Result<T> = std::result::Result<T, super::IoError>; }
#[verifier::external_body]
pub struct PathBuf { _p: u8 }
#[derive(Clone, Copy, PartialEq, Eq)]
pub struct ProtocolVersion(pub u32);
#[derive(Clone, Copy, PartialEq, Eq)]
pub struct Elmt { pub v: u64 }
pub uninterp spec fn sp_elems_at(p: PathBuf) -> Seq<Elmt>;
pub struct File { pub elems: Ghost<Seq<Elmt>> }
impl File {
    #[verifier::external_body]
    pub fn open(p: &PathBuf) -> (r: io::Result<File>) ensures r matches Ok(f) ==> (f.elems@ == sp_elems_at(*p) && f.elems@.len() < u64::MAX) { unimplemented!() }
    #[verifier::external_body]
    pub fn create(p: &PathBuf) -> (r: io::Result<File>) ensures r matches Ok(f) ==> f.elems@ == Seq::<Elmt>::empty() { unimplemented!() }
}
pub struct BufReader { pub f: File }
impl BufReader { pub fn new(f: File) -> (r: BufReader) ensures r.f == f { BufReader { f } } }
pub struct BufWriter { pub f: File }
impl BufWriter { pub fn new(f: File) -> (r: BufWriter) ensures r.f == f { BufWriter { f } } }
pub struct StreamingReader { pub src: Ghost<Seq<Elmt>>, pub pos: Ghost<nat> }
impl StreamingReader {
    #[verifier::external_body]
    pub fn new(b: BufReader, v: ProtocolVersion) -> (r: StreamingReader) ensures r.src@ == b.f.elems@, r.pos@ == 0 { unimplemented!() }
}
pub struct BinWriter { pub written: Ghost<Seq<Elmt>> }
impl BinWriter {
    #[verifier::external_body]
    pub fn new(b: BufWriter, v: ProtocolVersion) -> (r: BinWriter) ensures r.written@ == b.f.elems@ { unimplemented!() }
    /// stands in for `buf_writer.flush()`
    #[verifier::external_body]
    pub fn flush(&mut self) -> (r: io::Result<()>) ensures final(self).written@ == old(self).written@ { unimplemented!() }
}
impl Elmt {
    #[verifier::external_body]
    pub fn read(r: &mut StreamingReader) -> (res: io::Result<Elmt>)
        ensures final(r).src@ == old(r).src@,
            old(r).pos@ < old(r).src@.len() ==> (res matches Ok(e) && e == old(r).src@[old(r).pos@ as int]) && final(r).pos@ == old(r).pos@ + 1,
            old(r).pos@ >= old(r).src@.len() ==> res is Err && final(r).pos@ == old(r).pos@ { unimplemented!() }
    #[verifier::external_body]
    pub fn write(&self, w: &mut BinWriter) -> (res: io::Result<()>)
        ensures res.is_ok() ==> final(w).written@ == old(w).written@.push(*self) { unimplemented!() }
}
pub assume_specification<T: PartialEq> [ <[T]>::contains ] (s: &[T], x: &T) -> (r: bool) ensures r == s@.contains(*x);

/// what has been flushed to the tmp path
pub tracked struct TmpFile { pub ghost content: Seq<Elmt> }

/// the elements of `src` whose index is not in `prune`, in order
pub open spec fn sp_keep(src: Seq<Elmt>, prune: Seq<int>) -> Seq<Elmt> decreases src.len() {
    if src.len() == 0 { Seq::empty() } else {
        let r = sp_keep(src.drop_last(), prune);
        if prune.contains(src.len() - 1) { r } else { r.push(src.last()) }
    }
}
pub open spec fn sp_increasing(s: Seq<u64>) -> bool { forall|i: int, j: int| 0 <= i < j < s.len() ==> s[i] < s[j] }
/// the positions as integers, each minus `off`
pub open spec fn sp_ints(s: Seq<u64>, off: int) -> Seq<int> { Seq::new(s.len(), |i: int| s[i] - off) }

pub struct AppendOnlyFile { pub path: PathBuf, pub version: ProtocolVersion }
impl AppendOnlyFile {
    #[verifier::external_body]
    fn tmp_path(&self) -> (r: PathBuf) { unimplemented!() }
//@ extract store/src/types.rs :: impl AppendOnlyFile::write_tmp_pruned
//@   sigrewrite `pub fn write_tmp_pruned(&self, prune_pos: &[u64])` => `pub fn write_tmp_pruned(&self, prune_pos: &[u64], Tracked(tmp): Tracked<&mut TmpFile>)`
//@   rewrite `StreamingReader::new(&mut buf_reader, self.version)` => `StreamingReader::new(buf_reader, self.version)`
//@   rewrite `BinWriter::new(&mut buf_writer, self.version)` => `BinWriter::new(buf_writer, self.version)`
//@   rewrite `let mut buf_reader = ` => `let buf_reader = `
//@   rewrite `let mut buf_writer = ` => `let buf_writer = `
//@   rewrite `T::read(&mut streaming_reader)` => `Elmt::read(&mut streaming_reader)`
//@   rewrite `elmt.write(&mut bin_writer)\n\t\t\t\t\t.map_err(|e| io::Error::new(io::ErrorKind::Other, e))?;` => `elmt.write(&mut bin_writer)?;`
//@   at_start:
//@+    let ghost orig = prune_pos@; let ghost mut k: int = 0;
//@   rewrite `buf_writer.flush()?;` => `bin_writer.flush()?;\n\t\tproof { tmp.content = bin_writer.written@; }`
//@   requires:
//@+    sp_increasing(prune_pos@),
//@   ensures:
//@+    r.is_ok() ==> final(tmp).content == sp_keep(sp_elems_at(self.path), sp_ints(prune_pos@, 0)),
//@   loop 1:
//@+    invariant
//@+        streaming_reader.src@ == sp_elems_at(self.path), streaming_reader.src@.len() < u64::MAX,
//@+        current_pos as nat == streaming_reader.pos@, streaming_reader.pos@ <= streaming_reader.src@.len(),
//@+        sp_increasing(orig), 0 <= k <= orig.len(), prune_pos@ == orig.subrange(k, orig.len() as int),
//@+        forall|j: int| 0 <= j < k ==> orig[j] < current_pos,
//@+        forall|j: int| k <= j < orig.len() ==> orig[j] >= current_pos,
//@+        bin_writer.written@ == sp_keep(streaming_reader.src@.take(current_pos as int), sp_ints(orig, 0)),
//@+    ensures
//@+        streaming_reader.pos@ >= streaming_reader.src@.len(),
//@+    decreases streaming_reader.src@.len() - streaming_reader.pos@,
//@   after `while let Ok(elmt) = Elmt::read(&mut streaming_reader) {`:
//@+    proof {
//@+        let src = streaming_reader.src@;
//@+        assert(src.take(current_pos as int + 1).drop_last() =~= src.take(current_pos as int));
//@+        assert(src.take(current_pos as int + 1).last() == elmt);
//@+        if prune_pos@.contains(current_pos) {
//@+            let j = choose|j: int| 0 <= j < prune_pos@.len() && prune_pos@[j] == current_pos;
//@+            assert(orig[k + j] == current_pos);
//@+            assert(j == 0) by { if j > 0 { assert(orig[k] < orig[k + j]); assert(orig[k] >= current_pos); } }
//@+            assert(sp_ints(orig, 0)[k] == current_pos as int);
//@+            assert(sp_ints(orig, 0).contains(current_pos as int));
//@+        } else {
//@+            assert(!sp_ints(orig, 0).contains(current_pos as int)) by {
//@+                if sp_ints(orig, 0).contains(current_pos as int) {
//@+                    let i = choose|i: int| 0 <= i < sp_ints(orig, 0).len() && sp_ints(orig, 0)[i] == current_pos as int;
//@+                    assert(i >= k); assert(prune_pos@[i - k] == current_pos);
//@+                }
//@+            }
//@+            assert forall|j: int| k <= j < orig.len() implies orig[j] > current_pos by { assert(prune_pos@[j - k] == orig[j]); }
//@+        }
//@+    }
//@   before `bin_writer.flush()?;`:
//@+    proof { let src = streaming_reader.src@; assert(src.take(current_pos as int) =~= src); }
//@   after? `prune_pos = &prune_pos[1..];`:
//@+    proof { k = k + 1; assert(prune_pos@ =~= orig.subrange(k, orig.len() as int)); }
//@ end
}
pub struct MapIter<'a> { pub of: &'a [u64] }
pub struct MinusOne { pub _p: u8 }
pub fn slice_iter<'a>(s: &'a [u64]) -> (r: MapIter<'a>) ensures r.of == s { MapIter { of: s } }
impl<'a> MapIter<'a> {
    pub fn map(self, f: MinusOne) -> (r: MapIter<'a>) ensures r == self { self }
    #[verifier::external_body]
    pub fn collect(self) -> (r: Vec<u64>) ensures r@.len() == self.of@.len(), forall|i: int| 0 <= i < r@.len() ==> r@[i] == self.of@[i] - 1 { unimplemented!() }
}
pub struct DataFile { pub file: AppendOnlyFile }
impl DataFile {
//@ extract store/src/types.rs :: impl DataFile::write_tmp_pruned
//@   eclosure 1 lifted_as `fn minus_one(x: &u64) -> u64`
//@   requires:
//@+    *x >= 1,
//@   ensures:
//@+    r == *x - 1,
//@ end
//@ extract store/src/types.rs :: impl DataFile::write_tmp_pruned
//@   sigrewrite `pub fn write_tmp_pruned(&self, prune_pos: &[u64])` => `pub fn write_tmp_pruned(&self, prune_pos: &[u64], Tracked(tmp): Tracked<&mut TmpFile>)`
//@   eclosure 1 replaced_by `MinusOne { _p: 0 }`
//@   rewrite `let prune_idx: Vec<_> = prune_pos.iter()` => `let prune_idx: Vec<u64> = slice_iter(prune_pos)`
//@   rewrite `self.file.write_tmp_pruned(prune_idx.as_slice())` => `self.file.write_tmp_pruned(prune_idx.as_slice(), Tracked(tmp))`
//@   before `self.file.write_tmp_pruned(prune_idx.as_slice(), Tracked(tmp))`:
//@+    proof { assert(sp_ints(prune_idx@, 0) =~= sp_ints(prune_pos@, 1)); assert(sp_increasing(prune_idx@)); }
//@   requires:
//@+    sp_increasing(prune_pos@), forall|i: int| 0 <= i < prune_pos@.len() ==> prune_pos@[i] >= 1,
//@   ensures:
//@+    r.is_ok() ==> final(tmp).content == sp_keep(sp_elems_at(self.file.path), sp_ints(prune_pos@, 1)),
//@ end
}
//@ canary write_tmp_pruned: r.is_err()
