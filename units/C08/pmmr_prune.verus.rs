//@ assume: the back end is abstract: hashes are a ghost map that remove does NOT touch, the unspent-leaf set is a ghost set; get_hash(pos0) on a leaf answers Some exactly for a leaf that is in the leaf set (PMMRBackend::get_hash: C02/backend_reads); pmmr::is_leaf is proved in C07/pmmr_arith; T3: the format! payload of the error is replaced
//@ assume: T6: `assert!(self.prunable, ..)` in PMMRBackend::remove => kassert(self.prunable) (a function that requires its argument: the assert cannot fire); T5: `impl Backend for PMMRBackend` => inherent
//@ assume: decided here (C08, 'pruning ... never change what the MMR commits to'): PMMR::prune refuses a non-leaf position, answers Ok(false) -- changing nothing -- for a leaf that is no longer readable, and otherwise removes EXACTLY that position from the leaf set: the MMR's size and every stored hash (hence the root, which is computed from size and hashes only) are untouched; PMMRBackend::remove takes exactly that position out of the leaf set and is only ever reached on a prunable back end
//@ assumed_items: 4
//@ fns: PMMR::prune, PMMRBackend::remove
pub fn kassert(c: bool) requires c { }
pub struct Hash { pub v: u64 }
pub uninterp spec fn sp_is_leaf(pos0: u64) -> bool;
#[verifier::external_body]
pub fn is_leaf(pos0: u64) -> (r: bool) ensures r == sp_is_leaf(pos0) { unimplemented!() }
pub struct LeafSet { pub bits: Ghost<Set<int>> }
impl LeafSet {
    #[verifier::external_body]
    pub fn remove(&mut self, pos0: u64) ensures final(self).bits@ == old(self).bits@.remove(pos0 as int) { unimplemented!() }
}
pub struct PMMRBackend { pub prunable: bool, pub leaf_set: LeafSet, pub hashes: Ghost<Map<int, Hash>> }
impl PMMRBackend {
    #[verifier::external_body]
    pub fn get_hash(&self, pos0: u64) -> (r: Option<Hash>) ensures sp_is_leaf(pos0) && self.prunable ==> (r is Some) == self.leaf_set.bits@.contains(pos0 as int) { unimplemented!() }
//@ extract store/src/pmmr.rs :: impl Backend for PMMRBackend::remove
//@   rewrite `assert!(self.prunable, "Remove on non-prunable MMR");` => `kassert(self.prunable);`
//@   requires:
//@+    old(self).prunable,
//@   ensures:
//@+    r.is_ok(), final(self).leaf_set.bits@ == old(self).leaf_set.bits@.remove(pos0 as int), final(self).hashes@ == old(self).hashes@, final(self).prunable == old(self).prunable,
//@ end
}
pub struct PMMR { pub size: u64, pub backend: PMMRBackend }
impl PMMR {
//@ extract core/src/core/pmmr/pmmr.rs :: impl PMMR::prune
//@   format_as `msg()`
//@   requires:
//@+    old(self).backend.prunable,
//@   ensures:
//@+    final(self).size == old(self).size, final(self).backend.hashes@ == old(self).backend.hashes@,
//@+    !sp_is_leaf(pos0) ==> r.is_err() && final(self).backend.leaf_set == old(self).backend.leaf_set,
//@+    r matches Ok(false) ==> final(self).backend.leaf_set == old(self).backend.leaf_set && !old(self).backend.leaf_set.bits@.contains(pos0 as int),
//@+    r matches Ok(true) ==> sp_is_leaf(pos0) && old(self).backend.leaf_set.bits@.contains(pos0 as int)
//@+        && final(self).backend.leaf_set.bits@ == old(self).backend.leaf_set.bits@.remove(pos0 as int),
//@+    sp_is_leaf(pos0) ==> r.is_ok(),
//@ end
}
#[verifier::external_body]
pub fn msg() -> String { unimplemented!() }
//@ canary prune: r.is_err()
