//@ assume: AppendOnlyFile<T> is abstract here (a ghost sequence of elements visible to reads -- flushed plus buffered, after rewinds -- and the flushed prefix); assumed contracts, decided on the real code elsewhere: append_elmt adds one element at the end (C06/append_only_file: append), rewind(pos) keeps the first pos elements, flush makes the visible sequence the flushed one (C08/aof_flush), discard goes back to the flushed one (C06/append_only_file), read_as_elmt(i) answers element i (C08/aof_read), size_in_elmts / size_unsync_in_elmts are the two lengths; T5: generic `DataFile<T>` => one abstract element type; `for x in data` inside append_elmts is the callee's
//@ assume: range (precondition): positions handed to DataFile::read are 1-based (>= 1): the MMR API is 1-indexed, the file 0-indexed
//@ assume: decided here (C08, the thin layer every PMMR backend read and write goes through): DataFile::read(position) is element position - 1 (never position, never an underflow for a 1-based position); append / extend_from_slice add exactly the elements given, in order, and answer the new UNSYNCED size; rewind / flush / discard / size / size_unsync are those of the file, unmodified
//@ assumed_items: 9
//@ fns: DataFile::append, DataFile::extend_from_slice, DataFile::read, DataFile::rewind, DataFile::flush, DataFile::discard, DataFile::size, DataFile::size_unsync
global size_of usize == 8;
pub struct IoError { pub k: u8 }
pub mod io { pub type Result<T> = std::result::Result<T, super::IoError>; }
#[derive(Clone, Copy, PartialEq, Eq, Structural)]
pub struct Elmt { pub v: u64 }
pub struct AppendOnlyFile { pub vis: Ghost<Seq<Elmt>>, pub flushed: Ghost<Seq<Elmt>> }
impl AppendOnlyFile {
    #[verifier::external_body]
    pub fn append_elmt(&mut self, data: &Elmt) -> (r: io::Result<()>) ensures r.is_ok() ==> final(self).vis@ == old(self).vis@.push(*data), r.is_err() ==> final(self).vis@ == old(self).vis@, final(self).flushed@ == old(self).flushed@ { unimplemented!() }
    #[verifier::external_body]
    pub fn append_elmts(&mut self, data: &[Elmt]) -> (r: io::Result<()>) ensures r.is_ok() ==> final(self).vis@ == old(self).vis@ + data@, final(self).flushed@ == old(self).flushed@ { unimplemented!() }
    #[verifier::external_body]
    pub fn read_as_elmt(&self, pos: u64) -> (r: io::Result<Elmt>) ensures r matches Ok(e) ==> pos < self.vis@.len() && e == self.vis@[pos as int] { unimplemented!() }
    #[verifier::external_body]
    pub fn rewind(&mut self, pos: u64) ensures final(self).vis@ == old(self).vis@.take(if pos as int <= old(self).vis@.len() { pos as int } else { old(self).vis@.len() as int }), final(self).flushed@ == old(self).flushed@ { unimplemented!() }
    #[verifier::external_body]
    pub fn flush(&mut self) -> (r: io::Result<()>) ensures r.is_ok() ==> final(self).flushed@ == old(self).vis@ && final(self).vis@ == old(self).vis@ { unimplemented!() }
    #[verifier::external_body]
    pub fn discard(&mut self) ensures final(self).vis@ == old(self).flushed@, final(self).flushed@ == old(self).flushed@ { unimplemented!() }
    #[verifier::external_body]
    pub fn size_in_elmts(&self) -> (r: io::Result<u64>) ensures r matches Ok(n) ==> n == self.flushed@.len() { unimplemented!() }
    #[verifier::external_body]
    pub fn size_unsync_in_elmts(&self) -> (r: io::Result<u64>) ensures r matches Ok(n) ==> n == self.vis@.len() { unimplemented!() }
}
pub assume_specification<T, E>[ Result::<T, E>::unwrap_or ](this: Result<T, E>, default: T) -> (r: T)
    ensures r == (match this { Ok(v) => v, Err(_) => default });
pub struct DataFile { pub file: AppendOnlyFile }
impl DataFile {
//@ extract store/src/types.rs :: impl DataFile::size_unsync
//@   ensures:
//@+    r == self.file.vis@.len() || r == 0,
//@ end
//@ extract store/src/types.rs :: impl DataFile::size
//@   ensures:
//@+    r == self.file.flushed@.len() || r == 0,
//@ end
//@ extract store/src/types.rs :: impl DataFile::append
//@   sigrewrite `data: &T` => `data: &Elmt`
//@   ensures:
//@+    r matches Ok(n) ==> final(self).file.vis@ == old(self).file.vis@.push(*data) && (n == final(self).file.vis@.len() || n == 0),
//@+    r.is_err() ==> final(self).file.vis@ == old(self).file.vis@,
//@+    final(self).file.flushed@ == old(self).file.flushed@,
//@ end
//@ extract store/src/types.rs :: impl DataFile::extend_from_slice
//@   sigrewrite `data: &[T]` => `data: &[Elmt]`
//@   ensures:
//@+    r matches Ok(n) ==> final(self).file.vis@ == old(self).file.vis@ + data@ && (n == final(self).file.vis@.len() || n == 0),
//@+    final(self).file.flushed@ == old(self).file.flushed@,
//@ end
//@ extract store/src/types.rs :: impl DataFile::read
//@   sigrewrite `-> Option<T>` => `-> Option<Elmt>`
//@   requires:
//@+    position >= 1,
//@   ensures:
//@+    r matches Some(e) ==> position - 1 < self.file.vis@.len() && e == self.file.vis@[position - 1],
//@ end
//@ extract store/src/types.rs :: impl DataFile::rewind
//@   ensures:
//@+    final(self).file.vis@ == old(self).file.vis@.take(if position as int <= old(self).file.vis@.len() { position as int } else { old(self).file.vis@.len() as int }), final(self).file.flushed@ == old(self).file.flushed@,
//@ end
//@ extract store/src/types.rs :: impl DataFile::flush
//@   ensures:
//@+    r.is_ok() ==> final(self).file.flushed@ == old(self).file.vis@ && final(self).file.vis@ == old(self).file.vis@,
//@ end
//@ extract store/src/types.rs :: impl DataFile::discard
//@   ensures:
//@+    final(self).file.vis@ == old(self).file.flushed@, final(self).file.flushed@ == old(self).file.flushed@,
//@ end
}
//@ canary read: r is None
