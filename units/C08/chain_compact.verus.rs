//@ assume: Chain / the store batch / the header MMR handle / the txhashset are abstract: the RwLocks' read() / write() hand out the protected value (T6: `self.header_pmmr.read()` => self.header_pmmr_read(), `self.txhashset.write()` => self.txhashset_write(): guards are plain values here, lock order is C17 and not decided); TxHashSet::compact (C08/compact), Chain::remove_historical_blocks (C08/remove_historical_blocks), init_output_pos_index (C02/output_pos_index) and init_recent_kernel_pos_index are callees that record that they ran, with which horizon; batch.commit() records the commit; T3: log macros removed
//@ assume: decided here (C08, 'compaction ... never changes what an unspent leaf reads as and still permits reorganisations inside the horizon'): Chain::compact returns early (doing nothing) only when tail + horizon + 60 is still above the BODY head; otherwise the header it hands to TxHashSet::compact as the horizon is the header our own header chain has at height (BODY head height - cut_through_horizon, saturating) -- the body head read from the batch, NOT the header head, which may run ahead of the bodies: the blocks that stay rewindable (and whose spent inputs TxHashSet::compact protects) are counted from the body head; historical blocks are removed only outside archive mode; the batch is committed only after the compaction, the removal and both index rebuilds succeeded, and nothing is committed on an error path
//@ assumed_items: 18
//@ fns: Chain::compact
#[derive(Clone, Copy)]
pub struct Hash { pub v: u64 }
pub enum Error { Store, Other }
#[derive(Clone, Copy)]
pub struct BlockHeader { pub height: u64, pub id: Hash }
#[derive(Clone, Copy)]
pub struct Tip { pub height: u64, pub last_block_h: Hash }
pub uninterp spec fn sp_horizon() -> u32;
pub mod global { use super::*;
    #[verifier::external_body]
    pub fn cut_through_horizon() -> (r: u32) ensures r == sp_horizon() { unimplemented!() } }
pub uninterp spec fn sp_hdr(h: Hash) -> BlockHeader;
pub uninterp spec fn sp_hash_at(height: u64) -> Hash;
pub uninterp spec fn sp_body_head_header() -> BlockHeader;
pub uninterp spec fn sp_header_head() -> Tip;
pub uninterp spec fn sp_tail() -> Result<Tip, Error>;
pub uninterp spec fn sp_head() -> Result<Tip, Error>;
pub struct PMMRHandle { pub _p: u8 }
impl PMMRHandle {
    #[verifier::external_body]
    pub fn get_header_hash_by_height(&self, height: u64) -> (r: Result<Hash, Error>) ensures r matches Ok(h) ==> h == sp_hash_at(height) { unimplemented!() }
}
/// ghost record of what happened in this unit of work
pub struct Batch { pub compacted_at: Ghost<Option<BlockHeader>>, pub removed_hist: Ghost<bool>, pub pos_index: Ghost<bool>, pub kernel_index: Ghost<bool>, pub committed: Ghost<bool> }
impl Batch {
    pub open spec fn fresh(&self) -> bool { self.compacted_at@ is None && !self.removed_hist@ && !self.pos_index@ && !self.kernel_index@ && !self.committed@ }
    #[verifier::external_body]
    pub fn head_header(&self) -> (r: Result<BlockHeader, Error>) ensures r matches Ok(h) ==> h == sp_body_head_header() { unimplemented!() }
    /// offered (not used by the pinned text): the head of the HEADER chain, which may be ahead of the bodies
    #[verifier::external_body]
    pub fn header_head(&self) -> (r: Result<Tip, Error>) ensures r matches Ok(t) ==> t == sp_header_head() { unimplemented!() }
    #[verifier::external_body]
    pub fn head(&self) -> (r: Result<Tip, Error>) ensures r matches Ok(t) ==> t.height == sp_body_head_header().height { unimplemented!() }
    #[verifier::external_body]
    pub fn get_block_header(&self, h: &Hash) -> (r: Result<BlockHeader, Error>) ensures r matches Ok(x) ==> x == sp_hdr(*h) { unimplemented!() }
    #[verifier::external_body]
    pub fn commit(self) -> (r: Result<(), Error>) ensures r is Ok ==> sp_committed(self) { unimplemented!() }
}
/// the batch that was committed (commit consumes it)
pub uninterp spec fn sp_committed(b: Batch) -> bool;
pub struct TxHashSet { pub _p: u8 }
impl TxHashSet {
    #[verifier::external_body]
    pub fn compact(&mut self, horizon_header: &BlockHeader, batch: &Batch) -> (r: Result<(), Error>) ensures r is Ok ==> sp_compacted(*horizon_header) { unimplemented!() }
    #[verifier::external_body]
    pub fn init_output_pos_index(&self, header_pmmr: &PMMRHandle, batch: &mut Batch) -> (r: Result<(), Error>)
        ensures final(batch).compacted_at == old(batch).compacted_at, final(batch).removed_hist == old(batch).removed_hist, final(batch).kernel_index == old(batch).kernel_index, final(batch).committed == old(batch).committed,
            r is Ok ==> final(batch).pos_index@ { unimplemented!() }
    #[verifier::external_body]
    pub fn init_recent_kernel_pos_index(&self, header_pmmr: &PMMRHandle, batch: &mut Batch) -> (r: Result<(), Error>)
        ensures final(batch).compacted_at == old(batch).compacted_at, final(batch).removed_hist == old(batch).removed_hist, final(batch).pos_index == old(batch).pos_index, final(batch).committed == old(batch).committed,
            r is Ok ==> final(batch).kernel_index@ { unimplemented!() }
}
/// TxHashSet::compact ran successfully with this horizon header
pub uninterp spec fn sp_compacted(h: BlockHeader) -> bool;
pub struct Store { pub _p: u8 }
impl Store {
    #[verifier::external_body]
    pub fn batch(&self) -> (r: Result<Batch, Error>) ensures r matches Ok(b) ==> b.fresh() { unimplemented!() }
}
pub struct Chain { pub store: Store, pub archive: bool }
pub open spec fn sat_sub(a: u64, b: u64) -> u64 { if a >= b { (a - b) as u64 } else { 0 } }
pub open spec fn sat_add(a: u64, b: u64) -> u64 { if a + b <= u64::MAX { (a + b) as u64 } else { u64::MAX } }
pub open spec fn sp_skip() -> bool {
    sp_tail() matches Ok(t) && sp_head() matches Ok(h) && sat_add(t.height, sat_add(sp_horizon() as u64, 60)) > h.height
}
impl Chain {
    #[verifier::external_body]
    pub fn tail(&self) -> (r: Result<Tip, Error>) ensures r == sp_tail() { unimplemented!() }
    #[verifier::external_body]
    pub fn head(&self) -> (r: Result<Tip, Error>) ensures r == sp_head() { unimplemented!() }
    #[verifier::external_body]
    pub fn txhashset_archive_header(&self) -> (r: Result<BlockHeader, Error>) { unimplemented!() }
    #[verifier::external_body]
    pub fn archive_mode(&self) -> (r: bool) ensures r == self.archive { unimplemented!() }
    #[verifier::external_body]
    pub fn header_pmmr_read(&self) -> (r: PMMRHandle) { unimplemented!() }
    #[verifier::external_body]
    pub fn txhashset_write(&self) -> (r: TxHashSet) { unimplemented!() }
    #[verifier::external_body]
    pub fn remove_historical_blocks(&self, header_pmmr: &PMMRHandle, archive_header: BlockHeader, batch: &mut Batch) -> (r: Result<(), Error>)
        ensures final(batch).compacted_at == old(batch).compacted_at, final(batch).pos_index == old(batch).pos_index, final(batch).kernel_index == old(batch).kernel_index, final(batch).committed == old(batch).committed,
            r is Ok ==> final(batch).removed_hist@ { unimplemented!() }
//@ extract chain/src/chain.rs :: impl Chain::compact
//@   strip_logs
//@   rewrite `self.header_pmmr.read()` => `self.header_pmmr_read()`
//@   rewrite `self.txhashset.write()` => `self.txhashset_write()`
//@   ensures:
//@+    r is Ok ==> sp_skip() || (
//@+        sp_compacted(sp_hdr(sp_hash_at(sat_sub(sp_body_head_header().height, sp_horizon() as u64))))
//@+        && exists|b: Batch| #[trigger] sp_committed(b) && b.pos_index@ && b.kernel_index@ && (!self.archive ==> b.removed_hist@)),
//@   before `batch.commit()?;`:
//@+    let ghost committed_batch = batch;
//@ end
}
//@ canary compact: r is Err
