//@ assume: LeafSet (C02/leaf_set), PruneList (C08/prune_list) and the two flat files are abstract. ASSUMED about the prune list (what C08/prune_list proves about the real code, restated over uninterpreted functions): get_shift(p) is the number of positions compacted away at or before p (the non-root nodes of the pruned subtrees whose root is <= p), get_leaf_shift(p) the number of leaf DATA records compacted away likewise, get_total_shift / get_total_leaf_shift the totals; ASSUMED store invariant (precondition; pruned subtrees are disjoint and lie wholly before the position): get_shift(p) <= p, and for a leaf that is not compacted get_leaf_shift(1 + p) < n_leaves(p + 1); pmmr::is_leaf / n_leaves / insertion_to_pmmr_index are proved in C07/pmmr_arith and uninterpreted here
//@ assume: T5: generic `PMMRBackend<T>` / `T::E` / `&T` => one abstract element type, `impl Backend for PMMRBackend` => inherent; T6: `data.as_elmt()` => elem_of(data); `.map_err(|e| format!(..))?` => `.map_err_s()?` on the abstract io result (the message is dropped); `"..".into()` => msg()
//@ assume: decided here (C08, 'the data and hash of every unspent leaf stay readable and unchanged'): the POSITION TRANSLATION of the compacted files. PMMRBackend::get_from_file(p) reads hash-file slot 1 + p - (positions compacted away before p) and answers None for a compacted position; get_peak_from_file reads the same slot without the compacted test; get_data_from_file(p) answers only for a leaf that is not compacted, from data-file slot n_leaves(p + 1) - (leaf records compacted away before it); unpruned_size is the hash-file size plus everything compacted away; append writes the element and ALL the given hashes and, on a prunable back end, adds to the leaf set exactly the position of the leaf just written: insertion_to_pmmr_index(data size after the append + total leaf shift - 1); append_pruned_subtree is refused on a non-prunable back end and otherwise appends exactly the given hash and records exactly the given position as pruned; append_hash appends exactly the given hash
//@ assumed_items: 24
//@ fns: PMMRBackend::get_from_file, PMMRBackend::get_peak_from_file, PMMRBackend::get_data_from_file, PMMRBackend::unpruned_size, PMMRBackend::hash_size, PMMRBackend::data_size, PMMRBackend::append, PMMRBackend::append_pruned_subtree, PMMRBackend::append_hash, PMMRBackend::remove_from_leaf_set
#[derive(Clone, Copy, PartialEq, Eq)]
pub struct Hash { pub v: u64 }
#[derive(Clone, Copy, PartialEq, Eq)]
pub struct Elem { pub v: u64 }
#[verifier::external_body]
pub struct Item { _p: u8 }
pub uninterp spec fn sp_elem_of(d: &Item) -> Elem;
#[verifier::external_body]
pub fn elem_of(d: &Item) -> (r: Elem) ensures r == sp_elem_of(d) { unimplemented!() }
#[verifier::external_body]
pub fn msg() -> String { unimplemented!() }
pub uninterp spec fn sp_is_leaf(pos0: u64) -> bool;
pub uninterp spec fn sp_n_leaves(size: u64) -> u64;
pub uninterp spec fn sp_ins_to_pos(idx: u64) -> u64;
pub mod pmmr { use super::*;
    #[verifier::external_body]
    pub fn is_leaf(pos0: u64) -> (r: bool) ensures r == sp_is_leaf(pos0) { unimplemented!() }
    #[verifier::external_body]
    pub fn n_leaves(size: u64) -> (r: u64) ensures r == sp_n_leaves(size) { unimplemented!() }
    #[verifier::external_body]
    pub fn insertion_to_pmmr_index(idx: u64) -> (r: u64) ensures r == sp_ins_to_pos(idx) { unimplemented!() } }
pub struct LeafSet { pub s: Ghost<Set<u64>> }
impl LeafSet {
    #[verifier::external_body]
    pub fn includes(&self, pos0: u64) -> (r: bool) ensures r == self.s@.contains(pos0) { unimplemented!() }
    #[verifier::external_body]
    pub fn add(&mut self, pos0: u64) ensures final(self).s@ == old(self).s@.insert(pos0) { unimplemented!() }
    #[verifier::external_body]
    pub fn remove(&mut self, pos0: u64) ensures final(self).s@ == old(self).s@.remove(pos0) { unimplemented!() }
}
pub struct PruneList { pub roots: Ghost<Seq<u64>> }
pub uninterp spec fn sp_shift(pl: PruneList, pos0: u64) -> u64;
pub uninterp spec fn sp_leaf_shift(pl: PruneList, pos0: u64) -> u64;
pub uninterp spec fn sp_total_shift(pl: PruneList) -> u64;
pub uninterp spec fn sp_total_leaf_shift(pl: PruneList) -> u64;
pub uninterp spec fn sp_pruned(pl: PruneList, pos0: u64) -> bool;
pub uninterp spec fn sp_pruned_root(pl: PruneList, pos0: u64) -> bool;
impl PruneList {
    #[verifier::external_body]
    pub fn get_shift(&self, pos0: u64) -> (r: u64) ensures r == sp_shift(*self, pos0) { unimplemented!() }
    #[verifier::external_body]
    pub fn get_leaf_shift(&self, pos0: u64) -> (r: u64) ensures r == sp_leaf_shift(*self, pos0) { unimplemented!() }
    #[verifier::external_body]
    pub fn get_total_shift(&self) -> (r: u64) ensures r == sp_total_shift(*self) { unimplemented!() }
    #[verifier::external_body]
    pub fn get_total_leaf_shift(&self) -> (r: u64) ensures r == sp_total_leaf_shift(*self) { unimplemented!() }
    #[verifier::external_body]
    pub fn is_pruned(&self, pos0: u64) -> (r: bool) ensures r == sp_pruned(*self, pos0) { unimplemented!() }
    #[verifier::external_body]
    pub fn is_pruned_root(&self, pos0: u64) -> (r: bool) ensures r == sp_pruned_root(*self, pos0) { unimplemented!() }
    /// PruneList::append (recursive sibling merge): decided only as 'records pos0'
    #[verifier::external_body]
    pub fn append(&mut self, pos0: u64) ensures final(self).roots@ == old(self).roots@.push(pos0) { unimplemented!() }
}
pub enum IoRes<T> { Ok(T), Err }
impl<T> IoRes<T> {
    #[verifier::external_body]
    pub fn map_err_s(self) -> (r: Result<T, String>) ensures (self matches IoRes::Ok(v) ==> r == Ok::<T, String>(v)), (self is Err ==> r is Err) { unimplemented!() }
}
/// hash file: 1-based slots
pub struct HashFile { pub slots: Ghost<Seq<Hash>> }
impl HashFile {
    pub open spec fn at(&self, slot: u64) -> Option<Hash> { if 1 <= slot <= self.slots@.len() { Some(self.slots@[slot - 1]) } else { None } }
    #[verifier::external_body]
    pub fn read(&self, slot: u64) -> (r: Option<Hash>) ensures r == self.at(slot) { unimplemented!() }
    #[verifier::external_body]
    pub fn size(&self) -> (r: u64) ensures r == self.slots@.len() { unimplemented!() }
    #[verifier::external_body]
    pub fn append(&mut self, h: &Hash) -> (r: IoRes<u64>) ensures r is Ok ==> final(self).slots@ == old(self).slots@.push(*h), r is Err ==> final(self).slots@ == old(self).slots@ { unimplemented!() }
    #[verifier::external_body]
    pub fn extend_from_slice(&mut self, hs: &[Hash]) -> (r: IoRes<u64>) ensures r is Ok ==> final(self).slots@ == old(self).slots@ + hs@, r is Err ==> final(self).slots@ == old(self).slots@ { unimplemented!() }
}
pub struct DataFile { pub slots: Ghost<Seq<Elem>> }
impl DataFile {
    pub open spec fn at(&self, slot: u64) -> Option<Elem> { if 1 <= slot <= self.slots@.len() { Some(self.slots@[slot - 1]) } else { None } }
    #[verifier::external_body]
    pub fn read(&self, slot: u64) -> (r: Option<Elem>) ensures r == self.at(slot) { unimplemented!() }
    #[verifier::external_body]
    pub fn size(&self) -> (r: u64) ensures r == self.slots@.len() { unimplemented!() }
    /// returns the size after the append
    #[verifier::external_body]
    pub fn append(&mut self, e: &Elem) -> (r: IoRes<u64>) ensures r matches IoRes::Ok(n) ==> final(self).slots@ == old(self).slots@.push(*e) && n == old(self).slots@.len() + 1, r is Err ==> final(self).slots@ == old(self).slots@ { unimplemented!() }
}
pub struct PMMRBackend { pub prunable: bool, pub hash_file: HashFile, pub data_file: DataFile, pub leaf_set: LeafSet, pub prune_list: PruneList }
pub open spec fn sp_compacted(b: PMMRBackend, pos0: u64) -> bool { !b.leaf_set.s@.contains(pos0) && !sp_pruned_root(b.prune_list, pos0) && sp_pruned(b.prune_list, pos0) }
impl PMMRBackend {
//@ extract store/src/pmmr.rs :: impl PMMRBackend::is_pruned
//@   ensures:
//@+    r == sp_pruned(self.prune_list, pos0),
//@ end
//@ extract store/src/pmmr.rs :: impl PMMRBackend::is_pruned_root
//@   ensures:
//@+    r == sp_pruned_root(self.prune_list, pos0),
//@ end
//@ extract store/src/pmmr.rs :: impl PMMRBackend::is_compacted
//@   ensures:
//@+    r == sp_compacted(*self, pos0),
//@ end
//@ extract store/src/pmmr.rs :: impl PMMRBackend::hash_size
//@   ensures:
//@+    r == self.hash_file.slots@.len(),
//@ end
//@ extract store/src/pmmr.rs :: impl PMMRBackend::data_size
//@   ensures:
//@+    r == self.data_file.slots@.len(),
//@ end
//@ extract store/src/pmmr.rs :: impl PMMRBackend::unpruned_size
//@   requires:
//@+    self.hash_file.slots@.len() + sp_total_shift(self.prune_list) <= u64::MAX,
//@   ensures:
//@+    r == self.hash_file.slots@.len() + sp_total_shift(self.prune_list),
//@ end
//@ extract store/src/pmmr.rs :: impl Backend for PMMRBackend::get_from_file
//@   requires:
//@+    pos0 < u64::MAX, sp_shift(self.prune_list, pos0) <= pos0,
//@   ensures:
//@+    sp_compacted(*self, pos0) ==> r is None,
//@+    !sp_compacted(*self, pos0) ==> r == self.hash_file.at((1 + pos0 - sp_shift(self.prune_list, pos0)) as u64),
//@ end
//@ extract store/src/pmmr.rs :: impl Backend for PMMRBackend::get_peak_from_file
//@   requires:
//@+    pos0 < u64::MAX, sp_shift(self.prune_list, pos0) <= pos0,
//@   ensures:
//@+    r == self.hash_file.at((1 + pos0 - sp_shift(self.prune_list, pos0)) as u64),
//@ end
//@ extract store/src/pmmr.rs :: impl Backend for PMMRBackend::get_data_from_file
//@   sigrewrite `fn get_data_from_file(&self, pos0: u64) -> Option<T::E>` => `fn get_data_from_file(&self, pos0: u64) -> Option<Elem>`
//@   requires:
//@+    pos0 < u64::MAX,
//@+    sp_is_leaf(pos0) && !sp_compacted(*self, pos0) ==> sp_leaf_shift(self.prune_list, (1 + pos0) as u64) < sp_n_leaves((pos0 + 1) as u64),
//@   ensures:
//@+    !sp_is_leaf(pos0) || sp_compacted(*self, pos0) ==> r is None,
//@+    sp_is_leaf(pos0) && !sp_compacted(*self, pos0) ==> r == self.data_file.at((sp_n_leaves((pos0 + 1) as u64) - sp_leaf_shift(self.prune_list, (1 + pos0) as u64)) as u64),
//@ end
//@ extract store/src/pmmr.rs :: impl Backend for PMMRBackend::append
//@   sigrewrite `fn append(&mut self, data: &T, hashes: &[Hash]) -> Result<(), String>` => `fn append(&mut self, data: &Item, hashes: &[Hash]) -> Result<(), String>`
//@   rewrite `.append(&data.as_elmt())` => `.append(&elem_of(data))`
//@   rewrite `.map_err(|e| format!("Failed to append data to file. {}", e))?;` => `.map_err_s()?;`
//@   rewrite `.map_err(|e| format!("Failed to append hash to file. {}", e))?;` => `.map_err_s()?;`
//@   requires:
//@+    old(self).data_file.slots@.len() + 1 + sp_total_leaf_shift(old(self).prune_list) <= u64::MAX,
//@   ensures:
//@+    final(self).prune_list == old(self).prune_list, final(self).prunable == old(self).prunable,
//@+    r is Ok ==> final(self).data_file.slots@ == old(self).data_file.slots@.push(sp_elem_of(data))
//@+        && final(self).hash_file.slots@ == old(self).hash_file.slots@ + hashes@
//@+        && (old(self).prunable ==> final(self).leaf_set.s@ == old(self).leaf_set.s@.insert(sp_ins_to_pos((old(self).data_file.slots@.len() + sp_total_leaf_shift(old(self).prune_list)) as u64)))
//@+        && (!old(self).prunable ==> final(self).leaf_set.s@ == old(self).leaf_set.s@),
//@+    r is Err ==> final(self).leaf_set.s@ == old(self).leaf_set.s@,
//@ end
//@ extract store/src/pmmr.rs :: impl Backend for PMMRBackend::append_pruned_subtree
//@   rewrite `return Err("Not prunable, cannot append pruned subtree.".into());` => `return Err(msg());`
//@   rewrite `.map_err(|e| format!("Failed to append subtree hash to file. {}", e))?;` => `.map_err_s()?;`
//@   ensures:
//@+    !old(self).prunable ==> r is Err && *final(self) == *old(self),
//@+    r is Ok ==> final(self).hash_file.slots@ == old(self).hash_file.slots@.push(hash) && final(self).prune_list.roots@ == old(self).prune_list.roots@.push(pos0)
//@+        && final(self).leaf_set == old(self).leaf_set && final(self).data_file == old(self).data_file,
//@+    r is Err ==> final(self).prune_list == old(self).prune_list && final(self).hash_file.slots@ == old(self).hash_file.slots@,
//@ end
//@ extract store/src/pmmr.rs :: impl Backend for PMMRBackend::append_hash
//@   rewrite `.map_err(|e| format!("Failed to append hash to file. {}", e))?;` => `.map_err_s()?;`
//@   ensures:
//@+    r is Ok ==> final(self).hash_file.slots@ == old(self).hash_file.slots@.push(hash),
//@+    final(self).prune_list == old(self).prune_list && final(self).leaf_set == old(self).leaf_set && final(self).data_file == old(self).data_file,
//@ end
//@ extract store/src/pmmr.rs :: impl Backend for PMMRBackend::remove_from_leaf_set
//@   ensures:
//@+    final(self).leaf_set.s@ == old(self).leaf_set.s@.remove(pos0),
//@+    final(self).prune_list == old(self).prune_list && final(self).hash_file == old(self).hash_file && final(self).data_file == old(self).data_file,
//@ end
}
//@ canary get_from_file: r is None
//@ canary get_data_from_file: r is None
//@ canary append: r is Err
