//@ assume: LeafSet / DataFile / PruneList / croaring::Bitmap are abstract: LeafSet::rewind(cutoff, rm) == (old restricted to <= cutoff) UNION rm (PROVED on the real code in C02/leaf_set); DataFile::rewind(pos) moves the file's logical end (C06/append_only_file); PruneList::get_shift / get_leaf_shift are the prefix sums PROVED in C08/prune_list; pmmr::n_leaves is proved in C07/pmmr_arith; Bitmap offers clone and remove_range (a sub-bitmap) so that a variant which filters the add-back set is decided. The shifts never exceed the positions they apply to (`fits`: precondition; true for a well-formed prune list since compacted subtrees lie below the position).
//@ assume: T5: `impl<T: PMMRable> Backend<T> for PMMRBackend<T>` => inherent method of the abstract back end
//@ assume: decided here (C02 / C08, rewinding an MMR back end during a reorganisation): PMMRBackend::rewind(position, rewind_rm_pos) on a prunable back end rewinds the leaf set with EXACTLY the given add-back positions -- every output spent by the blocks being undone is unspent again, including one sitting on the very position rewound to -- and moves the hash file to position - shift(position - 1) and the data file to n_leaves(position) - leaf_shift(position); a non-prunable back end leaves the leaf set alone.
//@ assumed_items: 9
//@ fns: PMMRBackend::rewind
#[verifier::external_body]
pub struct Bitmap { _p: u8 }
pub uninterp spec fn sp_bits(b: Bitmap) -> Set<int>;
impl Bitmap {
    #[verifier::external_body]
    pub fn clone(&self) -> (r: Bitmap) ensures sp_bits(r) == sp_bits(*self) { unimplemented!() }
    /// removes SOME elements (whatever range is given)
    #[verifier::external_body]
    pub fn remove_range<R>(&mut self, r: R) ensures sp_bits(*final(self)).subset_of(sp_bits(*old(self))) { unimplemented!() }
}
pub struct LeafSet { pub bits: Ghost<Set<int>> }
pub open spec fn sp_ls_rewound(old: Set<int>, cutoff: u64, rm: Set<int>) -> Set<int> { old.filter(|p: int| p <= cutoff as int).union(rm) }
impl LeafSet {
    #[verifier::external_body]
    pub fn rewind(&mut self, cutoff_pos: u64, rewind_rm_pos: &Bitmap) ensures final(self).bits@ == sp_ls_rewound(old(self).bits@, cutoff_pos, sp_bits(*rewind_rm_pos)) { unimplemented!() }
}
pub struct DataFile { pub end: Ghost<int> }
impl DataFile {
    #[verifier::external_body]
    pub fn rewind(&mut self, pos: u64) ensures final(self).end@ == pos as int { unimplemented!() }
}
pub uninterp spec fn sp_shift(p: PruneList, pos0: u64) -> u64;
pub uninterp spec fn sp_leaf_shift(p: PruneList, pos0: u64) -> u64;
pub uninterp spec fn sp_n_leaves(size: u64) -> u64;
pub struct PruneList { pub _p: u8 }
impl PruneList {
    #[verifier::external_body]
    pub fn get_shift(&self, pos0: u64) -> (r: u64) ensures r == sp_shift(*self, pos0) { unimplemented!() }
    #[verifier::external_body]
    pub fn get_leaf_shift(&self, pos0: u64) -> (r: u64) ensures r == sp_leaf_shift(*self, pos0) { unimplemented!() }
}
pub mod pmmr {
    use super::*;
    #[verifier::external_body]
    pub fn n_leaves(size: u64) -> (r: u64) ensures r == sp_n_leaves(size) { unimplemented!() }
}
pub struct PMMRBackend { pub prunable: bool, pub leaf_set: LeafSet, pub hash_file: DataFile, pub data_file: DataFile, pub prune_list: PruneList }
impl PMMRBackend {
    /// offered (not used by the pinned text of rewind): the unpruned size says nothing about which leaves a rewind must restore
    #[verifier::external_body]
    pub fn unpruned_size(&self) -> (r: u64) { unimplemented!() }
//@ extract store/src/pmmr.rs :: impl Backend for PMMRBackend::rewind
//@   requires:
//@+    // the shifts never exceed what they are subtracted from
//@+    position > 0 ==> sp_shift(old(self).prune_list, (position - 1) as u64) <= position && sp_leaf_shift(old(self).prune_list, position) <= sp_n_leaves(position),
//@   ensures:
//@+    r.is_ok(),
//@+    old(self).prunable ==> final(self).leaf_set.bits@ == sp_ls_rewound(old(self).leaf_set.bits@, position, sp_bits(*rewind_rm_pos)),
//@+    !old(self).prunable ==> final(self).leaf_set == old(self).leaf_set,
//@+    final(self).hash_file.end@ == (if position == 0 { 0int } else { position - sp_shift(old(self).prune_list, (position - 1) as u64) }),
//@+    final(self).data_file.end@ == (if position == 0 { sp_n_leaves(0) as int } else { sp_n_leaves(position) - sp_leaf_shift(old(self).prune_list, position) }),
//@ end
}
//@ canary rewind: r.is_err()
