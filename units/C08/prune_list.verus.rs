//@ assume: croaring::Bitmap is an external type viewed as the strictly increasing sequence of its elements; assumed contracts: rank(x) = number of elements <= x, contains, maximum = last element, add of an element above the maximum appends, remove_range(lo..=max) truncates to the elements below lo
//@ assume: pmmr::bintree_postorder_height / bintree_leftmost are used through their contracts (height <= 63; proved against the explicit tree in C07/pmmr_arith); here the height is an uninterpreted function hgt(pos)
//@ assume: positions < 2^32 - 1 (`as u32` narrowing) and every partial shift sum fits in u64 -- stated as preconditions (`fits`), true for any MMR with < 2^32 nodes since pruned subtrees are disjoint
//@ assume: decided here: the prune-list representation invariant (caches = prefix sums of per-root contributions in position order, one entry per root) and what the shift lookups return; file rewriting during compaction, reopen and the chain-level statement are not decided (DESIGN 6 C08)
//@ assume: PruneList::flush: the disk content of the prune-list file is a ghost out-parameter (T6: `Tracked(disk)` added to flush and to save_via_temp_file, whose contract is assumed here and its step order decided in C09/save_via_temp_file); the writer closure is lifted and verified (T7); `serialize::<Portable>()` => serialize_portable(), a function of the elements; run_optimize keeps them; `if let Some(ref path) = self.path` => `if let Some(path) = &self.path`
//@ assume: 64-bit target
//@ assumed_items: 19
//@ fns: PruneList::build_shift_cache, PruneList::build_leaf_shift_cache, PruneList::init_caches, PruneList::get_shift, PruneList::get_leaf_shift, PruneList::flush (+ its writer closure), PruneList::discard, PruneList::get_total_shift, PruneList::get_total_leaf_shift, PruneList::calculate_next_shift, PruneList::calculate_next_leaf_shift, PruneList::append_single, PruneList::cleanup_subtree, PruneList::is_pruned_root, PruneList::is_pruned
//@ import: use vstd::arithmetic::power2::*;
//@ import: use vstd::bits::*;
global size_of usize == 8;

#[verifier::external_body]
pub struct ExtPath;
#[verifier::external_body]
pub struct Bitmap { _p: u8 }
pub struct RangeIncl { pub start: u32, pub end: u32 }

/// number of elements of s that are <= x
pub open spec fn rank_spec(s: Seq<int>, x: int) -> nat
    decreases s.len()
{
    if s.len() == 0 { 0 } else { rank_spec(s.drop_last(), x) + (if s.last() <= x { 1nat } else { 0nat }) }
}
pub open spec fn increasing(s: Seq<int>) -> bool {
    forall|i: int, j: int| 0 <= i < j < s.len() ==> s[i] < s[j]
}

/// the portable serialisation of a bitmap (a function of its elements)
pub uninterp spec fn sp_ser(s: Seq<int>) -> Seq<u8>;
pub struct IoError { pub k: u8 }
pub mod io { pub type Result<T> = std::result::Result<T, super::IoError>; }
/// the temp file handed to the writer closure: the bytes written to it so far
pub struct TmpFile { pub written: Ghost<Seq<u8>> }
impl TmpFile {
    #[verifier::external_body]
    pub fn write_all(&mut self, b: &Vec<u8>) -> (r: io::Result<()>)
        ensures r.is_ok() ==> final(self).written@ == old(self).written@ + b@
    { unimplemented!() }
}
/// what the prune-list file holds on disk (ghost out-parameter of flush)
pub tracked struct Disk { pub ghost content: Seq<u8> }
pub struct WriteBitmap<'a> { pub pl: &'a PruneList }
/// save_via_temp_file(path, ext, f): Ok means `path` now holds exactly what f wrote; Err leaves `path` as it was (step order: C09/save_via_temp_file)
#[verifier::external_body]
pub fn save_via_temp_file<'a>(path: &ExtPath, ext: &str, f: WriteBitmap<'a>, Tracked(disk): Tracked<&mut Disk>) -> (r: io::Result<()>)
    ensures r.is_ok() ==> final(disk).content == sp_ser(f.pl.bitmap.seq()), r.is_err() ==> final(disk).content == old(disk).content
{ unimplemented!() }
impl Bitmap {
    pub uninterp spec fn seq(&self) -> Seq<int>;
    pub open spec fn wf(&self) -> bool {
        increasing(self.seq()) && forall|i: int| 0 <= i < self.seq().len() ==> 1 <= #[trigger] self.seq()[i] <= 0xffff_ffff
    }
    #[verifier::external_body]
    pub fn clone(&self) -> (r: Bitmap) ensures r.seq() == self.seq() { unimplemented!() }
    /// stands in for `a != b` on bitmaps (T6)
    #[verifier::external_body]
    pub fn differs_from(&self, other: &Bitmap) -> (r: bool) ensures r == (self.seq() != other.seq()) { unimplemented!() }
    /// re-encodes the containers; the elements are unchanged
    #[verifier::external_body]
    pub fn run_optimize(&mut self) -> (r: bool)
        ensures final(self).seq() == old(self).seq()
    { unimplemented!() }
    /// stands in for `serialize::<Portable>()`
    #[verifier::external_body]
    pub fn serialize_portable(&self) -> (r: Vec<u8>)
        ensures r@ == sp_ser(self.seq())
    { unimplemented!() }
    #[verifier::external_body]
    pub fn rank(&self, x: u32) -> (r: u64)
        ensures r as nat == rank_spec(self.seq(), x as int), r <= self.seq().len()
    { unimplemented!() }
    #[verifier::external_body]
    pub fn contains(&self, x: u32) -> (r: bool)
        ensures r == self.seq().contains(x as int)
    { unimplemented!() }
    #[verifier::external_body]
    pub fn maximum(&self) -> (r: Option<u32>)
        ensures self.seq().len() == 0 ==> r.is_none(),
                self.seq().len() > 0 ==> r == Some(self.seq().last() as u32),
    { unimplemented!() }
    #[verifier::external_body]
    pub fn select(&self, idx: u32) -> (r: Option<u32>)
        ensures idx < self.seq().len() ==> r == Some(self.seq()[idx as int] as u32),
                idx >= self.seq().len() ==> r.is_none()
    { unimplemented!() }
    /// iteration over the bitmap (`for x in bitmap.iter()`): the elements in increasing order
    #[verifier::external_body]
    pub fn to_vec(&self) -> (r: Vec<u32>)
        ensures r@.len() == self.seq().len(), forall|i: int| 0 <= i < r@.len() ==> #[trigger] r@[i] as int == self.seq()[i]
    { unimplemented!() }
    #[verifier::external_body]
    pub fn add(&mut self, x: u32)
        requires old(self).seq().len() == 0 || old(self).seq().last() < x,
        ensures final(self).seq() == old(self).seq().push(x as int)
    { unimplemented!() }
    #[verifier::external_body]
    pub fn remove_range(&mut self, range: RangeIncl)
        requires old(self).seq().len() > 0 ==> old(self).seq().last() <= range.end,
        ensures final(self).seq() == old(self).seq().take(rank_spec(old(self).seq(), range.start - 1) as int)
    { unimplemented!() }
}

/// height of the node at a 0-based position: uninterpreted here, proved equal to the explicit
/// tree's height in C07/pmmr_arith
pub uninterp spec fn hgt(pos0: int) -> nat;
#[verifier::external_body]
pub fn bintree_postorder_height(pos0: u64) -> (r: u64)
    ensures r as nat == hgt(pos0 as int), r <= 63
{ unimplemented!() }
pub uninterp spec fn leftmost(pos0: int) -> int;
#[verifier::external_body]
pub fn bintree_leftmost(pos0: u64) -> (r: u64)
    ensures r as int == leftmost(pos0 as int), r <= pos0
{ unimplemented!() }

/// Rust's assert!: aborts when the condition is false, so execution continues only if it holds
#[verifier::external_body]
fn runtime_assert(b: bool)
    ensures b
{ assert!(b); }

pub struct URange { pub start: u64, pub end: u64 }
impl URange {
    pub fn contains(&self, x: &u64) -> (r: bool) ensures r == (self.start <= *x && *x < self.end) { self.start <= *x && *x < self.end }
}
/// pmmr::bintree_range(root) = [leftmost(root), root + 1): proved in C07/pmmr_arith
#[verifier::external_body]
pub fn bintree_range(pos0: u64) -> (r: URange)
    ensures r.start as int == leftmost(pos0 as int), r.end == pos0 + 1, r.start <= pos0
{ unimplemented!() }

fn min(a: usize, b: usize) -> (r: usize)
    ensures r == if a <= b { a } else { b }
{ if a <= b { a } else { b } }

/// nodes compacted away beneath a pruned root whose 1-based position is e: 2 * (2^h - 1)
pub open spec fn contrib(e: int) -> nat { (2 * (pow2(hgt(e - 1)) - 1)) as nat }
/// leaves compacted away beneath it: 2^h, or 0 for a pruned leaf (its sibling keeps the data slot)
pub open spec fn leaf_contrib(e: int) -> nat { if hgt(e - 1) == 0 { 0 } else { pow2(hgt(e - 1)) } }
pub open spec fn shift_sum(s: Seq<int>, n: int) -> nat
    decreases n
{ if n <= 0 { 0 } else { shift_sum(s, n - 1) + contrib(s[n - 1]) } }
pub open spec fn leaf_sum(s: Seq<int>, n: int) -> nat
    decreases n
{ if n <= 0 { 0 } else { leaf_sum(s, n - 1) + leaf_contrib(s[n - 1]) } }

//@ extract store/src/prune_list.rs :: struct PruneList
//@   rewrite `path: Option<PathBuf>,` => `path: Option<ExtPath>,`
//@   pub_fields
//@ end

proof fn lemma_rank_take(s: Seq<int>, x: int)
    requires increasing(s)
    ensures rank_spec(s, x) <= s.len(),
            forall|i: int| 0 <= i < rank_spec(s, x) ==> s[i] <= x,
            forall|i: int| rank_spec(s, x) <= i < s.len() ==> s[i] > x,
    decreases s.len()
{
    if s.len() > 0 {
        let t = s.drop_last();
        assert(increasing(t)) by {
            assert forall|i: int, j: int| 0 <= i < j < t.len() implies t[i] < t[j] by { assert(s[i] < s[j]); }
        }
        lemma_rank_take(t, x);
        assert forall|i: int| 0 <= i < t.len() implies t[i] == s[i] by { }
        if s.last() <= x {
            // all earlier elements are smaller, hence <= x: rank(t) == t.len()
            assert forall|i: int| 0 <= i < t.len() implies t[i] <= x by { assert(s[i] < s[s.len() - 1]); }
            assert(rank_spec(t, x) == t.len()) by {
                if rank_spec(t, x) < t.len() { assert(t[rank_spec(t, x) as int] > x); }
            }
            assert(rank_spec(s, x) == s.len());
            assert forall|i: int| 0 <= i < rank_spec(s, x) implies s[i] <= x by {
                if i < t.len() { assert(t[i] <= x); } else { assert(s[i] == s.last()); }
            }
        } else {
            assert(rank_spec(s, x) == rank_spec(t, x));
            assert forall|i: int| 0 <= i < rank_spec(s, x) implies s[i] <= x by { assert(t[i] <= x); }
            assert forall|i: int| rank_spec(s, x) <= i < s.len() implies s[i] > x by {
                if i < t.len() { assert(t[i] > x); } else { assert(s[i] == s.last()); }
            }
        }
    }
}

proof fn lemma_rank_all(s: Seq<int>)
    requires increasing(s), s.len() > 0
    ensures rank_spec(s, s.last()) == s.len()
{
    lemma_rank_take(s, s.last());
    let r = rank_spec(s, s.last()) as int;
    if r < s.len() { assert(s[r] > s.last()); if r < s.len() - 1 { assert(s[r] < s[s.len() - 1]); } }
}

proof fn lemma_sum_prefix(s: Seq<int>, t: Seq<int>, n: int)
    requires 0 <= n <= s.len(), n <= t.len(), forall|i: int| 0 <= i < n ==> s[i] == t[i]
    ensures shift_sum(s, n) == shift_sum(t, n), leaf_sum(s, n) == leaf_sum(t, n)
    decreases n
{ if n > 0 { lemma_sum_prefix(s, t, n - 1); } }

proof fn lemma_shl_bound(h: u64)
    requires h <= 63
    ensures (1u64 << h) as nat == pow2(h as nat), 1 <= (1u64 << h) <= 0x8000_0000_0000_0000u64
{
    lemma2_to64();
    lemma_pow2_pos(h as nat);
    if h < 63 { lemma_pow2_strictly_increases(h as nat, 63); }
    lemma_pow2_unfold(64);
    lemma_u64_shl_is_mul(1, h);
}

/// the rank of the i-th element minus one is i (elements before it), for a strictly increasing sequence
proof fn lemma_rank_before(s: Seq<int>, i: int)
    requires increasing(s), 0 <= i < s.len()
    ensures rank_spec(s, s[i] - 1) == i, rank_spec(s, s[i]) == i + 1
{
    lemma_rank_take(s, s[i] - 1);
    lemma_rank_take(s, s[i]);
    let r0 = rank_spec(s, s[i] - 1) as int;
    if r0 > i { assert(s[i] <= s[i] - 1); }
    if r0 < i { assert(s[r0] > s[i] - 1); assert(s[r0] < s[i]); }
    let r1 = rank_spec(s, s[i]) as int;
    if r1 > i + 1 { assert(s[i + 1] <= s[i]); assert(s[i] < s[i + 1]); }
    if r1 < i + 1 { assert(s[r1] > s[i]); if r1 < i { assert(s[r1] < s[i]); } }
}
proof fn lemma_sums_monotone(s: Seq<int>, a: int, b: int)
    requires 0 <= a <= b
    ensures shift_sum(s, a) <= shift_sum(s, b), leaf_sum(s, a) <= leaf_sum(s, b)
    decreases b - a
{ if a < b { lemma_sums_monotone(s, a, b - 1); } }

impl PruneList {
    /// the caches are valid prefix sums for as many roots as they cover
    pub open spec fn prefix_ok(&self) -> bool {
        &&& self.bitmap.wf()
        &&& self.shift_cache@.len() <= self.bitmap.seq().len()
        &&& self.leaf_shift_cache@.len() <= self.bitmap.seq().len()
        &&& forall|i: int| 0 <= i < self.shift_cache@.len() ==> #[trigger] self.shift_cache@[i] as nat == shift_sum(self.bitmap.seq(), i + 1)
        &&& forall|i: int| 0 <= i < self.leaf_shift_cache@.len() ==> #[trigger] self.leaf_shift_cache@[i] as nat == leaf_sum(self.bitmap.seq(), i + 1)
    }
    /// representation invariant: one cache entry per pruned root, in position order, each the
    /// prefix sum of the per-root contributions
    pub open spec fn well_formed(&self) -> bool {
        &&& self.prefix_ok()
        &&& self.shift_cache@.len() == self.bitmap.seq().len()
        &&& self.leaf_shift_cache@.len() == self.bitmap.seq().len()
    }
    pub open spec fn min_int(a: int, b: int) -> int { if a <= b { a } else { b } }

//@ extract store/src/prune_list.rs :: impl PruneList::is_pruned_root
//@   requires:
//@+    pos0 < 0xffff_ffffu64,
//@   ensures:
//@+    r == self.bitmap.seq().contains(pos0 + 1),
//@ end

//@ extract store/src/prune_list.rs :: impl PruneList::get_shift
//@   requires:
//@+    self.prefix_ok(), pos0 < 0xffff_ffffu64,
//@+    rank_spec(self.bitmap.seq(), pos0 + 1) > 0 ==> self.shift_cache@.len() > 0,
//@   ensures:
//@+    r as nat == shift_sum(self.bitmap.seq(), Self::min_int(rank_spec(self.bitmap.seq(), pos0 + 1) as int, self.shift_cache@.len() as int)),
//@ end

//@ extract store/src/prune_list.rs :: impl PruneList::get_leaf_shift
//@   requires:
//@+    self.prefix_ok(), pos0 < 0xffff_ffffu64,
//@+    rank_spec(self.bitmap.seq(), pos0 + 1) > 0 ==> self.leaf_shift_cache@.len() > 0,
//@   ensures:
//@+    r as nat == leaf_sum(self.bitmap.seq(), Self::min_int(rank_spec(self.bitmap.seq(), pos0 + 1) as int, self.leaf_shift_cache@.len() as int)),
//@ end

//@ extract store/src/prune_list.rs :: impl PruneList::calculate_next_shift
//@   requires:
//@+    self.prefix_ok(), pos0 < 0xffff_ffffu64,
//@+    rank_spec(self.bitmap.seq(), pos0 as int) <= self.shift_cache@.len(),
//@+    shift_sum(self.bitmap.seq(), rank_spec(self.bitmap.seq(), pos0 as int) as int) + contrib(pos0 + 1) <= u64::MAX,
//@   ensures:
//@+    r as nat == shift_sum(self.bitmap.seq(), rank_spec(self.bitmap.seq(), pos0 as int) as int)
//@+                + (if self.bitmap.seq().contains(pos0 + 1) { contrib(pos0 + 1) } else { 0 }),
//@   at_start:
//@+    proof { assert forall|h: u64| h <= 63 implies (1u64 << h) as nat == pow2(h as nat) && 1 <= #[trigger] (1u64 << h) <= 0x8000_0000_0000_0000u64 by { lemma_shl_bound(h); } }
//@+    proof { lemma_rank_take(self.bitmap.seq(), 0); if rank_spec(self.bitmap.seq(), 0) > 0 { assert(self.bitmap.seq()[0] <= 0); } }
//@ end

//@ extract store/src/prune_list.rs :: impl PruneList::calculate_next_leaf_shift
//@   requires:
//@+    self.prefix_ok(), pos0 < 0xffff_ffffu64,
//@+    rank_spec(self.bitmap.seq(), pos0 as int) <= self.leaf_shift_cache@.len(),
//@+    leaf_sum(self.bitmap.seq(), rank_spec(self.bitmap.seq(), pos0 as int) as int) + leaf_contrib(pos0 + 1) <= u64::MAX,
//@   ensures:
//@+    r as nat == leaf_sum(self.bitmap.seq(), rank_spec(self.bitmap.seq(), pos0 as int) as int)
//@+                + (if self.bitmap.seq().contains(pos0 + 1) { leaf_contrib(pos0 + 1) } else { 0 }),
//@   at_start:
//@+    proof { assert forall|h: u64| h <= 63 implies (1u64 << h) as nat == pow2(h as nat) && 1 <= #[trigger] (1u64 << h) <= 0x8000_0000_0000_0000u64 by { lemma_shl_bound(h); } }
//@+    proof { lemma_rank_take(self.bitmap.seq(), 0); if rank_spec(self.bitmap.seq(), 0) > 0 { assert(self.bitmap.seq()[0] <= 0); } }
//@ end

//@ extract store/src/prune_list.rs :: impl PruneList::get_total_shift
//@   requires:
//@+    self.well_formed(),
//@   ensures:
//@+    r as nat == shift_sum(self.bitmap.seq(), self.bitmap.seq().len() as int),
//@   at_start:
//@+    proof { if self.bitmap.seq().len() > 0 { lemma_rank_all(self.bitmap.seq()); } else { assert(rank_spec(self.bitmap.seq(), 1) == 0); } }
//@ end

//@ extract store/src/prune_list.rs :: impl PruneList::get_total_leaf_shift
//@   requires:
//@+    self.well_formed(),
//@   ensures:
//@+    r as nat == leaf_sum(self.bitmap.seq(), self.bitmap.seq().len() as int),
//@   at_start:
//@+    proof { if self.bitmap.seq().len() > 0 { lemma_rank_all(self.bitmap.seq()); } else { assert(rank_spec(self.bitmap.seq(), 1) == 0); } }
//@ end

//@ extract store/src/prune_list.rs :: impl PruneList::build_shift_cache
//@   rewrite `for pos1 in self.bitmap.iter() {` => `let bv = self.bitmap.to_vec(); for pos1x in it: bv.iter() { let pos1 = *pos1x;`
//@   requires:
//@+    old(self).prefix_ok(), old(self).bitmap.seq().len() < 0x1_0000_0000,
//@+    shift_sum(old(self).bitmap.seq(), old(self).bitmap.seq().len() as int) <= u64::MAX,
//@   ensures:
//@+    // rebuilding the cache from the bitmap (done on every reopen, and by discard) gives the SAME representation invariant the incremental path maintains -- from ANY state whose caches are valid prefixes (in particular empty ones)
//@+    final(self).prefix_ok(), final(self).shift_cache@.len() == final(self).bitmap.seq().len(), final(self).bitmap == old(self).bitmap, final(self).bitmap_bak == old(self).bitmap_bak, final(self).leaf_shift_cache == old(self).leaf_shift_cache,
//@   at_start:
//@+    proof { assert forall|h: u64| h <= 63 implies (1u64 << h) as nat == pow2(h as nat) && 1 <= #[trigger] (1u64 << h) <= 0x8000_0000_0000_0000u64 by { lemma_shl_bound(h); } }
//@   loop 1:
//@+    invariant
//@+        self.bitmap == old(self).bitmap, self.bitmap_bak == old(self).bitmap_bak, self.leaf_shift_cache == old(self).leaf_shift_cache, self.prefix_ok(),
//@+        bv@.len() == self.bitmap.seq().len(), forall|i: int| 0 <= i < bv@.len() ==> #[trigger] bv@[i] as int == self.bitmap.seq()[i],
//@+        self.shift_cache@.len() == it.index@,
//@+        self.bitmap.seq().len() < 0x1_0000_0000, shift_sum(self.bitmap.seq(), self.bitmap.seq().len() as int) <= u64::MAX,
//@+        forall|h: u64| h <= 63 ==> (1u64 << h) as nat == pow2(h as nat) && 1 <= #[trigger] (1u64 << h) <= 0x8000_0000_0000_0000u64,
//@   after `let pos1 = *pos1x;`:
//@+    proof {
//@+        let sq = self.bitmap.seq(); let i = it.index@ as int;
//@+        assert(pos1 as int == sq[i]);
//@+        lemma_rank_before(sq, i);
//@+        lemma_sums_monotone(sq, i + 1, sq.len() as int);
//@+        lemma_sums_monotone(sq, i, i + 1);
//@+        assert(sq.contains(sq[i]));
//@+    }
//@ end

//@ extract store/src/prune_list.rs :: impl PruneList::build_leaf_shift_cache
//@   rewrite `for pos1 in self.bitmap.iter() {` => `let bv = self.bitmap.to_vec(); for pos1x in it: bv.iter() { let pos1 = *pos1x;` x?
//@   requires:
//@+    old(self).prefix_ok(), old(self).shift_cache@.len() == old(self).bitmap.seq().len(), old(self).bitmap.seq().len() < 0x1_0000_0000,
//@+    leaf_sum(old(self).bitmap.seq(), old(self).bitmap.seq().len() as int) <= u64::MAX,
//@   ensures:
//@+    final(self).well_formed(), final(self).bitmap == old(self).bitmap, final(self).bitmap_bak == old(self).bitmap_bak, final(self).shift_cache == old(self).shift_cache,
//@   at_start:
//@+    proof { assert forall|h: u64| h <= 63 implies (1u64 << h) as nat == pow2(h as nat) && 1 <= #[trigger] (1u64 << h) <= 0x8000_0000_0000_0000u64 by { lemma_shl_bound(h); } }
//@   loop 1?:
//@+    invariant
//@+        self.bitmap == old(self).bitmap, self.bitmap_bak == old(self).bitmap_bak, self.shift_cache == old(self).shift_cache, self.prefix_ok(),
//@+        self.shift_cache@.len() == self.bitmap.seq().len(),
//@+        bv@.len() == self.bitmap.seq().len(), forall|i: int| 0 <= i < bv@.len() ==> #[trigger] bv@[i] as int == self.bitmap.seq()[i],
//@+        self.leaf_shift_cache@.len() == it.index@,
//@+        self.bitmap.seq().len() < 0x1_0000_0000, leaf_sum(self.bitmap.seq(), self.bitmap.seq().len() as int) <= u64::MAX,
//@+        forall|h: u64| h <= 63 ==> (1u64 << h) as nat == pow2(h as nat) && 1 <= #[trigger] (1u64 << h) <= 0x8000_0000_0000_0000u64,
//@   after? `let pos1 = *pos1x;`:
//@+    proof {
//@+        let sq = self.bitmap.seq(); let i = it.index@ as int;
//@+        assert(pos1 as int == sq[i]);
//@+        lemma_rank_before(sq, i);
//@+        lemma_sums_monotone(sq, i + 1, sq.len() as int);
//@+        lemma_sums_monotone(sq, i, i + 1);
//@+        assert(sq.contains(sq[i]));
//@+    }
//@ end

//@ extract store/src/prune_list.rs :: impl PruneList::init_caches
//@   requires:
//@+    old(self).prefix_ok(), old(self).bitmap.seq().len() < 0x1_0000_0000,
//@+    shift_sum(old(self).bitmap.seq(), old(self).bitmap.seq().len() as int) <= u64::MAX, leaf_sum(old(self).bitmap.seq(), old(self).bitmap.seq().len() as int) <= u64::MAX,
//@   ensures:
//@+    final(self).well_formed(), final(self).bitmap == old(self).bitmap, final(self).bitmap_bak == old(self).bitmap_bak,
//@ end

//@ extract store/src/prune_list.rs :: impl PruneList::append_single
//@   rewrite `assert!(\n\t\t\tpos0 >= self.bitmap.maximum().unwrap_or(0) as u64,\n\t\t\t"prune list append only"\n\t\t);` => `runtime_assert(pos0 >= self.bitmap.maximum().unwrap_or(0) as u64);`
//@   rewrite `self.shift_cache.push(self.calculate_next_shift(pos0));` => `let next_shift = self.calculate_next_shift(pos0);\n\t\tself.shift_cache.push(next_shift);`
//@   rewrite `self.leaf_shift_cache\n\t\t\t.push(self.calculate_next_leaf_shift(pos0));` => `let next_leaf_shift = self.calculate_next_leaf_shift(pos0);\n\t\tself.leaf_shift_cache.push(next_leaf_shift);`
//@   requires:
//@+    old(self).well_formed(), pos0 < 0xffff_ffffu64,
//@+    shift_sum(old(self).bitmap.seq(), old(self).bitmap.seq().len() as int) + contrib(pos0 + 1) <= u64::MAX,
//@+    leaf_sum(old(self).bitmap.seq(), old(self).bitmap.seq().len() as int) + leaf_contrib(pos0 + 1) <= u64::MAX,
//@   ensures:
//@+    final(self).well_formed(),
//@+    final(self).bitmap.seq() == old(self).bitmap.seq().push(pos0 + 1),
//@   after `self.bitmap.add(1 + pos0 as u32);`:
//@+    proof {
//@+        let s0 = old(self).bitmap.seq();
//@+        let s1 = self.bitmap.seq();
//@+        let n = s0.len() as int;
//@+        assert(s1.len() == n + 1 && s1[n] == pos0 + 1);
//@+        assert forall|i: int| 0 <= i < n implies s1[i] == s0[i] by { }
//@+        assert(increasing(s1)) by {
//@+            assert forall|i: int, j: int| 0 <= i < j < s1.len() implies s1[i] < s1[j] by {
//@+                if j < n { assert(s0[i] < s0[j]); } else { if n > 0 && i < n - 1 { assert(s0[i] < s0[n - 1]); } }
//@+            }
//@+        }
//@+        lemma_rank_take(s1, pos0 as int);
//@+        assert(rank_spec(s1, pos0 as int) == n) by {
//@+            let r = rank_spec(s1, pos0 as int) as int;
//@+            if r > n { assert(s1[n] <= pos0); }
//@+            if r < n { assert(s1[r] > pos0); assert(s0[r] < s0[n - 1] || r == n - 1); }
//@+        }
//@+        assert forall|i: int| 0 <= i <= n implies shift_sum(s1, i) == shift_sum(s0, i) && leaf_sum(s1, i) == leaf_sum(s0, i) by { lemma_sum_prefix(s1, s0, i); }
//@+        assert(s1.contains(pos0 + 1)) by { assert(s1[n] == pos0 + 1); }
//@+    }
//@ end

//@ extract store/src/prune_list.rs :: impl PruneList::cleanup_subtree
//@   rewrite `let cleanup_pos1 = (lc0 + 1)..=size;` => `let cleanup_pos1 = RangeIncl { start: (lc0 + 1), end: size };`
//@   requires:
//@+    old(self).well_formed(), pos0 < 0xffff_ffffu64,
//@   ensures:
//@+    final(self).well_formed(),
//@+    final(self).bitmap.seq() == old(self).bitmap.seq().take(rank_spec(old(self).bitmap.seq(), leftmost(pos0 as int)) as int),
//@   at_start:
//@+    proof {
//@+        let s0 = self.bitmap.seq();
//@+        let k = rank_spec(s0, leftmost(pos0 as int)) as int;
//@+        lemma_rank_take(s0, leftmost(pos0 as int));
//@+        if s0.len() > 0 && leftmost(pos0 as int) >= s0.last() {
//@+            assert(k == s0.len()) by { if k < s0.len() { assert(s0[k] > leftmost(pos0 as int)); if k < s0.len() - 1 { assert(s0[k] < s0[s0.len() - 1]); } } }
//@+            assert(s0.take(k) =~= s0);
//@+        }
//@+        if s0.len() == 0 { assert(s0.take(k) =~= s0); }
//@+        let t = s0.take(k);
//@+        assert(increasing(t)) by { assert forall|i: int, j: int| 0 <= i < j < t.len() implies t[i] < t[j] by { assert(s0[i] < s0[j]); } }
//@+        assert forall|i: int| 0 <= i <= k implies shift_sum(t, i) == shift_sum(s0, i) && leaf_sum(t, i) == leaf_sum(s0, i) by { lemma_sum_prefix(t, s0, i); }
//@+    }
//@ end

//@ extract store/src/prune_list.rs :: impl PruneList::is_pruned
//@   rewrite `pmmr::bintree_range(` => `bintree_range(`
//@   requires:
//@+    self.bitmap.wf(), pos0 < 0xffff_fffeu64, self.bitmap.seq().len() < 0x1_0000_0000,
//@   ensures:
//@+    r == (self.bitmap.seq().contains(pos0 + 1)
//@+          || ({ let k = rank_spec(self.bitmap.seq(), pos0 + 1) as int;
//@+                k < self.bitmap.seq().len() && leftmost(self.bitmap.seq()[k] - 1) <= pos0 && pos0 <= self.bitmap.seq()[k] - 1 })),
//@ end
//@ extract store/src/prune_list.rs :: impl PruneList::flush
//@   closure 1 lifted_as `fn write_bitmap(&self, file: &mut TmpFile) -> io::Result<()>`
//@   rewrite `self.bitmap.serialize::<Portable>()` => `self.bitmap.serialize_portable()`
//@   ensures:
//@+    r.is_ok() ==> final(file).written@ == old(file).written@ + sp_ser(self.bitmap.seq()),
//@ end
//@ extract store/src/prune_list.rs :: impl PruneList::flush
//@   sigrewrite `pub fn flush(&mut self)` => `pub fn flush(&mut self, Tracked(disk): Tracked<&mut Disk>)`
//@   closure 1 replaced_by `WriteBitmap { pl: &*self }, Tracked(disk)`
//@   rewrite `if let Some(ref path) = self.path {` => `if let Some(path) = &self.path {`
//@   ensures:
//@+    // Ok with a path: the file holds the CURRENT prune list; the list itself and its caches are untouched
//@+    r.is_ok() && old(self).path is Some ==> final(disk).content == sp_ser(old(self).bitmap.seq()),
//@+    r.is_err() || old(self).path is None ==> final(disk).content == old(disk).content,
//@+    final(self).bitmap.seq() == old(self).bitmap.seq(), final(self).shift_cache == old(self).shift_cache, final(self).leaf_shift_cache == old(self).leaf_shift_cache,
//@+    // after a successful flush the in-memory backup (what discard() goes back to) is the flushed list
//@+    r.is_ok() ==> final(self).bitmap_bak.seq() == old(self).bitmap.seq(), r.is_err() ==> final(self).bitmap_bak.seq() == old(self).bitmap_bak.seq(),
//@ end
//@ extract store/src/prune_list.rs :: impl PruneList::discard
//@   rewrite `self.bitmap != self.bitmap_bak` => `self.bitmap.differs_from(&self.bitmap_bak)`
//@   requires:
//@+    old(self).bitmap_bak.wf(), old(self).bitmap_bak.seq().len() < 0x1_0000_0000,
//@+    shift_sum(old(self).bitmap_bak.seq(), old(self).bitmap_bak.seq().len() as int) <= u64::MAX, leaf_sum(old(self).bitmap_bak.seq(), old(self).bitmap_bak.seq().len() as int) <= u64::MAX,
//@+    // the caches are in step with the list whenever the list is the flushed one
//@+    old(self).bitmap.seq() == old(self).bitmap_bak.seq() ==> old(self).well_formed(),
//@   ensures:
//@+    // the list is the last flushed one again and the caches are rebuilt for it
//@+    final(self).bitmap.seq() == old(self).bitmap_bak.seq(), final(self).bitmap_bak.seq() == old(self).bitmap_bak.seq(), final(self).well_formed(),
//@ end
}
//@ canary get_shift: r == 0
//@ canary cleanup_subtree: final(self).shift_cache@.len() == 0
//@ canary append_single: final(self).shift_cache@.len() == old(self).shift_cache@.len()
