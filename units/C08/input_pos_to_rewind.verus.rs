//@ assume: Batch (LMDB) is abstract: get_previous_header returns the stored parent, whose height is one less (store invariant, assumed); get_block_input_bitmap returns the block's cached input bitmap or an error (treated as empty, as the code does); croaring::Bitmap is viewed as a set with assumed new/or_inplace contracts
//@ assume: decided here, UNBOUNDED in the number of blocks rewound: the positions 'un-spent' by a rewind from head to a target header are exactly the union of the input bitmaps of the blocks head, parent(head), ... down to but excluding the target height -- the head block's own inputs included, the target block's excluded. What is then done with that bitmap (LeafSet::rewind, compaction protection) is covered by C02/leaf_set; reorg histories are not decided.
//@ assumed_items: 8
//@ fns: txhashset::input_pos_to_rewind

#[verifier::external_body]
#[derive(Clone, Copy)]
pub struct Hash { _p: u8 }
#[derive(Clone, Copy)]
pub struct BlockHeader { pub height: u64, pub output_mmr_size: u64, pub id: Ghost<int> }
#[verifier::external_body]
pub struct Batch { _p: u8 }
#[verifier::external_body]
pub struct Bitmap { _p: u8 }
pub enum Error { Store }

pub uninterp spec fn sp_hash(h: BlockHeader) -> Hash;
pub uninterp spec fn sp_prev(b: Batch, h: BlockHeader) -> BlockHeader;
pub uninterp spec fn sp_inputs(b: Batch, h: Hash) -> Set<int>;   // cached input bitmap of a block, empty if absent

impl Bitmap {
    pub uninterp spec fn view(&self) -> Set<int>;
    #[verifier::external_body]
    pub fn new() -> (r: Bitmap) ensures r@ =~= Set::<int>::empty() { unimplemented!() }
    #[verifier::external_body]
    pub fn or_inplace(&mut self, other: &Bitmap) ensures final(self)@ == old(self)@.union(other@) { unimplemented!() }
}
impl BlockHeader {
    pub fn clone(&self) -> (r: BlockHeader) ensures r == *self { *self }
    #[verifier::external_body]
    pub fn hash(&self) -> (r: Hash) ensures r == sp_hash(*self) { unimplemented!() }
}
impl Batch {
    #[verifier::external_body]
    pub fn get_block_input_bitmap(&self, h: &Hash) -> (r: Result<Bitmap, Error>)
        ensures r matches Ok(bm) ==> bm@ == sp_inputs(*self, *h),
                r.is_err() ==> sp_inputs(*self, *h) =~= Set::<int>::empty()
    { unimplemented!() }
    #[verifier::external_body]
    pub fn get_previous_header(&self, h: &BlockHeader) -> (r: Result<BlockHeader, Error>)
        ensures r matches Ok(p) ==> p == sp_prev(*self, *h) && p.height + 1 == h.height
    { unimplemented!() }
}

/// i-th ancestor of h (0 = h itself)
pub open spec fn anc(b: Batch, h: BlockHeader, i: nat) -> BlockHeader
    decreases i
{ if i == 0 { h } else { sp_prev(b, anc(b, h, (i - 1) as nat)) } }
/// union of the input bitmaps of h and its first n-1 ancestors
pub open spec fn inputs_union(b: Batch, h: BlockHeader, n: nat) -> Set<int>
    decreases n
{ if n == 0 { Set::<int>::empty() } else { inputs_union(b, h, (n - 1) as nat).union(sp_inputs(b, sp_hash(anc(b, h, (n - 1) as nat)))) } }

//@ extract chain/src/txhashset/txhashset.rs :: fn input_pos_to_rewind
//@   sigrewrite `batch: &Batch<'_>,` => `batch: &Batch,`
//@   ensures:
//@+    r matches Ok(bm) ==> bm@ =~= inputs_union(*batch, *head_header,
//@+        (if head_header.height > block_header.height { head_header.height - block_header.height } else { 0 }) as nat),
//@   after `let mut current = head_header.clone();`:
//@+    let ghost mut n: nat = 0;
//@   loop 1:
//@+    invariant
//@+        current == anc(*batch, *head_header, n),
//@+        current.height + n == head_header.height,
//@+        bitmap@ =~= inputs_union(*batch, *head_header, n),
//@+        n > 0 ==> current.height >= block_header.height,
//@+    decreases current.height
//@   after `current = batch.get_previous_header(&current)?;`:
//@+    proof { n = n + 1; }
//@ end
//@ canary input_pos_to_rewind: r.is_err()
