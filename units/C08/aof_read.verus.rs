//@ assume: the mmap of the data file is an abstract byte sequence `disk` (what the last flush / init mapped); the nested size file of variable-size data is abstract: size_unsync_in_elmts() and read_as_elmt(pos) of the SizeFile are uninterpreted reads (sp_sf_len, sp_sf_entry); std::fs / memmap are outside; T5: generic `AppendOnlyFile<T>` => abstract struct with the fields these functions use; T6: `<&[u8]>::default()` => empty_slice(); `&self.buffer[a..b]` / `&mmap[a..b]` => vstd slice_subrange of the same range; `if let Some(mmap) = &self.mmap` over an abstract Mmap with len() and as_slice()
//@ assume: range: offsets fit 48 bits (files below 256 TiB): `pos * elmt_size`, `offset + length` do not overflow -- stated as preconditions
//@ assume: decided here (C08 'reopen / rewind never change what a position reads'): AppendOnlyFile::read(pos) answers nothing for a position at or past the unsynced size; otherwise EXACTLY the `length` bytes at `offset` of the flushed file when pos is below buffer_start_pos, and EXACTLY the bytes at (offset - offset of the first buffered element) of the unflushed buffer otherwise, where (offset, length) = offset_and_size(pos) = (pos * elmt_size, elmt_size) for fixed-size data and the size file's entry for variable-size data; a range not fully present reads as nothing (never a partial element, never out of range)
//@ assumed_items: 3
//@ fns: AppendOnlyFile::read, AppendOnlyFile::offset_and_size, AppendOnlyFile::read_from_buffer, AppendOnlyFile::read_from_mmap, AppendOnlyFile::size_unsync_in_elmts
global size_of usize == 8;
use vstd::slice::slice_subrange;
pub struct IoError { pub k: u8 }
pub mod io { pub type Result<T> = std::result::Result<T, super::IoError>; }
#[derive(Clone, Copy)]
pub struct SizeEntry { pub offset: u64, pub size: u16 }
pub struct SizeFile { pub _p: u8 }
pub uninterp spec fn sp_sf_len(f: SizeFile) -> io::Result<u64>;
pub uninterp spec fn sp_sf_entry(f: SizeFile, pos: u64) -> io::Result<SizeEntry>;
impl SizeFile {
    #[verifier::external_body]
    pub fn size_unsync_in_elmts(&self) -> (r: io::Result<u64>) ensures r == sp_sf_len(*self) { unimplemented!() }
    #[verifier::external_body]
    pub fn read_as_elmt(&self, pos: u64) -> (r: io::Result<SizeEntry>) ensures r == sp_sf_entry(*self, pos) { unimplemented!() }
}
pub enum SizeInfo { FixedSize(u16), VariableSize(Box<SizeFile>) }
pub struct Mmap { pub bytes: Vec<u8> }
impl Mmap {
    pub fn len(&self) -> (r: usize) ensures r == self.bytes@.len() { self.bytes.len() }
    pub fn as_slice(&self) -> (r: &[u8]) ensures r@ == self.bytes@ { self.bytes.as_slice() }
}
pub struct AppendOnlyFile { pub size_info: SizeInfo, pub mmap: Option<Mmap>, pub buffer: Vec<u8>, pub buffer_start_pos: u64 }
#[verifier::external_body]
fn empty_slice<'a>() -> (r: &'a [u8]) ensures r@.len() == 0 { <&[u8]>::default() }
pub open spec fn sp_disk(a: AppendOnlyFile) -> Seq<u8> { match a.mmap { Some(m) => m.bytes@, None => Seq::empty() } }
/// offset and size of element pos
pub open spec fn sp_off(a: AppendOnlyFile, pos: u64) -> io::Result<(u64, u16)> {
    match a.size_info { SizeInfo::FixedSize(e) => Ok::<(u64, u16), IoError>(((pos * e) as u64, e)), SizeInfo::VariableSize(f) => match sp_sf_entry(*f, pos) { Ok(en) => Ok((en.offset, en.size)), Err(e) => Err(e) } }
}
pub open spec fn sp_unsync(a: AppendOnlyFile) -> io::Result<u64> {
    match a.size_info { SizeInfo::FixedSize(e) => Ok::<u64, IoError>((a.buffer_start_pos + a.buffer@.len() as int / (e as int)) as u64), SizeInfo::VariableSize(f) => sp_sf_len(*f) }
}
/// the bytes [off, off + len) of s, or nothing if they are not all there
pub open spec fn sp_range(s: Seq<u8>, off: int, len: int) -> Seq<u8> { if s.len() < off + len { Seq::empty() } else { s.subrange(off, off + len) } }
impl AppendOnlyFile {
//@ extract store/src/types.rs :: impl AppendOnlyFile::size_unsync_in_elmts
//@   rewrite `SizeInfo::VariableSize(ref size_file) => size_file.size_unsync_in_elmts(),` => `SizeInfo::VariableSize(size_file) => size_file.size_unsync_in_elmts(),`
//@   rewrite `match self.size_info {` => `match &self.size_info {`
//@   rewrite `SizeInfo::FixedSize(elmt_size) => {` => `SizeInfo::FixedSize(elmt_size_r) => { let elmt_size = *elmt_size_r;`
//@   requires:
//@+    self.size_info matches SizeInfo::FixedSize(e) ==> e > 0 && self.buffer_start_pos < 0x1_0000_0000_0000u64 && self.buffer@.len() < 0x1_0000_0000_0000u64,
//@   ensures:
//@+    r == sp_unsync(*self),
//@ end
//@ extract store/src/types.rs :: impl AppendOnlyFile::offset_and_size
//@   rewrite `match self.size_info {` => `match &self.size_info {`
//@   rewrite `SizeInfo::FixedSize(elmt_size) => Ok((pos * elmt_size as u64, elmt_size)),` => `SizeInfo::FixedSize(elmt_size_r) => { let elmt_size = *elmt_size_r; Ok((pos * elmt_size as u64, elmt_size)) },`
//@   rewrite `SizeInfo::VariableSize(ref size_file) => {` => `SizeInfo::VariableSize(size_file) => {`
//@   requires:
//@+    self.size_info matches SizeInfo::FixedSize(e) ==> pos * e < 0x1_0000_0000_0000u64,
//@   ensures:
//@+    r == sp_off(*self, pos),
//@ end
//@ extract store/src/types.rs :: impl AppendOnlyFile::read_from_buffer
//@   rewrite `<&[u8]>::default()` => `empty_slice()`
//@   rewrite `&self.buffer[(offset as usize)..(offset as usize + length as usize)]` => `slice_subrange(self.buffer.as_slice(), offset as usize, offset as usize + length as usize)`
//@   requires:
//@+    offset < 0x1_0000_0000_0000u64,
//@   ensures:
//@+    r@ == sp_range(self.buffer@, offset as int, length as int),
//@ end
//@ extract store/src/types.rs :: impl AppendOnlyFile::read_from_mmap
//@   rewrite `<&[u8]>::default()` => `empty_slice()` x2
//@   rewrite `&mmap[(offset as usize)..(offset as usize + length as usize)]` => `slice_subrange(mmap.as_slice(), offset as usize, offset as usize + length as usize)`
//@   requires:
//@+    offset < 0x1_0000_0000_0000u64,
//@   ensures:
//@+    r@ == sp_range(sp_disk(*self), offset as int, length as int),
//@ end
//@ extract store/src/types.rs :: impl AppendOnlyFile::read
//@   rewrite `<&[u8]>::default()` => `empty_slice()`
//@   at_start:
//@+    proof { match self.size_info { SizeInfo::FixedSize(e) => {
//@+        let bsp = self.buffer_start_pos;
//@+        assert(pos * e < 0x1_0000_0000_0000u64) by(nonlinear_arith) requires pos < 0x1_0000_0000u64, e <= 0xffffu16;
//@+        assert(bsp * e < 0x1_0000_0000_0000u64) by(nonlinear_arith) requires bsp < 0x1_0000_0000u64, e <= 0xffffu16;
//@+    }, _ => {} } }
//@   requires:
//@+    self.size_info matches SizeInfo::FixedSize(e) ==> e > 0 && self.buffer_start_pos < 0x1_0000_0000u64 && pos < 0x1_0000_0000u64 && self.buffer@.len() < 0x1_0000_0000_0000u64,
//@+    self.size_info matches SizeInfo::VariableSize(f) ==> forall|p: u64| (#[trigger] sp_sf_entry(*f, p)) matches Ok(en) ==> en.offset < 0x1_0000_0000_0000u64,
//@   ensures:
//@+    r matches Ok(bytes) ==> (sp_unsync(*self) matches Ok(n) && (pos >= n ==> bytes@.len() == 0)
//@+        && (pos < n ==> (sp_off(*self, pos) matches Ok(ol) && (
//@+            if pos < self.buffer_start_pos { bytes@ == sp_range(sp_disk(*self), ol.0 as int, ol.1 as int) }
//@+            else { sp_off(*self, self.buffer_start_pos) matches Ok(bo) && bytes@ == sp_range(self.buffer@, (if ol.0 >= bo.0 { ol.0 - bo.0 } else { 0 }) as int, ol.1 as int) })))),
//@ end
}
//@ canary read: r is Err
