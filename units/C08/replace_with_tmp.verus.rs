//@ assume: the three steps are abstract effects on ghost file contents: replace(tmp) makes the data file's content the tmp file's content; rebuild_size_file() makes the size file the list of element sizes of the data file AS IT IS AT THAT MOMENT (sp_sizes_of); init() re-reads both and changes neither. std::fs itself is outside.
//@ assume: T5: generic `AppendOnlyFile<T>` => abstract struct with ghost contents; `self.replace(&self.tmp_path())?` keeps its text over an abstract tmp_path()
//@ assume: decided here (C08, 'compacting the data files never changes the data of an unspent leaf', variable-size half): after AppendOnlyFile::replace_with_tmp succeeds, the data file holds the compacted (tmp) content AND, for a variable-size file, the size file describes exactly THAT content -- i.e. the size file is rebuilt after the swap, not before -- so element offsets read through this same instance match the new data file
//@ assumed_items: 5
//@ fns: AppendOnlyFile::replace_with_tmp
pub struct IoError { pub k: u8 }
pub mod io { pub type Result<T> = std::result::Result<T, super::IoError>; }
#[verifier::external_body]
pub struct PathBuf { _p: u8 }
pub struct SizeFile { pub content: Ghost<Seq<int>> }
pub enum SizeInfo { FixedSize(u16), VariableSize(Box<SizeFile>) }
/// element sizes of a data file's content
pub uninterp spec fn sp_sizes_of(data: Seq<u8>) -> Seq<int>;
pub struct AppendOnlyFile { pub size_info: SizeInfo, pub data: Ghost<Seq<u8>>, pub tmp: Ghost<Seq<u8>> }
pub open spec fn size_content(s: SizeInfo) -> Option<Seq<int>> { match s { SizeInfo::VariableSize(f) => Some(f.content@), SizeInfo::FixedSize(_) => None } }
impl AppendOnlyFile {
    #[verifier::external_body]
    fn tmp_path(&self) -> (r: PathBuf) { unimplemented!() }
    #[verifier::external_body]
    fn replace(&mut self, with: &PathBuf) -> (r: io::Result<()>)
        ensures r.is_ok() ==> final(self).data@ == old(self).tmp@ && final(self).size_info == old(self).size_info { unimplemented!() }
    #[verifier::external_body]
    fn rebuild_size_file(&mut self) -> (r: io::Result<()>)
        ensures r.is_ok() ==> final(self).data@ == old(self).data@ && final(self).tmp@ == old(self).tmp@
            && (old(self).size_info is VariableSize ==> size_content(final(self).size_info) == Some(sp_sizes_of(old(self).data@)))
            && (old(self).size_info is FixedSize ==> final(self).size_info == old(self).size_info) { unimplemented!() }
    #[verifier::external_body]
    fn init(&mut self) -> (r: io::Result<()>)
        ensures r.is_ok() ==> final(self).data@ == old(self).data@ && final(self).size_info == old(self).size_info { unimplemented!() }
//@ extract store/src/types.rs :: impl AppendOnlyFile::replace_with_tmp
//@   ensures:
//@+    r.is_ok() ==> final(self).data@ == old(self).tmp@
//@+        && (old(self).size_info is VariableSize ==> size_content(final(self).size_info) == Some(sp_sizes_of(old(self).tmp@)))
//@+        && (old(self).size_info is FixedSize ==> final(self).size_info == old(self).size_info),
//@ end
}
//@ canary replace_with_tmp: r.is_err()
