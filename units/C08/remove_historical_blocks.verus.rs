//@ assume: Chain / Batch / the header MMR handle are abstract: batch.blocks_iter() is the list of stored full blocks (LMDB iteration, C18/db_iterator), delete_block(h) appends h to a ghost deletion log, save_body_tail records the tail; header_pmmr.get_header_hash_by_height / batch.get_block_header are uninterpreted lookups; global::cut_through_horizon() is a chain-type constant; Hash equality is equality of an id
//@ assume: T6: `for block in iter {` => `for block in it: iter.iter() {`; `for bh in blocks_to_delete {` => `for bh in it2: blocks_to_delete.iter() {` with `&bh` => `bh`; `let mut blocks_to_delete = vec![];` => typed Vec::new(); log macros removed (T3); the deletion counter (it only feeds a log line) is typed u128 so that its increment carries no overflow obligation
//@ assume: decided here (C08, 'compaction ... still permits reorganisations that stay inside the horizon'): Chain::remove_historical_blocks (run by Chain::compact) deletes ONLY blocks whose height is strictly below the height of the new tail header -- never a block at or above the tail, on our chain or on a fork: blocks of competing forks inside the horizon stay available for a later reorganisation -- and the tail it saves is the header our own header chain has at height head - horizon; in archive mode and when the cutoff is 0 it deletes nothing.
//@ assumed_items: 10
//@ fns: Chain::remove_historical_blocks
//@ import: use vstd::std_specs::cmp::PartialEqSpecImpl;
global size_of usize == 8;
#[derive(Clone, Copy)]
pub struct Hash { pub v: u64 }
impl PartialEqSpecImpl for Hash { open spec fn obeys_eq_spec() -> bool { true } open spec fn eq_spec(&self, other: &Hash) -> bool { self.v == other.v } }
impl PartialEq for Hash { fn eq(&self, other: &Hash) -> (r: bool) { self.v == other.v } }
pub enum Error { Store, Other }
#[derive(Clone, Copy)]
pub struct BlockHeader { pub height: u64, pub id: Hash, pub prev_hash: Hash }
#[derive(Clone, Copy)]
pub struct Block { pub header: BlockHeader }
impl Block { pub fn hash(&self) -> (r: Hash) ensures r == self.header.id { self.header.id } }
#[derive(Clone, Copy)]
pub struct Tip { pub height: u64, pub last_block_h: Hash }
impl Tip {
    pub open spec fn sp_from_header(h: BlockHeader) -> Tip { Tip { height: h.height, last_block_h: h.id } }
    #[verifier::external_body]
    pub fn from_header(h: &BlockHeader) -> (r: Tip) ensures r == Tip::sp_from_header(*h) { unimplemented!() }
}
pub mod global {
    #[verifier::external_body]
    pub fn cut_through_horizon() -> (r: u32) { unimplemented!() }
}
pub uninterp spec fn sp_hdr(h: Hash) -> BlockHeader;
pub uninterp spec fn sp_hash_at(height: u64) -> Hash;    // our header chain's hash at a height
pub struct PMMRHandle { pub _p: u8 }
impl PMMRHandle {
    #[verifier::external_body]
    pub fn get_header_hash_by_height(&self, height: u64) -> (r: Result<Hash, Error>) ensures r matches Ok(h) ==> h == sp_hash_at(height) { unimplemented!() }
}
pub struct Batch { pub deleted: Ghost<Set<Hash>>, pub tail: Ghost<Option<Tip>>, pub blocks: Ghost<Seq<Block>> }
impl Batch {
    #[verifier::external_body]
    pub fn head(&self) -> (r: Result<Tip, Error>) { unimplemented!() }
    #[verifier::external_body]
    pub fn tail(&self) -> (r: Result<Tip, Error>) { unimplemented!() }
    #[verifier::external_body]
    pub fn get_block_header(&self, h: &Hash) -> (r: Result<BlockHeader, Error>) ensures r matches Ok(x) ==> x == sp_hdr(*h) { unimplemented!() }
    #[verifier::external_body]
    /// every stored block's header is the header stored under the block's hash
    pub fn blocks_iter(&self) -> (r: Result<Vec<Result<Block, Error>>, Error>)
        ensures r matches Ok(v) ==> forall|i: int| 0 <= i < v@.len() ==> (#[trigger] v@[i] matches Ok(b) ==> b.header == sp_hdr(b.header.id)) { unimplemented!() }
    #[verifier::external_body]
    pub fn delete_block(&mut self, h: &Hash) -> (r: Result<(), Error>)
        ensures final(self).deleted@ == old(self).deleted@.insert(*h), final(self).tail == old(self).tail { unimplemented!() }
    #[verifier::external_body]
    pub fn save_body_tail(&mut self, t: &Tip) -> (r: Result<(), Error>)
        ensures final(self).deleted == old(self).deleted, r.is_ok() ==> final(self).tail@ == Some(*t) { unimplemented!() }
}
pub struct Genesis { pub header: BlockHeader }
pub struct Chain { pub genesis: Genesis, pub archive: bool }
impl Chain {
    #[verifier::external_body]
    pub fn archive_mode(&self) -> (r: bool) ensures r == self.archive { unimplemented!() }
//@ extract chain/src/chain.rs :: impl Chain::remove_historical_blocks
//@   strip_logs
//@   sigrewrite `header_pmmr: &PMMRHandle<BlockHeader>,` => `header_pmmr: &PMMRHandle,`
//@   sigrewrite `batch: &mut Batch<'_>,` => `batch: &mut Batch,`
//@   rewrite `let mut blocks_to_delete = vec![];` => `let mut blocks_to_delete: Vec<Hash> = Vec::new();` x?
//@   rewrite `for block in iter {` => `for block in it: iter.iter() {` x?
//@   rewrite `for bh in blocks_to_delete {` => `for bh in it2: blocks_to_delete.iter() {` x?
//@   rewrite `batch.delete_block(&bh)` => `batch.delete_block(bh)` x?
//@   rewrite `let mut count = 0;` => `let mut count: u128 = 0; let nblocks = blocks_to_delete.len();` x?
//@   loop 1?:
//@+    invariant
//@+        forall|i: int| 0 <= i < iter@.len() ==> (#[trigger] iter@[i] matches Ok(b) ==> b.header == sp_hdr(b.header.id)),
//@+        forall|i: int| 0 <= i < blocks_to_delete@.len() ==> sp_hdr(#[trigger] blocks_to_delete@[i]).height < tail.height,
//@   loop 2?:
//@+    invariant
//@+        count as int == it2.index@, it2.index@ <= blocks_to_delete@.len(), blocks_to_delete@.len() == nblocks,
//@+        forall|i: int| 0 <= i < blocks_to_delete@.len() ==> sp_hdr(#[trigger] blocks_to_delete@[i]).height < tail.height,
//@+        forall|h: Hash| #[trigger] batch.deleted@.contains(h) && !old(batch).deleted@.contains(h) ==> sp_hdr(h).height < tail.height,
//@+        batch.tail == old(batch).tail,
//@   ensures:
//@+    // every deletion made here is of a block strictly below the height of the tail that is saved, and that tail is OUR chain's header at its height
//@+    r.is_ok() ==> (final(batch).deleted@ == old(batch).deleted@
//@+        || (final(batch).tail@ matches Some(t)
//@+            && (forall|h: Hash| #[trigger] final(batch).deleted@.contains(h) && !old(batch).deleted@.contains(h) ==> sp_hdr(h).height < t.height)
//@+            && exists|x: u64| t == Tip::sp_from_header(sp_hdr(#[trigger] sp_hash_at(x))))),
//@+    r.is_ok() && self.archive ==> final(batch).deleted@ == old(batch).deleted@,
//@ end
}
//@ canary remove_historical_blocks: r.is_err()
