//@ assume: LeafSet (C02/leaf_set), PruneList (C08/prune_list) and the two flat files are abstract; get_from_file / get_data_from_file (the shifted file reads; their `pos - shift` arithmetic depends on the prune-list invariant "pruned descendants before a live position are fewer than the position") are abstract callees here; pmmr::is_leaf uninterpreted (C07)
//@ assume: T5: generic `PMMRBackend<T>` / `T::E` => one abstract element type
//@ assume: decided here: the backend reads the UTXO rules are built on. PMMRBackend::get_data returns an element ONLY for a leaf position that, for a prunable MMR, is still in the leaf set (a spent/removed leaf never reads as present, whatever is still in the data file) and only through get_data_from_file; get_hash hides the hash of a removed leaf the same way; is_compacted is false for everything in the leaf set and otherwise true exactly for pruned non-roots
//@ assumed_items: 10
//@ fns: PMMRBackend::get_data, PMMRBackend::get_hash, PMMRBackend::is_compacted, PMMRBackend::is_pruned, PMMRBackend::is_pruned_root
#[verifier::external_body]
#[derive(Clone, Copy)]
pub struct Hash { _p: u8 }
#[verifier::external_body]
pub struct Elem { _p: u8 }
pub uninterp spec fn sp_is_leaf(pos0: u64) -> bool;
pub mod pmmr { use super::*;
    #[verifier::external_body]
    pub fn is_leaf(pos0: u64) -> (r: bool) ensures r == sp_is_leaf(pos0) { unimplemented!() } }
#[verifier::external_body]
pub struct LeafSet { _p: u8 }
impl LeafSet {
    pub uninterp spec fn has(&self, pos0: u64) -> bool;
    #[verifier::external_body]
    pub fn includes(&self, pos0: u64) -> (r: bool) ensures r == self.has(pos0) { unimplemented!() }
}
#[verifier::external_body]
pub struct PruneList { _p: u8 }
impl PruneList {
    pub uninterp spec fn pruned(&self, pos0: u64) -> bool;
    pub uninterp spec fn pruned_root(&self, pos0: u64) -> bool;
    #[verifier::external_body]
    pub fn is_pruned(&self, pos0: u64) -> (r: bool) ensures r == self.pruned(pos0) { unimplemented!() }
    #[verifier::external_body]
    pub fn is_pruned_root(&self, pos0: u64) -> (r: bool) ensures r == self.pruned_root(pos0) { unimplemented!() }
}
pub struct PMMRBackend { pub prunable: bool, pub leaf_set: LeafSet, pub prune_list: PruneList, pub files: u8 }
impl PMMRBackend {
    pub uninterp spec fn file_hash(&self, pos0: u64) -> Option<Hash>;
    pub uninterp spec fn file_data(&self, pos0: u64) -> Option<Elem>;
    #[verifier::external_body]
    fn get_from_file(&self, pos0: u64) -> (r: Option<Hash>) ensures r == self.file_hash(pos0) { unimplemented!() }
    #[verifier::external_body]
    fn get_data_from_file(&self, pos0: u64) -> (r: Option<Elem>) ensures r == self.file_data(pos0) { unimplemented!() }
//@ extract store/src/pmmr.rs :: impl PMMRBackend::is_pruned
//@   ensures:
//@+    r == self.prune_list.pruned(pos0),
//@ end
//@ extract store/src/pmmr.rs :: impl PMMRBackend::is_pruned_root
//@   ensures:
//@+    r == self.prune_list.pruned_root(pos0),
//@ end
//@ extract store/src/pmmr.rs :: impl PMMRBackend::is_compacted
//@   ensures:
//@+    self.leaf_set.has(pos0) ==> !r,
//@+    !self.leaf_set.has(pos0) ==> r == (!self.prune_list.pruned_root(pos0) && self.prune_list.pruned(pos0)),
//@ end
//@ extract store/src/pmmr.rs :: impl Backend for PMMRBackend::get_hash
//@   ensures:
//@+    (self.prunable && sp_is_leaf(pos0) && !self.leaf_set.has(pos0)) ==> r.is_none(),
//@+    !(self.prunable && sp_is_leaf(pos0) && !self.leaf_set.has(pos0)) ==> r == self.file_hash(pos0),
//@ end
//@ extract store/src/pmmr.rs :: impl Backend for PMMRBackend::get_data
//@   sigrewrite `fn get_data(&self, pos0: u64) -> Option<T::E>` => `fn get_data(&self, pos0: u64) -> Option<Elem>`
//@   ensures:
//@+    r.is_some() ==> sp_is_leaf(pos0) && (self.prunable ==> self.leaf_set.has(pos0)) && r == self.file_data(pos0),
//@+    (sp_is_leaf(pos0) && (self.prunable ==> self.leaf_set.has(pos0))) ==> r == self.file_data(pos0),
//@ end
}
//@ canary get_data: r.is_none()
