//@ assume: Transaction::validate (decided as a conjunction in C01/validators) is abstract: Ok only if the transaction is valid standalone under the tx weight limit (sp_valid_as_tx); TransactionBody::replace_inputs keeps everything but the inputs (sp_rest); OutputIdentifier is abstract; one error type (the `?` conversions into PoolError are abstracted)
//@ assume: T6: `inputs.sort_unstable()` => sort_ids (a permutation); `inputs.as_slice().into()` => inputs_from_ids (Inputs::FeaturesAndCommit of exactly that list); T3: debug! removed
//@ assume: decided here (C14, 'no transaction exceeding the weight limit or failing standalone validation is admitted'): TransactionPool::convert_tx_v2 returns Ok(entry') ONLY IF entry'.tx passed Transaction::validate(AsTransaction) HERE -- on every path, whatever input format the transaction arrived with -- and entry'.tx is the given transaction with its inputs replaced by exactly the located spent outputs (utxo ++ pool, as a multiset) in features-and-commit form, same offset, outputs, kernels and source. C14/pool_admission uses exactly this as convert_tx_v2's contract, so add_to_pool's own earlier validate call is redundant for admission (a 'validate once' clean-up that removes THAT call is accepted), while a path through convert_tx_v2 that skips validation is reported here even if add_to_pool still validates -- the modular price: the contract is the one the current code meets, not the weakest one the caller could live with.
//@ assumed_items: 7
//@ fns: TransactionPool::convert_tx_v2
#[derive(Clone, Copy, PartialEq, Eq)]
pub struct OutputIdentifier { pub id: u64 }
#[derive(Clone, Copy, PartialEq, Eq)]
pub struct CommitWrapper { pub c: u64 }
pub enum Inputs { CommitOnly(Vec<CommitWrapper>), FeaturesAndCommit(Vec<OutputIdentifier>) }
#[derive(Clone, Copy, PartialEq, Eq)]
pub enum TxSource { PushApi, Broadcast, Fluff, EmbargoExpired, Deaggregate }
pub enum PoolError { InvalidTx, Other }
pub enum Weighting { AsTransaction, NoLimit }
#[verifier::external_body]
pub struct TransactionBody { _p: u8 }
/// everything in a body except its inputs (outputs, kernels)
pub uninterp spec fn sp_rest(b: TransactionBody) -> int;
impl TransactionBody {
    pub uninterp spec fn sp_inputs(&self) -> Inputs;
    #[verifier::external_body]
    pub fn replace_inputs(self, inputs: Inputs) -> (r: TransactionBody) ensures sp_rest(r) == sp_rest(self), r.sp_inputs() == inputs { unimplemented!() }
}
pub struct Transaction { pub offset: u64, pub body: TransactionBody }
pub uninterp spec fn sp_valid_as_tx(t: Transaction) -> bool;
impl Transaction {
    #[verifier::external_body]
    pub fn inputs(&self) -> (r: Inputs) ensures r == self.body.sp_inputs() { unimplemented!() }
    #[verifier::external_body]
    pub fn validate(&self, w: Weighting) -> (r: Result<(), PoolError>) ensures r.is_ok() ==> (w is AsTransaction) && sp_valid_as_tx(*self) { unimplemented!() }
}
pub struct PoolEntry { pub src: TxSource, pub tx: Transaction }
impl PoolEntry {
    pub fn new(tx: Transaction, src: TxSource) -> (r: PoolEntry) ensures r.tx == tx, r.src == src { PoolEntry { src, tx } }
}
pub assume_specification<T: Clone> [<[T]>::to_vec] (s: &[T]) -> (r: Vec<T>)
    ensures r@ == s@;
#[verifier::external_body]
fn sort_ids(v: &mut Vec<OutputIdentifier>) ensures final(v)@.to_multiset() == old(v)@.to_multiset() { unimplemented!() }
#[verifier::external_body]
fn inputs_from_ids(s: &[OutputIdentifier]) -> (r: Inputs) ensures r matches Inputs::FeaturesAndCommit(v) && v@ == s@ { unimplemented!() }
pub struct TransactionPool { pub _p: u8 }
impl TransactionPool {
//@ extract pool/src/transaction_pool.rs :: impl TransactionPool::convert_tx_v2
//@   strip_logs
//@   rewrite `inputs.sort_unstable();` => `sort_ids(&mut inputs);`
//@   rewrite `inputs.as_slice().into()` => `inputs_from_ids(inputs.as_slice())`
//@   before `sort_ids(&mut inputs);`:
//@+    proof { assert(inputs@ =~= spent_utxo@ + spent_pool@); }
//@   ensures:
//@+    r matches Ok(e) ==> sp_valid_as_tx(e.tx) && e.src == entry.src && e.tx.offset == entry.tx.offset && sp_rest(e.tx.body) == sp_rest(entry.tx.body)
//@+        && (e.tx.body.sp_inputs() matches Inputs::FeaturesAndCommit(v) && v@.to_multiset() == (spent_utxo@ + spent_pool@).to_multiset()),
//@ end
}
//@ canary convert_tx_v2: r.is_err()
