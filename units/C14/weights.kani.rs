//@ crate: grin_core
//@ target: core/src/core/transaction.rs
//@ assume: input/output/kernel COUNTS are symbolic u64 values installed with Vec::set_len on empty vectors (no element is ever read by weight()/verify_weight(); the body is forgotten, not dropped) -- this gives the full domain of counts without building 40_000-element vectors
//@ assume: global::get_chain_type / get_accept_fee_base stubbed to arbitrary values fixed per harness
//@ assume: decided here: weight limits imply a mineable block and the minimum-fee comparison; joint validity of the pool against the chain head, eviction and reorg handling are histories outside this family (DESIGN 6 C14)
//@ harness c14_weight_limits kind=complete tier=quick fns=TransactionBody::weight,TransactionBody::weight_by_iok,TransactionBody::verify_weight,global::max_tx_weight,global::max_block_weight bound=-
//@ harness c14_fee_rule kind=complete tier=quick fns=TransactionBody::fee,TransactionBody::fee_shift,TransactionBody::shifted_fee,Transaction::accept_fee,Transaction::weight,FeeFields::fee,FeeFields::fee_shift bound=<=2_kernels_(fee_fold);_weight_any
use crate::verif_kani_support::*;

fn body_with_counts(ni: usize, no: usize, nk: usize) -> TransactionBody {
	let mut b = TransactionBody::empty();
	unsafe {
		match &mut b.inputs {
			Inputs::FeaturesAndCommit(v) => v.set_len(ni),
			Inputs::CommitOnly(v) => v.set_len(ni),
		}
		b.outputs.set_len(no);
		b.kernels.set_len(nk);
	}
	b
}

/// A body that passes the transaction weight rule always leaves room for the coinbase output
/// and kernel: the block assembled from it passes the block rule.  For all counts, all chains.
#[kani::proof]
#[kani::stub(crate::global::get_chain_type, stub_get_chain_type)]
fn c14_weight_limits() {
	init_globals();
	let ni: usize = kani::any();
	let no: usize = kani::any();
	let nk: usize = kani::any();
	kani::assume(ni <= (1 << 40) && no <= (1 << 40) && nk <= (1 << 40));
	let b = body_with_counts(ni, no, nk);
	let w = b.weight();
	assert!(w == ni as u64 + 21 * no as u64 + 3 * nk as u64, "C14: weight formula");
	let mbw = global::max_block_weight();
	let as_tx = b.verify_weight(Weighting::AsTransaction).is_ok();
	let as_block = b.verify_weight(Weighting::AsBlock).is_ok();
	let lim: u64 = kani::any();
	let as_lim = b.verify_weight(Weighting::AsLimitedTransaction(lim)).is_ok();
	assert!(b.verify_weight(Weighting::NoLimit).is_ok());
	assert!(as_block == (w <= mbw), "C14: block weight rule");
	assert!(as_tx == (w + 24 <= mbw), "C14: tx weight rule leaves room for the coinbase");
	let room = core::cmp::min(mbw, lim);
	assert!(as_lim == (w <= room.saturating_sub(24)), "C14: limited tx weight rule");
	if as_lim && room >= 24 {
		assert!(w + 24 <= room, "C14: a tx admitted under a weight limit leaves room for the coinbase within that limit");
	}
	if as_tx {
		// the mined block = this body + 1 coinbase output + 1 coinbase kernel
		let blk = body_with_counts(ni, no + 1, nk + 1);
		assert!(blk.verify_weight(Weighting::AsBlock).is_ok(), "C14: an admitted tx assembles into a block within the weight limit");
		core::mem::forget(blk);
	}
	core::mem::forget(b);
}

fn any_fee_kernel() -> TxKernel {
	let f = FeeFields(kani::any());
	let k: u8 = kani::any();
	let features = match k {
		0 => KernelFeatures::Plain { fee: f },
		1 => KernelFeatures::Coinbase,
		2 => KernelFeatures::HeightLocked { fee: f, lock_height: kani::any() },
		_ => KernelFeatures::NoRecentDuplicate { fee: f, relative_height: NRDRelativeHeight(1) },
	};
	TxKernel { features, excess: Commitment([0u8; 33]), excess_sig: unsafe { core::mem::zeroed() } }
}
fn fee_of(k: &TxKernel) -> Option<FeeFields> {
	match k.features {
		KernelFeatures::Coinbase => None,
		KernelFeatures::Plain { fee } => Some(fee),
		KernelFeatures::HeightLocked { fee, .. } => Some(fee),
		KernelFeatures::NoRecentDuplicate { fee, .. } => Some(fee),
	}
}

/// Minimum fee: shifted_fee == (sum of kernel fees, saturating) >> (max fee_shift), and the
/// acceptance threshold is weight * base with no overflow in the realistic range.
#[kani::proof]
#[kani::unwind(4)]
#[kani::stub(crate::global::get_chain_type, stub_get_chain_type)]
#[kani::stub(crate::global::get_accept_fee_base, stub_accept_fee_base)]
fn c14_fee_rule() {
	init_globals();
	let k1 = any_fee_kernel();
	let k2 = any_fee_kernel();
	let two: bool = kani::any();
	let mut body = TransactionBody::empty();
	body.kernels.push(k1);
	if two {
		body.kernels.push(k2);
	}
	let mut sum: u64 = 0;
	let mut shift: u8 = 0;
	if let Some(f) = fee_of(&k1) {
		sum = sum.saturating_add(f.0 & ((1u64 << 40) - 1));
		shift = core::cmp::max(shift, ((f.0 >> 40) & 15) as u8);
	}
	if two {
		if let Some(f) = fee_of(&k2) {
			sum = sum.saturating_add(f.0 & ((1u64 << 40) - 1));
			shift = core::cmp::max(shift, ((f.0 >> 40) & 15) as u8);
		}
	}
	assert!(body.fee() == sum, "C14: body fee is the sum of fee-carrying kernels");
	assert!(body.fee_shift() == shift && shift <= 15);
	assert!(body.shifted_fee() == sum >> shift, "C14: shifted fee");
	let tx = Transaction { offset: unsafe { core::mem::zeroed::<BlindingFactor>() }, body };
	let base = stub_accept_fee_base();
	assert!(tx.accept_fee() == tx.weight() * base, "C14: minimum fee is weight * base");
	assert!(tx.weight() == if two { 6 } else { 3 });
	core::mem::forget(tx); // BlindingFactor zeroizes on drop with inline asm, which Kani cannot model
}
static mut ACCEPT_FEE_BASE: u64 = 0;
fn stub_accept_fee_base() -> u64 {
	unsafe {
		if ACCEPT_FEE_BASE == 0 {
			let b: u64 = kani::any();
			kani::assume(b >= 1 && b < (1u64 << 48));
			ACCEPT_FEE_BASE = b;
		}
		ACCEPT_FEE_BASE
	}
}
