//@ assume: Transaction is abstract; transaction::aggregate (decided in C12/aggregate) returns sp_agg(list) or an error; validity for mining (sp_valid) is the conjunction of FIVE uninterpreted predicates (tx.validate, chain UTXO validity, block sums, and -- taken from the property's 'a block ... that the chain accepts' -- lock heights reached and spent coinbases mature at the next block), each established only by its own check: Transaction::validate(weighting) (sp_tx_valid), the chain adapter's validate_tx against the UTXO set (sp_chain_ok) and apply_tx_to_block_sums at `header` (sp_sums_ok); Pool::validate_raw_tx is the REAL text, verified here to establish all three; one error type; bucket_transactions (ordering heuristics) and the chain adapter are abstract
//@ assume: T6: `vec![]` => Vec::new(); `extra_tx.clone()` on the Option => clone_opt; `candidate_txs.extend(valid_txs.clone())` => extend_copy (appends a copy); `tx.clone()` => the element copied; `txs.extend(extra_tx)` => extend_opt; `for tx in txs` => slice iterator form; `self.entries.iter().map(|x| x.tx.clone()).collect()` => entries_txs (the pool's transactions in order)
//@ assume: decided here (C14, 'the set offered for mining always assembles into a block within the weight limit that the chain accepts' / 'can all be applied together'): Pool::validate_raw_txs returns a SUBSEQUENCE of the candidates such that, whenever it is non-empty, the aggregate of (extra tx, then exactly the returned transactions) passed validate_raw_tx against `header` under `weighting` -- the last accepted candidate was validated together with everything kept before it; Pool::prepare_mineable_transactions is validate_raw_txs over the bucketed pool with no extra tx, the chain head and the weight limit AsLimitedTransaction(max_weight); Pool::all_transactions_aggregate returns the aggregate of all pool transactions followed by the extra one, validated with no weight limit (or just the extra tx for an empty pool)
//@ assumed_items: 13
//@ fns: Pool::validate_raw_tx, Pool::validate_raw_txs, Pool::prepare_mineable_transactions, Pool::all_transactions_aggregate
#[derive(Clone, Copy, PartialEq, Eq)]
pub struct Transaction { pub id: u64 }
#[derive(Clone, Copy, PartialEq, Eq)]
pub struct BlockHeader { pub id: u64 }
#[derive(Clone, Copy, PartialEq, Eq)]
pub enum Weighting { AsTransaction, AsLimitedTransaction(u64), AsBlock, NoLimit }
pub enum PoolError { InvalidTx, Other }
pub uninterp spec fn sp_agg(txs: Seq<Transaction>) -> Result<Transaction, PoolError>;
pub uninterp spec fn sp_tx_valid(t: Transaction, w: Weighting) -> bool;
pub uninterp spec fn sp_chain_ok(c: Chain, t: Transaction) -> bool;
pub uninterp spec fn sp_sums_ok(p: Pool, t: Transaction, h: BlockHeader) -> bool;
/// every lock height of the tx is reached by the NEXT block on the current head / every coinbase it spends from the chain is mature at the next block
/// (both are relative to the head, which a reorganisation can LOWER: they must hold whenever the pool is validated, not only at admission)
pub uninterp spec fn sp_locks_ok(c: Chain, t: Transaction) -> bool;
pub uninterp spec fn sp_mature_ok(c: Chain, i: Inputs) -> bool;
pub struct Inputs { pub of: Ghost<u64> }
/// valid for mining: the tx itself under the weight rule, its inputs / outputs against the chain's UTXO set, and the block sums at `h`
pub open spec fn sp_valid(p: Pool, agg: Transaction, h: BlockHeader, w: Weighting) -> bool {
    sp_tx_valid(agg, w) && sp_chain_ok(p.blockchain, agg) && sp_sums_ok(p, agg, h)
    && sp_locks_ok(p.blockchain, agg) && sp_mature_ok(p.blockchain, Inputs { of: Ghost(agg.id) })
}
pub open spec fn sp_valid_nolimit(t: Transaction) -> bool { sp_tx_valid(t, Weighting::NoLimit) }
pub struct BlockSums { pub id: u64 }
pub uninterp spec fn sp_bucketed(p: Pool, w: Weighting) -> Seq<Transaction>;
pub uninterp spec fn sp_chain_head(c: Chain) -> BlockHeader;
pub mod transaction { use super::*;
    #[verifier::external_body]
    pub fn aggregate(txs: &Vec<Transaction>) -> (r: Result<Transaction, PoolError>) ensures r matches Ok(t) ==> sp_agg(txs@) matches Ok(t2) && t2 == t, r.is_err() ==> sp_agg(txs@).is_err() { unimplemented!() } }
impl Transaction {
    #[verifier::external_body]
    pub fn validate(&self, w: Weighting) -> (r: Result<(), PoolError>) ensures r.is_ok() ==> sp_tx_valid(*self, w) { unimplemented!() }
    pub fn inputs(&self) -> (r: Inputs) ensures r == (Inputs { of: Ghost(self.id) }) { Inputs { of: Ghost(self.id) } }
}
#[verifier::external_body]
fn clone_opt(t: &Option<Transaction>) -> (r: Option<Transaction>) ensures r == *t { unimplemented!() }
#[verifier::external_body]
fn extend_copy(v: &mut Vec<Transaction>, more: &Vec<Transaction>) ensures final(v)@ == old(v)@ + more@ { unimplemented!() }
#[verifier::external_body]
fn extend_opt(v: &mut Vec<Transaction>, more: Option<Transaction>) ensures final(v)@ == (match more { Some(t) => old(v)@.push(t), None => old(v)@ }) { unimplemented!() }
#[verifier::external_body]
pub struct Chain { _p: u8 }
impl Chain {
    #[verifier::external_body] pub fn validate_tx(&self, tx: &Transaction) -> (r: Result<(), PoolError>) ensures r.is_ok() ==> sp_chain_ok(*self, *tx) { unimplemented!() }
    #[verifier::external_body] pub fn verify_tx_lock_height(&self, tx: &Transaction) -> (r: Result<(), PoolError>) ensures r.is_ok() ==> sp_locks_ok(*self, *tx) { unimplemented!() }
    #[verifier::external_body] pub fn verify_coinbase_maturity(&self, inputs: &Inputs) -> (r: Result<(), PoolError>) ensures r.is_ok() ==> sp_mature_ok(*self, *inputs) { unimplemented!() }
    #[verifier::external_body] pub fn chain_head(&self) -> (r: Result<BlockHeader, PoolError>) ensures r matches Ok(h) ==> h == sp_chain_head(*self) { unimplemented!() } }
pub struct Pool { pub blockchain: Chain, pub txs: Ghost<Seq<Transaction>> }
pub open spec fn with_extra(extra: Option<Transaction>, s: Seq<Transaction>) -> Seq<Transaction> { match extra { Some(t) => seq![t] + s, None => s } }
/// s is a subsequence of all[0..n]
pub open spec fn subseq(s: Seq<Transaction>, all: Seq<Transaction>, n: int) -> bool {
    exists|idx: Seq<int>| idx.len() == s.len() && (forall|i: int| 0 <= i < idx.len() ==> 0 <= #[trigger] idx[i] < n && all[idx[i]] == s[i]) && (forall|i: int, j: int| 0 <= i < j < idx.len() ==> idx[i] < idx[j])
}
pub open spec fn jointly_valid(p: Pool, extra: Option<Transaction>, kept: Seq<Transaction>, h: BlockHeader, w: Weighting) -> bool {
    kept.len() == 0 || (sp_agg(with_extra(extra, kept)) matches Ok(a) && sp_valid(p, a, h, w))
}
proof fn lemma_subseq_grow(s: Seq<Transaction>, all: Seq<Transaction>, n: int, keep: bool)
    requires subseq(s, all, n), 0 <= n < all.len()
    ensures subseq(if keep { s.push(all[n]) } else { s }, all, n + 1)
{
    let idx = choose|idx: Seq<int>| idx.len() == s.len() && (forall|i: int| 0 <= i < idx.len() ==> 0 <= #[trigger] idx[i] < n && all[idx[i]] == s[i]) && (forall|i: int, j: int| 0 <= i < j < idx.len() ==> idx[i] < idx[j]);
    if keep {
        let idx2 = idx.push(n); let s2 = s.push(all[n]);
        assert(idx2.len() == s2.len());
        assert forall|i: int| 0 <= i < idx2.len() implies 0 <= #[trigger] idx2[i] < n + 1 && all[idx2[i]] == s2[i] by { if i < idx.len() { assert(idx2[i] == idx[i]); } }
        assert forall|i: int, j: int| 0 <= i < j < idx2.len() implies idx2[i] < idx2[j] by { if j < idx.len() { assert(idx2[i] == idx[i] && idx2[j] == idx[j]); } else { assert(idx2[i] == idx[i]); } }
        assert(subseq(s2, all, n + 1));
    } else {
        assert forall|i: int| 0 <= i < idx.len() implies 0 <= #[trigger] idx[i] < n + 1 && all[idx[i]] == s[i] by { }
        assert(subseq(s, all, n + 1));
    }
}
impl Pool {
    #[verifier::external_body]
    fn apply_tx_to_block_sums(&self, tx: &Transaction, header: &BlockHeader) -> (r: Result<BlockSums, PoolError>) ensures r.is_ok() ==> sp_sums_ok(*self, *tx, *header) { unimplemented!() }
//@ extract pool/src/pool.rs :: impl Pool::validate_raw_tx
//@   ensures:
//@+    r.is_ok() ==> sp_valid(*self, *tx, *header, weighting),
//@ end
    #[verifier::external_body]
    fn bucket_transactions(&self, weighting: Weighting) -> (r: Vec<Transaction>) ensures r@ == sp_bucketed(*self, weighting) { unimplemented!() }
    #[verifier::external_body]
    pub fn all_transactions(&self) -> (r: Vec<Transaction>) ensures r@ == self.txs@ { unimplemented!() }
//@ extract pool/src/pool.rs :: impl Pool::validate_raw_txs
//@   rewrite `let mut valid_txs = vec![];` => `let mut valid_txs: Vec<Transaction> = Vec::new();`
//@   rewrite `let mut candidate_txs = vec![];` => `let mut candidate_txs: Vec<Transaction> = Vec::new();`
//@   rewrite `for tx in txs {` => `for tx in it: txs.iter() {`
//@   rewrite `if let Some(extra_tx) = extra_tx.clone() {` => `if let Some(extra_tx) = clone_opt(&extra_tx) {`
//@   rewrite `candidate_txs.extend(valid_txs.clone());` => `extend_copy(&mut candidate_txs, &valid_txs);`
//@   rewrite `candidate_txs.push(tx.clone());` => `candidate_txs.push(*tx);`
//@   rewrite `valid_txs.push(tx.clone());` => `valid_txs.push(*tx);`
//@   ensures:
//@+    r matches Ok(v) ==> subseq(v@, txs@, txs@.len() as int) && jointly_valid(*self, extra_tx, v@, *header, weighting),
//@   loop 1:
//@+    invariant
//@+        subseq(valid_txs@, txs@, it.index@ as int), jointly_valid(*self, extra_tx, valid_txs@, *header, weighting),
//@   before `let agg_tx = transaction::aggregate(&candidate_txs)?;`:
//@+    proof { assert(candidate_txs@ =~= with_extra(extra_tx, valid_txs@.push(*tx))); lemma_subseq_grow(valid_txs@, txs@, it.index@ as int, true); lemma_subseq_grow(valid_txs@, txs@, it.index@ as int, false); assert(txs@[it.index@ as int] == *tx); }
//@   at_start:
//@+    proof { assert(subseq(Seq::<Transaction>::empty(), txs@, 0)) by { let idx = Seq::<int>::empty(); assert(idx.len() == 0); } }
//@ end
//@ extract pool/src/pool.rs :: impl Pool::prepare_mineable_transactions
//@   ensures:
//@+    r matches Ok(v) ==> ({ let w = Weighting::AsLimitedTransaction(max_weight); let cand = sp_bucketed(*self, w);
//@+        subseq(v@, cand, cand.len() as int) && jointly_valid(*self, None, v@, sp_chain_head(self.blockchain), w) }),
//@ end
//@ extract pool/src/pool.rs :: impl Pool::all_transactions_aggregate
//@   rewrite `txs.extend(extra_tx);` => `extend_opt(&mut txs, extra_tx);`
//@   ensures:
//@+    r matches Ok(Some(t)) ==> (self.txs@.len() == 0 && extra_tx == Some(t)) || (self.txs@.len() > 0 && sp_valid_nolimit(t)
//@+        && (sp_agg(match extra_tx { Some(e) => self.txs@.push(e), None => self.txs@ }) matches Ok(a) && a == t)),
//@+    r matches Ok(None) ==> self.txs@.len() == 0 && extra_tx.is_none(),
//@ end
}
//@ canary validate_raw_txs: r.is_err()
