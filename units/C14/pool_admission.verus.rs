//@ assume: Transaction, PoolEntry, Pool, the blockchain adapter and the pool adapter are abstract; fees are uninterpreted functions of a transaction's kernels (shifted_fee / accept_fee are decided on the real code in C14/weights); convert_tx_v2 replaces inputs only and therefore preserves both fee functions (assumed); is_acceptable carries the contract proved of the real body in C14/is_acceptable; the pools log the entries they accept
//@ assume: T6 rewrites: `let ref tx = entry.tx;` / `let ref entry = ..` => `let tx = &entry.tx;` / by-value binding used by reference; `acceptability.as_ref().err() == Some(&PoolError::OverCapacity)` => helper is_over_capacity; the coinbase-input iterator chain + slice conversion => helper coinbase_inputs_of; `.map_err(PoolError::InvalidTx)?` => `?`; `extra_tx.clone()` => helper clone; log macros removed
//@ assume: decided here: TransactionPool::add_to_pool admits a transaction (into the stempool or the txpool) only if the entry it stores -- after de-aggregation -- passed verify_kernel_variants, PAYS AT LEAST THE MINIMUM FEE FOR ITS WEIGHT, validates standalone under the transaction weight limit, meets the lock-height and coinbase-maturity rules, and was accepted by the pool's own joint validation; reconcile_block always runs the full re-validation of the txpool and then of the stempool; reconcile_reorg_cache (after a reorg) brings back ONLY entries of the reorg cache -- entries add_to_pool admitted earlier -- each through the txpool's joint validation, and adds nothing to the stempool (`for entry in entries` => index loop; the cache snapshot chain `.read().iter().cloned().collect()` => snapshot())
//@ assumed_items: 28
//@ fns: TransactionPool::add_to_pool, TransactionPool::reconcile_block, TransactionPool::reconcile_reorg_cache, TransactionPool::add_to_stempool, TransactionPool::add_to_txpool, TransactionPool::evict_from_txpool
global size_of usize == 8;
#[verifier::external_body]
#[derive(Clone, Copy)]
pub struct Transaction { _p: u8 }
#[derive(Clone, Copy, PartialEq, Eq)]
pub enum TxSource { PushApi, Broadcast, Fluff, EmbargoExpired, Deaggregate }
#[derive(Clone, Copy)]
pub struct PoolEntry { pub src: TxSource, pub tx: Transaction }
impl PoolEntry {
    pub fn new(tx: Transaction, src: TxSource) -> (r: PoolEntry) ensures r.tx == tx, r.src == src { PoolEntry { src, tx } }
}
#[verifier::external_body]
pub struct BlockHeader { _p: u8 }
pub struct Block { pub header: BlockHeader }
#[verifier::external_body]
pub struct OutputIdentifier { _p: u8 }
#[verifier::external_body]
pub struct Inputs { _p: u8 }
pub enum PoolError { OverCapacity, LowFeeTransaction(u64), DuplicateTx, InvalidTx, Other }
pub enum Weighting { AsTransaction }

pub uninterp spec fn sp_shifted_fee(t: Transaction) -> u64;
pub uninterp spec fn sp_accept_fee(t: Transaction) -> u64;
pub uninterp spec fn sp_variants_ok(t: Transaction) -> bool;
pub uninterp spec fn sp_valid_as_tx(t: Transaction) -> bool;
pub uninterp spec fn sp_lock_height_ok(t: Transaction) -> bool;
pub uninterp spec fn sp_maturity_ok(t: Transaction) -> bool;
pub uninterp spec fn sp_same_kernels(a: Transaction, b: Transaction) -> bool;
pub open spec fn fee_ok(t: Transaction) -> bool { sp_shifted_fee(t) >= sp_accept_fee(t) }

impl Transaction {
    #[verifier::external_body]
    pub fn validate(&self, w: Weighting) -> (r: Result<(), PoolError>) ensures r.is_ok() ==> sp_valid_as_tx(*self) { unimplemented!() }
}
#[verifier::external_body]
fn clone_opt_tx(t: &Option<Transaction>) -> (r: Option<Transaction>) ensures r == *t { unimplemented!() }
#[verifier::external_body]
fn is_over_capacity(a: &Result<(), PoolError>) -> (r: bool) ensures r == (*a matches Err(PoolError::OverCapacity)) { unimplemented!() }
#[verifier::external_body]
fn coinbase_inputs_of(spent_utxo: &Vec<OutputIdentifier>) -> (r: Inputs) { unimplemented!() }

/// `gen`: generation of the pool's CONTENT (bumped whenever entries are added or removed); `synced_with`: the generations of the OTHER pool's content this pool's entries were last validated / reconciled together with (meaningful for the stempool: stem transactions are kept jointly valid with the public pool)
pub struct Pool { pub added: Ghost<Seq<PoolEntry>>, pub reconciled_block: Ghost<int>, pub reconciled_full: Ghost<int>, pub gen: Ghost<int>, pub synced_with: Ghost<Set<int>>, pub _p: u8 }
/// `o` is the aggregate of a pool's content at generation g (None when that content is empty)
pub uninterp spec fn sp_covers(o: Option<Transaction>, g: int) -> bool;
impl Pool {
    #[verifier::external_body]
    pub fn contains_tx(&self, tx: &Transaction) -> (r: bool) { unimplemented!() }
    pub uninterp spec fn sp_size(&self) -> usize;
    #[verifier::external_body]
    pub fn size(&self) -> (r: usize) ensures r == self.sp_size() { unimplemented!() }
    #[verifier::external_body]
    pub fn add_to_pool(&mut self, entry: PoolEntry, extra: Option<Transaction>, header: &BlockHeader) -> (r: Result<(), PoolError>)
        ensures r.is_ok() ==> final(self).added@ == old(self).added@.push(entry) && final(self).gen@ == old(self).gen@ + 1 && (forall|g: int| #[trigger] sp_covers(extra, g) ==> final(self).synced_with@.contains(g)) && (forall|g: int| final(self).synced_with@.contains(g) ==> #[trigger] sp_covers(extra, g)),
            r.is_err() ==> final(self).added@ == old(self).added@ && final(self).gen@ == old(self).gen@ && final(self).synced_with@ == old(self).synced_with@ { unimplemented!() }
    #[verifier::external_body]
    pub fn all_transactions_aggregate(&self, extra: Option<Transaction>) -> (r: Result<Option<Transaction>, PoolError>) ensures r matches Ok(a) ==> sp_covers(a, self.gen@) { unimplemented!() }
    #[verifier::external_body]
    pub fn locate_spends(&self, tx: &Transaction, extra: Option<Transaction>) -> (r: Result<(Vec<OutputIdentifier>, Vec<OutputIdentifier>), PoolError>) { unimplemented!() }
    #[verifier::external_body]
    pub fn reconcile(&mut self, extra: Option<Transaction>, header: &BlockHeader) -> (r: Result<(), PoolError>)
        ensures final(self).added@ == old(self).added@, final(self).reconciled_full@ == old(self).reconciled_full@ + 1, final(self).reconciled_block@ == old(self).reconciled_block@,
            r.is_ok() ==> (forall|g: int| #[trigger] sp_covers(extra, g) ==> final(self).synced_with@.contains(g)) && (forall|g: int| final(self).synced_with@.contains(g) ==> #[trigger] sp_covers(extra, g)) { unimplemented!() }
    #[verifier::external_body]
    pub fn reconcile_block(&mut self, block: &Block)
        ensures final(self).added@ == old(self).added@, final(self).reconciled_block@ == old(self).reconciled_block@ + 1, final(self).reconciled_full@ == old(self).reconciled_full@ { unimplemented!() }
    #[verifier::external_body]
    pub fn evict_transaction(&mut self) ensures final(self).added@ == old(self).added@, final(self).synced_with@ == old(self).synced_with@, final(self).gen@ == old(self).gen@ + 1 { unimplemented!() }
}
#[verifier::external_body]
pub struct Chain { _p: u8 }
impl Chain {
    #[verifier::external_body]
    pub fn verify_tx_lock_height(&self, tx: &Transaction) -> (r: Result<(), PoolError>) ensures r.is_ok() ==> sp_lock_height_ok(*tx) { unimplemented!() }
    #[verifier::external_body]
    pub fn verify_coinbase_maturity(&self, inputs: &Inputs) -> (r: Result<(), PoolError>) { unimplemented!() }
}
#[verifier::external_body]
pub struct Adapter { _p: u8 }
impl Adapter {
    #[verifier::external_body]
    pub fn stem_tx_accepted(&self, e: &PoolEntry) -> (r: Result<(), PoolError>) { unimplemented!() }
    #[verifier::external_body]
    pub fn tx_accepted(&self, e: &PoolEntry) { unimplemented!() }
}
/// the reorg cache (Arc<RwLock<VecDeque<PoolEntry>>>): `snapshot` stands in for `.read().iter().cloned().collect::<Vec<_>>()`
pub struct ReorgCache { pub entries: Ghost<Seq<PoolEntry>> }
impl ReorgCache {
    #[verifier::external_body]
    pub fn snapshot(&self) -> (r: Vec<PoolEntry>) ensures r@ == self.entries@ { unimplemented!() }
}
pub struct TransactionPool { pub txpool: Pool, pub stempool: Pool, pub blockchain: Chain, pub adapter: Adapter, pub reorg_cache: ReorgCache }
impl TransactionPool {
    #[verifier::external_body]
    fn deaggregate_tx(&self, entry: PoolEntry) -> (r: Result<PoolEntry, PoolError>) { unimplemented!() }
    #[verifier::external_body]
    fn verify_kernel_variants(&self, tx: &Transaction, header: &BlockHeader) -> (r: Result<(), PoolError>) ensures r.is_ok() ==> sp_variants_ok(*tx) { unimplemented!() }
    /// contract of the real is_acceptable as proved in C14/is_acceptable
    #[verifier::external_body]
    fn is_acceptable(&self, tx: &Transaction, stem: bool) -> (r: Result<(), PoolError>)
        ensures r.is_ok() ==> fee_ok(*tx),
                !fee_ok(*tx) ==> r.is_err(), r matches Err(PoolError::OverCapacity) ==> fee_ok(*tx) { unimplemented!() }
    #[verifier::external_body]
    fn convert_tx_v2(&self, entry: PoolEntry, spent_pool: &Vec<OutputIdentifier>, spent_utxo: &Vec<OutputIdentifier>) -> (r: Result<PoolEntry, PoolError>)
        ensures r matches Ok(e) ==> sp_valid_as_tx(e.tx) && sp_shifted_fee(e.tx) == sp_shifted_fee(entry.tx) && sp_accept_fee(e.tx) == sp_accept_fee(entry.tx)
            && sp_variants_ok(e.tx) == sp_variants_ok(entry.tx) && sp_lock_height_ok(e.tx) == sp_lock_height_ok(entry.tx) { unimplemented!() }
    #[verifier::external_body]
    fn add_to_reorg_cache(&mut self, entry: &PoolEntry) ensures final(self).txpool == old(self).txpool, final(self).stempool == old(self).stempool, final(self).reorg_cache.entries@ == old(self).reorg_cache.entries@.push(*entry) || final(self).reorg_cache.entries@ == old(self).reorg_cache.entries@.push(*entry).drop_first() { unimplemented!() }
//@ extract pool/src/transaction_pool.rs :: impl TransactionPool::add_to_stempool
//@   rewrite `entry.clone()` => `*entry` x?
//@   ensures:
//@+    r.is_ok() ==> final(self).stempool.added@ == old(self).stempool.added@.push(*entry), r.is_err() ==> final(self).stempool.added@ == old(self).stempool.added@,
//@+    final(self).txpool == old(self).txpool,
//@+    r.is_ok() ==> forall|g: int| #[trigger] sp_covers(extra_tx, g) ==> final(self).stempool.synced_with@.contains(g),
//@+    r.is_ok() ==> forall|g: int| final(self).stempool.synced_with@.contains(g) ==> #[trigger] sp_covers(extra_tx, g),
//@+    r.is_err() ==> final(self).stempool.synced_with@ == old(self).stempool.synced_with@,
//@ end
//@ extract pool/src/transaction_pool.rs :: impl TransactionPool::add_to_txpool
//@   rewrite `entry.clone()` => `*entry` x?
//@   ensures:
//@+    r.is_ok() ==> final(self).txpool.added@ == old(self).txpool.added@.push(*entry) && final(self).txpool.gen@ == old(self).txpool.gen@ + 1
//@+        // the stempool is reconciled against the NEW txpool content
//@+        && final(self).stempool.synced_with@.contains(final(self).txpool.gen@),
//@+    r.is_err() ==> final(self).txpool.added@ == old(self).txpool.added@ || final(self).txpool.added@ == old(self).txpool.added@.push(*entry),
//@+    final(self).stempool.added@ == old(self).stempool.added@, final(self).reorg_cache == old(self).reorg_cache,
//@ end
//@ extract pool/src/transaction_pool.rs :: impl TransactionPool::evict_from_txpool
//@   ensures:
//@+    final(self).txpool.added@ == old(self).txpool.added@, final(self).stempool == old(self).stempool, final(self).txpool.gen@ == old(self).txpool.gen@ + 1,
//@ end

    /// every entry the two pools accepted since `before` satisfies the admission rules
    pub open spec fn admitted_ok(before: TransactionPool, after: TransactionPool) -> bool {
        &&& before.txpool.added@.len() <= after.txpool.added@.len() && after.txpool.added@.take(before.txpool.added@.len() as int) =~= before.txpool.added@
        &&& before.stempool.added@.len() <= after.stempool.added@.len() && after.stempool.added@.take(before.stempool.added@.len() as int) =~= before.stempool.added@
        &&& forall|i: int| before.txpool.added@.len() <= i < after.txpool.added@.len() ==> entry_ok(#[trigger] after.txpool.added@[i])
        &&& forall|i: int| before.stempool.added@.len() <= i < after.stempool.added@.len() ==> entry_ok(#[trigger] after.stempool.added@[i])
    }

//@ extract pool/src/transaction_pool.rs :: impl TransactionPool::add_to_pool
//@   strip_logs
//@   rewrite `let ref tx = entry.tx;` => `let tx = &entry.tx;`
//@   rewrite `if !stem && acceptability.as_ref().err() == Some(&PoolError::OverCapacity) {` => `if !stem && is_over_capacity(&acceptability) {`
//@   rewrite `\t\ttx.validate(Weighting::AsTransaction)\n\t\t\t.map_err(PoolError::InvalidTx)?;` => `\t\ttx.validate(Weighting::AsTransaction)?;`
//@   rewrite `self.stempool.locate_spends(tx, extra_tx.clone())` => `self.stempool.locate_spends(tx, clone_opt_tx(&extra_tx))`
//@   rewrite `\t\tlet coinbase_inputs: Vec<_> = spent_utxo\n\t\t\t.iter()\n\t\t\t.filter(|x| x.is_coinbase())\n\t\t\t.cloned()\n\t\t\t.collect();\n\t\tself.blockchain\n\t\t\t.verify_coinbase_maturity(&coinbase_inputs.as_slice().into())?;` => `\t\tself.blockchain.verify_coinbase_maturity(&coinbase_inputs_of(&spent_utxo))?;`
//@   rewrite `let ref entry = self.convert_tx_v2(entry, &spent_pool, &spent_utxo)?;` => `let entry_v2 = self.convert_tx_v2(entry, &spent_pool, &spent_utxo)?; let entry = &entry_v2;`
//@   requires:
//@+    old(self).stempool.synced_with@.contains(old(self).txpool.gen@),
//@   ensures:
//@+    TransactionPool::admitted_ok(*old(self), *final(self)),
//@+    // 'stem transactions are in addition jointly valid with the public pool': whenever the txpool's content changed, the stempool was reconciled against the content it has AT RETURN
//@+    r.is_ok() ==> final(self).stempool.synced_with@.contains(final(self).txpool.gen@),
//@   decreases:
//@+    (if stem { 1nat } else { 0nat }),
//@ end

//@ extract pool/src/transaction_pool.rs :: impl TransactionPool::reconcile_reorg_cache
//@   strip_logs
//@   rewrite `let entries = self.reorg_cache.read().iter().cloned().collect::<Vec<_>>();` => `let entries = self.reorg_cache.snapshot();`
//@   rewrite `for entry in entries {` => `let mut ix: usize = 0; while ix < entries.len() { let entry = entries[ix]; ix += 1;`
//@   requires:
//@+    // the cache holds only entries that passed admission (add_to_pool is its only writer)
//@+    forall|i: int| 0 <= i < old(self).reorg_cache.entries@.len() ==> entry_ok(#[trigger] old(self).reorg_cache.entries@[i]),
//@   ensures:
//@+    // after a reorg ONLY cached, previously admitted entries come back, each through the txpool's own joint validation; the stempool gains nothing
//@+    TransactionPool::admitted_ok(*old(self), *final(self)), final(self).stempool.added@ == old(self).stempool.added@,
//@+    final(self).reorg_cache == old(self).reorg_cache,
//@   loop 1:
//@+    invariant
//@+        ix <= entries@.len(), entries@ == old(self).reorg_cache.entries@, self.reorg_cache == old(self).reorg_cache,
//@+        forall|i: int| 0 <= i < entries@.len() ==> entry_ok(#[trigger] entries@[i]),
//@+        TransactionPool::admitted_ok(*old(self), *self), self.stempool.added@ == old(self).stempool.added@,
//@+    decreases entries@.len() - ix,
//@ end

//@ extract pool/src/transaction_pool.rs :: impl TransactionPool::reconcile_block
//@   ensures:
//@+    r.is_ok() ==> final(self).txpool.reconciled_block@ == old(self).txpool.reconciled_block@ + 1 && final(self).txpool.reconciled_full@ == old(self).txpool.reconciled_full@ + 1
//@+        && final(self).stempool.reconciled_block@ == old(self).stempool.reconciled_block@ + 1 && final(self).stempool.reconciled_full@ == old(self).stempool.reconciled_full@ + 1,
//@ end
}
/// what the property demands of an admitted entry
pub open spec fn entry_ok(e: PoolEntry) -> bool { fee_ok(e.tx) && sp_variants_ok(e.tx) && sp_valid_as_tx(e.tx) && sp_lock_height_ok(e.tx) }
//@ canary add_to_pool: r.is_err()
