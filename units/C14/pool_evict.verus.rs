//@ assume: Transaction is abstract with uninterpreted input / output commitment lists (sp_ins, sp_outs); bucket_transactions(weighting) is the uninterpreted list sp_bucketed(entries, weighting) -- NOTHING is assumed about its order or about which pool transactions it contains (on the pinned tree it does not preserve dependency order: finding F13); `X.into_iter().rev().find(p)` => abstract TxList / TxIter stand-ins: find returns an element satisfying p, or None when none does; `entries.retain(f)` => retain_entries, keeps exactly the elements satisfying f; both closures are replaced by predicate objects here (T6, by their text) and are verified verbatim as lifted functions in C14/pool_evict_closures
//@ assume: T6 in has_dependent_tx: `for x in &vec` / `for x in slice` => the verifier's `for x in it: .iter()` form; `let inputs: Vec<_> = entry.tx.inputs().into()` => inputs_of(&entry.tx)
//@ assume: decided here (C14, 'after any sequence of ... evictions ... every input exists in the unspent set or is created by another pool transaction'), for ANY pool contents and ANY bucket list: Pool::evict_transaction either leaves the pool as it is or removes exactly the entries holding ONE transaction t such that no OTHER pool entry spends an output of t -- so an eviction never takes away an output that a remaining pool transaction spends; Pool::has_dependent_tx(tx) is true iff some other entry has an input whose commitment equals the commitment of one of tx's outputs (three nested loops, early return)
//@ assumed_items: 8
//@ fns: Pool::evict_transaction, Pool::has_dependent_tx
#[derive(Clone, Copy, PartialEq, Eq, Structural)]
pub struct Commitment { pub c: u64 }
#[derive(Clone, Copy, PartialEq, Eq, Structural)]
pub struct CommitWrapper { pub commit: Commitment }
impl CommitWrapper { pub fn commitment(&self) -> (r: Commitment) ensures r == self.commit { self.commit } }
#[derive(Clone, Copy, PartialEq, Eq, Structural)]
pub struct Output { pub commit: Commitment }
impl Output { pub fn commitment(&self) -> (r: Commitment) ensures r == self.commit { self.commit } }
#[derive(Clone, Copy, PartialEq, Eq, Structural)]
pub struct Transaction { pub id: u64 }
pub uninterp spec fn sp_ins(t: Transaction) -> Seq<CommitWrapper>;
pub uninterp spec fn sp_outs(t: Transaction) -> Seq<Output>;
impl Transaction {
    #[verifier::external_body]
    pub fn outputs(&self) -> (r: &[Output]) ensures r@ == sp_outs(*self) { unimplemented!() }
}
#[verifier::external_body]
fn inputs_of(t: &Transaction) -> (r: Vec<CommitWrapper>) ensures r@ == sp_ins(*t) { unimplemented!() }
#[derive(Clone, Copy, PartialEq, Eq, Structural)]
pub struct PoolEntry { pub tx: Transaction, pub src: u8 }
#[derive(Clone, Copy, PartialEq, Eq, Structural)]
pub enum Weighting { AsTransaction, AsLimitedTransaction(u64), AsBlock, NoLimit }
/// a spends an output of b
pub open spec fn spends(a: Transaction, b: Transaction) -> bool {
    exists|i: int, j: int| 0 <= i < sp_ins(a).len() && 0 <= j < sp_outs(b).len() && #[trigger] sp_ins(a)[i].commit == #[trigger] sp_outs(b)[j].commit
}
/// some OTHER pool entry spends an output of t
pub open spec fn has_dep(entries: Seq<PoolEntry>, t: Transaction) -> bool {
    exists|k: int| 0 <= k < entries.len() && (#[trigger] entries[k]).tx != t && spends(entries[k].tx, t)
}
pub uninterp spec fn sp_bucketed(entries: Seq<PoolEntry>, w: Weighting) -> Seq<Transaction>;
pub struct TxList { pub items: Ghost<Seq<Transaction>> }
pub struct TxIter { pub items: Ghost<Seq<Transaction>> }
pub struct NoDep<'a> { pub pool: &'a Pool }
pub struct NotTx<'a> { pub t: &'a Transaction }
impl TxList {
    #[verifier::external_body]
    pub fn last(&self) -> (r: Option<&Transaction>) ensures self.items@.len() == 0 ==> r.is_none(), self.items@.len() > 0 ==> r == Some(&self.items@.last()) { unimplemented!() }
    #[verifier::external_body]
    pub fn into_iter(self) -> (r: TxIter) ensures r.items@ == self.items@ { unimplemented!() }
}
impl TxIter {
    #[verifier::external_body]
    pub fn rev(self) -> (r: TxIter) ensures r.items@ == self.items@.reverse() { unimplemented!() }
    /// Iterator::find with the predicate `|tx| !self.has_dependent_tx(tx)`
    #[verifier::external_body]
    pub fn find(self, p: NoDep) -> (r: Option<Transaction>)
        ensures r matches Some(t) ==> self.items@.contains(t) && !has_dep(p.pool.entries@, t),
                r.is_none() ==> forall|i: int| 0 <= i < self.items@.len() ==> has_dep(p.pool.entries@, #[trigger] self.items@[i]) { unimplemented!() }
}
/// Vec::retain with the predicate `|x| x.tx != t`
#[verifier::external_body]
fn retain_entries(v: &mut Vec<PoolEntry>, f: NotTx) ensures final(v)@ == old(v)@.filter(|e: PoolEntry| e.tx != *f.t) { unimplemented!() }
pub struct Pool { pub entries: Vec<PoolEntry> }
impl Pool {
    #[verifier::external_body]
    fn bucket_transactions(&self, weighting: Weighting) -> (r: TxList) ensures r.items@ == sp_bucketed(self.entries@, weighting) { unimplemented!() }
//@ extract pool/src/pool.rs :: impl Pool::evict_transaction
//@   rewrite `|tx| !self.has_dependent_tx(tx)` => `NoDep { pool: &*self }` x?
//@   rewrite `self.entries.retain(|x| x.tx != evictable_transaction);` => `retain_entries(&mut self.entries, NotTx { t: &evictable_transaction });` x?
//@   rewrite `self.entries.retain(|x| x.tx != *evictable_transaction);` => `retain_entries(&mut self.entries, NotTx { t: evictable_transaction });` x?
//@   ensures:
//@+    final(self).entries@ == old(self).entries@
//@+        || exists|t: Transaction| final(self).entries@ == old(self).entries@.filter(|e: PoolEntry| e.tx != t) && !has_dep(old(self).entries@, t),
//@ end
//@ extract? pool/src/pool.rs :: impl Pool::has_dependent_tx
//@   rewrite `for entry in &self.entries {` => `for entry in it1: self.entries.iter() {`
//@   rewrite `let inputs: Vec<_> = entry.tx.inputs().into();` => `let inputs: Vec<CommitWrapper> = inputs_of(&entry.tx);`
//@   rewrite `for input in inputs {` => `for input in it2: inputs.iter() {`
//@   rewrite `for output in tx.outputs() {` => `for output in it3: tx.outputs().iter() {`
//@   ensures:
//@+    r == has_dep(self.entries@, *tx),
//@   loop 1:
//@+    invariant
//@+        forall|k: int| 0 <= k < it1.index@ ==> (#[trigger] self.entries@[k]).tx == *tx || !spends(self.entries@[k].tx, *tx),
//@   loop 2:
//@+    invariant
//@+        inputs@ == sp_ins(entry.tx), entry.tx != *tx, *entry == self.entries@[it1.index@ as int], 0 <= it1.index@ < self.entries@.len(),
//@+        forall|i: int, j: int| 0 <= i < it2.index@ && 0 <= j < sp_outs(*tx).len() ==> #[trigger] sp_ins(entry.tx)[i].commit != #[trigger] sp_outs(*tx)[j].commit,
//@   loop 3:
//@+    invariant
//@+        inputs@ == sp_ins(entry.tx), entry.tx != *tx, *entry == self.entries@[it1.index@ as int], 0 <= it1.index@ < self.entries@.len(),
//@+        *input == inputs@[it2.index@ as int], 0 <= it2.index@ < inputs@.len(),
//@+        forall|j: int| 0 <= j < it3.index@ ==> input.commit != (#[trigger] sp_outs(*tx)[j]).commit,
//@ end
}
//@ canary evict_transaction: false
