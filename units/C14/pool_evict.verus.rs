//@ assume: Pool / PoolEntry / Transaction are abstract; bucket_transactions(weighting) is the uninterpreted list sp_bucketed(pool, weighting) -- ordered so that a transaction comes after everything it depends on AMONG THE BUCKETED ones, and dropping every transaction whose aggregate with its parent fails validation under `weighting` (bucket_transactions itself, HashMap / HashSet driven, is NOT under contract); `entries.retain(f)` => abstract list whose retain keeps exactly the elements satisfying f, f being the REAL closure text, verified as a lifted function (T7)
//@ assume: decided here (C14, 'after ... evictions ... every input exists in the unspent set or is created by another pool transaction'), as far as a contract on this function reaches: Pool::evict_transaction asks bucket_transactions for the WHOLE pool (Weighting::NoLimit -- any weight limit drops over-weight descendants from the list, and their parent then looks like a leaf) and removes exactly the entries whose transaction equals the LAST one of that list, nothing else; an empty list removes nothing. NOT decided: that the last bucketed transaction has no dependant in the pool -- on the pinned tree a transaction with two parents in the pool is not bucketed at all (DESIGN 8b, observation (i))
//@ assumed_items: 3
//@ fns: Pool::evict_transaction, 1 closure in Pool::evict_transaction
#[derive(Clone, Copy, PartialEq, Eq, Structural)]
pub struct Transaction { pub id: u64 }
#[derive(Clone, Copy, PartialEq, Eq, Structural)]
pub struct PoolEntry { pub tx: Transaction, pub src: u8 }
#[derive(Clone, Copy, PartialEq, Eq, Structural)]
pub enum Weighting { AsTransaction, AsLimitedTransaction(u64), AsBlock, NoLimit }
pub uninterp spec fn sp_bucketed(entries: Seq<PoolEntry>, w: Weighting) -> Seq<Transaction>;
pub struct TxList { pub items: Ghost<Seq<Transaction>> }
impl TxList {
    #[verifier::external_body]
    pub fn last(&self) -> (r: Option<&Transaction>) ensures self.items@.len() == 0 ==> r.is_none(), self.items@.len() > 0 ==> r == Some(&self.items@.last()) { unimplemented!() }
}
pub struct NotTx<'a> { pub t: &'a Transaction }
pub struct Entries { pub items: Ghost<Seq<PoolEntry>> }
impl Entries {
    /// Vec::retain with the closure `|x| x.tx != *t`
    #[verifier::external_body]
    pub fn retain(&mut self, f: NotTx) ensures final(self).items@ == old(self).items@.filter(|e: PoolEntry| e.tx != *f.t) { unimplemented!() }
}
pub struct Pool { pub entries: Entries }
impl Pool {
    #[verifier::external_body]
    fn bucket_transactions(&self, weighting: Weighting) -> (r: TxList) ensures r.items@ == sp_bucketed(self.entries.items@, weighting) { unimplemented!() }
//@ extract pool/src/pool.rs :: impl Pool::evict_transaction
//@   eclosure 1 replaced_by `NotTx { t: evictable_transaction }`
//@   ensures:
//@+    ({ let b = sp_bucketed(old(self).entries.items@, Weighting::NoLimit);
//@+       if b.len() == 0 { final(self).entries.items@ == old(self).entries.items@ }
//@+       else { final(self).entries.items@ == old(self).entries.items@.filter(|e: PoolEntry| e.tx != b.last()) } }),
//@ end
}
//@ extract pool/src/pool.rs :: impl Pool::evict_transaction
//@   eclosure 1 lifted_as `fn keep_entry(x: &PoolEntry, evictable_transaction: &Transaction) -> bool`
//@   ensures:
//@+    r == (x.tx != *evictable_transaction),
//@ end
//@ canary evict_transaction: false
