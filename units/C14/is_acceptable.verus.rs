//@ assume: pool sizes, configuration limits and the transaction's shifted_fee / accept_fee are abstract (uninterpreted accessors); shifted_fee and accept_fee themselves are covered on the real code in C14/weights (Kani)
//@ assume: decided here: TransactionPool::is_acceptable admits a transaction only if it pays at least the minimum fee for its weight (shifted_fee >= accept_fee) and the pool (and, for stem transactions, the stempool) is within capacity; a low-fee transaction is refused as LowFeeTransaction whatever the pool's fill level, so the OverCapacity answer -- which add_to_pool turns into 'admit and evict' -- is only ever given to a transaction that pays the minimum fee (finding F8); joint validity against the chain, reconciliation and eviction are history properties (DESIGN 6 C14)
//@ assumed_items: 6
//@ fns: TransactionPool::is_acceptable
global size_of usize == 8;
#[verifier::external_body]
pub struct Transaction { _p: u8 }
#[verifier::external_body]
pub struct Pool { _p: u8 }
pub struct PoolConfig { pub max_pool_size: usize, pub max_stempool_size: usize }
pub struct TransactionPool { pub config: PoolConfig, pub txpool: Pool, pub stempool: Pool }
pub enum PoolError { OverCapacity, LowFeeTransaction(u64), Other }

pub uninterp spec fn sp_shifted_fee(t: Transaction) -> u64;
pub uninterp spec fn sp_accept_fee(t: Transaction) -> u64;
impl Transaction {
    #[verifier::external_body]
    pub fn shifted_fee(&self) -> (r: u64) ensures r == sp_shifted_fee(*self) { unimplemented!() }
    #[verifier::external_body]
    pub fn accept_fee(&self) -> (r: u64) ensures r == sp_accept_fee(*self) { unimplemented!() }
}
impl Pool {
    pub uninterp spec fn sp_size(&self) -> usize;
    #[verifier::external_body]
    pub fn size(&self) -> (r: usize) ensures r == self.sp_size() { unimplemented!() }
}
impl TransactionPool {
    #[verifier::external_body]
    pub fn total_size(&self) -> (r: usize) ensures r == self.txpool.sp_size() { unimplemented!() }

//@ extract pool/src/transaction_pool.rs :: impl TransactionPool::is_acceptable
//@   ensures:
//@+    r.is_ok() ==> sp_shifted_fee(*tx) >= sp_accept_fee(*tx)
//@+        && self.txpool.sp_size() <= self.config.max_pool_size
//@+        && (stem ==> self.stempool.sp_size() <= self.config.max_stempool_size),
//@+    (sp_shifted_fee(*tx) < sp_accept_fee(*tx)) ==> r.is_err(),
//@+    r matches Err(PoolError::OverCapacity) ==> sp_shifted_fee(*tx) >= sp_accept_fee(*tx),
//@+    (sp_shifted_fee(*tx) < sp_accept_fee(*tx)) ==> r matches Err(PoolError::LowFeeTransaction(_)),
//@ end
}
//@ canary is_acceptable: r.is_err()
