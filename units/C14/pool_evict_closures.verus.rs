//@ assume: the two closures of Pool::evict_transaction that C14/pool_evict replaces by predicate objects, verified verbatim as lifted functions (T7) against the meaning those objects are given there: the find predicate is `no other pool entry spends an output of tx`, the retain predicate keeps exactly the entries holding another transaction
//@ assumed_items: 0
//@ fns: 2 closures in Pool::evict_transaction
//@ include: ../C14/pool_evict.verus.rs
impl Pool {
//@ extract pool/src/pool.rs :: impl Pool::evict_transaction
//@   eclosure 1 lifted_as `fn find_pred(&self, tx: &Transaction) -> bool`
//@   ensures:
//@+    r == !has_dep(self.entries@, *tx),
//@ end
}
//@ extract pool/src/pool.rs :: impl Pool::evict_transaction
//@   eclosure 2 lifted_as `fn retain_pred(x: &PoolEntry, evictable_transaction: Transaction) -> bool`
//@   ensures:
//@+    r == (x.tx != evictable_transaction),
//@ end
//@ canary evict_transaction: false
