//@ assume: Transaction / PoolEntry / BlockHeader / the blockchain adapter are abstract; transaction::aggregate is an uninterpreted function of the transaction list (its real contract is proved in C12/aggregate); Transaction::validate, BlockChain::validate_tx and apply_tx_to_block_sums are abstract callees with uninterpreted "this check passed" meanings against a given header
//@ assume: T6 rewrites: `txs.contains(&entry.tx)` => helper (element equality); `txs.extend(extra_tx)` => helper pushing the optional transaction; `entry.tx.clone()` / `extra_tx.clone()` / `self.entries.clone()` => helper clones; `for x in existing_entries {` => Verus iterator loop; log helper abstract
//@ assume: decided here: the pool's joint-validity invariant. Pool::add_to_pool stores an entry ONLY after the aggregate of every transaction already in the pool, the optional extra transaction (the txpool aggregate when adding to the stempool) and the new transaction passed standalone validation, validation against the chain's UTXO set and the block-sums check at the given header; a duplicate is refused; Pool::reconcile re-admits entries one by one through that same gate, so after it the pool is a sub-sequence of the old one that is jointly valid at the new header
//@ assumed_items: 20
//@ fns: Pool::add_to_pool, Pool::validate_raw_tx, Pool::reconcile
#[verifier::external_body]
#[derive(Clone, Copy)]
pub struct Transaction { _p: u8 }
#[derive(Clone, Copy)]
pub struct PoolEntry { pub src: u8, pub tx: Transaction }
#[verifier::external_body]
pub struct BlockHeader { _p: u8 }
#[verifier::external_body]
pub struct BlockSums { _p: u8 }
pub enum PoolError { DuplicateTx, Invalid, Other }
#[derive(Clone, Copy)]
pub enum Weighting { NoLimit, AsTransaction }
pub uninterp spec fn sp_agg(txs: Seq<Transaction>) -> Transaction;
pub uninterp spec fn sp_valid(t: Transaction, w: Weighting) -> bool;
pub uninterp spec fn sp_chain_valid(t: Transaction) -> bool;
pub uninterp spec fn sp_sums_ok(t: Transaction, h: BlockHeader) -> bool;
/// lock heights reached / spent coinbases mature at the NEXT block on the current head (both can become false after a reorg to a shorter chain)
pub uninterp spec fn sp_locks_ok(t: Transaction) -> bool;
pub uninterp spec fn sp_mature_ok(i: Inputs) -> bool;
pub uninterp spec fn sp_inputs(t: Transaction) -> Inputs;
#[verifier::external_body]
pub struct Inputs { _p: u8 }
/// the combined transaction was checked at header h
pub open spec fn jointly_valid(t: Transaction, h: BlockHeader) -> bool { sp_valid(t, Weighting::NoLimit) && sp_chain_valid(t) && sp_sums_ok(t, h) && sp_locks_ok(t) && sp_mature_ok(sp_inputs(t)) }
/// what was validated when the pool content `txs` (+ optional extra) was last extended
pub open spec fn combined(txs: Seq<Transaction>) -> Transaction { if txs.len() == 1 { txs[0] } else { sp_agg(txs) } }

impl Transaction {
    #[verifier::external_body]
    pub fn validate(&self, w: Weighting) -> (r: Result<(), PoolError>) ensures r.is_ok() ==> sp_valid(*self, w) { unimplemented!() }
    #[verifier::external_body]
    pub fn inputs(&self) -> (r: Inputs) ensures r == sp_inputs(*self) { unimplemented!() }
}
pub mod transaction { use super::*;
    #[verifier::external_body]
    pub fn aggregate(txs: &Vec<Transaction>) -> (r: Result<Transaction, PoolError>) ensures r matches Ok(t) ==> t == sp_agg(txs@) { unimplemented!() } }
#[verifier::external_body]
pub struct Chain { _p: u8 }
impl Chain {
    #[verifier::external_body]
    pub fn validate_tx(&self, tx: &Transaction) -> (r: Result<(), PoolError>) ensures r.is_ok() ==> sp_chain_valid(*tx) { unimplemented!() }
    #[verifier::external_body]
    pub fn verify_tx_lock_height(&self, tx: &Transaction) -> (r: Result<(), PoolError>) ensures r.is_ok() ==> sp_locks_ok(*tx) { unimplemented!() }
    #[verifier::external_body]
    pub fn verify_coinbase_maturity(&self, inputs: &Inputs) -> (r: Result<(), PoolError>) ensures r.is_ok() ==> sp_mature_ok(*inputs) { unimplemented!() }
}
#[verifier::external_body]
fn vec_contains(v: &Vec<Transaction>, t: &Transaction) -> (r: bool) ensures r == v@.contains(*t) { unimplemented!() }
#[verifier::external_body]
fn extend_opt(v: &mut Vec<Transaction>, t: Option<Transaction>) ensures final(v)@ == (match t { Some(x) => old(v)@.push(x), None => old(v)@ }) { unimplemented!() }
#[verifier::external_body]
fn clone_tx(t: &Transaction) -> (r: Transaction) ensures r == *t { unimplemented!() }
#[verifier::external_body]
fn clone_opt(t: &Option<Transaction>) -> (r: Option<Transaction>) ensures r == *t { unimplemented!() }
#[verifier::external_body]
fn clone_entries(v: &Vec<PoolEntry>) -> (r: Vec<PoolEntry>) ensures r@ == v@ { unimplemented!() }

pub open spec fn txs_of(e: Seq<PoolEntry>) -> Seq<Transaction> { e.map_values(|x: PoolEntry| x.tx) }
pub open spec fn with_extra(txs: Seq<Transaction>, extra: Option<Transaction>) -> Seq<Transaction> { match extra { Some(x) => txs.push(x), None => txs } }

pub struct Pool { pub entries: Vec<PoolEntry>, pub blockchain: Chain }
impl Pool {
    #[verifier::external_body]
    pub fn all_transactions(&self) -> (r: Vec<Transaction>) ensures r@ == txs_of(self.entries@) { unimplemented!() }
    /// offered (not used by the pinned text of the functions under contract here; its own contract is C14/pool_mineable): the aggregate of everything in the pool plus the extra transaction, validated standalone
    #[verifier::external_body]
    pub fn all_transactions_aggregate(&self, extra_tx: Option<Transaction>) -> (r: Result<Option<Transaction>, PoolError>) ensures r matches Ok(Some(t)) ==> sp_valid(t, Weighting::NoLimit) { unimplemented!() }
    #[verifier::external_body]
    fn apply_tx_to_block_sums(&self, tx: &Transaction, header: &BlockHeader) -> (r: Result<BlockSums, PoolError>) ensures r.is_ok() ==> sp_sums_ok(*tx, *header) { unimplemented!() }
    #[verifier::external_body]
    fn log_pool_add(&self, entry: &PoolEntry, header: &BlockHeader) { unimplemented!() }

//@ extract pool/src/pool.rs :: impl Pool::validate_raw_tx
//@   ensures:
//@+    r.is_ok() ==> sp_valid(*tx, weighting) && sp_chain_valid(*tx) && sp_sums_ok(*tx, *header) && sp_locks_ok(*tx) && sp_mature_ok(sp_inputs(*tx)),
//@ end

//@ extract pool/src/pool.rs :: impl Pool::add_to_pool
//@   rewrite `if txs.contains(&entry.tx) {` => `if vec_contains(&txs, &entry.tx) {`
//@   rewrite `txs.extend(extra_tx);` => `extend_opt(&mut txs, extra_tx);`
//@   rewrite `entry.tx.clone()` => `clone_tx(&entry.tx)` x2
//@   ensures:
//@+    r.is_ok() ==> final(self).entries@ == old(self).entries@.push(entry)
//@+        && !txs_of(old(self).entries@).contains(entry.tx)
//@+        && jointly_valid(combined(with_extra(txs_of(old(self).entries@), extra_tx).push(entry.tx)), *header),
//@+    r.is_err() ==> final(self).entries@ == old(self).entries@,
//@ end

//@ extract pool/src/pool.rs :: impl Pool::reconcile
//@   rewrite `let existing_entries = self.entries.clone();` => `let existing_entries = clone_entries(&self.entries);`
//@   rewrite `for x in existing_entries {` => `for xr in it: existing_entries.iter() { let x = *xr;`
//@   rewrite `extra_tx.clone()` => `clone_opt(&extra_tx)`
//@   before `let _ = self.add_to_pool(`:
//@+    let ghost e0 = self.entries@;
//@   after `let _ = self.add_to_pool(`:
//@+    proof { if self.entries@ != e0 { assert(self.entries@ == e0.push(x)); assert(self.entries@.drop_last() =~= e0); assert(old(self).entries@.contains(x)); } }
//@   loop 1:
//@+    invariant
//@+        existing_entries@ == old(self).entries@,
//@+        forall|i: int| 0 <= i < self.entries@.len() ==> old(self).entries@.contains(#[trigger] self.entries@[i]),
//@+        self.entries@.len() > 0 ==> jointly_valid(combined(with_extra(txs_of(self.entries@.drop_last()), extra_tx).push(self.entries@.last().tx)), *header),
//@   ensures:
//@+    forall|i: int| 0 <= i < final(self).entries@.len() ==> old(self).entries@.contains(#[trigger] final(self).entries@[i]),
//@+    final(self).entries@.len() > 0 ==> jointly_valid(combined(with_extra(txs_of(final(self).entries@.drop_last()), extra_tx).push(final(self).entries@.last().tx)), *header),
//@ end
}
//@ canary add_to_pool: r.is_err()
