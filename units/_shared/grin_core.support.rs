// Shared Kani support for harnesses inside grin_core (injected as crate::verif_kani_support under cfg(kani)).
use crate::global::ChainTypes;
use crate::ser::{DeserializationMode, Error, ProtocolVersion, Reader, Writer, SerializationMode};

/// Stub for alloc::fmt::format: error-message formatting dominates CBMC time and no verified
/// contract depends on message text.
pub fn stub_format(_args: core::fmt::Arguments<'_>) -> String {
	String::new()
}

/// Chain type seen by the code under verification: chosen nondeterministically ONCE per harness
/// (harness calls `init_chain_type`), so each harness quantifies over all four chain types.
pub static mut CHAIN_TYPE_IDX: u8 = 0;
pub static mut NRD_ENABLED: bool = false;

pub fn chain_type_from_idx(i: u8) -> ChainTypes {
	match i {
		0 => ChainTypes::AutomatedTesting,
		1 => ChainTypes::UserTesting,
		2 => ChainTypes::Testnet,
		_ => ChainTypes::Mainnet,
	}
}
pub fn init_globals() {
	let i: u8 = kani::any();
	kani::assume(i < 4);
	let nrd: bool = kani::any();
	unsafe {
		CHAIN_TYPE_IDX = i;
		NRD_ENABLED = nrd;
	}
	playback_set_globals(i, nrd);
}
/// Under Kani this function is stubbed by `playback_noop` (the engine adds the attribute to every
/// harness that stubs get_chain_type).  In a concrete-playback run stubs are not applied, the
/// real accessors run, and this sets the real thread-local globals to the counterexample's
/// values so that the native replay takes the same path.
pub fn playback_set_globals(i: u8, nrd: bool) {
	crate::global::set_local_chain_type(chain_type_from_idx(i));
	crate::global::set_local_nrd_enabled(nrd);
}
pub fn playback_noop(_i: u8, _nrd: bool) {}
pub fn set_chain_type_idx(i: u8) {
	unsafe {
		CHAIN_TYPE_IDX = i;
	}
}
pub fn stub_get_chain_type() -> ChainTypes {
	chain_type_from_idx(unsafe { CHAIN_TYPE_IDX })
}
pub fn stub_is_nrd_enabled() -> bool {
	unsafe { NRD_ENABLED }
}

/// Upper bound on what a decoder may request from the allocator in one `with_capacity`
/// call, as a function of the number of input bytes available: "a small multiple of the
/// input length" made precise (C11).  100_000 is the reader's own per-read cap.
pub const ALLOC_BASE: usize = 100_000;
pub const ALLOC_MULT: usize = 64;
pub static mut INPUT_LEN: usize = 0;
pub fn alloc_bound() -> usize {
	ALLOC_BASE + ALLOC_MULT * unsafe { INPUT_LEN }
}

pub fn any_hash() -> crate::core::hash::Hash {
	let b: [u8; 32] = kani::any();
	crate::core::hash::Hash::from_vec(&b)
}

/// Stub for Vec::<T>::with_capacity carrying the over-allocation obligation of C11.
pub fn checked_with_capacity<T>(cap: usize) -> Vec<T> {
	assert!(
		cap.checked_mul(core::mem::size_of::<T>()).map_or(false, |b| b <= alloc_bound()),
		"C11 allocation bound: with_capacity request exceeds 100_000 + 64*input_len bytes"
	);
	Vec::new()
}

/// Byte-slice reader with the semantics of `BinReader` over `&[u8]` (big endian, EOF -> IOErr,
/// >100_000 byte reads refused).  Cheap for CBMC; BinReader/BufReader themselves are verified
/// against the same behaviour in their own harnesses.
pub struct KReader<const N: usize> {
	pub buf: [u8; N],
	pub len: usize,
	pub pos: usize,
	pub ver: ProtocolVersion,
	pub mode: DeserializationMode,
}

impl<const N: usize> KReader<N> {
	/// all byte strings of length 0..=N
	pub fn any() -> Self {
		let buf: [u8; N] = kani::any();
		let len: usize = kani::any();
		kani::assume(len <= N);
		unsafe {
			INPUT_LEN = len;
		}
		KReader {
			buf,
			len,
			pos: 0,
			ver: ProtocolVersion(kani::any()),
			mode: if kani::any() { DeserializationMode::Full } else { DeserializationMode::SkipPow },
		}
	}
	pub fn full(buf: [u8; N], ver: u32) -> Self {
		unsafe {
			INPUT_LEN = N;
		}
		KReader { buf, len: N, pos: 0, ver: ProtocolVersion(ver), mode: DeserializationMode::Full }
	}
	fn eof() -> Error {
		Error::IOErr(String::new(), std::io::ErrorKind::UnexpectedEof)
	}
	fn take(&mut self, n: usize) -> Result<usize, Error> {
		if n > self.len - self.pos {
			return Err(Self::eof());
		}
		let p = self.pos;
		self.pos += n;
		Ok(p)
	}
	pub fn remaining(&self) -> usize {
		self.len - self.pos
	}
}

impl<const N: usize> Reader for KReader<N> {
	fn deserialization_mode(&self) -> DeserializationMode {
		self.mode
	}
	fn read_u8(&mut self) -> Result<u8, Error> {
		let p = self.take(1)?;
		Ok(self.buf[p])
	}
	fn read_u16(&mut self) -> Result<u16, Error> {
		let p = self.take(2)?;
		Ok(u16::from_be_bytes([self.buf[p], self.buf[p + 1]]))
	}
	fn read_u32(&mut self) -> Result<u32, Error> {
		let p = self.take(4)?;
		Ok(u32::from_be_bytes([self.buf[p], self.buf[p + 1], self.buf[p + 2], self.buf[p + 3]]))
	}
	fn read_u64(&mut self) -> Result<u64, Error> {
		let p = self.take(8)?;
		let mut a = [0u8; 8];
		a.copy_from_slice(&self.buf[p..p + 8]);
		Ok(u64::from_be_bytes(a))
	}
	fn read_i32(&mut self) -> Result<i32, Error> {
		self.read_u32().map(|x| x as i32)
	}
	fn read_i64(&mut self) -> Result<i64, Error> {
		self.read_u64().map(|x| x as i64)
	}
	fn read_bytes_len_prefix(&mut self) -> Result<Vec<u8>, Error> {
		let len = self.read_u64()?;
		self.read_fixed_bytes(len as usize)
	}
	fn read_fixed_bytes(&mut self, length: usize) -> Result<Vec<u8>, Error> {
		if length > 100_000 {
			return Err(Error::TooLargeReadErr);
		}
		let p = self.take(length)?;
		Ok(self.buf[p..p + length].to_vec())
	}
	fn expect_u8(&mut self, val: u8) -> Result<u8, Error> {
		let b = self.read_u8()?;
		if b == val {
			Ok(b)
		} else {
			Err(Error::UnexpectedData { expected: vec![val], received: vec![b] })
		}
	}
	fn protocol_version(&self) -> ProtocolVersion {
		self.ver
	}
}

/// Fixed-capacity recording writer (hash mode or full mode, arbitrary protocol version).
pub struct KWriter<const N: usize> {
	pub buf: [u8; N],
	pub pos: usize,
	pub ver: ProtocolVersion,
	pub mode: SerializationMode,
	pub overflow: bool,
}
impl<const N: usize> KWriter<N> {
	pub fn new(ver: u32, mode: SerializationMode) -> Self {
		KWriter { buf: [0u8; N], pos: 0, ver: ProtocolVersion(ver), mode, overflow: false }
	}
	pub fn bytes(&self) -> &[u8] {
		&self.buf[..self.pos]
	}
}
impl<const N: usize> Writer for KWriter<N> {
	fn serialization_mode(&self) -> SerializationMode {
		self.mode
	}
	fn protocol_version(&self) -> ProtocolVersion {
		self.ver
	}
	fn write_fixed_bytes<T: AsRef<[u8]>>(&mut self, bytes: T) -> Result<(), Error> {
		let b = bytes.as_ref();
		if b.len() > N - self.pos {
			self.overflow = true;
			return Err(Error::TooLargeReadErr);
		}
		self.buf[self.pos..self.pos + b.len()].copy_from_slice(b);
		self.pos += b.len();
		Ok(())
	}
}

/// hashing input is irrelevant to contracts that do not speak about digests: do not feed bytes to blake2b
pub fn stub_blake_update(_s: &mut blake2::blake2b::Blake2b, _data: &[u8]) {}
