// Shared Kani support for harnesses inside grin_chain.
use crate::core::core::hash::{Hash, ZERO_HASH};
use crate::core::core::{BlockHeader, HeaderVersion};
use crate::core::global::ChainTypes;
use crate::core::pow::{Difficulty, Proof, ProofOfWork};
use chrono::prelude::{DateTime, Utc};
use keychain::BlindingFactor;

pub fn stub_format(_args: core::fmt::Arguments<'_>) -> String {
	String::new()
}
pub static mut CHAIN_TYPE_IDX: u8 = 0;
pub fn init_globals() {
	let i: u8 = kani::any();
	kani::assume(i < 4);
	unsafe {
		CHAIN_TYPE_IDX = i;
	}
}
pub fn stub_get_chain_type() -> ChainTypes {
	match unsafe { CHAIN_TYPE_IDX } {
		0 => ChainTypes::AutomatedTesting,
		1 => ChainTypes::UserTesting,
		2 => ChainTypes::Testnet,
		_ => ChainTypes::Mainnet,
	}
}
/// constant digest: identity of the header is irrelevant to the contracts that use this
pub fn stub_finalize(_w: crate::core::core::hash::HashWriter, output: &mut [u8]) {
	if output.len() == 32 {
		output.copy_from_slice(&[7u8; 32]);
	}
}
/// A header whose scalar fields relevant to fork choice are arbitrary.
pub fn header_with(height: u64, total_difficulty: u64) -> BlockHeader {
	BlockHeader {
		version: HeaderVersion(1),
		height,
		prev_hash: ZERO_HASH,
		prev_root: ZERO_HASH,
		timestamp: DateTime::<Utc>::from_timestamp(0, 0).unwrap(),
		output_root: ZERO_HASH,
		range_proof_root: ZERO_HASH,
		kernel_root: ZERO_HASH,
		total_kernel_offset: BlindingFactor::zero(),
		output_mmr_size: 0,
		kernel_mmr_size: 0,
		pow: ProofOfWork {
			total_difficulty: Difficulty::from_num(total_difficulty),
			secondary_scaling: 0,
			nonce: 0,
			proof: Proof { edge_bits: 31, nonces: vec![] },
		},
	}
}
