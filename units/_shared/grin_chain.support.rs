// Shared Kani support for harnesses inside grin_chain.
use crate::core::core::hash::{Hash, ZERO_HASH};
use crate::core::core::{BlockHeader, HeaderVersion};
use crate::core::pow::{Difficulty, Proof, ProofOfWork};
use chrono::prelude::{DateTime, Utc};
use crate::keychain::BlindingFactor;

pub use crate::core::verif_kani_support::{init_globals, stub_format, stub_get_chain_type, stub_is_nrd_enabled, CHAIN_TYPE_IDX};
/// constant digest: identity of the header is irrelevant to the contracts that use this
pub fn stub_finalize(_w: crate::core::core::hash::HashWriter, output: &mut [u8]) {
	if output.len() == 32 {
		output.copy_from_slice(&[7u8; 32]);
	}
}
/// A header whose scalar fields relevant to fork choice are arbitrary.
pub fn header_with(height: u64, total_difficulty: u64) -> BlockHeader {
	BlockHeader {
		version: HeaderVersion(1),
		height,
		prev_hash: ZERO_HASH,
		prev_root: ZERO_HASH,
		timestamp: DateTime::<Utc>::from_timestamp(0, 0).unwrap(),
		output_root: ZERO_HASH,
		range_proof_root: ZERO_HASH,
		kernel_root: ZERO_HASH,
		total_kernel_offset: unsafe { core::mem::zeroed::<BlindingFactor>() },
		output_mmr_size: 0,
		kernel_mmr_size: 0,
		pow: ProofOfWork {
			total_difficulty: Difficulty::from_num(total_difficulty),
			secondary_scaling: 0,
			nonce: 0,
			proof: Proof { edge_bits: 31, nonces: vec![] },
		},
	}
}

pub use crate::core::verif_kani_support::stub_blake_update;
