//@ assume: the Writer is abstract: a ghost log of the ITEMS written (a commit-only wrapper or a full input), its serialization mode and protocol version; `Vec<T>::write` writes the elements in order without a count (the real impl for Vec<T: Writeable>); CommitWrapper's order (the hash of its own serialization) is an uninterpreted total order `sp_ord`; `sort_unstable` on commit wrappers => sort_wrappers (assumed: a permutation sorted by that order); the element conversion `input.into()` (Input -> CommitWrapper) keeps the commitment
//@ assume: T7: the map closure of the conversion is lifted and verified (T7 for expression closures), the `iter().map(f).collect()` shell is an abstract stand-in (the collected result is, in order, f over the elements); T5: `impl From<&Inputs> for Vec<CommitWrapper>` => a free function; `let inputs: Vec<CommitWrapper> = self.into();` => `= wrappers_from(self);`; `0..=2` / `3..=ProtocolVersion::MAX` range patterns keep their text over a u32
//@ assume: decided here (C10, 'inputs in both encodings ... decodes from its own encoding ... under every protocol version that can carry it' -- the WRITER side of the v3 encoding, whose reader refuses unsorted lists): Inputs::write in full mode at protocol version >= 3 writes, for the features-and-commit variant, exactly the commit wrappers of all inputs SORTED IN THE COMMIT-WRAPPER ORDER (not in the order of the inputs, which are sorted by a different key) -- a permutation of the inputs' commitments; for the commit-only variant its own list; at versions <= 2 the full inputs in their own order, and the commit-only variant is refused; in hash mode always the variant's own list whatever the version; nothing for an empty list.
//@ assumed_items: 5
//@ fns: Inputs::write, From<&Inputs> for Vec<CommitWrapper> (+ its map closure)
//@ import: use vstd::multiset::*;
#[derive(Clone, Copy)]
pub struct Commitment { pub k: u64 }
#[derive(Clone, Copy)]
pub struct CommitWrapper { pub commit: Commitment }
#[derive(Clone, Copy)]
pub struct Input { pub features: u8, pub commit: Commitment }
impl Input {
    pub fn into(&self) -> (r: CommitWrapper) ensures r.commit == self.commit { CommitWrapper { commit: self.commit } }
}
pub enum Item { C(CommitWrapper), I(Input) }
pub mod ser { pub enum Error { UnsupportedProtocolVersion, Io } }
pub struct Mode { pub hash: bool }
impl Mode { pub fn is_hash_mode(&self) -> (r: bool) ensures r == self.hash { self.hash } }
pub struct ProtocolVersion(pub u32);
impl ProtocolVersion {
    pub const MAX: u32 = u32::MAX;
    pub fn value(&self) -> (r: u32) ensures r == self.0 { self.0 }
}
pub struct Writer { pub log: Ghost<Seq<Item>>, pub hash: bool, pub version: u32 }
impl Writer {
    pub fn serialization_mode(&self) -> (r: Mode) ensures r.hash == self.hash { Mode { hash: self.hash } }
    pub fn protocol_version(&self) -> (r: ProtocolVersion) ensures r.0 == self.version { ProtocolVersion(self.version) }
}
pub uninterp spec fn sp_ord(c: CommitWrapper) -> int;
pub open spec fn ord_sorted(s: Seq<CommitWrapper>) -> bool { forall|i: int, j: int| 0 <= i <= j < s.len() ==> sp_ord(s[i]) <= sp_ord(s[j]) }
pub open spec fn wrap_all(s: Seq<Input>) -> Seq<CommitWrapper> { s.map(|i: int, x: Input| CommitWrapper { commit: x.commit }) }
pub open spec fn items_c(s: Seq<CommitWrapper>) -> Seq<Item> { s.map(|i: int, x: CommitWrapper| Item::C(x)) }
pub open spec fn items_i(s: Seq<Input>) -> Seq<Item> { s.map(|i: int, x: Input| Item::I(x)) }
#[verifier::external_body]
fn sort_wrappers(v: &mut Vec<CommitWrapper>) ensures ord_sorted(final(v)@), final(v)@.to_multiset() == old(v)@.to_multiset(), final(v)@.len() == old(v)@.len() { unimplemented!() }
pub struct WrapFn;
pub struct InputIter<'a> { pub v: &'a Vec<Input> }
pub struct MapIter<'a> { pub v: &'a Vec<Input> }
pub trait IterInputs { fn iter(&self) -> InputIter<'_>; }
impl IterInputs for Vec<Input> { fn iter(&self) -> (r: InputIter<'_>) ensures r.v == self { InputIter { v: self } } }
impl<'a> InputIter<'a> {
    pub fn map(self, f: WrapFn) -> (r: MapIter<'a>) ensures r.v == self.v { MapIter { v: self.v } }
}
impl<'a> MapIter<'a> {
    /// the collected result is, in order, the lifted closure over the elements
    #[verifier::external_body]
    pub fn collect(self) -> (r: Vec<CommitWrapper>) ensures r@ == wrap_all(self.v@) { unimplemented!() }
}
pub trait WriteList { spec fn sp_items(&self) -> Seq<Item>; fn write(&self, w: &mut Writer) -> (r: Result<(), ser::Error>); }
impl WriteList for Vec<CommitWrapper> {
    open spec fn sp_items(&self) -> Seq<Item> { items_c(self@) }
    #[verifier::external_body]
    fn write(&self, w: &mut Writer) -> (r: Result<(), ser::Error>)
        ensures final(w).hash == old(w).hash, final(w).version == old(w).version, r.is_ok() ==> final(w).log@ == old(w).log@ + items_c(self@) { unimplemented!() }
}
impl WriteList for Vec<Input> {
    open spec fn sp_items(&self) -> Seq<Item> { items_i(self@) }
    #[verifier::external_body]
    fn write(&self, w: &mut Writer) -> (r: Result<(), ser::Error>)
        ensures final(w).hash == old(w).hash, final(w).version == old(w).version, r.is_ok() ==> final(w).log@ == old(w).log@ + items_i(self@) { unimplemented!() }
}
pub enum Inputs { CommitOnly(Vec<CommitWrapper>), FeaturesAndCommit(Vec<Input>) }
/// the v3 image of a list of inputs: SOME sorted permutation of their commit wrappers
pub open spec fn is_v3_image(out: Seq<CommitWrapper>, ins: Inputs) -> bool {
    match ins {
        Inputs::CommitOnly(v) => out == v@,
        Inputs::FeaturesAndCommit(v) => ord_sorted(out) && out.to_multiset() == wrap_all(v@).to_multiset(),
    }
}
#[verifier::external_body]
pub fn clone_wrappers(v: &Vec<CommitWrapper>) -> (r: Vec<CommitWrapper>) ensures r@ == v@ { unimplemented!() }
//@ extract core/src/core/transaction.rs :: impl From<&Inputs> for Vec<CommitWrapper>::from
//@   eclosure 1 lifted_as `fn wrap_input(input: &Input) -> CommitWrapper`
//@   ensures:
//@+    r.commit == input.commit,
//@ end
//@ extract core/src/core/transaction.rs :: impl From<&Inputs> for Vec<CommitWrapper>::from
//@   sigrewrite `fn from(inputs: &Inputs) -> Self` => `pub fn wrappers_from(inputs: &Inputs) -> Vec<CommitWrapper>`
//@   eclosure 1 replaced_by `WrapFn`
//@   rewrite `inputs.clone()` => `clone_wrappers(inputs)` x?
//@   rewrite `let mut commits: Vec<_> = ` => `let mut commits: Vec<CommitWrapper> = ` x?
//@   rewrite `commits.sort_unstable();` => `sort_wrappers(&mut commits);` x?
//@   ensures:
//@+    is_v3_image(r@, *inputs),
//@ end
impl Inputs {
    pub fn is_empty(&self) -> (r: bool) ensures r == (match self { Inputs::CommitOnly(v) => v@.len() == 0, Inputs::FeaturesAndCommit(v) => v@.len() == 0 }) {
        match self { Inputs::CommitOnly(v) => v.len() == 0, Inputs::FeaturesAndCommit(v) => v.len() == 0 }
    }
//@ extract core/src/core/transaction.rs :: impl Writeable for Inputs::write
//@   sigrewrite `fn write<W: Writer>(&self, writer: &mut W) -> Result<(), ser::Error>` => `pub fn write(&self, writer: &mut Writer) -> Result<(), ser::Error>`
//@   rewrite `let inputs: Vec<CommitWrapper> = self.into();` => `let inputs: Vec<CommitWrapper> = wrappers_from(self);` x?
//@   ensures:
//@+    final(writer).hash == old(writer).hash, final(writer).version == old(writer).version,
//@+    r.is_ok() ==> sp_written_ok(*self, old(writer).hash, old(writer).version, old(writer).log@, final(writer).log@),
//@+    (!old(writer).hash && old(writer).version <= 2 && self is CommitOnly && !sp_empty(*self)) ==> r.is_err(),
//@ end
}
pub open spec fn sp_empty(i: Inputs) -> bool { match i { Inputs::CommitOnly(v) => v@.len() == 0, Inputs::FeaturesAndCommit(v) => v@.len() == 0 } }
/// what a successful write appends, per (variant, mode, version)
pub open spec fn sp_written_ok(i: Inputs, hash: bool, version: u32, before: Seq<Item>, after: Seq<Item>) -> bool {
    if sp_empty(i) { after == before }
    else if hash { match i { Inputs::CommitOnly(v) => after == before + items_c(v@), Inputs::FeaturesAndCommit(v) => after == before + items_i(v@) } }
    else { match i {
        Inputs::CommitOnly(v) => version >= 3 && after == before + items_c(v@),
        Inputs::FeaturesAndCommit(v) => if version <= 2 { after == before + items_i(v@) } else { exists|out: Seq<CommitWrapper>| #[trigger] is_v3_image(out, i) && after == before + items_c(out) },
    } }
}
//@ canary write: r.is_err()
