//@ assume: the Reader is abstract with a ghost byte stream: read_u8 returns the next byte and advances, or fails
//@ assume: T6 rewrites: trait default method extracted as a free generic function over the abstract Reader (T5: `&mut self` => `reader: &mut R`), `for _ in 0..length {` => named range loop with spliced invariant
//@ assume: decided here, UNBOUNDED in `length`: read_empty_bytes succeeds iff the next `length` bytes exist and are all zero (reserved bytes that are not zero are refused, never skipped), consuming exactly `length` bytes on success
//@ assume: 64-bit target
//@ assumed_items: 0
//@ fns: Reader::read_empty_bytes
global size_of usize == 8;
pub enum Error { IOErr, CorruptedData }
pub trait Reader {
    spec fn stream(&self) -> Seq<u8>;
    fn read_u8(&mut self) -> (r: Result<u8, Error>)
        ensures r matches Ok(b) ==> old(self).stream().len() >= 1 && b == old(self).stream()[0] && final(self).stream() == old(self).stream().subrange(1, old(self).stream().len() as int),
                r.is_err() ==> old(self).stream().len() == 0;
}

//@ extract core/src/ser.rs :: trait Reader::read_empty_bytes
//@   sigrewrite `fn read_empty_bytes(&mut self, length: usize) -> Result<(), Error>` => `fn read_empty_bytes<R: Reader>(reader: &mut R, length: usize) -> Result<(), Error>`
//@   rewrite `for _ in 0..length {` => `for i in 0..length {`
//@   rewrite `self.read_u8()?` => `reader.read_u8()?`
//@   ensures:
//@+    r.is_ok() ==> old(reader).stream().len() >= length
//@+        && (forall|k: int| 0 <= k < length ==> old(reader).stream()[k] == 0)
//@+        && final(reader).stream() == old(reader).stream().subrange(length as int, old(reader).stream().len() as int),
//@+    (old(reader).stream().len() >= length && (forall|k: int| 0 <= k < length ==> old(reader).stream()[k] == 0)) ==> r.is_ok(),
//@   loop 1:
//@+    invariant
//@+        old(reader).stream().len() >= i,
//@+        forall|k: int| 0 <= k < i ==> old(reader).stream()[k] == 0,
//@+        reader.stream() == old(reader).stream().subrange(i as int, old(reader).stream().len() as int),
//@ end
//@ canary read_empty_bytes: r.is_err()
