//@ crate: grin_chain
//@ target: chain/src/types.rs
//@ assume: KReader/KWriter model BinReader/BinWriter over byte slices
//@ harness c10_tip_canonical kind=complete tier=quick fns=Tip::read,Tip::write,CommitPos::read,CommitPos::write bound=-
use crate::core::ser::{Readable, SerializationMode, Writeable};
use crate::core::verif_kani_support::{KReader, KWriter};

use crate::core::verif_kani_support::stub_format;

/// Tip (80 bytes) and CommitPos (16 bytes): every byte string decodes and re-encodes identically
/// under every protocol version; decoded fields are the big-endian fields of the encoding.
#[kani::proof]
#[kani::unwind(82)]
#[kani::stub(alloc::fmt::format, stub_format)]
fn c10_tip_canonical() {
	let buf: [u8; 80] = kani::any();
	let ver: u32 = kani::any();
	let mut r = KReader::<80>::full(buf, ver);
	let t = Tip::read(&mut r);
	assert!(t.is_ok() && r.pos == 80);
	let t = t.unwrap();
	let mut hb = [0u8; 8];
	hb.copy_from_slice(&buf[0..8]);
	assert!(t.height == u64::from_be_bytes(hb));
	hb.copy_from_slice(&buf[72..80]);
	assert!(t.total_difficulty.to_num() == u64::from_be_bytes(hb), "C10: Tip difficulty decodes to the encoded number");
	let mut w = KWriter::<80>::new(ver, SerializationMode::Full);
	assert!(t.write(&mut w).is_ok() && w.pos == 80);
	let mut i = 0;
	while i < 80 {
		assert!(w.buf[i] == buf[i], "C10: Tip re-encodes byte-identically");
		i += 1;
	}
	let mut r2 = KReader::<80>::full(buf, ver);
	let c = CommitPos::read(&mut r2);
	assert!(c.is_ok() && r2.pos == 16);
	let mut w2 = KWriter::<80>::new(ver, SerializationMode::Full);
	assert!(c.unwrap().write(&mut w2).is_ok() && w2.pos == 16);
	let mut i = 0;
	while i < 16 {
		assert!(w2.buf[i] == buf[i], "C10: CommitPos re-encodes byte-identically");
		i += 1;
	}
}
