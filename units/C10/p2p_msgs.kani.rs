//@ crate: grin_p2p
//@ target: p2p/src/msg.rs
//@ assume: KReader/KWriter model BinReader/BinWriter over byte slices
//@ assume: GetPeerAddrs/Hand/Shake carry Capabilities decoded with from_bits_truncate (unknown capability bits are dropped by design -- recorded as an observation in DESIGN, not part of the listed canonical-form rules) and are not included here
//@ harness c10_ping_pong_canonical kind=complete tier=quick fns=Ping::read,Ping::write,Pong::read,Pong::write bound=-
//@ harness c10_txhashset_msgs_canonical kind=complete tier=quick fns=TxHashSetRequest::read,TxHashSetRequest::write,TxHashSetArchive::read,TxHashSetArchive::write bound=-
//@ harness c10_segment_request_canonical kind=complete tier=quick fns=SegmentRequest::read,SegmentRequest::write,SegmentIdentifier::read,SegmentIdentifier::write bound=-
//@ harness c10_ban_reason_canonical kind=complete tier=quick fns=BanReason::read,BanReason::write bound=-
//@ harness c10_ban_reason_short_body kind=complete tier=quick fns=BanReason::read bound=-
use crate::core::ser::SerializationMode;
use crate::core::verif_kani_support::{KReader, KWriter};

use crate::core::verif_kani_support::stub_format;

#[kani::proof]
#[kani::unwind(18)]
#[kani::stub(alloc::fmt::format, stub_format)]
fn c10_ping_pong_canonical() {
	let buf: [u8; 16] = kani::any();
	let ver: u32 = kani::any();
	let mut r = KReader::<16>::full(buf, ver);
	let p = Ping::read(&mut r);
	assert!(p.is_ok() && r.pos == 16);
	let p = p.unwrap();
	let mut hb = [0u8; 8];
	hb.copy_from_slice(&buf[0..8]);
	assert!(p.total_difficulty.to_num() == u64::from_be_bytes(hb), "C10: Ping difficulty decodes to the encoded number");
	let mut w = KWriter::<16>::new(ver, SerializationMode::Full);
	assert!(p.write(&mut w).is_ok() && w.pos == 16);
	let mut r2 = KReader::<16>::full(buf, ver);
	let q = Pong::read(&mut r2).unwrap();
	let mut w2 = KWriter::<16>::new(ver, SerializationMode::Full);
	assert!(q.write(&mut w2).is_ok() && w2.pos == 16);
	let mut i = 0;
	while i < 16 {
		assert!(w.buf[i] == buf[i], "C10: Ping re-encodes byte-identically");
		assert!(w2.buf[i] == buf[i], "C10: Pong re-encodes byte-identically");
		i += 1;
	}
}

#[kani::proof]
#[kani::unwind(50)]
#[kani::stub(alloc::fmt::format, stub_format)]
fn c10_txhashset_msgs_canonical() {
	let buf: [u8; 48] = kani::any();
	let ver: u32 = kani::any();
	let mut r = KReader::<48>::full(buf, ver);
	let a = TxHashSetArchive::read(&mut r);
	assert!(a.is_ok() && r.pos == 48);
	let mut w = KWriter::<48>::new(ver, SerializationMode::Full);
	assert!(a.unwrap().write(&mut w).is_ok() && w.pos == 48);
	let mut r2 = KReader::<48>::full(buf, ver);
	let q = TxHashSetRequest::read(&mut r2);
	assert!(q.is_ok() && r2.pos == 40);
	let mut w2 = KWriter::<48>::new(ver, SerializationMode::Full);
	assert!(q.unwrap().write(&mut w2).is_ok() && w2.pos == 40);
	let mut i = 0;
	while i < 48 {
		assert!(w.buf[i] == buf[i], "C10: TxHashSetArchive re-encodes byte-identically");
		if i < 40 {
			assert!(w2.buf[i] == buf[i], "C10: TxHashSetRequest re-encodes byte-identically");
		}
		i += 1;
	}
}

/// SegmentRequest (32-byte block hash + 9-byte segment identifier): every 41-byte string decodes and
/// re-encodes identically under every protocol version.
#[kani::proof]
#[kani::unwind(43)]
#[kani::stub(alloc::fmt::format, stub_format)]
fn c10_segment_request_canonical() {
	let buf: [u8; 41] = kani::any();
	let ver: u32 = kani::any();
	let mut r = KReader::<41>::full(buf, ver);
	let q = SegmentRequest::read(&mut r);
	assert!(q.is_ok() && r.pos == 41);
	let q = q.unwrap();
	assert!(q.identifier.height == buf[32], "C10: segment height is the 33rd byte");
	let mut ib = [0u8; 8];
	ib.copy_from_slice(&buf[33..41]);
	assert!(q.identifier.idx == u64::from_be_bytes(ib), "C10: segment index decodes to the encoded number");
	let mut w = KWriter::<41>::new(ver, SerializationMode::Full);
	assert!(q.write(&mut w).is_ok() && w.pos == 41);
	let mut i = 0;
	while i < 41 {
		assert!(w.buf[i] == buf[i], "C10: SegmentRequest re-encodes byte-identically");
		i += 1;
	}
}

/// BanReason: a 4-byte body decodes exactly when it is one of the eight known reasons, and then
/// re-encodes to the same four bytes (unknown tags are refused, not normalised).
#[kani::proof]
#[kani::unwind(6)]
#[kani::stub(alloc::fmt::format, stub_format)]
fn c10_ban_reason_canonical() {
	let buf: [u8; 4] = kani::any();
	let ver: u32 = kani::any();
	let mut r = KReader::<4>::full(buf, ver);
	let b = BanReason::read(&mut r);
	let v = i32::from_be_bytes(buf);
	assert!(b.is_ok() == (v >= 0 && v <= 7), "C10: BanReason accepts exactly the known tags");
	if let Ok(b) = b {
		assert!(r.pos == 4);
		assert!(b.ban_reason as i32 == v, "C10: BanReason decodes to the encoded tag");
		let mut w = KWriter::<4>::new(ver, SerializationMode::Full);
		assert!(b.write(&mut w).is_ok() && w.pos == 4);
		let mut i = 0;
		while i < 4 {
			assert!(w.buf[i] == buf[i], "C10: BanReason re-encodes byte-identically");
			i += 1;
		}
	}
}

/// BanReason: a body SHORTER than the four tag bytes (0..=3 bytes: a count inconsistent with the content) is refused,
/// not defaulted to a tag.
#[kani::proof]
#[kani::unwind(6)]
#[kani::stub(alloc::fmt::format, stub_format)]
fn c10_ban_reason_short_body() {
	let mut r = KReader::<3>::any();
	let b = BanReason::read(&mut r);
	assert!(b.is_err(), "C10: a BanReason body shorter than its tag is refused, not defaulted");
	// the Err payload (an io error holding an empty String) is not dropped: Kani's __rust_dealloc model reports a spurious
	// layout mismatch for it; nothing decided here depends on the drop
	std::mem::forget(b);
}

