//@ assume: Reader, read_multi (decided in C11/vec_read), the element types, Inputs::from, TransactionBody::init and CompactBlockBody::verify_sorted are abstract: init(.., verify_sorted = true) returns Ok only for lists that are sorted and duplicate-free and then holds exactly those lists (sp_canonical); with false it sorts (some permutation, no promise of having been sorted on the wire); weight_by_iok / max_block_weight are uninterpreted (decided by Kani in C14/weights)
//@ assume: T6: `ser_multiread!(reader, read_u64, read_u64, read_u64)` => three read_u64 calls in a tuple; the protocol-version `match` ranges keep their text; `.map_err(|_| ser::Error::CorruptedData)?` => `?` over one error type; `Inputs::from` keeps its text over an abstract generic constructor
//@ assume: decided here (C10, 'decodes from its own encoding' and 'unsorted or duplicate body entries are refused rather than normalised'): TransactionBody::read refuses a body at its weight pre-check ONLY IF the announced counts weigh MORE than the maximum block weight (a body of exactly the maximum weight -- which every other site accepts -- is read), and what it returns went through init with sort VERIFICATION, i.e. its three lists are canonical as they stood on the wire, never re-sorted; CompactBlockBody::read (with the real CompactBlockBody::init) likewise returns only bodies whose three lists were verified sorted and unique and are exactly what was read
//@ assumed_items: 10
//@ fns: TransactionBody::read, CompactBlockBody::read, CompactBlockBody::init
pub enum SerError { IOErr, CorruptedData, TooLargeReadErr, CountError }
pub mod ser { pub use super::SerError as Error; pub struct ProtocolVersion(pub u32); impl ProtocolVersion { pub const MAX: u32 = 0xffff_ffffu32; pub fn value(&self) -> (r: u32) ensures r == self.0 { self.0 } } }
#[derive(Debug)]
pub enum Error { Sort }
pub trait Reader { spec fn remaining(&self) -> nat; }
#[verifier::external_body]
fn read_u64<R: Reader>(reader: &mut R) -> (r: Result<u64, SerError>) { unimplemented!() }
#[verifier::external_body]
fn protocol_version<R: Reader>(reader: &R) -> (r: ser::ProtocolVersion) { unimplemented!() }
#[verifier::external_body]
fn read_multi<T, R: Reader>(reader: &mut R, count: u64) -> (r: Result<Vec<T>, SerError>) ensures r matches Ok(v) ==> v@.len() == count { unimplemented!() }
#[derive(Clone, Copy)] pub struct Input { pub i: u64 }
#[derive(Clone, Copy)] pub struct CommitWrapper { pub c: u64 }
#[derive(Clone, Copy)] pub struct Output { pub o: u64 }
#[derive(Clone, Copy)] pub struct TxKernel { pub k: u64 }
#[derive(Clone, Copy)] pub struct ShortId { pub s: u64 }
#[verifier::external_body]
pub struct Inputs { _p: u8 }
pub uninterp spec fn sp_inputs_v2(v: Seq<Input>) -> Inputs;
pub uninterp spec fn sp_inputs_v3(v: Seq<CommitWrapper>) -> Inputs;
pub trait InputLike: Sized { spec fn sp_from(s: Seq<Self>) -> Inputs; }
impl InputLike for Input { open spec fn sp_from(s: Seq<Input>) -> Inputs { sp_inputs_v2(s) } }
impl InputLike for CommitWrapper { open spec fn sp_from(s: Seq<CommitWrapper>) -> Inputs { sp_inputs_v3(s) } }
impl Inputs {
    /// `Inputs::from(&[Input])` / `Inputs::from(&[CommitWrapper])`
    #[verifier::external_body]
    pub fn from<T: InputLike>(v: &[T]) -> (r: Inputs) ensures r == T::sp_from(v@) { unimplemented!() }
}
pub uninterp spec fn sp_weight(i: u64, o: u64, k: u64) -> u64;
pub uninterp spec fn sp_max_block_weight() -> u64;
pub mod global { use super::*;
    #[verifier::external_body]
    pub fn max_block_weight() -> (r: u64) ensures r == sp_max_block_weight() { unimplemented!() } }
/// the three lists are sorted and duplicate-free
pub uninterp spec fn sp_canonical_tx(ins: Inputs, outs: Seq<Output>, kerns: Seq<TxKernel>) -> bool;
pub uninterp spec fn sp_sorted_outs(s: Seq<Output>) -> bool;
pub uninterp spec fn sp_sorted_kerns(s: Seq<TxKernel>) -> bool;
pub uninterp spec fn sp_sorted_ids(s: Seq<ShortId>) -> bool;
pub struct TransactionBody { pub inputs: Inputs, pub outputs: Vec<Output>, pub kernels: Vec<TxKernel> }
impl TransactionBody {
    #[verifier::external_body]
    pub fn weight_by_iok(i: u64, o: u64, k: u64) -> (r: u64) ensures r == sp_weight(i, o, k) { unimplemented!() }
    /// TransactionBody::init: with verify_sorted the lists are checked (and kept as they are), without they are sorted in place
    #[verifier::external_body]
    pub fn init(inputs: Inputs, outputs: &Vec<Output>, kernels: &Vec<TxKernel>, verify_sorted: bool) -> (r: Result<TransactionBody, SerError>)
        ensures verify_sorted ==> (r matches Ok(b) ==> b.inputs == inputs && b.outputs@ == outputs@ && b.kernels@ == kernels@ && sp_canonical_tx(inputs, outputs@, kernels@)) { unimplemented!() }
//@ extract core/src/core/transaction.rs :: impl Readable for TransactionBody::read
//@   rewrite `ser_multiread!(reader, read_u64, read_u64, read_u64)` => `(read_u64(reader)?, read_u64(reader)?, read_u64(reader)?)`
//@   rewrite `reader.protocol_version().value()` => `protocol_version(reader).value()`
//@   rewrite `let outputs = read_multi(reader, num_outputs)?;` => `let outputs: Vec<Output> = read_multi(reader, num_outputs)?;`
//@   rewrite `let kernels = read_multi(reader, num_kernels)?;` => `let kernels: Vec<TxKernel> = read_multi(reader, num_kernels)?;`
//@   rewrite `\t\t\t.map_err(|_| ser::Error::CorruptedData)?;` => `?;`
//@   before `return Err(ser::Error::TooLargeReadErr);`:
//@+    proof { assert(sp_weight(num_inputs, num_outputs, num_kernels) > sp_max_block_weight()); }
//@   ensures:
//@+    r matches Ok(b) ==> sp_canonical_tx(b.inputs, b.outputs@, b.kernels@),
//@ end
}
pub struct CompactBlockBody { pub out_full: Vec<Output>, pub kern_full: Vec<TxKernel>, pub kern_ids: Vec<ShortId> }
#[verifier::external_body]
fn sort_perm<T>(v: &mut Vec<T>) ensures final(v)@.to_multiset() == old(v)@.to_multiset() { unimplemented!() }
impl CompactBlockBody {
    #[verifier::external_body]
    fn verify_sorted(&self) -> (r: Result<(), Error>) ensures r.is_ok() ==> sp_sorted_outs(self.out_full@) && sp_sorted_kerns(self.kern_full@) && sp_sorted_ids(self.kern_ids@) { unimplemented!() }
//@ extract core/src/core/compact_block.rs :: impl CompactBlockBody::sort
//@   rewrite `self.out_full.sort_unstable();` => `sort_perm(&mut self.out_full);`
//@   rewrite `self.kern_full.sort_unstable();` => `sort_perm(&mut self.kern_full);`
//@   rewrite `self.kern_ids.sort_unstable();` => `sort_perm(&mut self.kern_ids);`
//@ end
//@ extract core/src/core/compact_block.rs :: impl CompactBlockBody::init
//@   ensures:
//@+    verify_sorted ==> (r matches Ok(b) ==> b.out_full@ == out_full@ && b.kern_full@ == kern_full@ && b.kern_ids@ == kern_ids@
//@+        && sp_sorted_outs(b.out_full@) && sp_sorted_kerns(b.kern_full@) && sp_sorted_ids(b.kern_ids@)),
//@ end
//@ extract core/src/core/compact_block.rs :: impl Readable for CompactBlockBody::read
//@   rewrite `ser_multiread!(reader, read_u64, read_u64, read_u64)` => `(read_u64(reader)?, read_u64(reader)?, read_u64(reader)?)`
//@   rewrite `let out_full = read_multi(reader, out_full_len)?;` => `let out_full: Vec<Output> = read_multi(reader, out_full_len)?;`
//@   rewrite `let kern_full = read_multi(reader, kern_full_len)?;` => `let kern_full: Vec<TxKernel> = read_multi(reader, kern_full_len)?;`
//@   rewrite `let kern_ids = read_multi(reader, kern_id_len)?;` => `let kern_ids: Vec<ShortId> = read_multi(reader, kern_id_len)?;`
//@   rewrite `\t\t\t.map_err(|_| ser::Error::CorruptedData)?;` => `;\n\t\tlet body = match body { Ok(b) => b, Err(_) => return Err(ser::Error::CorruptedData) };`
//@   before `let body = CompactBlockBody::init(`:
//@+    let ghost (o0, k0, i0) = (out_full@, kern_full@, kern_ids@);
//@   ensures:
//@+    r matches Ok(b) ==> sp_sorted_outs(b.out_full@) && sp_sorted_kerns(b.kern_full@) && sp_sorted_ids(b.kern_ids@),
//@   before `\t\tOk(body)`:
//@+    proof { assert(body.out_full@ == o0 && body.kern_full@ == k0 && body.kern_ids@ == i0); }
//@ end
}
//@ canary read: r.is_err()
