//@ crate: grin_core
//@ target: core/src/core/transaction.rs
//@ assume: KReader/KWriter model BinReader/BinWriter over byte slices; is_nrd_enabled stubbed to an arbitrary boolean fixed per harness
//@ assume: Signature::from_raw_data / Commitment::from_vec copy bytes (no libsecp256k1 call is reachable: Kani reports a reachable FFI call as a failed check)
//@ harness c10_output_features_canonical kind=complete tier=quick fns=OutputFeatures::read,OutputFeatures::write bound=-
//@ harness c10_input_canonical kind=complete tier=quick fns=Input::read,Input::write,OutputIdentifier::read,OutputIdentifier::write,CommitWrapper::read,CommitWrapper::write,Commitment::read,Commitment::write bound=-
//@ harness c10_txkernel_canonical kind=complete tier=quick fns=TxKernel::read,TxKernel::write,KernelFeatures::read,KernelFeatures::write,Signature::read,Signature::write bound=-
//@ harness c10_txkernel_hash_version_independent kind=complete tier=quick fns=TxKernel::write bound=-
//@ repeat N in 0..=2
//@ harness c10_inputs_hash_version_independent_fc_{N} kind=bounded tier=quick fns=Inputs::write,Input::write,CommitWrapper::write bound={N}_inputs,_FeaturesAndCommit
//@ harness c10_inputs_hash_version_independent_co_{N} kind=bounded tier=quick fns=Inputs::write,CommitWrapper::write bound={N}_inputs,_CommitOnly
//@ end
use crate::ser::SerializationMode;
use crate::verif_kani_support::*;

/// Unknown output feature tags are refused; accepted bytes re-encode identically.
#[kani::proof]
#[kani::unwind(4)]
#[kani::stub(alloc::fmt::format, stub_format)]
fn c10_output_features_canonical() {
	let buf: [u8; 1] = kani::any();
	let ver: u32 = kani::any();
	let mut r = KReader::<1>::full(buf, ver);
	match OutputFeatures::read(&mut r) {
		Ok(f) => {
			assert!(buf[0] <= 1, "C10: unknown feature tag refused");
			let mut w = KWriter::<1>::new(ver, SerializationMode::Full);
			assert!(f.write(&mut w).is_ok() && w.pos == 1 && w.buf[0] == buf[0]);
		}
		Err(_) => assert!(buf[0] > 1),
	}
}

/// Input / OutputIdentifier / CommitWrapper: all 34-byte strings, all versions.
#[kani::proof]
#[kani::unwind(36)]
#[kani::stub(alloc::fmt::format, stub_format)]
fn c10_input_canonical() {
	let buf: [u8; 34] = kani::any();
	let ver: u32 = kani::any();
	let mut r = KReader::<34>::full(buf, ver);
	if let Ok(i) = Input::read(&mut r) {
		assert!(r.pos == 34);
		let mut w = KWriter::<34>::new(ver, SerializationMode::Full);
		assert!(i.write(&mut w).is_ok() && w.pos == 34);
		let mut k = 0;
		while k < 34 {
			assert!(w.buf[k] == buf[k], "C10: Input re-encodes byte-identically");
			k += 1;
		}
	} else {
		assert!(buf[0] > 1, "C10: an Input with a known feature tag decodes");
	}
	let mut r2 = KReader::<34>::full(buf, ver);
	if let Ok(o) = OutputIdentifier::read(&mut r2) {
		let mut w = KWriter::<34>::new(ver, SerializationMode::Full);
		assert!(o.write(&mut w).is_ok() && w.pos == 34);
		let mut k = 0;
		while k < 34 {
			assert!(w.buf[k] == buf[k], "C10: OutputIdentifier re-encodes byte-identically");
			k += 1;
		}
	}
	let mut r3 = KReader::<34>::full(buf, ver);
	let c = CommitWrapper::read(&mut r3);
	assert!(c.is_ok() && r3.pos == 33);
	let mut w = KWriter::<34>::new(ver, SerializationMode::Full);
	assert!(c.unwrap().write(&mut w).is_ok() && w.pos == 33);
	let mut k = 0;
	while k < 33 {
		assert!(w.buf[k] == buf[k], "C10: commitment re-encodes byte-identically");
		k += 1;
	}
}

/// TxKernel: all 114-byte strings (17 + 33 + 64), all versions, both NRD settings.
#[kani::proof]
#[kani::unwind(116)]
#[kani::stub(alloc::fmt::format, stub_format)]
#[kani::stub(crate::global::is_nrd_enabled, stub_is_nrd_enabled)]
fn c10_txkernel_canonical() {
	unsafe {
		NRD_ENABLED = kani::any();
	}
	let buf: [u8; 114] = kani::any();
	let ver: u32 = kani::any();
	let mut r = KReader::<114>::full(buf, ver);
	if let Ok(k) = TxKernel::read(&mut r) {
		let mut w = KWriter::<114>::new(ver, SerializationMode::Full);
		assert!(k.write(&mut w).is_ok());
		assert!(w.pos == r.pos, "C10: kernel re-encoding has the consumed length");
		let mut i = 0;
		while i < 114 {
			if i < w.pos {
				assert!(w.buf[i] == buf[i], "C10: kernel re-encodes byte-identically");
			}
			i += 1;
		}
		// round trip of the decoded value
		let mut r2 = KReader::<114> { buf: w.buf, len: w.pos, pos: 0, ver: ProtocolVersion(ver), mode: crate::ser::DeserializationMode::Full };
		let back = TxKernel::read(&mut r2);
		assert!(back.is_ok());
		let b = back.unwrap();
		assert!(b.features == k.features && b.excess == k.excess && b.excess_sig == k.excess_sig, "C10: kernel round trip");
	}
}

/// The byte stream hashed for a kernel does not depend on the protocol version.
#[kani::proof]
#[kani::unwind(116)]
#[kani::stub(alloc::fmt::format, stub_format)]
#[kani::stub(crate::global::is_nrd_enabled, stub_is_nrd_enabled)]
fn c10_txkernel_hash_version_independent() {
	unsafe {
		NRD_ENABLED = true;
	}
	let buf: [u8; 114] = kani::any();
	let mut r = KReader::<114>::full(buf, 1);
	if let Ok(k) = TxKernel::read(&mut r) {
		let mut w1 = KWriter::<114>::new(kani::any(), SerializationMode::Hash);
		let mut w2 = KWriter::<114>::new(kani::any(), SerializationMode::Hash);
		assert!(k.write(&mut w1).is_ok() && k.write(&mut w2).is_ok());
		assert!(w1.pos == 114 && w2.pos == 114);
		let mut i = 0;
		while i < 114 {
			assert!(w1.buf[i] == w2.buf[i], "C10: kernel hash preimage independent of protocol version");
			i += 1;
		}
	}
}

fn any_commit() -> Commitment {
	let mut b = [0u8; 33];
	b[0] = kani::any();
	b[32] = kani::any();
	Commitment(b)
}
fn inputs_of(commit_only: bool, n: usize) -> Inputs {
	let f1 = if kani::any() { OutputFeatures::Plain } else { OutputFeatures::Coinbase };
	let f2 = if kani::any() { OutputFeatures::Plain } else { OutputFeatures::Coinbase };
	let (c1, c2) = (any_commit(), any_commit());
	if !commit_only {
		match n {
			0 => Inputs::FeaturesAndCommit(vec![]),
			1 => Inputs::FeaturesAndCommit(vec![Input::new(f1, c1)]),
			_ => Inputs::FeaturesAndCommit(vec![Input::new(f1, c1), Input::new(f2, c2)]),
		}
	} else {
		match n {
			0 => Inputs::CommitOnly(vec![]),
			1 => Inputs::CommitOnly(vec![CommitWrapper::from(c1)]),
			_ => Inputs::CommitOnly(vec![CommitWrapper::from(c1), CommitWrapper::from(c2)]),
		}
	}
}

/// Inputs: the byte stream hashed does not depend on the protocol version; in full mode
/// versions >= 3 carry commitments only and versions <= 2 cannot carry commit-only inputs.
/// One harness per (variant, length): the shape is concrete, every byte and version symbolic.
macro_rules! inputs_hash {
	($name:ident, $co:expr, $n:expr) => {
		#[kani::proof]
		#[kani::unwind(72)]
		#[kani::stub(alloc::fmt::format, stub_format)]
		fn $name() {
			let inputs = inputs_of($co, $n);
			let mut w1 = KWriter::<70>::new(kani::any(), SerializationMode::Hash);
			let mut w2 = KWriter::<70>::new(kani::any(), SerializationMode::Hash);
			assert!(inputs.write(&mut w1).is_ok() && inputs.write(&mut w2).is_ok());
			assert!(w1.pos == w2.pos);
			let mut i = 0;
			while i < 70 {
				if i < w1.pos {
					assert!(w1.buf[i] == w2.buf[i], "C10: Inputs hash preimage independent of protocol version");
				}
				i += 1;
			}
			let ver: u32 = kani::any();
			let mut wf = KWriter::<70>::new(ver, SerializationMode::Full);
			let r = inputs.write(&mut wf);
			let n = inputs.len();
			assert!(n == $n);
			if n > 0 {
				match (&inputs, ver >= 3) {
					(_, true) => assert!(r.is_ok() && wf.pos == 33 * n, "C10: v3+ carries commitments only"),
					(Inputs::FeaturesAndCommit(_), false) => assert!(r.is_ok() && wf.pos == 34 * n),
					(Inputs::CommitOnly(_), false) => assert!(r.is_err(), "C10: commit-only inputs cannot be carried below v3"),
				}
			}
		}
	};
}
//@ repeat N in 0..=2
inputs_hash!(c10_inputs_hash_version_independent_fc_{N}, false, {N});
inputs_hash!(c10_inputs_hash_version_independent_co_{N}, true, {N});
//@ end
