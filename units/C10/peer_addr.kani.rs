//@ crate: grin_p2p
//@ target: p2p/src/types.rs
//@ assume: KReader/KWriter model BinReader/BinWriter over byte slices
//@ harness c10_peeraddr_canonical kind=complete tier=quick fns=PeerAddr::read,PeerAddr::write bound=-
//@ harness c10_peeraddr_v4_roundtrip kind=complete tier=quick fns=PeerAddr::read,PeerAddr::write bound=-
use crate::core::ser::SerializationMode;
use crate::core::verif_kani_support::{KReader, KWriter};

use crate::core::verif_kani_support::stub_format;

/// All 19-byte strings (family tag + 16 address bytes + port): whatever PeerAddr::read accepts
/// must re-encode to the bytes it consumed.
#[kani::proof]
#[kani::unwind(20)]
#[kani::stub(alloc::fmt::format, stub_format)]
fn c10_peeraddr_canonical() {
	let buf: [u8; 19] = kani::any();
	let ver: u32 = kani::any();
	let mut r = KReader::<19>::full(buf, ver);
	if let Ok(a) = PeerAddr::read(&mut r) {
		let mut w = KWriter::<19>::new(ver, SerializationMode::Full);
		assert!(a.write(&mut w).is_ok());
		if buf[0] == 0 {
			assert!(r.pos == 7 && w.pos == 7, "C10: PeerAddr v4 consumes and produces 7 bytes");
			let mut i = 0;
			while i < 7 {
				assert!(w.buf[i] == buf[i], "C10: PeerAddr v4 re-encodes byte-identically");
				i += 1;
			}
		} else {
			assert!(buf[0] == 1, "C10: PeerAddr unknown address-family tag must be refused, not normalised");
			assert!(w.pos == r.pos, "C10: PeerAddr v6 re-encoding has the consumed length (no v6->v4 normalisation)");
			let mut i = 0;
			while i < 19 {
				assert!(w.buf[i] == buf[i], "C10: PeerAddr v6 re-encodes byte-identically");
				i += 1;
			}
		}
	}
}

/// Every IPv4 socket address round-trips exactly.
#[kani::proof]
#[kani::unwind(20)]
#[kani::stub(alloc::fmt::format, stub_format)]
fn c10_peeraddr_v4_roundtrip() {
	let ip: [u8; 4] = kani::any();
	let port: u16 = kani::any();
	let a = PeerAddr(SocketAddr::V4(SocketAddrV4::new(Ipv4Addr::new(ip[0], ip[1], ip[2], ip[3]), port)));
	let ver: u32 = kani::any();
	let mut w = KWriter::<19>::new(ver, SerializationMode::Full);
	assert!(a.write(&mut w).is_ok() && w.pos == 7);
	let mut r = KReader::<19> { buf: w.buf, len: w.pos, pos: 0, ver: crate::core::ser::ProtocolVersion(ver), mode: crate::core::ser::DeserializationMode::Full };
	let back = PeerAddr::read(&mut r);
	assert!(back.is_ok() && back.unwrap().0 == a.0, "C10: IPv4 PeerAddr round trip");
}
