//@ crate: grin_core
//@ target: core/src/pow/types.rs
//@ assume: KReader/KWriter model BinReader/BinWriter over byte slices
//@ harness c10_difficulty_roundtrip kind=complete tier=quick fns=Difficulty::read,Difficulty::write,Difficulty::to_num,Difficulty::from_num bound=-
use crate::ser::SerializationMode;
use crate::verif_kani_support::*;

/// Difficulty: every 8-byte string decodes to exactly that number (zero included) and
/// re-encodes to the same bytes; from_num clamps to >= 1 only at construction.
#[kani::proof]
#[kani::unwind(10)]
#[kani::stub(alloc::fmt::format, stub_format)]
fn c10_difficulty_roundtrip() {
	let buf: [u8; 8] = kani::any();
	let ver: u32 = kani::any();
	let mut r = KReader::<8>::full(buf, ver);
	let d = Difficulty::read(&mut r);
	assert!(d.is_ok() && r.pos == 8);
	let d = d.unwrap();
	assert!(d.to_num() == u64::from_be_bytes(buf), "C10: Difficulty decodes to the encoded number");
	let mut w = KWriter::<8>::new(ver, SerializationMode::Full);
	assert!(d.write(&mut w).is_ok() && w.pos == 8);
	let mut i = 0;
	while i < 8 {
		assert!(w.buf[i] == buf[i], "C10: Difficulty re-encodes byte-identically");
		i += 1;
	}
	let n: u64 = kani::any();
	assert!(Difficulty::from_num(n).to_num() == core::cmp::max(n, 1));
}
