//@ crate: grin_core
//@ target: core/src/core/transaction.rs
//@ assume: KReader/KWriter (units/_shared/grin_core.support.rs) model BinReader/BinWriter over byte slices (big-endian primitives, EOF => Err)
//@ assume: global::is_nrd_enabled stubbed to an arbitrary boolean fixed per harness (its thread_local/lazy_static body cannot be compiled by Kani); both values are explored
//@ assume: alloc::fmt::format stubbed to String::new()
//@ harness kf_canonical kind=complete tier=quick fns=KernelFeatures::read,KernelFeatures::read_v1,KernelFeatures::read_v2,KernelFeatures::write,KernelFeatures::write_v1,KernelFeatures::write_v2,FeeFields::read,FeeFields::write,NRDRelativeHeight::read,NRDRelativeHeight::write,NRDRelativeHeight::try_from,Reader::read_empty_bytes bound=-
//@ harness kf_roundtrip kind=complete tier=quick fns=KernelFeatures::read,KernelFeatures::write bound=-
//@ harness kf_hash_version_independent kind=complete tier=quick fns=KernelFeatures::write,KernelFeatures::write_v1 bound=-
//@ harness nrd_height_range kind=complete tier=quick fns=NRDRelativeHeight::try_from,NRDRelativeHeight::new bound=-
//@ harness fee_fields_pack kind=complete tier=quick fns=FeeFields::new,FeeFields::fee,FeeFields::fee_shift,FeeFields::try_from bound=-
use crate::ser::SerializationMode;
use crate::verif_kani_support::*;

fn any_fee() -> FeeFields {
	FeeFields(kani::any())
}
fn any_kernel_features() -> KernelFeatures {
	let k: u8 = kani::any();
	match k {
		0 => KernelFeatures::Plain { fee: any_fee() },
		1 => KernelFeatures::Coinbase,
		2 => KernelFeatures::HeightLocked { fee: any_fee(), lock_height: kani::any() },
		_ => {
			let h: u16 = kani::any();
			kani::assume(h >= 1 && h as u64 <= consensus::WEEK_HEIGHT);
			KernelFeatures::NoRecentDuplicate { fee: any_fee(), relative_height: NRDRelativeHeight(h) }
		}
	}
}

/// Canonical form: for ALL 17-byte strings, ALL protocol versions, both NRD settings: whatever
/// `read` accepts re-encodes to exactly the bytes it consumed (so unknown feature tags,
/// non-zero reserved bytes and out-of-range relative heights are refused, never normalised).
#[kani::proof]
#[kani::unwind(20)]
#[kani::stub(alloc::fmt::format, stub_format)]
#[kani::stub(crate::global::is_nrd_enabled, stub_is_nrd_enabled)]
fn kf_canonical() {
	init_globals();
	let buf: [u8; 17] = kani::any();
	let ver: u32 = kani::any();
	let mut r = KReader::<17>::full(buf, ver);
	if let Ok(kf) = KernelFeatures::read(&mut r) {
		let mut w = KWriter::<17>::new(ver, SerializationMode::Full);
		assert!(kf.write(&mut w).is_ok());
		assert!(w.pos == r.pos, "C10 canonical: re-encoding has the consumed length");
		let mut i = 0;
		while i < 17 {
			if i < w.pos {
				assert!(w.buf[i] == buf[i], "C10 canonical: re-encoding is byte-identical");
			}
			i += 1;
		}
		if let KernelFeatures::NoRecentDuplicate { .. } = kf {
			assert!(stub_is_nrd_enabled());
		}
	}
}

/// Round trip: every value, every version: decode(encode(v)) == v and consumes everything.
#[kani::proof]
#[kani::unwind(20)]
#[kani::stub(alloc::fmt::format, stub_format)]
#[kani::stub(crate::global::is_nrd_enabled, stub_is_nrd_enabled)]
fn kf_roundtrip() {
	init_globals();
	let kf = any_kernel_features();
	let ver: u32 = kani::any();
	let mut w = KWriter::<17>::new(ver, SerializationMode::Full);
	assert!(kf.write(&mut w).is_ok());
	let mut r = KReader::<17> { buf: w.buf, len: w.pos, pos: 0, ver: ProtocolVersion(ver), mode: crate::ser::DeserializationMode::Full };
	let back = KernelFeatures::read(&mut r);
	let is_nrd = matches!(kf, KernelFeatures::NoRecentDuplicate { .. });
	if is_nrd && !stub_is_nrd_enabled() {
		assert!(back.is_err());
	} else {
		assert!(back == Ok(kf), "C10 round trip: decode(encode(v)) == v");
		assert!(r.pos == w.pos);
	}
}

/// Identity hash does not depend on the protocol version: in hash mode the byte stream fed to
/// the hasher is the same for any two versions.
#[kani::proof]
#[kani::unwind(20)]
#[kani::stub(alloc::fmt::format, stub_format)]
fn kf_hash_version_independent() {
	let kf = any_kernel_features();
	let mut w1 = KWriter::<17>::new(kani::any(), SerializationMode::Hash);
	let mut w2 = KWriter::<17>::new(kani::any(), SerializationMode::Hash);
	assert!(kf.write(&mut w1).is_ok());
	assert!(kf.write(&mut w2).is_ok());
	assert!(w1.pos == 17 && w2.pos == 17);
	let mut i = 0;
	while i < 17 {
		assert!(w1.buf[i] == w2.buf[i], "C10: hash preimage independent of protocol version");
		i += 1;
	}
}

#[kani::proof]
fn nrd_height_range() {
	let h: u64 = kani::any();
	let r = NRDRelativeHeight::new(h);
	assert!(r.is_ok() == (h >= 1 && h <= 10080));
	if let Ok(x) = r {
		assert!(u64::from(x) == h);
	}
}

#[kani::proof]
fn fee_fields_pack() {
	let shift: u64 = kani::any();
	let fee: u64 = kani::any();
	let r = FeeFields::new(shift, fee);
	assert!(r.is_ok() == (fee >= 1 && fee < (1u64 << 40) && shift < 16));
	if let Ok(f) = r {
		assert!(f.fee() == fee && f.fee_shift() as u64 == shift);
		assert!(u64::from(f) == (shift << 40) | fee);
	}
	let t = FeeFields::try_from(fee);
	assert!(t.is_ok() == (fee >= 1 && fee < (1u64 << 40)));
}
