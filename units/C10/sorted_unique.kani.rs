//@ crate: grin_core
//@ target: core/src/ser.rs
//@ assume: BOUNDED stand-in: vectors of at most 5 elements (the `for pair in self.windows(2)` loop has no iterator specification in Verus and no loop contract here); element type u8 (the function is generic in T: Ord)
//@ harness c10_verify_sorted_and_unique kind=bounded tier=quick fns=VerifySortedAndUnique::verify_sorted_and_unique bound=<=5_elements
use crate::verif_kani_support::*;

/// Ok iff strictly ascending; otherwise the first offending pair decides between SortError
/// (out of order) and DuplicateError (equal neighbours): unsorted or duplicate entries are refused.
#[kani::proof]
#[kani::unwind(7)]
#[kani::stub(alloc::fmt::format, stub_format)]
fn c10_verify_sorted_and_unique() {
	let a: [u8; 5] = kani::any();
	let n: usize = kani::any();
	kani::assume(n <= 5);
	let v: Vec<u8> = a[..n].to_vec();
	let res = v.verify_sorted_and_unique();
	let mut strictly = true;
	let mut first_bad_is_dup = false;
	let mut i = 1;
	while i < n {
		if strictly && !(a[i - 1] < a[i]) {
			strictly = false;
			first_bad_is_dup = a[i - 1] == a[i];
		}
		i += 1;
	}
	match res {
		Ok(()) => assert!(strictly, "C10: unsorted or duplicate entries are refused"),
		Err(Error::DuplicateError) => assert!(!strictly && first_bad_is_dup),
		Err(Error::SortError) => assert!(!strictly && !first_bad_is_dup),
		Err(_) => assert!(false),
	}
	if strictly {
		assert!(res.is_ok(), "C10: a strictly ascending list is accepted");
	}
}
