//@ assume: T5: the generic element type `T: Ord` is instantiated at u64 (any total order; the code uses only `>` and `==` on neighbours); the trait method is extracted as a free function over `this: &Vec<u64>`; T6: `for pair in self.windows(2) {` => an index loop whose `pair` is the two-element sub-slice at the running index (vstd::slice::slice_subrange) -- windows(2) yields exactly those, in order
//@ assume: decided here (C10, 'unsorted or duplicate entries are refused'), UNBOUNDED in the vector's length (the Kani unit C10/sorted_unique is the bounded stand-in this replaces): verify_sorted_and_unique returns Ok IF AND ONLY IF the vector is strictly ascending -- every pair i < j, not only neighbours; otherwise the FIRST offending neighbour pair decides: SortError if it is descending, DuplicateError if it is equal
//@ assumed_items: 0
//@ fns: VerifySortedAndUnique::verify_sorted_and_unique
global size_of usize == 8;
use vstd::slice::slice_subrange;
pub enum Error { SortError, DuplicateError, Other }
pub open spec fn sp_ascending(s: Seq<u64>) -> bool { forall|i: int, j: int| 0 <= i < j < s.len() ==> s[i] < s[j] }
/// neighbours up to index k are strictly ascending
pub open spec fn sp_nb_ok(s: Seq<u64>, k: int) -> bool { forall|i: int| 0 <= i < k && i + 1 < s.len() ==> #[trigger] s[i] < s[i + 1] }
pub proof fn lemma_nb_all(s: Seq<u64>)
    requires sp_nb_ok(s, s.len() as int),
    ensures sp_ascending(s),
{
    assert forall|i: int, j: int| 0 <= i < j < s.len() implies s[i] < s[j] by { lemma_chain(s, i, j); }
}
pub proof fn lemma_chain(s: Seq<u64>, i: int, j: int)
    requires sp_nb_ok(s, s.len() as int), 0 <= i < j < s.len(),
    ensures s[i] < s[j],
    decreases j - i,
{
    if j > i + 1 { lemma_chain(s, i, j - 1); assert(s[j - 1] < s[j - 1 + 1]); } else { assert(s[i] < s[i + 1]); }
}
//@ extract core/src/ser.rs :: impl VerifySortedAndUnique for Vec::verify_sorted_and_unique
//@   sigrewrite `fn verify_sorted_and_unique(&self)` => `pub fn verify_sorted_and_unique(this: &Vec<u64>)`
//@   rewrite `for pair in self.windows(2) {` => `let mut wi: usize = 0; while this.len() >= 2 && wi <= this.len() - 2 { let pair = slice_subrange(this.as_slice(), wi, wi + 2); wi += 1;`
//@   ensures:
//@+    r is Ok <==> sp_ascending(this@),
//@+    r matches Err(e) ==> exists|k: int| 0 <= k && k + 1 < this@.len() && #[trigger] sp_nb_ok(this@, k) && this@[k] >= this@[k + 1] && (e is SortError <==> this@[k] > this@[k + 1]) && (e is DuplicateError <==> this@[k] == this@[k + 1]),
//@   loop 1:
//@+    invariant
//@+        wi <= this@.len(), sp_nb_ok(this@, wi as int),
//@+    decreases this@.len() - wi,
//@   before `Ok(())`:
//@+    proof { lemma_nb_all(this@); }
//@ end
//@ canary verify_sorted_and_unique: r is Ok
