//@ assume: the stream model, the header contracts and their assumptions are those of C10/header_ser (included and re-verified); ASSUMED here about the COMPONENT codecs, each decided (or bounded) in its own unit: TransactionBody::read / write and CompactBlockBody::read / write accept / produce an encoding sp_enc_body / sp_enc_cbody that depends on the stream's protocol version (C10/body_readers, C10/tx_types, C10/inputs_write), OutputFeatures / Commitment / RangeProof likewise fixed-size (C10/tx_types, C11/ser_prims); Transaction::validate_read is an uninterpreted check
//@ assume: T6: `.map_err(|_| ser::Error::CorruptedData)?` => `?` against an abstract callee that already returns the final error type; `writer.serialization_mode() != ser::SerializationMode::Hash` => `!writer.serialization_mode().is_hash_mode()`
//@ assume: decided here (C10, blocks / compact blocks / transactions / outputs as COMPOSITES): whatever Block::read accepts is exactly header encoding ++ body encoding of the block returned, Block::write appends exactly that and in hash mode ONLY the header's hash-mode encoding (the proof) -- a block's identity hash is its header's; CompactBlock: header ++ nonce ++ compact body, hash mode again the header only; Transaction: offset ++ body, accepted only if validate_read passed; Output: identifier ++ range proof; OutputIdentifier: features ++ commitment; BlockSums: the two commitments. No field is skipped, reordered or normalised by the composite layer.
//@ assumed_items: 14
//@ fns: Block::read, Block::write, CompactBlock::read, CompactBlock::write, Transaction::read, Transaction::write, Output::read, Output::write, OutputIdentifier::read, OutputIdentifier::write, BlockSums::read, BlockSums::write
//@ include: header_ser.verus.rs
#[verifier::external_body]
pub struct TransactionBody { _p: u8 }
#[verifier::external_body]
pub struct CompactBlockBody { _p: u8 }
pub uninterp spec fn sp_enc_body(b: TransactionBody, version: u32) -> Seq<u8>;
pub uninterp spec fn sp_enc_cbody(b: CompactBlockBody, version: u32) -> Seq<u8>;
impl TransactionBody {
    #[verifier::external_body]
    pub fn read<R: Reader>(reader: &mut R) -> (r: Result<TransactionBody, ser::Error>)
        ensures final(reader).version() == old(reader).version(), r matches Ok(b) ==> old(reader).buf() == sp_enc_body(b, old(reader).version()) + final(reader).buf() { unimplemented!() }
    #[verifier::external_body]
    pub fn write<W: Writer>(&self, writer: &mut W) -> (r: Result<(), ser::Error>)
        ensures final(writer).hash_mode() == old(writer).hash_mode(), final(writer).version() == old(writer).version(),
            r is Ok ==> final(writer).out() == old(writer).out() + sp_enc_body(*self, old(writer).version()) { unimplemented!() }
}
impl CompactBlockBody {
    #[verifier::external_body]
    pub fn read<R: Reader>(reader: &mut R) -> (r: Result<CompactBlockBody, ser::Error>)
        ensures final(reader).version() == old(reader).version(), r matches Ok(b) ==> old(reader).buf() == sp_enc_cbody(b, old(reader).version()) + final(reader).buf() { unimplemented!() }
    #[verifier::external_body]
    pub fn write<W: Writer>(&self, writer: &mut W) -> (r: Result<(), ser::Error>)
        ensures final(writer).hash_mode() == old(writer).hash_mode(), final(writer).version() == old(writer).version(),
            r is Ok ==> final(writer).out() == old(writer).out() + sp_enc_cbody(*self, old(writer).version()) { unimplemented!() }
}
pub struct Commitment { pub b: Ghost<Seq<u8>> }
pub struct RangeProof { pub b: Ghost<Seq<u8>> }
pub struct OutputFeatures { pub b: Ghost<Seq<u8>> }
impl FixedBytes for Commitment { open spec fn bytes(&self) -> Seq<u8> { self.b@ } }
impl Commitment {
    #[verifier::external_body]
    pub fn read<R: Reader>(reader: &mut R) -> (r: Result<Commitment, ser::Error>) ensures final(reader).version() == old(reader).version(), r matches Ok(c) ==> old(reader).buf() == c.b@ + final(reader).buf() { unimplemented!() }
    #[verifier::external_body]
    pub fn write<W: Writer>(&self, writer: &mut W) -> (r: Result<(), ser::Error>) ensures final(writer).hash_mode() == old(writer).hash_mode(), final(writer).version() == old(writer).version(), r is Ok ==> final(writer).out() == old(writer).out() + self.b@ { unimplemented!() }
}
impl RangeProof {
    #[verifier::external_body]
    pub fn read<R: Reader>(reader: &mut R) -> (r: Result<RangeProof, ser::Error>) ensures final(reader).version() == old(reader).version(), r matches Ok(c) ==> old(reader).buf() == c.b@ + final(reader).buf() { unimplemented!() }
    #[verifier::external_body]
    pub fn write<W: Writer>(&self, writer: &mut W) -> (r: Result<(), ser::Error>) ensures final(writer).hash_mode() == old(writer).hash_mode(), final(writer).version() == old(writer).version(), r is Ok ==> final(writer).out() == old(writer).out() + self.b@ { unimplemented!() }
}
impl OutputFeatures {
    #[verifier::external_body]
    pub fn read<R: Reader>(reader: &mut R) -> (r: Result<OutputFeatures, ser::Error>) ensures final(reader).version() == old(reader).version(), r matches Ok(c) ==> old(reader).buf() == c.b@ + final(reader).buf() { unimplemented!() }
    #[verifier::external_body]
    pub fn write<W: Writer>(&self, writer: &mut W) -> (r: Result<(), ser::Error>) ensures final(writer).hash_mode() == old(writer).hash_mode(), final(writer).version() == old(writer).version(), r is Ok ==> final(writer).out() == old(writer).out() + self.b@ { unimplemented!() }
}
impl BlindingFactor {
    #[verifier::external_body]
    pub fn write<W: Writer>(&self, writer: &mut W) -> (r: Result<(), ser::Error>)
        ensures final(writer).hash_mode() == old(writer).hash_mode(), final(writer).version() == old(writer).version(), r is Ok ==> final(writer).out() == old(writer).out() + self.b@ { unimplemented!() }
}
impl BlockHeader {
    /// Readable for BlockHeader is read_block_header (one line, see C10/header_ser)
    pub fn read<R: Reader>(reader: &mut R) -> (r: Result<BlockHeader, ser::Error>)
        ensures final(reader).version() == old(reader).version(), r matches Ok(h) ==> old(reader).buf() =~= sp_enc_header(h) + final(reader).buf()
    { read_block_header(reader) }
}
pub struct OutputIdentifier { pub features: OutputFeatures, pub commit: Commitment }
pub struct Output { pub identifier: OutputIdentifier, pub proof: RangeProof }
pub struct Transaction { pub offset: BlindingFactor, pub body: TransactionBody }
pub struct Block { pub header: BlockHeader, pub body: TransactionBody }
pub struct CompactBlock { pub header: BlockHeader, pub nonce: u64, pub body: CompactBlockBody }
pub struct BlockSums { pub utxo_sum: Commitment, pub kernel_sum: Commitment }
pub uninterp spec fn sp_validate_read_ok(t: Transaction) -> bool;
impl Transaction {
    #[verifier::external_body]
    pub fn validate_read(&self) -> (r: Result<(), ser::Error>) ensures r is Ok ==> sp_validate_read_ok(*self) { unimplemented!() }
//@ extract core/src/core/transaction.rs :: impl Readable for Transaction::read
//@   rewrite `.map_err(|_| ser::Error::CorruptedData)?` => `?`
//@   ensures:
//@+    r matches Ok(t) ==> old(reader).buf() =~= t.offset.b@ + sp_enc_body(t.body, old(reader).version()) + final(reader).buf() && sp_validate_read_ok(t),
//@ end
//@ extract core/src/core/transaction.rs :: impl Writeable for Transaction::write
//@   ensures:
//@+    r is Ok ==> final(writer).out() =~= old(writer).out() + self.offset.b@ + sp_enc_body(self.body, old(writer).version()),
//@ end
}
impl OutputIdentifier {
//@ extract core/src/core/transaction.rs :: impl Readable for OutputIdentifier::read
//@   ensures:
//@+    r matches Ok(o) ==> old(reader).buf() =~= o.features.b@ + o.commit.b@ + final(reader).buf(),
//@ end
//@ extract core/src/core/transaction.rs :: impl Writeable for OutputIdentifier::write
//@   ensures:
//@+    final(writer).hash_mode() == old(writer).hash_mode(),
//@+    r is Ok ==> final(writer).out() =~= old(writer).out() + self.features.b@ + self.commit.b@,
//@ end
}
impl Output {
//@ extract core/src/core/transaction.rs :: impl Readable for Output::read
//@   ensures:
//@+    r matches Ok(o) ==> old(reader).buf() =~= o.identifier.features.b@ + o.identifier.commit.b@ + o.proof.b@ + final(reader).buf(),
//@ end
//@ extract core/src/core/transaction.rs :: impl Writeable for Output::write
//@   ensures:
//@+    r is Ok ==> final(writer).out() =~= old(writer).out() + self.identifier.features.b@ + self.identifier.commit.b@ + self.proof.b@,
//@ end
}
impl Block {
//@ extract core/src/core/block.rs :: impl Readable for Block::read
//@   ensures:
//@+    r matches Ok(b) ==> old(reader).buf() =~= sp_enc_header(b.header) + sp_enc_body(b.body, old(reader).version()) + final(reader).buf(),
//@ end
//@ extract core/src/core/block.rs :: impl Writeable for Block::write
//@   ensures:
//@+    r is Ok && !old(writer).hash_mode() ==> final(writer).out() =~= old(writer).out() + sp_enc_header(self.header) + sp_enc_body(self.body, old(writer).version()),
//@+    r is Ok && old(writer).hash_mode() ==> final(writer).out() =~= old(writer).out() + sp_enc_proof(self.header.pow.proof, true),
//@ end
}
impl CompactBlock {
//@ extract core/src/core/compact_block.rs :: impl Readable for CompactBlock::read
//@   ensures:
//@+    r matches Ok(b) ==> old(reader).buf() =~= sp_enc_header(b.header) + enc_u64(b.nonce) + sp_enc_cbody(b.body, old(reader).version()) + final(reader).buf(),
//@ end
//@ extract core/src/core/compact_block.rs :: impl Writeable for CompactBlock::write
//@   rewrite `writer.serialization_mode() != ser::SerializationMode::Hash` => `!writer.serialization_mode().is_hash_mode()`
//@   ensures:
//@+    r is Ok && !old(writer).hash_mode() ==> final(writer).out() =~= old(writer).out() + sp_enc_header(self.header) + enc_u64(self.nonce) + sp_enc_cbody(self.body, old(writer).version()),
//@+    r is Ok && old(writer).hash_mode() ==> final(writer).out() =~= old(writer).out() + sp_enc_proof(self.header.pow.proof, true),
//@ end
}
impl BlockSums {
//@ extract core/src/core/block_sums.rs :: impl Readable for BlockSums::read
//@   ensures:
//@+    r matches Ok(s) ==> old(reader).buf() =~= s.utxo_sum.b@ + s.kernel_sum.b@ + final(reader).buf(),
//@ end
//@ extract core/src/core/block_sums.rs :: impl Writeable for BlockSums::write
//@   ensures:
//@+    r is Ok ==> final(writer).out() =~= old(writer).out() + self.utxo_sum.b@ + self.kernel_sum.b@,
//@ end
}
//@ canary read: r is Err
//@ canary write: r is Err
