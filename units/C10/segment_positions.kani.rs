//@ crate: grin_core
//@ target: core/src/core/pmmr/segment.rs
//@ assume: decided here (C10 canonical form of MMR segments, 'unsorted or duplicate ... entries are refused rather than accepted'): whatever Segment::read accepts has STRICTLY increasing leaf positions -- complete for every byte string of length 0..=52 (identifier, the three counts and up to two leaf positions with one-byte leaves, symbolic length so every truncation); the statement for any count is the loop invariant of C11/segment_read (Verus, linked into C10), which goes undecided on rewrites of the loop -- this harness has no anchors
//@ harness c10_segment_positions_canonical kind=complete tier=quick fns=Segment::read,read_segment_positions bound=-
use crate::verif_kani_support::*;

#[derive(Clone, Debug)]
struct KLeaf10(u8);
impl PMMRIndexHashable for KLeaf10 {
	fn hash_with_index(&self, _index: u64) -> Hash {
		crate::core::hash::ZERO_HASH
	}
}
impl Readable for KLeaf10 {
	fn read<R: Reader>(reader: &mut R) -> Result<Self, Error> {
		Ok(KLeaf10(reader.read_u8()?))
	}
}

#[kani::proof]
#[kani::unwind(7)]
#[kani::stub(alloc::fmt::format, stub_format)]
#[kani::stub(std::vec::Vec::with_capacity, checked_with_capacity)]
fn c10_segment_positions_canonical() {
	let mut r = KReader::<52>::any();
	let res = Segment::<KLeaf10>::read(&mut r);
	if let Ok(s) = res {
		if s.leaf_pos.len() == 2 {
			assert!(s.leaf_pos[0] < s.leaf_pos[1], "C10: duplicate or unsorted segment positions are refused");
		}
		if s.hash_pos.len() == 2 {
			assert!(s.hash_pos[0] < s.hash_pos[1], "C10: duplicate or unsorted segment hash positions are refused");
		}
	}
}
