//@ assume: ABSTRACT BYTE STREAMS as in C10/header_ser; Hash / PeerAddr / BlockHeader codecs are abstract with an encoding each (Hash: 32 raw bytes; PeerAddr: C10/peer_addr, its IPv4-mapped normalisation is the known finding recorded there; BlockHeader: C10/header_ser); T6: a unit-valued tail expression `h.write(writer)?` gets its semicolon; `for h in &self.hashes {` => iteration over the vector's elements; `for _ in 0..len {` => a named counter; `vec![]` => Vec::new(); `Vec::with_capacity(n)` => typed empty vectors
//@ assume: decided here (C10 'the handshake and sync messages', the LIST messages, any number of items): whatever Locator::read / PeerAddrs::read accept is byte for byte the count followed by the encodings of EXACTLY that many items, in order -- the count announced is the number of items returned, at most 20 locator hashes / 256 peer addresses -- and Locator::write / PeerAddrs::write / Headers::write append the count and then every item in order (for lists whose length fits the count field: a longer list would be TRUNCATED IN THE COUNT ONLY by `len() as u8 / u16 / u32`, the items still all written -- a precondition here, see DESIGN 8b observations)
//@ assumed_items: 5
//@ fns: Locator::read, Locator::write, PeerAddrs::read, PeerAddrs::write, Headers::write
pub mod ser { pub enum Error { CorruptedData, TooLargeReadErr, Io } }
pub uninterp spec fn enc_u16(v: u16) -> Seq<u8>;
pub uninterp spec fn enc_u32(v: u32) -> Seq<u8>;
pub trait Reader {
    spec fn buf(&self) -> Seq<u8>;
    fn read_u8(&mut self) -> (r: Result<u8, ser::Error>) ensures r matches Ok(v) ==> old(self).buf() == seq![v] + final(self).buf();
    fn read_u32(&mut self) -> (r: Result<u32, ser::Error>) ensures r matches Ok(v) ==> old(self).buf() == enc_u32(v) + final(self).buf();
}
pub trait Writer {
    spec fn out(&self) -> Seq<u8>;
    fn write_u8(&mut self, v: u8) -> (r: Result<(), ser::Error>) ensures r is Ok ==> final(self).out() == old(self).out() + seq![v];
    fn write_u16(&mut self, v: u16) -> (r: Result<(), ser::Error>) ensures r is Ok ==> final(self).out() == old(self).out() + enc_u16(v);
    fn write_u32(&mut self, v: u32) -> (r: Result<(), ser::Error>) ensures r is Ok ==> final(self).out() == old(self).out() + enc_u32(v);
}
#[derive(Clone, Copy, PartialEq, Eq)]
pub struct Hash { pub v: u64 }
#[derive(Clone, Copy, PartialEq, Eq)]
pub struct PeerAddr { pub v: u64 }
#[derive(Clone, Copy, PartialEq, Eq)]
pub struct BlockHeader { pub v: u64 }
pub uninterp spec fn enc_hash(x: Hash) -> Seq<u8>;
pub uninterp spec fn enc_addr(x: PeerAddr) -> Seq<u8>;
pub uninterp spec fn enc_header(x: BlockHeader) -> Seq<u8>;
impl Hash {
    #[verifier::external_body]
    pub fn read<R: Reader>(reader: &mut R) -> (r: Result<Hash, ser::Error>) ensures r matches Ok(x) ==> old(reader).buf() == enc_hash(x) + final(reader).buf() { unimplemented!() }
    #[verifier::external_body]
    pub fn write<W: Writer>(&self, writer: &mut W) -> (r: Result<(), ser::Error>) ensures r is Ok ==> final(writer).out() == old(writer).out() + enc_hash(*self) { unimplemented!() }
}
impl PeerAddr {
    #[verifier::external_body]
    pub fn read<R: Reader>(reader: &mut R) -> (r: Result<PeerAddr, ser::Error>) ensures r matches Ok(x) ==> old(reader).buf() == enc_addr(x) + final(reader).buf() { unimplemented!() }
    #[verifier::external_body]
    pub fn write<W: Writer>(&self, writer: &mut W) -> (r: Result<(), ser::Error>) ensures r is Ok ==> final(writer).out() == old(writer).out() + enc_addr(*self) { unimplemented!() }
}
impl BlockHeader {
    #[verifier::external_body]
    pub fn write<W: Writer>(&self, writer: &mut W) -> (r: Result<(), ser::Error>) ensures r is Ok ==> final(writer).out() == old(writer).out() + enc_header(*self) { unimplemented!() }
}
pub open spec fn all_hashes(s: Seq<Hash>) -> Seq<u8> decreases s.len() { if s.len() == 0 { Seq::empty() } else { all_hashes(s.drop_last()) + enc_hash(s.last()) } }
pub open spec fn all_addrs(s: Seq<PeerAddr>) -> Seq<u8> decreases s.len() { if s.len() == 0 { Seq::empty() } else { all_addrs(s.drop_last()) + enc_addr(s.last()) } }
pub open spec fn all_headers(s: Seq<BlockHeader>) -> Seq<u8> decreases s.len() { if s.len() == 0 { Seq::empty() } else { all_headers(s.drop_last()) + enc_header(s.last()) } }
pub const MAX_LOCATORS: u32 = 20;
pub const MAX_PEER_ADDRS: u32 = 256;
pub struct Locator { pub hashes: Vec<Hash> }
pub struct PeerAddrs { pub peers: Vec<PeerAddr> }
pub struct Headers { pub headers: Vec<BlockHeader> }
impl Locator {
//@ extract p2p/src/msg.rs :: impl Writeable for Locator::write
//@   rewrite `for h in &self.hashes {` => `for h in it: self.hashes.iter() {`
//@   rewrite `h.write(writer)?\n` => `h.write(writer)?;\n`
//@   requires:
//@+    self.hashes@.len() <= 255,
//@   ensures:
//@+    r is Ok ==> final(writer).out() =~= old(writer).out() + seq![self.hashes@.len() as u8] + all_hashes(self.hashes@),
//@   loop 1:
//@+    invariant writer.out() =~= old(writer).out() + seq![self.hashes@.len() as u8] + all_hashes(self.hashes@.take(it.index@)),
//@   after `h.write(writer)?;`:
//@+    proof { assert(self.hashes@.take(it.index@ + 1).drop_last() =~= self.hashes@.take(it.index@)); }
//@   before `Ok(())`:
//@+    proof { assert(self.hashes@.take(self.hashes@.len() as int) =~= self.hashes@); }
//@ end
//@ extract p2p/src/msg.rs :: impl Readable for Locator::read
//@   rewrite `let mut hashes = Vec::with_capacity(len as usize);` => `let mut hashes: Vec<Hash> = Vec::new(); let ghost buf1 = reader.buf();`
//@   rewrite `for _ in ` => `for j in it: `
//@   ensures:
//@+    r matches Ok(l) ==> l.hashes@.len() <= 20 && old(reader).buf() =~= seq![l.hashes@.len() as u8] + all_hashes(l.hashes@) + final(reader).buf(),
//@   loop 1:
//@+    invariant hashes@.len() == j, buf1 =~= all_hashes(hashes@) + reader.buf(),
//@   before `hashes.push(Hash::read(reader)?);`:
//@+    let ghost pre = hashes@;
//@   after `hashes.push(Hash::read(reader)?);`:
//@+    proof { assert(hashes@.drop_last() =~= pre); }
//@ end
}
impl PeerAddrs {
//@ extract p2p/src/msg.rs :: impl Writeable for PeerAddrs::write
//@   rewrite `for p in &self.peers {` => `for p in it: self.peers.iter() {`
//@   requires:
//@+    self.peers@.len() <= 0xffff_ffff,
//@   ensures:
//@+    r is Ok ==> final(writer).out() =~= old(writer).out() + enc_u32(self.peers@.len() as u32) + all_addrs(self.peers@),
//@   loop 1:
//@+    invariant writer.out() =~= old(writer).out() + enc_u32(self.peers@.len() as u32) + all_addrs(self.peers@.take(it.index@)),
//@   after `p.write(writer)?;`:
//@+    proof { assert(self.peers@.take(it.index@ + 1).drop_last() =~= self.peers@.take(it.index@)); }
//@   before `Ok(())`:
//@+    proof { assert(self.peers@.take(self.peers@.len() as int) =~= self.peers@); }
//@ end
//@ extract p2p/src/msg.rs :: impl Readable for PeerAddrs::read
//@   rewrite `return Ok(PeerAddrs { peers: vec![] });` => `return Ok(PeerAddrs { peers: Vec::new() });`
//@   rewrite `let mut peers = Vec::with_capacity(peer_count as usize);` => `let mut peers: Vec<PeerAddr> = Vec::new(); let ghost buf1 = reader.buf();`
//@   rewrite `for _ in ` => `for j in it: `
//@   ensures:
//@+    r matches Ok(l) ==> l.peers@.len() <= 256 && old(reader).buf() =~= enc_u32(l.peers@.len() as u32) + all_addrs(l.peers@) + final(reader).buf(),
//@   loop 1:
//@+    invariant peers@.len() == j, buf1 =~= all_addrs(peers@) + reader.buf(),
//@   before `peers.push(PeerAddr::read(reader)?);`:
//@+    let ghost pre = peers@;
//@   after `peers.push(PeerAddr::read(reader)?);`:
//@+    proof { assert(peers@.drop_last() =~= pre); }
//@ end
}
impl Headers {
//@ extract p2p/src/msg.rs :: impl Writeable for Headers::write
//@   rewrite `for h in &self.headers {` => `for h in it: self.headers.iter() {`
//@   rewrite `h.write(writer)?\n` => `h.write(writer)?;\n`
//@   requires:
//@+    self.headers@.len() <= 0xffff,
//@   ensures:
//@+    r is Ok ==> final(writer).out() =~= old(writer).out() + enc_u16(self.headers@.len() as u16) + all_headers(self.headers@),
//@   loop 1:
//@+    invariant writer.out() =~= old(writer).out() + enc_u16(self.headers@.len() as u16) + all_headers(self.headers@.take(it.index@)),
//@   after `h.write(writer)?;`:
//@+    proof { assert(self.headers@.take(it.index@ + 1).drop_last() =~= self.headers@.take(it.index@)); }
//@   before `Ok(())`:
//@+    proof { assert(self.headers@.take(self.headers@.len() as int) =~= self.headers@); }
//@ end
}
//@ canary read: r is Err
//@ canary write: r is Err
