//@ assume: ABSTRACT BYTE STREAMS as in C10/header_ser, here with the length-prefixed byte primitives: read_bytes_len_prefix returns Ok(v) only by consuming enc_u64(len v) ++ v; write_bytes(s) appends enc_u64(len) ++ the bytes of s; ProtocolVersion / Difficulty / PeerAddr / Hash codecs are abstract with an encoding each (decided in their own units: C10/chain_types, pow_types, peer_addr; PeerAddr's IPv4-mapped normalisation is the known finding recorded there)
//@ assume: std: String::from_utf8 (T6: with its `.map_err(..)?` => Utf8::from_utf8(ua)?) returns, if anything, the string whose bytes ARE the input; OFFERED for variants: String::from_utf8_lossy(..).into_owned() => Utf8::from_utf8_lossy, about whose bytes NOTHING is assumed (it replaces invalid sequences); Capabilities::from_bits_truncate drops unknown bits -- a deliberate forward-compatibility normalisation, kept visible: the abstract Capabilities remembers the RAW value it was made from
//@ assume: decided here (C10, 'the handshake ... messages'): whatever Hand::read / Shake::read accept is byte for byte the encoding of the value returned, field by field in the order the writer uses -- in particular the user agent returned has EXACTLY the bytes that were on the wire (invalid UTF-8 is refused, not rewritten) -- with the single exception of unknown capability bits (raw vs bits); Hand::write / Shake::write append exactly that encoding with the capability BITS
//@ assumed_items: 15
//@ fns: Hand::read, Hand::write, Shake::read, Shake::write
pub mod ser { pub enum Error { CorruptedData, TooLargeReadErr, Io } }
pub uninterp spec fn enc_u32(v: u32) -> Seq<u8>;
pub uninterp spec fn enc_u64(v: u64) -> Seq<u8>;
pub uninterp spec fn sp_bytes(s: String) -> Seq<u8>;
pub trait Reader {
    spec fn buf(&self) -> Seq<u8>;
    fn read_u32(&mut self) -> (r: Result<u32, ser::Error>) ensures r matches Ok(v) ==> old(self).buf() == enc_u32(v) + final(self).buf();
    fn read_u64(&mut self) -> (r: Result<u64, ser::Error>) ensures r matches Ok(v) ==> old(self).buf() == enc_u64(v) + final(self).buf();
    fn read_bytes_len_prefix(&mut self) -> (r: Result<Vec<u8>, ser::Error>) ensures r matches Ok(v) ==> old(self).buf() == enc_u64(v@.len() as u64) + v@ + final(self).buf();
}
pub trait Writer {
    spec fn out(&self) -> Seq<u8>;
    fn write_u32(&mut self, v: u32) -> (r: Result<(), ser::Error>) ensures r is Ok ==> final(self).out() == old(self).out() + enc_u32(v);
    fn write_u64(&mut self, v: u64) -> (r: Result<(), ser::Error>) ensures r is Ok ==> final(self).out() == old(self).out() + enc_u64(v);
    fn write_bytes(&mut self, s: &String) -> (r: Result<(), ser::Error>) ensures r is Ok ==> final(self).out() == old(self).out() + enc_u64(sp_bytes(*s).len() as u64) + sp_bytes(*s);
}
pub struct Utf8;
impl Utf8 {
    #[verifier::external_body]
    pub fn from_utf8(v: Vec<u8>) -> (r: Result<String, ser::Error>) ensures r matches Ok(s) ==> sp_bytes(s) == v@ { unimplemented!() }
    #[verifier::external_body]
    pub fn from_utf8_lossy(v: &Vec<u8>) -> (r: String) { unimplemented!() }
}
#[verifier::external_body]
pub struct ProtocolVersion { _p: u8 }
pub uninterp spec fn enc_pv(x: ProtocolVersion) -> Seq<u8>;
impl ProtocolVersion {
    #[verifier::external_body]
    pub fn read<R: Reader>(reader: &mut R) -> (r: Result<ProtocolVersion, ser::Error>) ensures r matches Ok(x) ==> old(reader).buf() == enc_pv(x) + final(reader).buf() { unimplemented!() }
    #[verifier::external_body]
    pub fn write<W: Writer>(&self, writer: &mut W) -> (r: Result<(), ser::Error>) ensures r is Ok ==> final(writer).out() == old(writer).out() + enc_pv(*self) { unimplemented!() }
}
#[verifier::external_body]
pub struct Difficulty { _p: u8 }
pub uninterp spec fn enc_diff(x: Difficulty) -> Seq<u8>;
impl Difficulty {
    #[verifier::external_body]
    pub fn read<R: Reader>(reader: &mut R) -> (r: Result<Difficulty, ser::Error>) ensures r matches Ok(x) ==> old(reader).buf() == enc_diff(x) + final(reader).buf() { unimplemented!() }
    #[verifier::external_body]
    pub fn write<W: Writer>(&self, writer: &mut W) -> (r: Result<(), ser::Error>) ensures r is Ok ==> final(writer).out() == old(writer).out() + enc_diff(*self) { unimplemented!() }
}
#[verifier::external_body]
pub struct PeerAddr { _p: u8 }
pub uninterp spec fn enc_addr(x: PeerAddr) -> Seq<u8>;
impl PeerAddr {
    #[verifier::external_body]
    pub fn read<R: Reader>(reader: &mut R) -> (r: Result<PeerAddr, ser::Error>) ensures r matches Ok(x) ==> old(reader).buf() == enc_addr(x) + final(reader).buf() { unimplemented!() }
    #[verifier::external_body]
    pub fn write<W: Writer>(&self, writer: &mut W) -> (r: Result<(), ser::Error>) ensures r is Ok ==> final(writer).out() == old(writer).out() + enc_addr(*self) { unimplemented!() }
}
#[verifier::external_body]
pub struct Hash { _p: u8 }
pub uninterp spec fn enc_hash(x: Hash) -> Seq<u8>;
impl Hash {
    #[verifier::external_body]
    pub fn read<R: Reader>(reader: &mut R) -> (r: Result<Hash, ser::Error>) ensures r matches Ok(x) ==> old(reader).buf() == enc_hash(x) + final(reader).buf() { unimplemented!() }
    #[verifier::external_body]
    pub fn write<W: Writer>(&self, writer: &mut W) -> (r: Result<(), ser::Error>) ensures r is Ok ==> final(writer).out() == old(writer).out() + enc_hash(*self) { unimplemented!() }
}
pub uninterp spec fn sp_trunc(raw: u32) -> u32;
pub struct Capabilities { pub b: u32, pub raw: Ghost<u32> }
impl Capabilities {
    #[verifier::external_body]
    pub fn from_bits_truncate(bits: u32) -> (r: Capabilities) ensures r.b == sp_trunc(bits), r.raw@ == bits { unimplemented!() }
    pub fn bits(&self) -> (r: u32) ensures r == self.b { self.b }
}
//@ extract p2p/src/msg.rs :: struct Hand
//@   strip_attrs
//@ end
//@ extract p2p/src/msg.rs :: struct Shake
//@   strip_attrs
//@ end
pub open spec fn ua_enc(s: String) -> Seq<u8> { enc_u64(sp_bytes(s).len() as u64) + sp_bytes(s) }
pub open spec fn hand_enc(h: Hand, caps: u32) -> Seq<u8> {
    enc_pv(h.version) + enc_u32(caps) + enc_u64(h.nonce) + enc_diff(h.total_difficulty) + enc_addr(h.sender_addr) + enc_addr(h.receiver_addr) + ua_enc(h.user_agent) + enc_hash(h.genesis)
}
pub open spec fn shake_enc(h: Shake, caps: u32) -> Seq<u8> {
    enc_pv(h.version) + enc_u32(caps) + enc_diff(h.total_difficulty) + ua_enc(h.user_agent) + enc_hash(h.genesis)
}
impl Hand {
//@ extract p2p/src/msg.rs :: impl Readable for Hand::read
//@   expand_ser_macros
//@   rewrite `String::from_utf8(ua).map_err(|_| ser::Error::CorruptedData)?` => `Utf8::from_utf8(ua)?` x?
//@   rewrite `String::from_utf8_lossy(&ua).into_owned()` => `Utf8::from_utf8_lossy(&ua)` x?
//@   ensures:
//@+    r matches Ok(h) ==> old(reader).buf() =~= hand_enc(h, h.capabilities.raw@) + final(reader).buf(),
//@ end
//@ extract p2p/src/msg.rs :: impl Writeable for Hand::write
//@   expand_ser_macros
//@   ensures:
//@+    r is Ok ==> final(writer).out() =~= old(writer).out() + hand_enc(*self, self.capabilities.b),
//@ end
}
impl Shake {
//@ extract p2p/src/msg.rs :: impl Readable for Shake::read
//@   rewrite `String::from_utf8(ua).map_err(|_| ser::Error::CorruptedData)?` => `Utf8::from_utf8(ua)?` x?
//@   rewrite `String::from_utf8_lossy(&ua).into_owned()` => `Utf8::from_utf8_lossy(&ua)` x?
//@   ensures:
//@+    r matches Ok(h) ==> old(reader).buf() =~= shake_enc(h, h.capabilities.raw@) + final(reader).buf(),
//@ end
//@ extract p2p/src/msg.rs :: impl Writeable for Shake::write
//@   ensures:
//@+    r is Ok ==> final(writer).out() =~= old(writer).out() + shake_enc(*self, self.capabilities.b),
//@ end
}
//@ canary read: r is Err
//@ canary write: r is Err
