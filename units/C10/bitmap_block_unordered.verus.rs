//@ assume: ABSTRACT BYTE STREAM as in C10/header_ser (a Reader is the sequence of bytes still unread; read_u8 / read_u16 / read_fixed_bytes consume exactly the encoding of what they return); the `bit-vec` crate's BitVec is abstract: a sequence of booleans, from_elem / set / from_bytes with the obvious meaning, ASSUMED: from_bytes yields 8 bits per byte and packing them again (BitVec::to_bytes, what the writer emits in Raw mode) gives back the bytes; T6: `inner.iter().filter(|&v| v).count()` => count_true(&inner) (ASSUMED: the number of set bits); `Readable::read(reader)?` (trait dispatch by inference) => BitmapBlockSerialization::read (abstract: one tag byte 0 / 1 / 2, anything else refused); `for _ in 0..n` => `for j in it: 0..n` (the counter gets a name)
//@ assume: THE FORMAT (sp_enc_block) is transcribed from BitmapBlock::write, which is NOT under contract (iterator adaptors with pattern closures): chunk count, then mode Positive (1) with the ascending list of set indices if fewer than 4096 bits are set, else Negative (2) with the ascending list of clear indices if fewer than 4096 are clear, else Raw (0) with the packed bits
//@ assume: decided here (C10, MMR segments: the blocks of a PIBD bitmap segment), UNBOUNDED in the number of indices: whatever BitmapBlock::read ACCEPTS is byte for byte sp_enc_block of the block it returns -- so index lists out of order or with repeats, a count that is not the number of set (clear) bits, and a mode the writer would not have chosen for that content are REFUSED, not normalised (SHAPE-SPECIFIC unit: generated only while the reader does not track the previous index -- the shape of the pinned tree, which this unit REPORTED as finding F23; kept so that a revert of the repair is a violation again, not a lost anchor in C10/bitmap_block)
//@ applies_unless: chain/src/txhashset/bitmap_accumulator.rs :: impl Readable for BitmapBlock::read :: `prev`
//@ assumed_items: 5
//@ fns: BitmapBlock::read
pub mod ser { pub enum Error { CorruptedData, TooLargeReadErr, Io } }
pub uninterp spec fn enc_u16(v: u16) -> Seq<u8>;
pub trait Reader {
    spec fn buf(&self) -> Seq<u8>;
    fn read_u8(&mut self) -> (r: Result<u8, ser::Error>) ensures r matches Ok(v) ==> old(self).buf() == seq![v] + final(self).buf();
    fn read_u16(&mut self) -> (r: Result<u16, ser::Error>) ensures r matches Ok(v) ==> old(self).buf() == enc_u16(v) + final(self).buf();
    fn read_fixed_bytes(&mut self, n: usize) -> (r: Result<Vec<u8>, ser::Error>) ensures r matches Ok(v) ==> v@.len() == n && old(self).buf() == v@ + final(self).buf();
}
pub uninterp spec fn sp_unpack(bytes: Seq<u8>) -> Seq<bool>;
pub uninterp spec fn sp_pack(bits: Seq<bool>) -> Seq<u8>;
pub struct BitVec { pub bits: Ghost<Seq<bool>> }
impl BitVec {
    #[verifier::external_body]
    pub fn from_elem(n: usize, v: bool) -> (r: BitVec) ensures r.bits@.len() == n, forall|i: int| 0 <= i < n ==> r.bits@[i] == v { unimplemented!() }
    #[verifier::external_body]
    pub fn set(&mut self, i: usize, v: bool) requires i < old(self).bits@.len() ensures final(self).bits@ == old(self).bits@.update(i as int, v) { unimplemented!() }
    #[verifier::external_body]
    pub fn from_bytes(bytes: &Vec<u8>) -> (r: BitVec) ensures r.bits@ == sp_unpack(bytes@), r.bits@.len() == 8 * bytes@.len(), sp_pack(r.bits@) == bytes@ { unimplemented!() }
}
#[verifier::external_body]
pub fn count_true(b: &BitVec) -> (r: usize) ensures r == idx_of(b.bits@, true, b.bits@.len()).len() { unimplemented!() }
pub enum BitmapBlockSerialization { Raw, Positive, Negative }
pub open spec fn tag_of(m: BitmapBlockSerialization) -> u8 { match m { BitmapBlockSerialization::Raw => 0, BitmapBlockSerialization::Positive => 1, BitmapBlockSerialization::Negative => 2 } }
impl BitmapBlockSerialization {
    #[verifier::external_body]
    pub fn read<R: Reader>(reader: &mut R) -> (r: Result<BitmapBlockSerialization, ser::Error>) ensures r matches Ok(m) ==> old(reader).buf() == seq![tag_of(m)] + final(reader).buf() { unimplemented!() }
}
pub struct BitmapChunk {}
impl BitmapChunk { pub const LEN_BITS: usize = 1024; }
pub struct BitmapBlock { pub inner: BitVec }

/// ascending list of the indices below k whose bit equals v
pub open spec fn idx_of(bits: Seq<bool>, v: bool, k: nat) -> Seq<int> decreases k {
    if k == 0 { Seq::empty() } else { let p = idx_of(bits, v, (k - 1) as nat); if k <= bits.len() && bits[k - 1] == v { p.push(k - 1) } else { p } }
}
pub open spec fn enc_list(l: Seq<int>) -> Seq<u8> decreases l.len() { if l.len() == 0 { Seq::empty() } else { enc_list(l.drop_last()) + enc_u16(l.last() as u16) } }
pub open spec fn sp_enc_block(bits: Seq<bool>) -> Seq<u8> {
    let pos = idx_of(bits, true, bits.len()); let neg = idx_of(bits, false, bits.len());
    seq![(bits.len() / 1024) as u8] + (
        if pos.len() < 4096 { seq![1u8] + enc_u16(pos.len() as u16) + enc_list(pos) }
        else if neg.len() < 4096 { seq![2u8] + enc_u16(neg.len() as u16) + enc_list(neg) }
        else { seq![0u8] + sp_pack(bits) })
}
pub proof fn lemma_len(bits: Seq<bool>, v: bool, k: nat)
    ensures idx_of(bits, v, k).len() <= k decreases k
{ if k > 0 { lemma_len(bits, v, (k - 1) as nat); } }
pub proof fn lemma_total(bits: Seq<bool>, k: nat)
    requires k <= bits.len()
    ensures idx_of(bits, true, k).len() + idx_of(bits, false, k).len() == k decreases k
{ if k > 0 { lemma_total(bits, (k - 1) as nat); } }
pub proof fn lemma_prefix(a: Seq<bool>, b: Seq<bool>, v: bool, k: nat)
    requires k <= a.len(), k <= b.len(), forall|i: int| 0 <= i < k ==> a[i] == b[i]
    ensures idx_of(a, v, k) == idx_of(b, v, k) decreases k
{ if k > 0 { lemma_prefix(a, b, v, (k - 1) as nat); } }
pub proof fn lemma_tail(bits: Seq<bool>, v: bool, a: nat, b: nat)
    requires a <= b <= bits.len(), forall|i: int| a <= i < b ==> bits[i] != v
    ensures idx_of(bits, v, b) == idx_of(bits, v, a) decreases b
{ if b > a { lemma_tail(bits, v, a, (b - 1) as nat); } }
/// setting bit p to v when nothing at or above p has value v appends p to the list
pub proof fn lemma_set_top(bits: Seq<bool>, v: bool, p: nat)
    requires p < bits.len(), forall|i: int| p <= i < bits.len() ==> bits[i] != v
    ensures idx_of(bits.update(p as int, v), v, bits.len()) == idx_of(bits, v, bits.len()).push(p as int)
{
    let b2 = bits.update(p as int, v);
    lemma_prefix(bits, b2, v, p);
    lemma_tail(bits, v, p, bits.len());
    assert(idx_of(b2, v, (p + 1) as nat) == idx_of(b2, v, p).push(p as int));
    lemma_tail(b2, v, (p + 1) as nat, b2.len());
}
pub proof fn lemma_enc_push(l: Seq<int>, x: int)
    ensures enc_list(l.push(x)) == enc_list(l) + enc_u16(x as u16)
{ assert(l.push(x).drop_last() =~= l); }
/// the loop invariant of both index arms: L is the ascending list read so far
pub open spec fn arm_inv(bits: Seq<bool>, v: bool, n_bits: nat, l: Seq<int>, prev: Option<usize>) -> bool {
    bits.len() == n_bits && idx_of(bits, v, n_bits) == l
    && (prev matches Some(p) ==> p < n_bits && forall|i: int| p < i < n_bits ==> bits[i] != v)
    && (prev is None ==> forall|i: int| 0 <= i < n_bits ==> bits[i] != v)
}
impl BitmapBlock {
    pub const NBITS: u32 = 1 << 16;
    pub const NCHUNKS: usize = 64;
//@ extract chain/src/txhashset/bitmap_accumulator.rs :: impl Readable for BitmapBlock::read
//@   rewrite `let mode = Readable::read(reader)?;` => `let mode = BitmapBlockSerialization::read(reader)?;`
//@   rewrite `inner.iter().filter(|&v| v).count()` => `count_true(&inner)` x?
//@   rewrite `for _ in 0..n {` => `for j in it: 0..n {`
//@   ensures:
//@+    r matches Ok(b) ==> old(reader).buf() =~= sp_enc_block(b.inner.bits@) + final(reader).buf() && b.inner.bits@.len() % 1024 == 0 && b.inner.bits@.len() <= 65536,
//@   after `let n_bits = n_chunks as usize * BitmapChunk::LEN_BITS;`:
//@+    let ghost buf0 = reader.buf();
//@   after `#1:let n = reader.read_u16()?;`:
//@+    let ghost mut lst: Seq<int> = Seq::empty();
//@+    let ghost buf1 = reader.buf();
//@+    proof { lemma_tail(inner.bits@, true, 0, n_bits as nat); }
//@   after `#2:let n = reader.read_u16()?;`:
//@+    let ghost mut lst: Seq<int> = Seq::empty();
//@+    let ghost buf1 = reader.buf();
//@+    proof { lemma_tail(inner.bits@, false, 0, n_bits as nat); }
//@   loop 1:
//@+    invariant
//@+        n_bits <= 65536, inner.bits@.len() == n_bits && idx_of(inner.bits@, true, n_bits as nat) == lst, lst.len() == j,
//@+        buf1 =~= enc_list(lst) + reader.buf(),
//@   loop 2:
//@+    invariant
//@+        n_bits <= 65536, inner.bits@.len() == n_bits && idx_of(inner.bits@, false, n_bits as nat) == lst, lst.len() == j,
//@+        buf1 =~= enc_list(lst) + reader.buf(),
//@   before `inner.set(pos, true);`:
//@+    proof { lemma_enc_push(lst, pos as int); lst = lst.push(pos as int); }
//@   before `inner.set(pos, false);`:
//@+    proof { lemma_enc_push(lst, pos as int); lst = lst.push(pos as int); }
//@   before `Ok(BitmapBlock { inner })`:
//@+    proof { lemma_total(inner.bits@, inner.bits@.len()); }
//@ end
}
//@ canary read: r is Err
