//@ assume: ABSTRACT BYTE STREAMS (DESIGN 3.4): a Reader is the sequence of bytes still unread, a Writer the sequence written so far plus its serialization mode; ASSUMED contracts of the primitives (decided for the real BinReader / BinWriter by the Kani unit C11/ser_prims): read_uN returns Ok(v) only by consuming exactly the big-endian encoding enc_uN(v) from the front; write_uN appends exactly enc_uN(v); read_fixed_bytes(32) / write_fixed_bytes likewise for Hash and BlindingFactor (32 raw bytes); Proof::read / Proof::write are abstract here with the encoding C05/proof_ser DECIDES (accepted bytes re-encode identically; in hash mode the edge-bits byte is omitted)
//@ assume: T6: `ser_multiread!(reader, a, b)` => `(reader.a()?, reader.b()?)` and `ser_multiwrite!(writer, [f, x], ..)` => `writer.f(x)?; ..` (the macros' expansions per core/src/macros.rs, done mechanically by the engine for whatever arguments the text has); the contracts of the Reader / Writer trait methods are ASSUMED for every implementor; `writer.serialization_mode() != ser::SerializationMode::Hash` => `!writer.serialization_mode().is_hash_mode()`; chrono: `NaiveDate::MAX/MIN .and_hms_opt(0,0,0).unwrap().and_utc().timestamp()` => naive_max_ts() / naive_min_ts() (two constants), `DateTime::<Utc>::from_timestamp(t, 0)` is ASSUMED to return, if anything, the instant whose timestamp() is t, and from_naive_utc_and_offset(x.naive_utc(), Utc) to be the identity on instants
//@ assume: decided here (C10, headers): whatever read_block_header (= BlockHeader::read) ACCEPTS is byte for byte the encoding sp_enc_header of the header it returns -- version, height, timestamp, the five hashes, the total kernel offset, the two MMR sizes, then the proof of work as total difficulty, secondary scaling, nonce, proof -- so re-encoding it reproduces the accepted bytes exactly (canonical form: nothing is normalised); BlockHeader::write appends exactly that encoding in full mode and in HASH mode exactly the hash-mode encoding of the PROOF alone -- the identity hash of a header depends on nothing but its proof, in particular not on a protocol version; ProofOfWork::read / write / write_pre_pow, HeaderVersion::read / write, Difficulty::read likewise. The converse (every encoding of a header is accepted) is decided only up to the timestamp range check.
//@ assumed_items: 9
//@ fns: read_block_header, BlockHeader::write, BlockHeader::write_pre_pow, HeaderVersion::read, HeaderVersion::write, ProofOfWork::read, ProofOfWork::write, ProofOfWork::write_pre_pow, Difficulty::read
pub mod ser {
    pub enum Error { CorruptedData, Io }
    #[derive(Clone, Copy)]
    pub enum SerializationMode { Full, Hash }
    impl SerializationMode {
        #[verifier::external_body]
        pub fn is_hash_mode(&self) -> (r: bool) ensures r == (*self is Hash) { unimplemented!() }
    }
}
pub uninterp spec fn enc_u8(v: u8) -> Seq<u8>;
pub uninterp spec fn enc_u16(v: u16) -> Seq<u8>;
pub uninterp spec fn enc_u32(v: u32) -> Seq<u8>;
pub uninterp spec fn enc_u64(v: u64) -> Seq<u8>;
pub uninterp spec fn enc_i64(v: i64) -> Seq<u8>;
pub trait FixedBytes { spec fn bytes(&self) -> Seq<u8>; }
pub struct Hash { pub b: Ghost<Seq<u8>> }
pub struct BlindingFactor { pub b: Ghost<Seq<u8>> }
impl FixedBytes for Hash { open spec fn bytes(&self) -> Seq<u8> { self.b@ } }
impl FixedBytes for BlindingFactor { open spec fn bytes(&self) -> Seq<u8> { self.b@ } }
pub trait Reader {
    spec fn buf(&self) -> Seq<u8>;
    spec fn version(&self) -> u32;
    fn read_u16(&mut self) -> (r: Result<u16, ser::Error>) ensures final(self).version() == old(self).version(), r matches Ok(v) ==> old(self).buf() == enc_u16(v) + final(self).buf();
    fn read_u32(&mut self) -> (r: Result<u32, ser::Error>) ensures final(self).version() == old(self).version(), r matches Ok(v) ==> old(self).buf() == enc_u32(v) + final(self).buf();
    fn read_u64(&mut self) -> (r: Result<u64, ser::Error>) ensures final(self).version() == old(self).version(), r matches Ok(v) ==> old(self).buf() == enc_u64(v) + final(self).buf();
    fn read_i64(&mut self) -> (r: Result<i64, ser::Error>) ensures final(self).version() == old(self).version(), r matches Ok(v) ==> old(self).buf() == enc_i64(v) + final(self).buf();
}
pub trait Writer {
    spec fn out(&self) -> Seq<u8>;
    spec fn hash_mode(&self) -> bool;
    spec fn version(&self) -> u32;
    fn serialization_mode(&self) -> (r: ser::SerializationMode) ensures (r is Hash) == self.hash_mode();
    fn write_u16(&mut self, v: u16) -> (r: Result<(), ser::Error>) ensures final(self).hash_mode() == old(self).hash_mode(), final(self).version() == old(self).version(), r is Ok ==> final(self).out() == old(self).out() + enc_u16(v);
    fn write_u32(&mut self, v: u32) -> (r: Result<(), ser::Error>) ensures final(self).hash_mode() == old(self).hash_mode(), final(self).version() == old(self).version(), r is Ok ==> final(self).out() == old(self).out() + enc_u32(v);
    fn write_u64(&mut self, v: u64) -> (r: Result<(), ser::Error>) ensures final(self).hash_mode() == old(self).hash_mode(), final(self).version() == old(self).version(), r is Ok ==> final(self).out() == old(self).out() + enc_u64(v);
    fn write_i64(&mut self, v: i64) -> (r: Result<(), ser::Error>) ensures final(self).hash_mode() == old(self).hash_mode(), final(self).version() == old(self).version(), r is Ok ==> final(self).out() == old(self).out() + enc_i64(v);
    fn write_fixed_bytes<T: FixedBytes>(&mut self, v: &T) -> (r: Result<(), ser::Error>) ensures final(self).hash_mode() == old(self).hash_mode(), final(self).version() == old(self).version(), r is Ok ==> final(self).out() == old(self).out() + v.bytes();
}
impl Hash {
    #[verifier::external_body]
    pub fn read<R: Reader>(reader: &mut R) -> (r: Result<Hash, ser::Error>) ensures final(reader).version() == old(reader).version(), r matches Ok(h) ==> old(reader).buf() == h.b@ + final(reader).buf() && h.b@.len() == 32 { unimplemented!() }
}
impl BlindingFactor {
    #[verifier::external_body]
    pub fn read<R: Reader>(reader: &mut R) -> (r: Result<BlindingFactor, ser::Error>) ensures final(reader).version() == old(reader).version(), r matches Ok(h) ==> old(reader).buf() == h.b@ + final(reader).buf() && h.b@.len() == 32 { unimplemented!() }
}
#[verifier::external_body]
pub struct Proof { _p: u8 }
pub uninterp spec fn sp_enc_proof(p: Proof, hash_mode: bool) -> Seq<u8>;
impl Proof {
    #[verifier::external_body]
    pub fn read<R: Reader>(reader: &mut R) -> (r: Result<Proof, ser::Error>) ensures final(reader).version() == old(reader).version(), r matches Ok(p) ==> old(reader).buf() == sp_enc_proof(p, false) + final(reader).buf() { unimplemented!() }
    #[verifier::external_body]
    pub fn write<W: Writer>(&self, writer: &mut W) -> (r: Result<(), ser::Error>)
        ensures final(writer).hash_mode() == old(writer).hash_mode(), final(writer).version() == old(writer).version(), r is Ok ==> final(writer).out() == old(writer).out() + sp_enc_proof(*self, old(writer).hash_mode()) { unimplemented!() }
}
pub struct Utc {}
#[allow(non_upper_case_globals)]
pub const Utc: Utc = Utc {};
#[derive(Clone, Copy)]
pub struct NaiveDateTime { pub secs: i64 }
#[derive(Clone, Copy)]
pub struct DateTime { pub secs: i64 }
impl DateTime {
    pub fn timestamp(&self) -> (r: i64) ensures r == self.secs { self.secs }
    pub fn naive_utc(&self) -> (r: NaiveDateTime) ensures r.secs == self.secs { NaiveDateTime { secs: self.secs } }
    #[verifier::external_body]
    pub fn from_timestamp(secs: i64, nsecs: u32) -> (r: Option<DateTime>) ensures r matches Some(d) ==> d.secs == secs { unimplemented!() }
    pub fn from_naive_utc_and_offset(n: NaiveDateTime, o: Utc) -> (r: DateTime) ensures r.secs == n.secs { DateTime { secs: n.secs } }
}
pub uninterp spec fn sp_naive_max() -> i64;
pub uninterp spec fn sp_naive_min() -> i64;
#[verifier::external_body]
pub fn naive_max_ts() -> (r: i64) ensures r == sp_naive_max() { unimplemented!() }
#[verifier::external_body]
pub fn naive_min_ts() -> (r: i64) ensures r == sp_naive_min() { unimplemented!() }

fn max(a: u64, b: u64) -> (r: u64) ensures r == (if a >= b { a } else { b }) { if a >= b { a } else { b } }
fn min(a: u64, b: u64) -> (r: u64) ensures r == (if a <= b { a } else { b }) { if a <= b { a } else { b } }
#[derive(Clone, Copy)]
pub struct Difficulty { pub num: u64 }
#[derive(Clone, Copy)]
pub struct HeaderVersion(pub u16);
pub struct ProofOfWork { pub total_difficulty: Difficulty, pub secondary_scaling: u32, pub nonce: u64, pub proof: Proof }
pub struct BlockHeader {
    pub version: HeaderVersion, pub height: u64, pub timestamp: DateTime, pub prev_hash: Hash, pub prev_root: Hash, pub output_root: Hash,
    pub range_proof_root: Hash, pub kernel_root: Hash, pub total_kernel_offset: BlindingFactor, pub output_mmr_size: u64, pub kernel_mmr_size: u64, pub pow: ProofOfWork,
}
pub open spec fn sp_enc_pow_pre(p: ProofOfWork) -> Seq<u8> { enc_u64(p.total_difficulty.num) + enc_u32(p.secondary_scaling) }
pub open spec fn sp_enc_pow(p: ProofOfWork) -> Seq<u8> { sp_enc_pow_pre(p) + enc_u64(p.nonce) + sp_enc_proof(p.proof, false) }
pub open spec fn sp_enc_header_pre(h: BlockHeader) -> Seq<u8> {
    enc_u16(h.version.0) + enc_u64(h.height) + enc_i64(h.timestamp.secs) + h.prev_hash.b@ + h.prev_root.b@ + h.output_root.b@ + h.range_proof_root.b@ + h.kernel_root.b@
        + h.total_kernel_offset.b@ + enc_u64(h.output_mmr_size) + enc_u64(h.kernel_mmr_size)
}
pub open spec fn sp_enc_header(h: BlockHeader) -> Seq<u8> { sp_enc_header_pre(h) + sp_enc_pow(h.pow) }

impl Difficulty {
//@ extract core/src/pow/types.rs :: impl Difficulty::to_num
//@   ensures:
//@+    r == self.num,
//@ end
//@ extract core/src/pow/types.rs :: impl Readable for Difficulty::read
//@   ensures:
//@+    final(reader).version() == old(reader).version(),
//@+    r matches Ok(d) ==> old(reader).buf() == enc_u64(d.num) + final(reader).buf(),
//@ end
}
impl HeaderVersion {
//@ extract core/src/core/block.rs :: impl Writeable for HeaderVersion::write
//@   ensures:
//@+    final(writer).version() == old(writer).version(),
//@+    final(writer).hash_mode() == old(writer).hash_mode(),
//@+    r is Ok ==> final(writer).out() == old(writer).out() + enc_u16(self.0),
//@ end
//@ extract core/src/core/block.rs :: impl Readable for HeaderVersion::read
//@   ensures:
//@+    final(reader).version() == old(reader).version(),
//@+    r matches Ok(v) ==> old(reader).buf() == enc_u16(v.0) + final(reader).buf(),
//@ end
}
impl ProofOfWork {
//@ extract core/src/pow/types.rs :: impl ProofOfWork::write_pre_pow
//@   expand_ser_macros
//@   ensures:
//@+    final(writer).version() == old(writer).version(),
//@+    final(writer).hash_mode() == old(writer).hash_mode(),
//@+    r is Ok ==> final(writer).out() =~= old(writer).out() + sp_enc_pow_pre(*self),
//@ end
//@ extract core/src/pow/types.rs :: impl Writeable for ProofOfWork::write
//@   rewrite `writer.serialization_mode() != ser::SerializationMode::Hash` => `!writer.serialization_mode().is_hash_mode()`
//@   ensures:
//@+    final(writer).version() == old(writer).version(),
//@+    final(writer).hash_mode() == old(writer).hash_mode(),
//@+    r is Ok && !old(writer).hash_mode() ==> final(writer).out() =~= old(writer).out() + sp_enc_pow(*self),
//@+    r is Ok && old(writer).hash_mode() ==> final(writer).out() =~= old(writer).out() + sp_enc_proof(self.proof, true),
//@ end
//@ extract core/src/pow/types.rs :: impl Readable for ProofOfWork::read
//@   ensures:
//@+    final(reader).version() == old(reader).version(),
//@+    r matches Ok(p) ==> old(reader).buf() =~= sp_enc_pow(p) + final(reader).buf(),
//@ end
}
//@ extract core/src/core/block.rs :: fn read_block_header
//@   expand_ser_macros
//@   rewrite `chrono::NaiveDate::MAX\n\t\t\t.and_hms_opt(0, 0, 0)\n\t\t\t.unwrap()\n\t\t\t.and_utc()\n\t\t\t.timestamp()` => `naive_max_ts()`
//@   rewrite `chrono::NaiveDate::MIN\n\t\t\t\t.and_hms_opt(0, 0, 0)\n\t\t\t\t.unwrap()\n\t\t\t\t.and_utc()\n\t\t\t\t.timestamp()` => `naive_min_ts()`
//@   rewrite `DateTime::<Utc>::from_timestamp(` => `DateTime::from_timestamp(`
//@   ensures:
//@+    final(reader).version() == old(reader).version(),
//@+    r matches Ok(h) ==> old(reader).buf() =~= sp_enc_header(h) + final(reader).buf() && sp_naive_min() <= h.timestamp.secs <= sp_naive_max(),
//@ end
impl BlockHeader {
//@ extract core/src/core/block.rs :: impl BlockHeader::write_pre_pow
//@   expand_ser_macros
//@   ensures:
//@+    final(writer).version() == old(writer).version(),
//@+    final(writer).hash_mode() == old(writer).hash_mode(),
//@+    r is Ok ==> final(writer).out() =~= old(writer).out() + sp_enc_header_pre(*self),
//@ end
//@ extract core/src/core/block.rs :: impl Writeable for BlockHeader::write
//@   ensures:
//@+    final(writer).version() == old(writer).version(), final(writer).hash_mode() == old(writer).hash_mode(),
//@+    r is Ok && !old(writer).hash_mode() ==> final(writer).out() =~= old(writer).out() + sp_enc_header(*self),
//@+    r is Ok && old(writer).hash_mode() ==> final(writer).out() =~= old(writer).out() + sp_enc_proof(self.pow.proof, true),
//@ end
}
//@ canary read_block_header: r is Err
//@ canary write_pre_pow: r is Err
