//@ assume: the Extension is reduced to its output PMMR (size, leaf_idx_iter) and bitmap accumulator; BitmapAccumulator::apply is an abstract callee whose PRECONDITION is what its body relies on (its comment: "look at the min invalidated idx (assume sorted)"): the invalidated indices are sorted ascending, and the leaf-index iterator it is handed starts at the 1024-aligned chunk start of the smallest of them; pmmr::n_leaves is uninterpreted here (proved in C07)
//@ assume: T6 rewrites: `output_pos.iter().map(|x| pmmr::n_leaves(*x).saturating_sub(1)).collect()` => helper leaf_indices_of (pointwise, same expression per element); `output_idx.sort_unstable()` => helper with the sorted-permutation contract; `.first().cloned().unwrap_or(0)` / `.iter().min().cloned().unwrap_or(0)` => helpers first_or_zero / min_or_zero
//@ assume: decided here: Extension::apply_to_bitmap_accumulator calls BitmapAccumulator::apply with the affected leaf indices SORTED, with the leaf iterator starting at the chunk start of the smallest affected index, and with size = number of output leaves -- so every chunk from the earliest affected one on is rebuilt from the actual leaf set (incremental == from-scratch for the rebuilt range)
//@ assumed_items: 8
//@ fns: Extension::apply_to_bitmap_accumulator
global size_of usize == 8;
pub enum Error { Other }
pub uninterp spec fn sp_n_leaves(size: u64) -> u64;
pub mod pmmr { use super::*;
    #[verifier::external_body]
    pub fn n_leaves(size: u64) -> (r: u64) ensures r == sp_n_leaves(size) { unimplemented!() } }
pub open spec fn idx_of(pos: u64) -> u64 { if sp_n_leaves(pos) >= 1 { (sp_n_leaves(pos) - 1) as u64 } else { 0 } }
pub open spec fn sorted(s: Seq<u64>) -> bool { forall|i: int, j: int| 0 <= i <= j < s.len() ==> s[i] <= s[j] }
#[verifier::external_body]
fn leaf_indices_of(output_pos: &[u64]) -> (r: Vec<u64>) ensures r@ == output_pos@.map_values(|p: u64| idx_of(p)) { unimplemented!() }
#[verifier::external_body]
fn sort_unstable(v: &mut Vec<u64>) ensures sorted(final(v)@), final(v)@.to_multiset() == old(v)@.to_multiset(), final(v)@.len() == old(v)@.len() { unimplemented!() }
#[verifier::external_body]
fn first_or_zero(v: &Vec<u64>) -> (r: u64) ensures r == (if v@.len() > 0 { v@[0] } else { 0 }) { unimplemented!() }
#[verifier::external_body]
fn min_or_zero(v: &Vec<u64>) -> (r: u64)
    ensures v@.len() == 0 ==> r == 0, v@.len() > 0 ==> v@.contains(r) && forall|i: int| 0 <= i < v@.len() ==> r <= v@[i] { unimplemented!() }
#[verifier::external_body]
pub struct LeafIdxIter { _p: u8 }
impl LeafIdxIter { pub uninterp spec fn start(&self) -> u64; }
pub struct OutPmmr { pub size: u64 }
impl OutPmmr {
    #[verifier::external_body]
    pub fn leaf_idx_iter(&self, from_idx: u64) -> (r: LeafIdxIter) ensures r.start() == from_idx { unimplemented!() }
}
pub struct BitmapAccumulator { pub applied: Ghost<Seq<(Seq<u64>, u64, u64)>> }
impl BitmapAccumulator {
//@ extract chain/src/txhashset/bitmap_accumulator.rs :: impl BitmapAccumulator::chunk_start_idx
//@   rewrite `idx & !(Self::NBITS - 1)` => `idx & !(1024u64 - 1)`
//@   ensures:
//@+    r == idx - idx % 1024,
//@   at_start:
//@+    proof { assert(idx & !1023u64 == sub(idx, idx % 1024)) by(bit_vector); assert(!1023u64 == !((1024u64 - 1) as u64)) by(bit_vector); }
//@ end
    #[verifier::external_body]
    pub fn apply(&mut self, invalidated_idx: Vec<u64>, idx: LeafIdxIter, size: u64) -> (r: Result<(), Error>)
        requires sorted(invalidated_idx@),
                 invalidated_idx@.len() > 0 ==> idx.start() == invalidated_idx@[0] - invalidated_idx@[0] % 1024,
        ensures final(self).applied@ == old(self).applied@.push((invalidated_idx@, idx.start(), size)) { unimplemented!() }
}
pub struct Extension { pub output_pmmr: OutPmmr, pub bitmap_accumulator: BitmapAccumulator }
impl Extension {
//@ extract chain/src/txhashset/txhashset.rs :: impl Extension::apply_to_bitmap_accumulator
//@   rewrite `let mut output_idx: Vec<_> = output_pos\n\t\t\t.iter()\n\t\t\t.map(|x| pmmr::n_leaves(*x).saturating_sub(1))\n\t\t\t.collect();` => `let mut output_idx: Vec<u64> = leaf_indices_of(output_pos);`
//@   rewrite `let output_idx: Vec<_> = output_pos\n\t\t\t.iter()\n\t\t\t.map(|x| pmmr::n_leaves(*x).saturating_sub(1))\n\t\t\t.collect();` => `let output_idx: Vec<u64> = leaf_indices_of(output_pos);` x?
//@   rewrite `output_idx.sort_unstable();` => `sort_unstable(&mut output_idx);`
//@   rewrite `output_idx.first().cloned().unwrap_or(0)` => `first_or_zero(&output_idx)`
//@   rewrite `output_idx.iter().min().cloned().unwrap_or(0)` => `min_or_zero(&output_idx)` x?
//@   ensures:
//@+    r.is_ok() ==> final(self).bitmap_accumulator.applied@.len() == old(self).bitmap_accumulator.applied@.len() + 1
//@+        && final(self).bitmap_accumulator.applied@.last().2 == sp_n_leaves(old(self).output_pmmr.size)
//@+        && final(self).bitmap_accumulator.applied@.last().0.to_multiset() == output_pos@.map_values(|p: u64| idx_of(p)).to_multiset(),
//@ end
}
//@ canary apply_to_bitmap_accumulator: r.is_err()
