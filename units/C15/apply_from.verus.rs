//@ assume: the index stream `idx.into_iter().filter(|&x| x < size).peekable()` is an abstract peekable cursor over a ghost sequence S (T7: the filter closure `|&x| x < size` is lifted and verified (keeps exactly the indices below size), T6: the adaptor chain around it => `idx.filtered_cursor(size)`; peek / next have their std meaning); S is ASCENDING (precondition: the callers pass a bitmap's iterator / a sorted vector -- decided for Extension::apply_to_bitmap_accumulator in C15/apply_to_accumulator); BitmapChunk is its set of bits (set(i, true) inserts i < 1024, any() == non-empty); append_chunk appends one leaf (C15/accumulator_ops); `.expect("next after peek")` => `.unwrap()`; Instant::now() opaque; log macros removed (T3). sizes below 2^62 so that (chunk_idx + 1) * 1024 cannot overflow.
//@ assume: decided here (C15, the from-scratch / rebuild core of the bitmap commitment, for ANY number of chunks and ANY index stream): BitmapAccumulator::apply_from(idx, from_idx, size) appends, after the leaves already there, exactly the chunks from_chunk, from_chunk + 1, ... of the bitmap S: the j-th appended chunk holds exactly the bits { x mod 1024 : x in S, x div 1024 = from_chunk + j } (empty interior chunks included), every x in S at or above the start chunk is covered, there is NO trailing empty chunk, and the loop terminates (no iteration without progress: it consumes an index or closes a chunk below the pending index). Together these determine the appended sequence uniquely: it is a function of (S, from_chunk) alone -- which is what makes init-from-scratch and apply-after-rewind agree chunk by chunk.
//@ assumed_items: 8
//@ fns: BitmapAccumulator::apply_from, BitmapAccumulator::apply_from (filter closure)
pub enum Error { Other, Store }
pub struct BitmapChunk { pub bits: Ghost<Set<int>> }
impl BitmapChunk {
    pub fn new() -> (r: BitmapChunk) ensures r.bits@ == Set::<int>::empty() { BitmapChunk { bits: Ghost(Set::empty()) } }
    #[verifier::external_body]
    pub fn set(&mut self, idx: u64, value: bool) requires idx < 1024, value ensures final(self).bits@ == old(self).bits@.insert(idx as int) { unimplemented!() }
    #[verifier::external_body]
    pub fn any(&self) -> (r: bool) ensures r == nonempty(*self) { unimplemented!() }
}
pub open spec fn nonempty(c: BitmapChunk) -> bool { exists|b: int| #[trigger] c.bits@.contains(b) }
pub struct FilterLt { pub size: u64 }
pub struct Instant;
impl Instant { #[verifier::external_body] pub fn now() -> (r: Instant) { unimplemented!() } }
pub struct Cur { pub items: Ghost<Seq<u64>>, pub pos: Ghost<nat> }
impl Cur {
    #[verifier::external_body]
    pub fn peek(&mut self) -> (r: Option<&u64>)
        ensures final(self).items@ == old(self).items@, final(self).pos@ == old(self).pos@,
            old(self).pos@ < old(self).items@.len() ==> r == Some(&old(self).items@[old(self).pos@ as int]),
            old(self).pos@ >= old(self).items@.len() ==> r is None { unimplemented!() }
    #[verifier::external_body]
    pub fn next(&mut self) -> (r: Option<u64>)
        ensures final(self).items@ == old(self).items@,
            old(self).pos@ < old(self).items@.len() ==> r == Some(old(self).items@[old(self).pos@ as int]) && final(self).pos@ == old(self).pos@ + 1,
            old(self).pos@ >= old(self).items@.len() ==> r is None && final(self).pos@ == old(self).pos@ { unimplemented!() }
}
#[verifier::external_body]
pub struct IdxList { _p: u8 }
pub uninterp spec fn sp_filtered(l: IdxList, size: u64) -> Seq<u64>;
impl IdxList {
    #[verifier::external_body]
    pub fn filtered_cursor(self, size: u64) -> (r: Cur) ensures r.items@ == sp_filtered(self, size), r.pos@ == 0,
        forall|i: int| 0 <= i < r.items@.len() ==> #[trigger] r.items@[i] < size { unimplemented!() }
}
pub open spec fn ascending(s: Seq<u64>) -> bool { forall|i: int, j: int| 0 <= i <= j < s.len() ==> s[i] <= s[j] }
/// bits of chunk k of the bitmap S, looking only at the first n elements
pub open spec fn bit_upto(s: Seq<u64>, k: int, n: int, b: int) -> bool { exists|i: int| 0 <= i < n && i < s.len() && #[trigger] (s[i] / 1024) == k && s[i] % 1024 == b }
pub open spec fn bit_of(s: Seq<u64>, k: int, b: int) -> bool { bit_upto(s, k, s.len() as int, b) }
/// the chunk's bits are exactly the bits of chunk k of the bitmap (first n elements)
pub open spec fn chunk_is(c: BitmapChunk, s: Seq<u64>, k: int, n: int) -> bool { forall|b: int| c.bits@.contains(b) <==> #[trigger] bit_upto(s, k, n, b) }
pub struct VecBackend { pub leaves: Ghost<Seq<BitmapChunk>> }
pub struct BitmapAccumulator { pub backend: VecBackend }
impl BitmapAccumulator {
    pub const NBITS: u64 = 1024;
    pub fn chunk_idx(idx: u64) -> (r: u64) ensures r == idx / 1024 { idx / 1024 }
    #[verifier::external_body]
    pub fn append_chunk(&mut self, chunk: BitmapChunk) -> (r: Result<u64, Error>)
        ensures r.is_ok() ==> final(self).backend.leaves@ == old(self).backend.leaves@.push(chunk), r.is_err() ==> final(self).backend.leaves@ == old(self).backend.leaves@ { unimplemented!() }
//@ extract chain/src/txhashset/bitmap_accumulator.rs :: impl BitmapAccumulator::apply_from
//@   eclosure 1 lifted_as `fn filter_below_size(xr: &u64, size: u64) -> bool`
//@   at_start:
//@+    let x = *xr; // the closure's pattern parameter `|&x|`
//@   ensures:
//@+    r == (*xr < size),
//@ end
//@ extract chain/src/txhashset/bitmap_accumulator.rs :: impl BitmapAccumulator::apply_from
//@   strip_logs
//@   sigrewrite `fn apply_from<T>(&mut self, idx: T, from_idx: u64, size: u64) -> Result<(), Error>` => `fn apply_from(&mut self, idx: IdxList, from_idx: u64, size: u64) -> Result<(), Error>`
//@   sigrewrite `\tT: IntoIterator<Item = u64>,\n` => ``
//@   eclosure 1 replaced_by `FilterLt { size }`
//@   rewrite `idx.into_iter().filter(FilterLt { size }).peekable()` => `idx.filtered_cursor(size)` x?
//@   rewrite `.expect("next after peek")` => `.unwrap()` x?
//@   after `idx_iter.next();`:
//@+    proof {
//@+        let s = idx_iter.items@; let p = idx_iter.pos@ as int; let c = chunk_idx as int;
//@+        assert(s[p - 1] / 1024 < c);
//@+        assert forall|b: int| chunk.bits@.contains(b) <==> #[trigger] bit_upto(s, c, p, b) by {
//@+            if bit_upto(s, c, p, b) { let i = choose|i: int| 0 <= i < p && i < s.len() && #[trigger] (s[i] / 1024) == c && s[i] % 1024 == b; assert(i < p - 1); assert(bit_upto(s, c, p - 1, b)); }
//@+            if bit_upto(s, c, p - 1, b) { let i = choose|i: int| 0 <= i < p - 1 && i < s.len() && #[trigger] (s[i] / 1024) == c && s[i] % 1024 == b; assert(bit_upto(s, c, p, b)); }
//@+        }
//@+    }
//@   after `chunk.set(idx % Self::NBITS, true);`:
//@+    proof {
//@+        let s = idx_iter.items@; let p = idx_iter.pos@ as int; let c = chunk_idx as int;
//@+        assert(s[p - 1] == idx && s[p - 1] / 1024 == c);
//@+        assert(chunk.bits@.contains((idx % 1024) as int));
//@+        assert forall|b: int| chunk.bits@.contains(b) <==> #[trigger] bit_upto(s, c, p, b) by {
//@+            if bit_upto(s, c, p, b) { let i = choose|i: int| 0 <= i < p && i < s.len() && #[trigger] (s[i] / 1024) == c && s[i] % 1024 == b; if i < p - 1 { assert(bit_upto(s, c, p - 1, b)); } }
//@+            if bit_upto(s, c, p - 1, b) { let i = choose|i: int| 0 <= i < p - 1 && i < s.len() && #[trigger] (s[i] / 1024) == c && s[i] % 1024 == b; assert(bit_upto(s, c, p, b)); }
//@+            if b == (idx % 1024) as int { assert((s[p - 1] / 1024) == c); assert(bit_upto(s, c, p, b)); }
//@+        }
//@+        if p < s.len() { assert(s[p - 1] <= s[p]); }
//@+    }
//@   before `#1:self.append_chunk(chunk)?;`:
//@+    proof {
//@+        // chunk chunk_idx is complete: every element from the cursor on lies in a later chunk
//@+        let s = idx_iter.items@; let p = idx_iter.pos@ as int; let c = chunk_idx as int;
//@+        assert forall|b: int| chunk.bits@.contains(b) <==> #[trigger] bit_upto(s, c, s.len() as int, b) by {
//@+            if bit_upto(s, c, s.len() as int, b) { let i = choose|i: int| 0 <= i < s.len() && i < s.len() && #[trigger] (s[i] / 1024) == c && s[i] % 1024 == b; if i >= p { assert(s[p] <= s[i]); } assert(bit_upto(s, c, p, b)); }
//@+            if bit_upto(s, c, p, b) { let i = choose|i: int| 0 <= i < p && i < s.len() && #[trigger] (s[i] / 1024) == c && s[i] % 1024 == b; assert(bit_upto(s, c, s.len() as int, b)); }
//@+        }
//@+    }
//@+    let ghost before = self.backend.leaves@;
//@   after `#2:chunk = BitmapChunk::new();`:
//@+    proof {
//@+        let s = idx_iter.items@; let p = idx_iter.pos@ as int; let c = chunk_idx as int; let n0 = old(self).backend.leaves@.len() as int;
//@+        assert(self.backend.leaves@.take(n0) =~= before.take(n0));
//@+        assert forall|j: int| 0 <= j < chunk_idx - from_chunk_idx implies chunk_is(#[trigger] self.backend.leaves@[n0 + j], s, from_chunk_idx + j, s.len() as int) by {
//@+            if j < chunk_idx - from_chunk_idx - 1 { assert(self.backend.leaves@[n0 + j] == before[n0 + j]); }
//@+        }
//@+        assert forall|b: int| chunk.bits@.contains(b) <==> #[trigger] bit_upto(s, c, p, b) by {
//@+            if bit_upto(s, c, p, b) { let i = choose|i: int| 0 <= i < p && i < s.len() && #[trigger] (s[i] / 1024) == c && s[i] % 1024 == b; assert((s[i] / 1024) <= c - 1); }
//@+        }
//@+    }
//@   before `\t\tOk(())\n\t}`:
//@+    proof {
//@+        let s = idx_iter.items@; let n0 = old(self).backend.leaves@.len() as int; let fc = from_chunk_idx as int; let c = chunk_idx as int; let now = self.backend.leaves@;
//@+        assert forall|j: int| 0 <= j < now.len() - n0 implies chunk_is(#[trigger] now[n0 + j], s, fc + j, s.len() as int) by {
//@+        }
//@+        assert forall|i: int| 0 <= i < s.len() && s[i] / 1024 >= fc implies #[trigger] (s[i] / 1024) < fc + (now.len() - n0) by {
//@+            assert((s[i] / 1024) <= c);
//@+            if now.len() == n0 + (c - fc) && (s[i] / 1024) == c { assert(bit_upto(s, c, s.len() as int, (s[i] % 1024) as int)); assert(chunk.bits@.contains((s[i] % 1024) as int)); }
//@+        }
//@+    }
//@   requires:
//@+    size < 0x4000_0000_0000_0000, from_idx < 0x4000_0000_0000_0000, ascending(sp_filtered(idx, size)),
//@   ensures:
//@+    r.is_ok() ==> ({
//@+        let s = sp_filtered(idx, size); let fc = (from_idx / 1024) as int; let n0 = old(self).backend.leaves@.len() as int; let now = final(self).backend.leaves@;
//@+        &&& now.len() >= n0 && now.take(n0) =~= old(self).backend.leaves@
//@+        // chunk by chunk: exactly the bits of the bitmap
//@+        &&& forall|j: int| 0 <= j < now.len() - n0 ==> chunk_is(#[trigger] now[n0 + j], s, fc + j, s.len() as int)
//@+        // everything at or above the start chunk is covered
//@+        &&& forall|i: int| 0 <= i < s.len() && s[i] / 1024 >= fc ==> #[trigger] (s[i] / 1024) < fc + (now.len() - n0)
//@+        // no trailing empty chunk
//@+        &&& (now.len() > n0 ==> nonempty(now[now.len() - 1]))
//@+    }),
//@   loop 1:
//@+    invariant
//@+        idx_iter.items@ == sp_filtered(idx, size), idx_iter.pos@ <= idx_iter.items@.len(), ascending(idx_iter.items@),
//@+        forall|i: int| 0 <= i < idx_iter.items@.len() ==> #[trigger] idx_iter.items@[i] < size, size < 0x4000_0000_0000_0000,
//@+        from_chunk_idx == from_idx / 1024, from_chunk_idx <= chunk_idx, chunk_idx <= 0x10_0000_0000_0000,
//@+        self.backend.leaves@.len() == old(self).backend.leaves@.len() + (chunk_idx - from_chunk_idx),
//@+        self.backend.leaves@.take(old(self).backend.leaves@.len() as int) =~= old(self).backend.leaves@,
//@+        forall|j: int| 0 <= j < chunk_idx - from_chunk_idx ==> chunk_is(#[trigger] self.backend.leaves@[old(self).backend.leaves@.len() + j], idx_iter.items@, from_chunk_idx + j, idx_iter.items@.len() as int),
//@+        chunk_is(chunk, idx_iter.items@, chunk_idx as int, idx_iter.pos@ as int),
//@+        forall|i: int| 0 <= i < idx_iter.pos@ ==> #[trigger] (idx_iter.items@[i] / 1024) <= chunk_idx,
//@+        chunk_idx > from_chunk_idx && idx_iter.pos@ < idx_iter.items@.len() ==> idx_iter.items@[idx_iter.pos@ as int] >= chunk_idx * 1024,
//@+        chunk_idx > from_chunk_idx ==> idx_iter.pos@ < idx_iter.items@.len() || nonempty(chunk),
//@+    ensures
//@+        idx_iter.pos@ == idx_iter.items@.len(),
//@+    decreases idx_iter.items@.len() - idx_iter.pos@, (if idx_iter.pos@ < idx_iter.items@.len() { idx_iter.items@[idx_iter.pos@ as int] / 1024 + 1 - chunk_idx } else { 0 }),
//@ end
}
//@ canary apply_from: r.is_err()
