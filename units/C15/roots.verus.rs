//@ assume: Hash is an abstract value with decidable equality (PartialEq specified as equality of an underlying ghost id: blake2b digests compared bytewise); `(a, b).hash_with_index(i)` is an uninterpreted function sp_h2(a, b, i) (that it is collision-resistant is a cryptographic assumption, not used here); ReadonlyPMMR::root / PMMR::root and BitmapAccumulator::root are uninterpreted readings of the MMR / accumulator state (root is under contract in C07/pmmr_root). HeaderVersion comparison is numeric (PartialOrd implemented and specified on the wrapped u16, as the real derive does).
//@ assume: T5: `impl<'a> Extension<'a>` fields (output_pmmr, rproof_pmmr, kernel_pmmr, bitmap_accumulator) => abstract PMMR values with a root; T6: `.map_err(|_| Error::InvalidRoot)?` => `?` against an abstract root() that already returns the final error type; the tuple comparison in validate_sizes keeps its text; log macros removed (T3).
//@ assume: decided here (C15, 'A block whose output root commits to any other bitmap is rejected'): for header version >= 3 the output root a header must carry is H(output MMR root, BITMAP ACCUMULATOR root, header.output_mmr_size) -- the accumulator's root is one of the two hashed values -- and the plain output MMR root before; TxHashSetRoots::validate returns Ok IF AND ONLY IF the header's output root equals that value AND its range-proof and kernel roots equal ours; Extension::roots / TxHashSet::roots take the bitmap root from THIS state's accumulator; Extension::validate_roots refuses any non-genesis header for which validate fails; validate_sizes compares the output, range-proof (= output) and kernel sizes.
//@ assumed_items: 4
//@ fns: OutputRoots::root, OutputRoots::output_root, OutputRoots::merged_root, TxHashSetRoots::output_root, TxHashSetRoots::validate, Extension::roots, Extension::validate_roots, Extension::validate_sizes, TxHashSet::roots
//@ import: use vstd::std_specs::cmp::{PartialEqSpecImpl, PartialOrdSpecImpl};
//@ import: use core::cmp::Ordering;
#[derive(Clone, Copy)]
pub struct Hash { pub v: u64 }
impl PartialEqSpecImpl for Hash { open spec fn obeys_eq_spec() -> bool { true } open spec fn eq_spec(&self, other: &Hash) -> bool { self.v == other.v } }
impl PartialEq for Hash { fn eq(&self, other: &Hash) -> (r: bool) { self.v == other.v } }
#[derive(Clone, Copy)]
pub struct HeaderVersion(pub u16);
impl PartialEqSpecImpl for HeaderVersion { open spec fn obeys_eq_spec() -> bool { true } open spec fn eq_spec(&self, other: &HeaderVersion) -> bool { self.0 == other.0 } }
impl PartialEq for HeaderVersion { fn eq(&self, other: &HeaderVersion) -> (r: bool) { self.0 == other.0 } }
impl PartialOrdSpecImpl for HeaderVersion {
    open spec fn obeys_partial_cmp_spec() -> bool { true }
    open spec fn partial_cmp_spec(&self, other: &HeaderVersion) -> Option<Ordering> { if self.0 < other.0 { Some(Ordering::Less) } else if self.0 == other.0 { Some(Ordering::Equal) } else { Some(Ordering::Greater) } }
}
impl PartialOrd for HeaderVersion { fn partial_cmp(&self, other: &HeaderVersion) -> (r: Option<Ordering>) { if self.0 < other.0 { Some(Ordering::Less) } else if self.0 == other.0 { Some(Ordering::Equal) } else { Some(Ordering::Greater) } } }
pub struct BlockHeader { pub version: HeaderVersion, pub height: u64, pub output_root: Hash, pub range_proof_root: Hash, pub kernel_root: Hash, pub output_mmr_size: u64, pub kernel_mmr_size: u64 }
pub enum Error { InvalidRoot, InvalidMMRSize, Other }
pub uninterp spec fn sp_h2(a: Hash, b: Hash, idx: u64) -> Hash;
pub trait HashWithIndex { fn hash_with_index(&self, idx: u64) -> (r: Hash); }
impl HashWithIndex for (Hash, Hash) {
    #[verifier::external_body]
    fn hash_with_index(&self, idx: u64) -> (r: Hash) ensures r == sp_h2(self.0, self.1, idx) { unimplemented!() }
}
pub struct OutputRoots { pub pmmr_root: Hash, pub bitmap_root: Hash }
pub open spec fn sp_expected_output_root(o: OutputRoots, h: BlockHeader) -> Hash {
    if h.version.0 < 3 { o.pmmr_root } else { sp_h2(o.pmmr_root, o.bitmap_root, h.output_mmr_size) }
}
impl OutputRoots {
//@ extract chain/src/types.rs :: impl OutputRoots::output_root
//@   ensures:
//@+    r == self.pmmr_root,
//@ end
//@ extract chain/src/types.rs :: impl OutputRoots::merged_root
//@   ensures:
//@+    r == sp_h2(self.pmmr_root, self.bitmap_root, header.output_mmr_size),
//@ end
//@ extract chain/src/types.rs :: impl OutputRoots::root
//@   ensures:
//@+    r == sp_expected_output_root(*self, *header),
//@ end
}
pub struct TxHashSetRoots { pub output_roots: OutputRoots, pub rproof_root: Hash, pub kernel_root: Hash }
pub open spec fn sp_roots_match(t: TxHashSetRoots, h: BlockHeader) -> bool {
    h.output_root.v == sp_expected_output_root(t.output_roots, h).v && h.range_proof_root.v == t.rproof_root.v && h.kernel_root.v == t.kernel_root.v
}
impl TxHashSetRoots {
//@ extract chain/src/types.rs :: impl TxHashSetRoots::output_root
//@   ensures:
//@+    r == sp_expected_output_root(self.output_roots, *header),
//@ end
//@ extract chain/src/types.rs :: impl TxHashSetRoots::validate
//@   strip_logs
//@   ensures:
//@+    r.is_ok() <==> sp_roots_match(*self, *header),
//@+    r matches Err(e) ==> e is InvalidRoot,
//@ end
}
/// an MMR (or the accumulator) seen through its root
pub struct Mmr { pub root_v: Ghost<Option<Hash>>, pub size: u64 }
impl Mmr {
    #[verifier::external_body]
    pub fn root(&self) -> (r: Result<Hash, Error>) ensures r matches Ok(h) ==> self.root_v@ == Some(h), r matches Err(e) ==> e is InvalidRoot { unimplemented!() }
}
pub struct BitmapAccumulator { pub root_v: Ghost<Hash> }
impl BitmapAccumulator {
    #[verifier::external_body]
    pub fn root(&self) -> (r: Hash) ensures r == self.root_v@ { unimplemented!() }
}
pub struct Extension { pub output_pmmr: Mmr, pub rproof_pmmr: Mmr, pub kernel_pmmr: Mmr, pub bitmap_accumulator: BitmapAccumulator }
pub open spec fn sp_ext_roots(e: Extension, t: TxHashSetRoots) -> bool {
    e.output_pmmr.root_v@ == Some(t.output_roots.pmmr_root) && t.output_roots.bitmap_root == e.bitmap_accumulator.root_v@
    && e.rproof_pmmr.root_v@ == Some(t.rproof_root) && e.kernel_pmmr.root_v@ == Some(t.kernel_root)
}
impl Extension {
    pub fn sizes(&self) -> (r: (u64, u64, u64)) ensures r == (self.output_pmmr.size, self.rproof_pmmr.size, self.kernel_pmmr.size) { (self.output_pmmr.size, self.rproof_pmmr.size, self.kernel_pmmr.size) }
//@ extract chain/src/txhashset/txhashset.rs :: impl Extension::roots
//@   rewrite `.map_err(|_| Error::InvalidRoot)?` => `?` x?
//@   ensures:
//@+    r matches Ok(t) ==> sp_ext_roots(*self, t),
//@ end
//@ extract chain/src/txhashset/txhashset.rs :: impl Extension::validate_roots
//@   ensures:
//@+    // a non-genesis header is accepted only if its three roots are THIS extension's roots (bitmap accumulator included)
//@+    r.is_ok() && header.height != 0 ==> exists|t: TxHashSetRoots| #[trigger] sp_ext_roots(*self, t) && sp_roots_match(t, *header),
//@ end
//@ extract chain/src/txhashset/txhashset.rs :: impl Extension::validate_sizes
//@   rewrite `\t\tif (\n\t\t\theader.output_mmr_size,\n\t\t\theader.output_mmr_size,\n\t\t\theader.kernel_mmr_size,\n\t\t) != self.sizes()` => `\t\tif !sizes_eq((\n\t\t\theader.output_mmr_size,\n\t\t\theader.output_mmr_size,\n\t\t\theader.kernel_mmr_size,\n\t\t), self.sizes())` x?
//@   ensures:
//@+    r.is_ok() && header.height != 0 ==> header.output_mmr_size == self.output_pmmr.size && header.output_mmr_size == self.rproof_pmmr.size && header.kernel_mmr_size == self.kernel_pmmr.size,
//@ end
}
pub struct Backend { pub _p: u8 }
pub uninterp spec fn sp_root_of(b: Backend, size: u64) -> Option<Hash>;
pub struct ReadonlyPMMR;
impl ReadonlyPMMR {
    #[verifier::external_body]
    pub fn at(b: &Backend, size: u64) -> (r: Mmr) ensures r.root_v@ == sp_root_of(*b, size), r.size == size { unimplemented!() }
}
pub struct PMMRHandle { pub backend: Backend, pub size: u64 }
pub struct TxHashSet { pub output_pmmr_h: PMMRHandle, pub rproof_pmmr_h: PMMRHandle, pub kernel_pmmr_h: PMMRHandle, pub bitmap_accumulator: BitmapAccumulator }
impl TxHashSet {
//@ extract chain/src/txhashset/txhashset.rs :: impl TxHashSet::roots
//@   rewrite `.map_err(|_| Error::InvalidRoot)?` => `?` x?
//@   ensures:
//@+    // each root is read from ITS OWN back end at ITS OWN size, the bitmap root from this state's accumulator
//@+    r matches Ok(t) ==> sp_root_of(self.output_pmmr_h.backend, self.output_pmmr_h.size) == Some(t.output_roots.pmmr_root)
//@+        && t.output_roots.bitmap_root == self.bitmap_accumulator.root_v@
//@+        && sp_root_of(self.rproof_pmmr_h.backend, self.rproof_pmmr_h.size) == Some(t.rproof_root)
//@+        && sp_root_of(self.kernel_pmmr_h.backend, self.kernel_pmmr_h.size) == Some(t.kernel_root),
//@ end
}
pub fn sizes_eq(a: (u64, u64, u64), b: (u64, u64, u64)) -> (r: bool) ensures r == (a == b) { a.0 == b.0 && a.1 == b.1 && a.2 == b.2 }
//@ canary validate: r.is_err()
