//@ crate: grin_chain
//@ target: chain/src/txhashset/bitmap_accumulator.rs
//@ assume: only the chunk index arithmetic is decided; path independence of the accumulator across histories and restart are outside this family (DESIGN 6 C15)
//@ harness c15_chunk_arith kind=complete tier=quick fns=BitmapAccumulator::chunk_idx,BitmapAccumulator::chunk_start_idx bound=-
//@ harness c15_chunk_set_guard kind=complete tier=quick fns=BitmapChunk::set,BitmapChunk::new,BitmapChunk::any bound=-

/// chunk_start_idx(i) == 1024 * chunk_idx(i) <= i < chunk_start_idx(i) + 1024, for every u64.
#[kani::proof]
fn c15_chunk_arith() {
	let i: u64 = kani::any();
	let c = BitmapAccumulator::chunk_idx(i);
	let s = BitmapAccumulator::chunk_start_idx(i);
	assert!(s == c * 1024);
	assert!(s <= i && i - s < 1024);
	assert!(BitmapAccumulator::chunk_start_idx(s) == s);
	let j: u64 = kani::any();
	if i <= j {
		assert!(c <= BitmapAccumulator::chunk_idx(j));
	}
}

/// Within a chunk, the index apply_from uses (idx % 1024) is always inside the chunk, so
/// BitmapChunk::set's range assertion cannot fire on that call path.
#[kani::proof]
#[kani::unwind(34)]
fn c15_chunk_set_guard() {
	let idx: u64 = kani::any();
	let mut chunk = BitmapChunk::new();
	assert!(!chunk.any());
	chunk.set(idx % BitmapAccumulator::NBITS, true);
	assert!(chunk.any());
}
